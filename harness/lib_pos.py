"""C13 (line/column clause) - CharToLineOffset against the Lean model (`lines` request) and a
brute-force count.

Request `lines <encoded string> <offset>`, answer `<line> <col>`.
"""
import itertools
import os
import sys

sys.path.insert(0, os.path.dirname(os.path.abspath(__file__)))
import common                                   # noqa: E402
from common import enc                          # noqa: E402


def impl_run(s, p):
    """Answer of the REAL TexSoup.utils.CharToLineOffset."""
    common.impl()
    from TexSoup.utils import CharToLineOffset
    line, col = CharToLineOffset(s)(p)
    return '%d %d' % (line, col)


def ref_run(s, p):
    """Brute force: walk to offset `p`, counting lines and columns."""
    line = col = 0
    for c in s[:p]:
        if c == '\n':
            line, col = line + 1, 0
        else:
            col += 1
    return '%d %d' % (line, col)


def request(s, p):
    return 'lines %s %d' % (enc(s), p)


def all_cases(n, alphabet='a\n', with_end=False):
    """Every string over `alphabet` up to length `n`, at every offset 0..len-1
    (0..len with `with_end`)."""
    for k in range(n + 1):
        for t in itertools.product(alphabet, repeat=k):
            s = ''.join(t)
            for p in range(k + (1 if with_end else 0)):
                yield s, p


def model_run_many(cases, driver_path=None):
    old = common.DRIVER
    if driver_path:
        common.DRIVER = driver_path
    try:
        return common.model_batch_parallel([request(s, p) for s, p in cases])
    finally:
        common.DRIVER = old


def compare(cases, driver_path=None, limit=20):
    cases = list(cases)
    model = model_run_many(cases, driver_path)
    bad = []
    for (s, p), m in zip(cases, model):
        a, r = impl_run(s, p), ref_run(s, p)
        if a != m:
            bad.append({'kind': 'impl-vs-model', 's': s, 'p': p, 'impl': a, 'model': m})
        if p <= len(s) and a != r:
            bad.append({'kind': 'impl-vs-count', 's': s, 'p': p, 'impl': a, 'count': r})
        if len(bad) >= limit:
            break
    return len(cases), bad


def selftest(driver_path=None, n=10, nrandom=2000, verbose=True):
    import time
    t0 = time.time()
    n1, bad1 = compare(all_cases(n, with_end=True), driver_path)
    # random longer strings; offsets beyond the end too (model vs implementation only there)
    rng = common.rng('lib_pos')
    cases = []
    for _ in range(nrandom):
        k = rng.randint(0, 60)
        s = ''.join(rng.choice('ab \n\n\r ') for _ in range(k))
        cases.append((s, rng.randint(0, k + 3)))
    n2, bad2 = compare(cases, driver_path)
    res = {'max_len': n, 'exhaustive_cases': n1, 'exhaustive_disagreements': bad1,
           'random_cases': n2, 'random_disagreements': bad2, 'seconds': round(time.time() - t0, 1)}
    if verbose:
        print('lib_pos selftest: all strings over {a,LF} to length %d at every offset 0..len: %d cases, '
              '%d disagreements; random: %d cases, %d disagreements (%.1fs)' %
              (n, n1, len(bad1), n2, len(bad2), res['seconds']))
        for b in (bad1 + bad2)[:10]:
            print('  ', b)
    return res


if __name__ == '__main__':
    r = selftest(sys.argv[1] if len(sys.argv) > 1 else None,
                 n=int(sys.argv[2]) if len(sys.argv) > 2 else 10)
    sys.exit(1 if r['exhaustive_disagreements'] or r['random_disagreements'] else 0)
