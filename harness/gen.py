"""Input generators shared by the checks (all randomness from the rng passed in)."""
import itertools

# one representative per character category (category.py) + extras
CAT_ALPHA = ['\\', '{', '}', '$', '&', '\n', '\r', '#', '^', '_', '\x00', ' ', '\t', 'a', '1', '~', '%',
             '\x7f', '[', ']', '(', ')', 'é', '*', '|', '.']

# token-kind alphabet: one representative per token kind and per reader-relevant construct
TOKEN_ALPHA = ['\\', '{', '}', '$', '$$', '\n', ' ', 'a', '%', '%c\n', '[', ']', '\\begin{a}', '\\end{a}', '\\end',
               '\\item', '\\textbf', '\\x', '\\[', '\\]', '\\(', '\\)', '\\begin{verbatim}', '\\end{verbatim}',
               '\\begin{equation}', '\\end{equation}', '\\newcommand', '\\begin', '\\left(', '\\cup', '\\def',
               '\\section', '\\label', '\\\\', '\\%', '\\ ', '\\$', '{a}', '[b]', '\n\n', '1', '(', ')',
               '\\begin{itemize}', '\\end{itemize}', '\\big[', ' {', '\n[', '\\left', '\\Bigg', '\\right']

SMALL_ALPHA = ['\\', '{', '}', '$', '\n', ' ', 'a', '%', '[', ']', '\\begin{a}', '\\end{a}', '\\item', '\\x',
               '\\(', '\\)', '{a}', '[b]', '\\end']

NUL_FREE = [a for a in TOKEN_ALPHA]


def exhaustive(alpha, maxlen, minlen=0):
    for n in range(minlen, maxlen + 1):
        for p in itertools.product(alpha, repeat=n):
            yield ''.join(p)


def random_strings(rng, alpha, n, lo, hi):
    for _ in range(n):
        yield ''.join(rng.choice(alpha) for _ in range(rng.randint(lo, hi)))


def mutations(rng, s, k):
    """k mutants of s: prefix, single deletion, insertion, transposition."""
    out = []
    for _ in range(k):
        if not s:
            break
        kind = rng.randrange(4)
        i = rng.randrange(len(s))
        if kind == 0:
            out.append(s[:i])
        elif kind == 1:
            out.append(s[:i] + s[i + 1:])
        elif kind == 2:
            out.append(s[:i] + rng.choice(['{', '}', '[', ']', '$', '\\', '%', ' ', '\n', 'a']) + s[i:])
        else:
            j = min(len(s) - 1, i + 1)
            t = list(s)
            t[i], t[j] = t[j], t[i]
            out.append(''.join(t))
    return out


def corpus():
    """Sample documents of the repository and LaTeX literals of its docs/tests (extracted at run time)."""
    import glob
    import os
    import re
    from common import REPO
    docs = []
    for p in sorted(glob.glob(os.path.join(REPO, 'tests', 'samples', '*.tex'))):
        docs.append(open(p, encoding='utf-8').read())
    pat = re.compile(r"r?'''(.*?)'''|r?\"\"\"(.*?)\"\"\"", re.S)
    for p in sorted(glob.glob(os.path.join(REPO, 'docs', 'source', '*.rst')) +
                    [os.path.join(REPO, 'README.md')] +
                    glob.glob(os.path.join(REPO, 'tests', '*.py'))):
        try:
            txt = open(p, encoding='utf-8').read()
        except OSError:
            continue
        for m in pat.finditer(txt):
            lit = m.group(1) or m.group(2) or ''
            if '\\' in lit and len(lit) < 4000 and '>>>' not in lit:
                docs.append(lit)
    return docs


def pmap(fn, items, jobs=None, chunk=200):
    """Parallel map over processes (fork), order preserving."""
    import multiprocessing as mp
    import os
    items = list(items)
    jobs = jobs or min(16, os.cpu_count() or 1)
    if len(items) < 400 or jobs == 1:
        return [fn(x) for x in items]
    ctx = mp.get_context('fork')
    with ctx.Pool(jobs) as pool:
        return pool.map(fn, items, chunksize=chunk)


def padded_env_docs():
    """Environments whose name group is padded with blanks (the parser strips names): verbatim-like,
    math and ordinary names, with bodies whose meaning depends on how the environment is classified."""
    names = ['verbatim', 'lstlisting', 'equation', 'align*', 'math', 'itemize', 'a']
    pads = [('', ''), (' ', ''), ('', ' '), (' ', ' '), ('\n', ''), ('', '\t')]
    bodies = ['x', '\\textbf {b}', '\\item y', '$a$', '{u}', '\\x[1]{2}', 'p \\cup [0,1)']
    out = []
    for n in names:
        for lp, rp in pads:
            for b in bodies:
                out.append('\\begin{%s%s%s}%s\\end{%s}' % (lp, n, rp, b, n))
                out.append('\\begin{%s%s%s}%s\\end{%s%s%s}' % (lp, n, rp, b, lp, n, rp))
    # name groups that are more than one token (the reader accepts any brace group as a name): blanks BETWEEN the
    # pieces belong to the name
    for n in ('\\a \\b', '$a$ $b$', 'a{b}', 'a[b', 'a\\x', 'a b', '\\a\n\\b', 'x {y} z', '{a} {b}'):
        for b in ('x', '\\item y', ' '):
            out.append('\\begin{%s}%s\\end{%s}' % (n, b, n))
            out.append('p\\begin{%s}[o]{q}%s\\end{%s}r' % (n, b, n))
    return out


def env_body_start_docs():
    """Named environments (math, ordinary, list, verbatim-like) whose body starts with blanks, a line break or a
    blank line, followed by something that looks like an argument ([..], {..}), by text or by a command: what the
    blanks belong to (dropped before an argument group, kept in the body) decides the second load (seeded C16-j)."""
    names = ['equation', 'align*', 'math', 'displaymath', 'gather', 'a', 'itemize', 'verbatim']
    heads = ['', ' ', '\t', '  ', ' \t ', '\n', ' \n', '\n ', '\n\n', '%c\n']
    firsts = ['x', '[0,1]', '[0,1)', '[', ']', '{u}', '{u}[v]', '[v]{u}', '\\x', '\\x[1]', '\\cup [a]', '(', '$', '\\item y',
              '\\left[', '']
    tails = ['', ' \\subset R', ' ']
    out = []
    for n in names:
        for h in heads:
            for f in firsts:
                for t in tails:
                    if f == '$' and n != 'a':
                        continue
                    out.append('\\begin{%s}%s%s%s\\end{%s}' % (n, h, f, t, n))
    # the same after an argument of the environment, and nested in a group / in math
    for n in ('equation', 'a'):
        for h in heads:
            for f in ('x', '[0,1]', '{u}'):
                out.append('\\begin{%s}{o}%s%s\\end{%s}' % (n, h, f, n))
                out.append('{p\\begin{%s}%s%s\\end{%s}q}' % (n, h, f, n))
                out.append('\\begin{a}\\begin{%s}%s%s\\end{%s}\\end{a}' % (n, h, f, n))
    return out


def long_arg_runs():
    """Commands and environments with long argument runs (LaTeX itself stops at nine; the parser does not)."""
    out = []
    for n in (8, 9, 10, 11, 14):
        out.append('\\x' + '{a}' * n + 'z')
        out.append('\\x' + '[b]' * n + 'z')
        out.append('\\x' + '[b]' * 4 + '{a}' * (n - 4) + 'z')
        out.append('\\begin{a}' + '{u}' * n + 'w\\end{a}')
        out.append('\\begin{itemize}\\item \\y' + '{s}' * n + '\\end{itemize}')
        out.append('$\\x' + '{a}' * n + '$')
    return out


# ----------------------------------------------------------------------------- beyond ASCII
# Characters that the category table files under `Other`, one per class that CPython's own string predicates
# single out (str.isalpha / isdigit / isspace / splitlines / surrogates / astral): a short cut through one of
# those predicates somewhere in the code shows only on these.
UNI_CHARS = ['é', 'É', 'ß', 'α', 'б', '中', '\u0660', '²', '½', '\x0b', '\x0c', '\x1c', '\x1d', '\x1e', '\x1f', '\x85',
             '\xa0', '\u1680', '\u2003', '\u2028', '\u2029', '\u202f', '\u3000', '\u200b', '\u0301', '\ufeff', '\xad',
             '\ud800', '\udbff', '\udc00', '\udfff', '\U0001f602', '\U0010ffff', '\x01', '\x08', '\x1b', '\x80',
             # boundaries of the encodings / tables an implementation might special-case
             'e\u0301', 'a\u0300', 'n\u0303', '\u1100\u1161', 'A\u030a', '\x7e', '\xff', '\u0100', '\u07ff', '\u0800', '\ud7ff', '\ue000', '\uffff', '\U00010000', '\u2060', '\u200d', '\u200e']
UNI_CONTEXT = ['\\', '\\x', '\\item', '\\item ', '{', '}', '[', ']', '%', '\n', ' ', '$', 'a', '\\begin{a}', '\\end{a}',
               '\\\\', '\\textbf', '\\section', '\\cup', '\\left', '\\begin{itemize}', '\\end{itemize}', '1', '~']


def unicode_strings(rng, n):
    """context + character(s) + context: every (context, character, context) triple for the short contexts, then
    random mixtures (surrogate pairs in both orders included)."""
    out = []
    short = ['\\', '\\x', '\\item', '{', '}', '%', '\n', ' ', 'a', '$', '[']
    for a in short:
        for c in UNI_CHARS:
            out.append(a + c)
            out.append(a + c + '{b}')
            out.append(a + c + '\nz')
            out.append(c + a)
    for c in UNI_CHARS:
        for d in UNI_CHARS[::3]:
            out.append('x' + c + d + 'y')
            out.append('\\x' + c + d + '{y}')
            out.append('%' + c + d + '{\n}')
    alpha = UNI_CHARS + UNI_CONTEXT * 2
    for _ in range(n):
        out.append(''.join(rng.choice(alpha) for _ in range(rng.randint(2, 9))))
    return out


# names next to the names the reader, tokenizer or printer treat specially: prefixes, extensions, starred and
# re-cased forms.  As command and environment names they are ordinary.
SPECIAL_NAMES = ['item', 'end', 'begin', 'text', 'command', 'mycommand', 'renewcommand', 'providecommand', 'verbatim', 'lstlisting', 'Verbatim', 'verbatimtab', 'listing',
                 'equation', 'align*', 'math', 'displaymath', 'split', 'newcommand', 'def', 'section', 'textbf', 'label',
                 'cup', 'in', 'infty', 'noindent', 'left', 'big', 'tex', 'itemize']


def name_neighbours():
    out = []
    for n in SPECIAL_NAMES:
        out += [n, n + 's', n + '*', n[:-1], 'x' + n, n.capitalize() if n[0].islower() else n.lower(), n + 'x*']
    seen, res = set(), []
    for n in out:
        if n and n not in seen:
            seen.add(n)
            res.append(n)
    return res


def name_neighbour_docs():
    """(source, skip_envs) pairs: the neighbours as command names and as environment names, in the places where a
    special name would change the reading (list items, math, argument runs, environment bodies, skip lists)."""
    cases = []
    for n in name_neighbours():
        letters = n.rstrip('*').isalpha() and n.isascii()
        if letters:
            for t in ('\\begin{itemize}\\item a \\%s 0pt \\emph{b}\\item c \\%s{d} e\\end{itemize}',
                      '$x \\%s{ if \\emph{y} holds} [0,1)$', '\\%s{A}{B} t', '\\%s[x][y]{a}{b}[c]', '\\%s [x] {a}',
                      '\\%s', '\\begin{a}\\%s{u}\\end{a}', '{\\%s x}', '\\%s\n\n{a}', '\\begin{equation}\\%s[a]{b}\\end{equation}',
                      '\\x{\\%s}{b}', '\\%s{\\begin{center}x \\textbf{y}\\end{center}} tail',
                      '\\begin{itemize}\\item \\%s{\\begin{a}u\\end{a}}\\end{itemize}'):
                cases.append((t.replace('%s', n), ()))
        for t in ('\\begin{%s}\\x{a} $b$ \\end{%s}', '\\begin{%s}{ $ \\end{%s}', '\\begin{center}\\begin{%s}\\y{ \\end{%s}\\end{center}',
                  '\\begin{%s}[o]{p}q\\end{%s} r', '\\begin{%s}\\item a\\end{%s}'):
            s = t.replace('%s', n)
            cases.append((s, ()))
            cases.append((s, (n,)))
            cases.append((s, (n + 'q', 'zz')))
    return cases


def codepoint_docs(rng, thorough=False, sample=3000):
    """One small well-formed document per code point >= 0x80 (all of them `Other` for the category table: plain text
    wherever they stand): after a letter, directly after a command name, inside an argument, at the end.  Quick: the
    first 0x2F80 of them, every boundary of an encoding or table an implementation might special-case, and a random
    sample; thorough: all 1,113,984."""
    import sys
    if thorough:
        cps = range(0x80, sys.maxunicode + 1)
    else:
        edge = [0xFF, 0x100, 0x7FF, 0x800, 0xD7FF, 0xD800, 0xDBFF, 0xDC00, 0xDFFF, 0xE000, 0xFEFF, 0xFFFD, 0xFFFE,
                0xFFFF, 0x10000, 0x1FFFF, 0x20000, 0xE0001, 0x10FFFE, 0x10FFFF]
        cps = list(range(0x80, 0x3000)) + edge + [rng.randrange(0x3000, sys.maxunicode + 1) for _ in range(sample)]
    return ['a' + chr(c) + ' \\x' + chr(c) + '{b' + chr(c) + '}' + chr(c) for c in cps]


# blanks in the sense of str.isspace() that the tokenizer does not treat as spacers (they are `Other` characters):
# a run of them between two nodes is a whitespace-only TEXT leaf - dropped from `contents` like any other blank leaf
EXOTIC_BLANKS = ['\x0b', '\x0c', '\x1c', '\x1d', '\x1e', '\x1f', '\x85', '\xa0', ' ', ' ', ' ', ' ',
                 ' ', ' ', ' ', ' ', '　']


def blank_run_docs():
    out = []
    for c in EXOTIC_BLANKS:
        for run in (c, c + c, c + ' ', ' ' + c, c + '\n' + c):
            out.append('\\section{Intro}' + run + '\\section{Methods}')
            out.append('\\textbf{\\a' + run + '\\b}')
            out.append('$x$' + run + '$y$')
            out.append('\\begin{itemize}\\item' + run + '\\x' + run + '\\item p' + run + '\\end{itemize}')
            out.append('{' + run + '{a}' + run + '}' + run)
            out.append('\\begin{a}' + run + '\\end{a}')
    # blank-only bodies of verbatim-like environments (one whitespace-only text leaf)
    for name in ('verbatim', 'lstlisting', 'Verbatim'):
        for body in ('\n', ' ', '\n\n', '\t \n', ' \n \n '):
            out.append('\\begin{%s}%s\\end{%s}' % (name, body, name))
            out.append('x\\begin{center}\\begin{%s}%s\\end{%s}y\\end{center}' % (name, body, name))
    return out


def escape_docs():
    """`\\` + one character of every category (escaped symbol, command name, math switch, line break ...) followed by
    what would be an argument run if the pair were a command: blanks and groups."""
    chars = ['\\', '{', '}', '$', '&', '\n', '\r', '#', '^', '_', ' ', '\t', '~', '%', ',', ';', '!', "'", '"', '.', '=',
             '-', '/', '@', '|', '1', 'é', '*', '(', ')', '[', ']', 'a', 'Z', '\x00', '\x7f', '\x0c', ' ']
    tails = ['', ' {n}or', '{n}', '\n[b] c', ' [b]', ' x', '\n\n{a}', '{a}{b}', '%c\n{a}', ' \\x{a}']
    out = []
    for c in chars:
        for t in tails:
            out.append('se\\' + c + t)
            out.append('$x\\' + c + t + '$')
            out.append('\\begin{a}\\' + c + t + '\\end{a}')
    return out


def signature_probe_docs():
    """every command of the LIVE signature table (read from the code under test: a failing-input search has to look
    where the code says something special happens) followed by bare tokens, groups and brackets"""
    from TexSoup.reader import SIGNATURES
    out = []
    for n in sorted(SIGNATURES):
        for t in ('\\%s1{n}', '\\%s a{b}', '\\%s{a}2', '\\%s\\pi 2', '\\%s{a}{b}{c}', '\\%s[o]{a}[p]{b}', '\\%s', '\\%s [o] {a}',
                  '\\%s{a} [b]', '\\%s\n\n{a}'):
            s = t.replace('%s', n)
            out += [s + ' z', '$' + s + '$', '\\begin{a}' + s + '\\end{a}', '{' + s + '}']
    return out


def length_boundary_docs():
    """runs whose length sits at a power of two (buffers, block-wise scans): comment payloads, text runs, blank runs,
    command names, argument runs"""
    out = []
    for n in (63, 64, 65, 127, 128, 129, 255, 256, 257, 511, 512, 513, 767, 1023, 1024, 1025, 4095, 4096, 4097):
        for k in (n - 1, n):        # with and without the `%` / backslash counted
            out.append('a %' + 'c' * k + '\n\\x{b}')
            out.append('{%' + '}' * k + '\n}')
            out.append('\\x{' + 'a' * k + '}')
            out.append('\\x' + ' ' * k + '{a}')
            out.append('\\' + 'n' * k + '{a}')
            out.append('$' + 'x' * k + '$')
    for n in (255, 256, 257):
        out.append('\\x' + '{a}' * n)
        out.append('\\begin{verbatim}' + '$' * n + '\\end{verbatim}')
        out.append('\\\\' * n)
    return out


def sizing_spacing_docs():
    """every sizing prefix x every delimiter, written tight and with blanks / a line break in between (only the tight
    form is a sizing command; with a blank the prefix is an ordinary command and the delimiter plain text)"""
    import gen_doc as G
    out = []
    for p in G.SIZE_PREFIX:
        for d in G.SIZE_DELIMS:
            for sep in ('', ' ', '\t', '  ', '\n', ' \n '):
                out.append('$\\' + p + sep + d + 'x$')
                out.append('a\\' + p + sep + d)
    return out


def definition_docs():
    """\\newcommand-style definitions together with uses of the defined name - before and after the definition, with
    fewer, as many and more groups than declared: the definition is data for LaTeX, not for this parser (the reading of
    `\\R [0,1]` must not depend on a `\\newcommand{\\R}{..}` elsewhere in the document, or in another one)"""
    out = []
    defs = ['\\newcommand{\\%s}{\\mathbb{R}}', '\\newcommand{\\%s}[2]{a #1 b #2}', '\\renewcommand{\\%s}[1][d]{e #1}',
            '\\providecommand\\%s{c}', '\\def\\%s{c}', '\\newcommand{\\%s}[0]{c}']
    uses = ['\\%s', '\\%s [0,1]', '\\%s{u}', '\\%s{u}{v}{w}', '\\%s[o]{u}', '$\\%s [a]{b}$', '{\\%s x}']
    for n in ('R', 'zq', 'pair'):
        for d in defs:
            for u in uses:
                dd, uu = d.replace('%s', n), u.replace('%s', n)
                out += [uu + ' ' + dd + ' ' + uu, dd + ' ' + uu, uu + '\n' + dd, '\\newcommand{\\unit}{' + uu + '} ' + dd]
    return out


def verb_docs():
    """`\\verb` is an ordinary command for this parser; what follows it - a delimiter of any category, terminated or not,
    at the end of the input or of a line - is ordinary input"""
    out = []
    for name in ('verb', 'verb*', 'Verb', 'lstinline', 'url', 'href', 'path'):
        for tail in ('|foo', '|foo|', '+a$b+ c', '!x', '|', '', '{a%b}', '{x%PAY}LOAD\n}', '|a\nb|', '{http://a.b/%7Efoo}', '|%|', '$x$'):
            for pre in ('see ', '', '{', '\\begin{a}'):
                out.append(pre + '\\' + name + tail)
                out.append(pre + '\\' + name + tail + '\n\\x{y}')
    return out
