"""Input generators shared by the checks (all randomness from the rng passed in)."""
import itertools

# one representative per character category (category.py) + extras
CAT_ALPHA = ['\\', '{', '}', '$', '&', '\n', '\r', '#', '^', '_', '\x00', ' ', '\t', 'a', '1', '~', '%',
             '\x7f', '[', ']', '(', ')', 'é', '*', '|', '.']

# token-kind alphabet: one representative per token kind and per reader-relevant construct
TOKEN_ALPHA = ['\\', '{', '}', '$', '$$', '\n', ' ', 'a', '%', '%c\n', '[', ']', '\\begin{a}', '\\end{a}', '\\end',
               '\\item', '\\textbf', '\\x', '\\[', '\\]', '\\(', '\\)', '\\begin{verbatim}', '\\end{verbatim}',
               '\\begin{equation}', '\\end{equation}', '\\newcommand', '\\begin', '\\left(', '\\cup', '\\def',
               '\\section', '\\label', '\\\\', '\\%', '\\ ', '\\$', '{a}', '[b]', '\n\n', '1', '(', ')',
               '\\begin{itemize}', '\\end{itemize}', '\\big[', ' {', '\n[']

SMALL_ALPHA = ['\\', '{', '}', '$', '\n', ' ', 'a', '%', '[', ']', '\\begin{a}', '\\end{a}', '\\item', '\\x',
               '\\(', '\\)', '{a}', '[b]', '\\end']

NUL_FREE = [a for a in TOKEN_ALPHA]


def exhaustive(alpha, maxlen, minlen=0):
    for n in range(minlen, maxlen + 1):
        for p in itertools.product(alpha, repeat=n):
            yield ''.join(p)


def random_strings(rng, alpha, n, lo, hi):
    for _ in range(n):
        yield ''.join(rng.choice(alpha) for _ in range(rng.randint(lo, hi)))


def mutations(rng, s, k):
    """k mutants of s: prefix, single deletion, insertion, transposition."""
    out = []
    for _ in range(k):
        if not s:
            break
        kind = rng.randrange(4)
        i = rng.randrange(len(s))
        if kind == 0:
            out.append(s[:i])
        elif kind == 1:
            out.append(s[:i] + s[i + 1:])
        elif kind == 2:
            out.append(s[:i] + rng.choice(['{', '}', '[', ']', '$', '\\', '%', ' ', '\n', 'a']) + s[i:])
        else:
            j = min(len(s) - 1, i + 1)
            t = list(s)
            t[i], t[j] = t[j], t[i]
            out.append(''.join(t))
    return out


def corpus():
    """Sample documents of the repository and LaTeX literals of its docs/tests (extracted at run time)."""
    import glob
    import os
    import re
    from common import REPO
    docs = []
    for p in sorted(glob.glob(os.path.join(REPO, 'tests', 'samples', '*.tex'))):
        docs.append(open(p, encoding='utf-8').read())
    pat = re.compile(r"r?'''(.*?)'''|r?\"\"\"(.*?)\"\"\"", re.S)
    for p in sorted(glob.glob(os.path.join(REPO, 'docs', 'source', '*.rst')) +
                    [os.path.join(REPO, 'README.md')] +
                    glob.glob(os.path.join(REPO, 'tests', '*.py'))):
        try:
            txt = open(p, encoding='utf-8').read()
        except OSError:
            continue
        for m in pat.finditer(txt):
            lit = m.group(1) or m.group(2) or ''
            if '\\' in lit and len(lit) < 4000 and '>>>' not in lit:
                docs.append(lit)
    return docs


def pmap(fn, items, jobs=None, chunk=200):
    """Parallel map over processes (fork), order preserving."""
    import multiprocessing as mp
    import os
    items = list(items)
    jobs = jobs or min(16, os.cpu_count() or 1)
    if len(items) < 400 or jobs == 1:
        return [fn(x) for x in items]
    ctx = mp.get_context('fork')
    with ctx.Pool(jobs) as pool:
        return pool.map(fn, items, chunksize=chunk)


def padded_env_docs():
    """Environments whose name group is padded with blanks (the parser strips names): verbatim-like,
    math and ordinary names, with bodies whose meaning depends on how the environment is classified."""
    names = ['verbatim', 'lstlisting', 'equation', 'align*', 'math', 'itemize', 'a']
    pads = [('', ''), (' ', ''), ('', ' '), (' ', ' '), ('\n', ''), ('', '\t')]
    bodies = ['x', '\\textbf {b}', '\\item y', '$a$', '{u}', '\\x[1]{2}', 'p \\cup [0,1)']
    out = []
    for n in names:
        for lp, rp in pads:
            for b in bodies:
                out.append('\\begin{%s%s%s}%s\\end{%s}' % (lp, n, rp, b, n))
                out.append('\\begin{%s%s%s}%s\\end{%s%s%s}' % (lp, n, rp, b, lp, n, rp))
    return out


def long_arg_runs():
    """Commands and environments with long argument runs (LaTeX itself stops at nine; the parser does not)."""
    out = []
    for n in (8, 9, 10, 11, 14):
        out.append('\\x' + '{a}' * n + 'z')
        out.append('\\x' + '[b]' * n + 'z')
        out.append('\\x' + '[b]' * 4 + '{a}' * (n - 4) + 'z')
        out.append('\\begin{a}' + '{u}' * n + 'w\\end{a}')
        out.append('\\begin{itemize}\\item \\y' + '{s}' * n + '\\end{itemize}')
        out.append('$\\x' + '{a}' * n + '$')
    return out
