#!/usr/bin/env python3
"""Behaviour-preserving refactorings (seeded/N*) as controls: every check must stay quiet on them.
Usage: harness/controls_meta.py <id> [<results.json from `seeded.py run <id> C01 .. C20`>]
Without a results file the twenty quick checks are run now (about half an hour)."""
import json
import os
import sys

sys.path.insert(0, os.path.dirname(os.path.abspath(__file__)))
import seeded  # noqa: E402

WHAT = {
 'N1': 'tokens.py: per-call dicts hoisted to private constants, shared helpers for the escape look-behind and the spacer loops, look-ahead slices cached per call',
 'N2': 'reader.py: read_expr flattened into guard clauses, private _peek_command helper for the two look-aheads, read_arg_required restructured, end marker computed once in read_skip_env, dead code removed',
 'N3': 'data.py TexNode: child wrapping in one private helper, shared assertions of the .string getter/setter, replace restructured, small tidy-ups',
 'N4': 'data.py TexExpr/TexEnv/TexCmd/TexArgs: __match__ restructured, yield from, comprehension instead of filter, one format string in TexCmd.__str__, __coerce static, __index_all renamed, TexArgs.insert early return',
 'N5': 'utils.py: Token concatenation/strip helpers, Buffer.peek/__getitem__ locals, CharToLineOffset.__call__ early return',
 'N7': 'tokens.py (hand-written): `minted` added to SKIP_ENV_NAMES and the tuple reordered - a table edit that breaks no property (the generated tables follow it; TableSpec states membership only)',
 'N6': 'category.py/tex.py/__init__.py: _category_of helper, named pipeline stages in read(), local renames',
}
ALL = ['C%02d' % i for i in range(1, 21)]


def main(sid, results=None):
    if results:
        res = json.load(open(results))
    else:
        res = seeded.run(sid, ALL)
    meta = {'id': sid, 'kind': 'control: behaviour-preserving refactoring (no property is broken)', 'change': WHAT.get(sid, ''),
            'written_by': 'independent sub-agent asked for a behaviour-preserving change and to falsify it by differential testing',
            'ran': 'harness/seeded.py run %s C01 .. C20 (scratch worktree, quick tier)' % sid,
            'results': {c: {'exit': r['exit'], 'violation_line': (r.get('violation') or [''])[0]} for c, r in res.items()},
            'all_quiet': all(r['exit'] == 0 for r in res.values())}
    json.dump(meta, open(os.path.join(seeded.VERIF, 'seeded', sid, 'control.json'), 'w'), indent=1)
    print(sid, 'all quiet' if meta['all_quiet'] else {c: r['exit'] for c, r in res.items() if r['exit'] != 0})


if __name__ == '__main__':
    main(sys.argv[1], sys.argv[2] if len(sys.argv) > 2 else None)
