#!/usr/bin/env python3
"""Writes MANIFEST.json from the property modules that exist (harness/props/cXX.py)."""
import json
import os
import re

HERE = os.path.dirname(os.path.abspath(__file__))
VERIF = os.path.dirname(HERE)
props = [json.loads(l) for l in open(os.path.join(VERIF, 'properties.jsonl'))]

LEVEL = {
 'C01': ('Lean 4 theorems: on every strictly parsing input satisfying the stated hypotheses the serialisation equals the source when no spacer precedes an opener (C08.output_exact / C16.output_is_input); the "well-formed documents parse" half and node slices are tied by correspondence and explored by the oracle', '5 C01'),
 'C02': ('the tree-shape clause needs completeness of the reader on the grammar (Core C), which is not proved; decided by the three-way comparison generating AST / implementation / Lean model on grammar documents', '5 C02'),
 'C03': ('Lean 4 theorems over all trees: find_all is the filter of descendants, equals the structural occurrence list up to permutation without duplicate paths, find/count/getattr/name lists/absent names/full-expression queries as stated; model tied to data.py by correspondence at every node', '5 C03'),
 'C04': ('Lean 4 theorems over all trees: contents/children/iteration, descendants = transitive closure (permutation, every path once), text = non-blank leaves in serialisation order, root concatenation, parent = source of the view, parent chain reaches the root', '5 C04'),
 'C05': ('Lean 4 theorems over all trees and paths: delete/replace/insert/append are splices of the serialised text at the target span; nodes off the path unchanged; twins covered by path addressing; negative theorem for the unrepaired lookup', '5 C05'),
 'C06': ('Lean 4 theorems for every input: parse returns a tree or eof/type/assertion, never internal, never out of fuel (fuel = call depth; progress of every reader), plus origin of each diagnostic class; CPython recursion limit and wall-clock explored only', '5 C06'),
 'C07': ('Lean 4 theorems for every input: strict success implies identical tolerant success (all reader functions); tolerant output = token text minus spacers before openers plus inserted closers; the lost-closer clause is explored', '5 C07'),
 'C08': ('Lean 4 theorem for every input (any length, any nesting): conservation invariant of all twelve reader functions by induction on fuel, lifted to parse and to strings via the tokenizer theorems; hypotheses = property side conditions + recorded finding F4b', '5 C08'),
 'C09': ('argument attachment: reader-level facts are instances of the conservation/progress invariants; the exact-run clause needs Core C and is decided by correspondence + oracle over the separator x position product', '5 C09'),
 'C10': ('tokenizer theorems (comment token = % up to end of line; escaped symbols claimed first) proved for all inputs; payload-parametricity of the reader explored by the oracle', '5 C10'),
 'C11': ('tokenizer theorem tokens_skipPlain (\\end{name} of a plain name is exactly five tokens at a token boundary) and conservation through read_skip_env proved; opacity clause explored by the oracle', '5 C11'),
 'C12': ('tokenizer first-token theorems ($ vs $$, \\$ escaped, asymmetric switches, sizing commands as single tokens, prefix-free table) proved; reader clause explored by the oracle', '5 C12'),
 'C13': ('Lean 4 theorem: char_pos_to_line = (line, column) for every string and offset; token offsets are true offsets (C19); node positions tied by correspondence (positions are part of the canonical tree) and explored', '5 C13'),
 'C14': ('Lean 4 theorems over all trees: rename/set-string/set-args are splices of exactly that span (both \\begin and \\end), search sees the change; re-parse clause explored', '5 C14'),
 'C15': ('Lean 4 theorem: any history of edits refines the string-splice reference model (induction over the operation list); tree well-formedness preserved', '5 C15'),
 'C16': ('Lean 4 theorems: when no spacer was dropped the output is the input, hence a fixed point; second pass never grows; the squeeze case is explored by the oracle on every run', '5 C16'),
 'C17': ('Lean 4 theorems: chunk flattening, prefix-free sizing table => iteration-order independence, parse is a function; agreement of the implementation across input forms, hash seeds, interleavings is translation validation by the check', '5 C17'),
 'C18': ('Lean 4 refinement: every TexArgs operation with every index refines Python list semantics, invariant preserved, lifted to all histories; coercion and serialisation theorems; negative theorems for the unrepaired code', '5 C18'),
 'C19': ('Lean 4 theorems for every string: categorize is index-wise, tokens partition the input up to ignored characters, no empty token, true offsets, tokenizer always makes progress', '5 C19'),
 'C20': ('Lean 4 refinement: every Buffer operation (all arguments) refines list+index, laziness unobservable, lifted to all histories for string- and token-backed buffers; negative theorem for the unrepaired peek', '5 C20'),
}

checks, na = [], []
for p in props:
    pid = p['id']
    mod = os.path.join(HERE, 'props', pid.lower() + '.py')
    if not os.path.exists(mod):
        na.append({'property_id': pid, 'reason': 'check module not integrated yet (work in progress, see DESIGN.md section 10)'})
        continue
    src = open(mod).read()
    m = re.search(r"^THEOREMS = ", src, re.M)
    text, ref = LEVEL[pid]
    checks.append({
        'property_id': pid,
        'quick_cmd': './check %s --tier quick' % pid,
        'thorough_cmd': './check %s --tier thorough' % pid,
        'evidence_file': 'evidence/%s.json' % pid,
        'replay_cmd_template': './check %s --replay {path}' % pid,
        'engine': 'lean4-model+correspondence',
        'level_claimed': {'category': 'proof', 'text': text, 'design_ref': 'DESIGN.md section ' + ref},
        'level_note': 'Trusted: Lean 4.33 kernel; axioms propext, Classical.choice, Quot.sound (printed per theorem in the evidence); '
                      'the table translator harness/gen_tables.py; the correspondence harness that ties the hand-written model '
                      'to /repo on every run; control flow of the Python code is modelled, not verified.',
        'technique': 'Lean 4 machine-checked proof over an executable model; model tied to the code by regenerated tables + differential correspondence; oracle as failing-input search',
    })

manifest = {
    'version': 1,
    'setup_cmd': '/venv/bin/python harness/gen_tables.py && cd lean && lake build',
    'hooks': {'guard': 'TEXSOUP_VERIF', 'enable': 'no hooks: everything is observed in-process from the working tree of /repo',
              'baseline_off_cmd': 'cd /repo && /venv/bin/python -m pytest -q -p no:cacheprovider', 'source_commits': [], 'add_only': True},
    'engines': [{'name': 'lean4-model+correspondence', 'path': 'lean/', 'serves_properties': [c['property_id'] for c in checks],
                 'kind_free_text': 'Lean 4 model (lean/TexSoupModel) with machine-checked theorems (lean/TexSoupProofs); tables regenerated from /repo by harness/gen_tables.py; compiled model driver tsmodel compared with the implementation by harness/props/*.py'}],
    'checks': checks,
    'not_applicable': na,
    'notes': 'Every check: regenerate tables -> lake build -> grep + #print axioms audit -> scoped correspondence -> oracle -> verdict. See DESIGN.md.',
}
json.dump(manifest, open(os.path.join(VERIF, 'MANIFEST.json'), 'w'), indent=1)
print('checks:', [c['property_id'] for c in checks], 'n/a:', [x['property_id'] for x in na])
