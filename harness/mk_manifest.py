#!/usr/bin/env python3
"""Writes MANIFEST.json from the property modules that exist (harness/props/cXX.py)."""
import json
import os
import re

HERE = os.path.dirname(os.path.abspath(__file__))
VERIF = os.path.dirname(HERE)
props = [json.loads(l) for l in open(os.path.join(VERIF, 'properties.jsonl'))]

LEVEL = {
 'C01': ('Lean 4 theorems: (i) for EVERY string that parses strictly and meets the side conditions (no NUL/DEL, no made-up arguments, plain environment names, no whitespace token before an opener) the serialisation equals the source (C01.roundtrip, from the conservation invariant of all reader functions); (ii) every well-formed, self-tokenizing document of the grammar parses to its generating tree (C02.document_parses = token-level completeness of the reader + tokenizer inverse); (iii) the property in its own words for grammar documents: well-formed + adjacent argument groups (squeezeD d = d) + plainly written environment names => parses in both modes and prints as the source, no further side condition (C01G.document_roundtrip); (iv) node positions carry the first token of the node and every text leaf is the source slice at its position (C13). The check also runs one document per code point beyond ASCII and documents drawn from the proved Lean grammar through the implementation.', '0.5, 5 C01'),
 'C02': ('Lean 4 theorems: token-level completeness of the reader on a grammar of all documented constructs (leaf, group, math, commands with open/fixed/zero/special signatures and spaced argument runs, \\\\item, named and math environments, verbatim-like environments), any nesting, both tolerances, at the fuel the parser uses (C02.tree_mirrors_document); tokenizer inverse (tokenize_iff); composed at string level (C02.document_parses). The generating tree IS the result. Tie to the code: documents drawn from the Lean grammar + the Python generator, three-way comparison. On every run the generated documents and the repository corpus are CERTIFIED as instances of the proved grammar: a candidate grammar document is rebuilt from tokens and tree and the theorem hypotheses are evaluated by the compiled definitions (C02.cert_sound states what a positive certificate means). Converse direction proved too (C02.grammar_exhaustive): whatever the strict reader returns on a representable token list is treeD d of a well-formed d with these tokens - the grammar is not stricter than the reader except for the classes excluded by hypothesis.', '0.5, 5 C02'),
 'C03': ('Lean 4 theorems over all trees: find_all is the filter of descendants, equals the structural occurrence list up to permutation without duplicate paths, find/count/getattr/name lists/absent names/full-expression queries as stated; model tied to data.py by correspondence at every node', '5 C03'),
 'C04': ('Lean 4 theorems over all trees: contents/children/iteration, descendants = transitive closure (permutation, every path once), text = non-blank leaves in serialisation order, root concatenation, parent = source of the view, parent chain reaches the root', '5 C04'),
 'C05': ('Lean 4 theorems over all trees and paths: delete/replace/insert/append are splices of the serialised text at the target span; nodes off the path unchanged; twins covered by path addressing; negative theorem for the unrepaired lookup', '5 C05'),
 'C06': ('Lean 4 theorems for every input: parse returns a tree or eof/type/assertion, never internal, never out of fuel (fuel = call depth; progress of every reader), plus origin of each diagnostic class; CPython recursion limit and wall-clock explored only', '5 C06'),
 'C07': ('Lean 4 theorems for every input: (a) strict success implies identical tolerant success (all reader functions); (c) tolerant output = token text minus spacers before openers plus inserted closers; (b) a token list with more { than } (resp. more \\\\begin than \\\\end) fails strictly with a diagnostic and parses tolerantly, under token-level hypotheses (C07b.lost_closer: brace/environment balance of strict success + tolerant totality outside math/lists); lost closing brackets explored only.', '0.5, 5 C07'),
 'C08': ('Lean 4 theorem for every input (any length, any nesting): conservation invariant of all twelve reader functions by induction on fuel, lifted to parse and to strings via the tokenizer theorems; hypotheses = property side conditions + recorded finding F4b', '5 C08'),
 'C09': ("Lean 4 theorems: a command followed by bracket groups then brace groups, each optionally preceded by one spacer token, is read with exactly these groups and the rest untouched (C09G.command_takes_its_groups, from completeness); the frame condition is necessary (what it excludes IS absorbed: three theorems exhibiting the reader's result); brackets outside argument position are leaves; groups close only on their own delimiter; conservation of argument contents. The separator x position product at character level is tied by correspondence + oracle.", '0.5, 5 C09'),
 'C10': ('Lean 4 theorems: comment token = % up to the next end-of-line character; escaped percent is never a comment; a comment is a leaf in every context and closes nothing; search never returns text leaves; and for every well-formed document of the grammar, replacing comment payloads (any payload without end-of-line characters) keeps it well-formed and separated and changes the parse result exactly at those leaves (C10G.comment_payload_does_not_matter, string level).', '0.5, 5 C10'),
 'C11': ('Lean 4 theorems: a verbatim-like environment is read as ONE uninterpreted text up to the first token boundary where \\\\end{name} starts, whatever the body contains, no error possible; user names behave like built-in ones (skip list enters by membership only); without the name in the list the same tokens are read by the ordinary rule; \\\\end{name} of a plain name is exactly five tokens (tokenizer theorem). Known finding F19 (blanks + opener at the start of the body) recorded.', '0.5, 5 C11'),
 'C12': ('Lean 4 theorems: $$ greedy, \\\\$ escaped, asymmetric switches, sizing commands single tokens with a prefix-free table (tokenizer, all inputs); each of the four regions and each named math environment yields one node of its kind whose body is the trees of the enclosed elements; brackets inside are leaves needing no partner; zero-argument operators absorb nothing (grammar completeness).', '0.5, 5 C12'),
 'C13': ('Lean 4 theorems: char_pos_to_line = (line, column) for every string and offset; every token text is the slice of the source at its recorded offset; every node position is the offset of the first token of the node and the node text starts with it (induction over the reader); every text leaf of a parsed tree with a recorded position is the slice of the source there (C13.text_leaf_slice), hence every match search_regex reports stands at the reported offset for ANY matcher function (C13.search_regex_offsets; the regex engine is a parameter, made-up bare arguments at position -1 excluded by a proved counterexample).', '0.5, 5 C13'),
 'C14': ('Lean 4 theorems over all trees: rename/set-string/set-args are splices of exactly that span (both \\begin and \\end), search sees the change; re-parse clause PROVED for renaming commands and environments of grammar documents (C14G.rename_*_reparse_of_source: the new text re-parses, both tolerances, to the edited tree of the Edit model up to positions; side conditions sameRole/envRole each shown necessary), explored for .string/.args', '5 C14'),
 'C15': ('Lean 4 theorem: any history of edits refines the string-splice reference model (induction over the operation list); tree well-formedness preserved; in-place TexArgs operations inside histories are compared as .args assignments of the list-level result (C18 refinement + C14.setArgs_splice)', '5 C15'),
 'C16': ("Lean 4 theorems: for ALL inputs, when no spacer was dropped the output is the input, hence a fixed point, and a second pass never grows; for every well-formed document of the grammar written with arbitrary spacers between commands and arguments: the serialisation is the text of the squeezed document, which is well-formed and separated (under the property's sizing-prefix side condition), so re-parsing gives the same shape and text (C16G.reparse_fixed_point_of_source). AND FOR ALL STRICTLY PARSING INPUTS (C16.reparse_fixed_point_all): the grammar is exhaustive (C02.grammar_exhaustive / parse_sound: every representable strict parse is the tree of a well-formed document with exactly these tokens - an invariant of all twelve reader functions), so the fixed-point theorem applies to every input that parses strictly; remaining side conditions are the property's own (no NUL/DEL, brace-delimited mandatory arguments, no bare sizing prefix), finding F4b (blank-padded environment names) and single-token environment names (continuation arguments after fixed-signature commands are covered). The same lift gives the C14 re-parse clause (rename, .string) and C09-C11 statements for every strictly parsing representable input (Properties/AllInputs.lean).", '0.5, 5 C16'),
 'C17': ('Lean 4 theorems: chunk flattening, prefix-free sizing table => iteration-order independence, parse is a function; agreement of the implementation across input forms, hash seeds, interleavings is translation validation by the check', '5 C17'),
 'C18': ('Lean 4 refinement: every TexArgs operation with every index refines Python list semantics, invariant preserved, lifted to all histories; coercion and serialisation theorems; extend by a TexArgs object (own slice, the list itself, another list) included; negative theorems for the unrepaired code', '5 C18'),
 'C19': ('Lean 4 theorems for every string: categorize is index-wise, tokens partition the input up to ignored characters, no empty token, true offsets, tokenizer always makes progress', '5 C19'),
 'C20': ('Lean 4 refinement: every Buffer operation (all arguments) refines list+index, laziness unobservable, lifted to all histories for string- and token-backed buffers; negative theorem for the unrepaired peek', '5 C20'),
}

checks, na = [], []
for p in props:
    pid = p['id']
    mod = os.path.join(HERE, 'props', pid.lower() + '.py')
    if not os.path.exists(mod):
        na.append({'property_id': pid, 'reason': 'check module not integrated yet (work in progress, see DESIGN.md section 10)'})
        continue
    src = open(mod).read()
    m = re.search(r"^THEOREMS = ", src, re.M)
    text, ref = LEVEL[pid]
    checks.append({
        'property_id': pid,
        'quick_cmd': './check %s --tier quick' % pid,
        'thorough_cmd': './check %s --tier thorough' % pid,
        'evidence_file': 'evidence/%s.json' % pid,
        'replay_cmd_template': './check %s --replay {path}' % pid,
        'engine': 'lean4-model+correspondence',
        'level_claimed': {'category': 'proof', 'text': text, 'design_ref': 'DESIGN.md section ' + ref},
        'level_note': 'Trusted: Lean 4.33 kernel; axioms propext, Classical.choice, Quot.sound (printed per theorem in the evidence); '
                      'the table translator harness/gen_tables.py; the correspondence harness that ties the hand-written model '
                      'to /repo on every run; control flow of the Python code is modelled, not verified.',
        'technique': 'Lean 4 machine-checked proof over an executable model; model tied to the code by regenerated tables + differential correspondence; oracle as failing-input search',
    })

manifest = {
    'version': 1,
    'setup_cmd': '/venv/bin/python harness/gen_tables.py && cd lean && lake build',
    'hooks': {'guard': 'TEXSOUP_VERIF', 'enable': 'no hooks: everything is observed in-process from the working tree of /repo',
              'baseline_off_cmd': 'cd /repo && /venv/bin/python -m pytest -q -p no:cacheprovider', 'source_commits': [], 'add_only': True},
    'engines': [{'name': 'lean4-model+correspondence', 'path': 'lean/', 'serves_properties': [c['property_id'] for c in checks],
                 'kind_free_text': 'Lean 4 model (lean/TexSoupModel) with machine-checked theorems (lean/TexSoupProofs); tables regenerated from /repo by harness/gen_tables.py; compiled model driver tsmodel compared with the implementation by harness/props/*.py'}],
    'checks': checks,
    'not_applicable': na,
    'notes': 'Every check: regenerate tables -> lake build -> grep + #print axioms audit -> scoped correspondence -> oracle -> verdict. See DESIGN.md.',
}
json.dump(manifest, open(os.path.join(VERIF, 'MANIFEST.json'), 'w'), indent=1)
print('checks:', [c['property_id'] for c in checks], 'n/a:', [x['property_id'] for x in na])
