"""Documents of the PROVED grammar (lean/TexSoupModel/Grammar.lean), drawn by the model driver's `gram`
request: each is well-formed (`WFD`) and tokenizes back to its own tokens, i.e. satisfies the hypotheses of
theorem C02.document_parses, which says the model parses it to `treeD d`. Here the IMPLEMENTATION is run on
the same source and must return exactly that tree (positions included) in both tolerance modes – the tie
between the completeness theorem and the code."""
import common
import gen


_CASES = {}


def cases(ctx, attempts, depth=3, batches=16):
    key = (ctx.seed, attempts, depth, batches)
    if key not in _CASES:
        _CASES[key] = _cases(ctx, attempts, depth, batches)
    return _CASES[key]


def _cases(ctx, attempts, depth=3, batches=16):
    reqs = ['gram %d %d %d' % (ctx.rng('gram%d' % i).randrange(1 << 30), attempts // batches, depth) for i in range(batches)]
    out = []
    for line in _run(reqs):
        if not line.startswith('GRAM '):
            raise common.ModelError('gram request failed: ' + line[:100])
        body = line[5:]
        if not body:
            continue
        for item in body.split(' ## '):
            src, exp = item.split('\t')
            out.append((common.dec(src), exp))
    # distinct sources
    seen, res = set(), []
    for s, e in out:
        if s not in seen:
            seen.add(s)
            res.append((s, e))
    return res


def _run(reqs):
    from concurrent.futures import ThreadPoolExecutor
    with ThreadPoolExecutor(len(reqs)) as ex:
        return [x[0] for x in ex.map(lambda q: common.model_batch([q], timeout=900), reqs)]


def impl_tree(s, tol):
    return _impl((s, tol))


def _impl(case):
    s, tol = case
    line = common.impl_parse(s, tol)[0]
    return line[5:line.index(' SER ')] if line.startswith('TREE ') else line


def run(ctx, r, attempts, depth=3, key='grammar-mismatch'):
    """Adds the comparison to Result r; failures have key 'grammar-mismatch'."""
    cs = cases(ctx, attempts, depth)
    jobs = [(s, t) for s, _ in cs for t in (0, 1)]
    got = gen.pmap(_impl, jobs)
    k = 0
    for s, exp in cs:
        for t in (0, 1):
            r.count(('gram', s, t), len(s) > 3)
            if got[k] != exp:
                r.fail(key, 'implementation differs from treeD of a document of the proved grammar',
                       input=s, tol=t, impl=got[k][:300], expected_tree=exp[:8000])
            k += 1
    r.bump('proved_grammar_documents', len(cs))
    if cs:
        r.sample({'proved_grammar_document': cs[len(cs) // 2][0][:120], 'treeD': cs[len(cs) // 2][1][:200]})
    return len(cs)


# ----------------------------------------------------------------------------- certificates
# For a concrete source the model driver (request `cert`) tokenizes and parses it, rebuilds a candidate
# document of the proved grammar from tokens + tree (an untrusted search, TexSoupModel/GrammarRecognize.lean)
# and EVALUATES the decidable hypotheses of the completeness theorems on it with the compiled verified
# definitions.  `toks && wf` are the hypotheses of theorem C02.cert_sound (parse s = treeD d, both modes);
# `sep && pos` say the document's tokens are a tokenizer output with running offsets (C02.document_parses);
# `canon && adj` (implied by `plain && adj`) add C01G.cert_sound / C01G.document_roundtrip.

CERT_CORE = ('wf', 'toks', 'sep', 'pos')


def cert_req(s, tol=0, skip=()):
    return 'cert %d %s %s' % (tol, ','.join(common.enc(x) for x in skip) if skip else '_', common.enc(s))


def parse_cert(line):
    """dict of flags for `CERT ok ...`, else the line itself (`CERT none <reason>` / `ERR ...`)."""
    if line.startswith('CERT ok '):
        return dict((k, v == '1') for k, v in (kv.split('=') for kv in line[8:].split()))
    return line


def classify(line):
    """-> (status, detail): 'certified' | 'certified-c01' | 'contradiction' | 'uncertified:<reason>'."""
    c = parse_cert(line)
    if not isinstance(c, dict):
        return 'uncertified:' + (c[10:] if c.startswith('CERT none ') else c), c
    if all(c[k] for k in CERT_CORE):
        if not c['tree']:
            return 'contradiction', c
        return ('certified-c01' if c['adj'] and c['plain'] else 'certified'), c
    return 'uncertified:not-' + '-'.join(k for k in CERT_CORE if not c[k]), c


def certify(srcs, skip=(), tol=0):
    """Certificates for a batch of sources (one skip tuple for all, or a list with one per source)."""
    srcs = list(srcs)
    skips = skip if (isinstance(skip, list) and len(skip) == len(srcs)) else [tuple(skip)] * len(srcs)
    lines = common.model_batch_parallel([cert_req(s, tol, k) for s, k in zip(srcs, skips)])
    return [classify(l) + (l,) for l in lines]


def tally(counter, status, prefix='cert'):
    """Count one classified certificate into a Counter / dict."""
    counter[prefix + '_documents'] = counter.get(prefix + '_documents', 0) + 1
    if status in ('certified', 'certified-c01'):
        counter[prefix + '_certified'] = counter.get(prefix + '_certified', 0) + 1
        if status == 'certified-c01':
            counter[prefix + '_certified_adjacent_plain'] = counter.get(prefix + '_certified_adjacent_plain', 0) + 1
    else:
        counter[prefix + '_' + status] = counter.get(prefix + '_' + status, 0) + 1


def contradiction(src, skip, line):
    return {'key': 'certificate-contradiction',
            'what': 'the hypotheses of theorem document_parses evaluate to true on the recognised document but '
                    'treeD d differs from the model\'s parse', 'input': src, 'skip': list(skip), 'certificate': line}


def run_corpus(r, docs, prefix='cert_corpus'):
    """Certify the corpus documents; statistics and contradictions into Result r.  Returns (certified, total)."""
    res = certify(docs)
    n = 0
    for d, (status, c, line) in zip(docs, res):
        tally(r.stats, status, prefix)
        if status == 'contradiction':
            r.failures.append(contradiction(d, (), line))
        if status.startswith('certified'):
            n += 1
            if n == 3:
                r.sample({'certified_corpus_document': d[:160], 'certificate': line})
    return n, len(docs)


def cert_sentence(stats, gen_prefix='cert', corpus_prefix='cert_corpus'):
    return ('%d of %d generated documents and %d of %d corpus documents were certified as instances of the proved '
            'grammar in this run (hypotheses evaluated by the compiled definitions)'
            % (stats.get(gen_prefix + '_certified', 0), stats.get(gen_prefix + '_documents', 0),
               stats.get(corpus_prefix + '_certified', 0), stats.get(corpus_prefix + '_documents', 0)))
