"""Documents of the PROVED grammar (lean/TexSoupModel/Grammar.lean), drawn by the model driver's `gram`
request: each is well-formed (`WFD`) and tokenizes back to its own tokens, i.e. satisfies the hypotheses of
theorem C02.document_parses, which says the model parses it to `treeD d`. Here the IMPLEMENTATION is run on
the same source and must return exactly that tree (positions included) in both tolerance modes – the tie
between the completeness theorem and the code."""
import common
import gen


_CASES = {}


def cases(ctx, attempts, depth=3, batches=16):
    key = (ctx.seed, attempts, depth, batches)
    if key not in _CASES:
        _CASES[key] = _cases(ctx, attempts, depth, batches)
    return _CASES[key]


def _cases(ctx, attempts, depth=3, batches=16):
    reqs = ['gram %d %d %d' % (ctx.rng('gram%d' % i).randrange(1 << 30), attempts // batches, depth) for i in range(batches)]
    out = []
    for line in _run(reqs):
        if not line.startswith('GRAM '):
            raise common.ModelError('gram request failed: ' + line[:100])
        body = line[5:]
        if not body:
            continue
        for item in body.split(' ## '):
            src, exp = item.split('\t')
            out.append((common.dec(src), exp))
    # distinct sources
    seen, res = set(), []
    for s, e in out:
        if s not in seen:
            seen.add(s)
            res.append((s, e))
    return res


def _run(reqs):
    from concurrent.futures import ThreadPoolExecutor
    with ThreadPoolExecutor(len(reqs)) as ex:
        return [x[0] for x in ex.map(lambda q: common.model_batch([q], timeout=900), reqs)]


def impl_tree(s, tol):
    return _impl((s, tol))


def _impl(case):
    s, tol = case
    line = common.impl_parse(s, tol)[0]
    return line[5:line.index(' SER ')] if line.startswith('TREE ') else line


def run(ctx, r, attempts, depth=3, key='grammar-mismatch'):
    """Adds the comparison to Result r; failures have key 'grammar-mismatch'."""
    cs = cases(ctx, attempts, depth)
    jobs = [(s, t) for s, _ in cs for t in (0, 1)]
    got = gen.pmap(_impl, jobs)
    k = 0
    for s, exp in cs:
        for t in (0, 1):
            r.count(('gram', s, t), len(s) > 3)
            if got[k] != exp:
                r.fail(key, 'implementation differs from treeD of a document of the proved grammar',
                       input=s, tol=t, impl=got[k][:300], expected_tree=exp[:8000])
            k += 1
    r.bump('proved_grammar_documents', len(cs))
    if cs:
        r.sample({'proved_grammar_document': cs[len(cs) // 2][0][:120], 'treeD': cs[len(cs) // 2][1][:200]})
    return len(cs)
