"""C03/C04 - navigation views with parent links: implementation side of the `nav` request.

`impl_nav(soup)` produces, from the REAL `TexNode` objects, the string that the Lean model's
`navHandle` (lean/TexSoupModel/NavDriver.lean) produces from the parsed tree: for the root and
then for every non-text node of `soup.descendants` (in that order) one record

    path|parentpath|C[..]|K[..]|D[..]|T[..]

joined by ' # '.  `path` is the structural address of the node: the steps from the root joined
by '.', a step being `b<j>` (element j of the parent's `_contents`) or `a<i>:<j>` (element j of
the `_contents` of the parent's i-th argument); the root is '-', its parent '^'.  Every step is
found by OBJECT IDENTITY (`is`) of `node.expr` inside `node.parent.expr`, following the real
`.parent` links up to the `soup` object itself, so a wrong, missing or dangling parent link
shows as a different path ('?' marks a step or chain that cannot be resolved).  `parentpath`
is computed the same way starting from `node.parent`.  C/K/D/T are the node's real `contents`,
`children`, `descendants` and `text`, each element as the encoding (common.enc) of its `str()`.

Python 3.12, standard library only; TexSoup is imported from REPO (default /repo).
"""
import os
import random
import sys

sys.path.insert(0, os.path.dirname(os.path.abspath(__file__)))
from common import enc, impl, impl_parse, classify_exc, model_batch  # noqa: E402
import common  # noqa: E402


# ----------------------------------------------------------------------------- implementation

def _locate(parent_expr, expr):
    """The step from `parent_expr` to `expr`, by identity."""
    for i, arg in enumerate(parent_expr.args):
        for j, c in enumerate(getattr(arg, '_contents', ())):
            if c is expr:
                return 'a%d:%d' % (i, j)
    for j, c in enumerate(parent_expr._contents):
        if c is expr:
            return 'b%d' % j
    return '?'


def _path(node, soup, limit=100000):
    """Steps from `soup` to `node` along the real parent links (None: chain does not end at
    the soup object)."""
    steps = []
    n = node
    while n is not soup:
        par = getattr(n, 'parent', None)
        if par is None or len(steps) > limit:
            return None
        steps.append(_locate(par.expr, n.expr))
        n = par
    steps.reverse()
    return steps


def _show_path(steps):
    if steps is None:
        return '?'
    return '.'.join(steps) if steps else '-'


def _sers(xs):
    return ','.join(enc(str(x)) for x in xs)


def _record(path, parent, node):
    return '%s|%s|C[%s]|K[%s]|D[%s]|T[%s]' % (
        path, parent, _sers(node.contents), _sers(node.children),
        _sers(list(node.descendants)), _sers(node.text))


def impl_nav(soup):
    """Canonical navigation record string of a parsed document (see module docstring)."""
    impl()
    from TexSoup.data import TexNode
    recs = [_record('-', '^', soup)]
    for d in soup.descendants:
        if not isinstance(d, TexNode):
            continue            # text: a bare Token/str, carries no parent
        par = d.parent
        recs.append(_record(_show_path(_path(d, soup)),
                            _show_path(_path(par, soup)) if par is not None else '?', d))
    return ' # '.join(recs)


def impl_nav_line(s, tol=0, skip=()):
    """What the driver answers to `nav_req(s, tol, skip)`, computed by the implementation."""
    res, soup, exc = impl_parse(s, tol, skip)
    if soup is None:
        return res
    try:
        return 'NAV ' + impl_nav(soup)
    except RecursionError:
        raise
    except Exception as e:      # a view that raises is a disagreement, reported as such
        return 'NAV-RAISED ' + classify_exc(e) + ' ' + type(e).__name__


def nav_req(s, tol=0, skip=()):
    return 'nav %d %s %s' % (tol, ','.join(enc(x) for x in skip) if skip else '_', enc(s))


# ----------------------------------------------------------------------------- documents

_CMDS = ['a', 'b', 'section', 'textbf', 'ref', 'item']
_ENVS = ['itemize', 'center', 'e', 'equation', 'align*']
_WORDS = ['x', 'y z', 'Hello', ' ', '\n', '  \n ', 'q.', '1+1', '\\%', '\\$', '~', 'a]b', '\t']


def _gen_args(rng, depth):
    out = ''
    for _ in range(rng.choice([0, 0, 1, 1, 2, 3])):
        if rng.random() < 0.25:
            out += rng.choice(['', ' ', '\n'])
        if rng.random() < 0.35:
            out += '[' + _gen_seq(rng, depth - 1, rng.randrange(0, 3), bracket=True) + ']'
        else:
            out += '{' + _gen_seq(rng, depth - 1, rng.randrange(0, 3)) + '}'
    return out


def _gen_elem(rng, depth, bracket=False):
    r = rng.random()
    if depth <= 0 or r < 0.30:
        w = rng.choice(_WORDS)
        return w.replace(']', '') if bracket else w
    if r < 0.50:
        return '\\' + rng.choice(_CMDS[:5]) + _gen_args(rng, depth)
    if r < 0.62:
        n = rng.choice(_ENVS)
        body = _gen_seq(rng, depth - 1, rng.randrange(0, 4))
        if n == 'itemize' and rng.random() < 0.8:
            body = ''.join(rng.choice(['', ' ', '\n']) + '\\item' + rng.choice(['', ' ', '[o]'])
                           + _gen_seq(rng, depth - 1, rng.randrange(0, 3))
                           for _ in range(rng.randrange(0, 4)))
        return '\\begin{%s}%s%s\\end{%s}' % (n, _gen_args(rng, depth) if rng.random() < 0.4 else '',
                                             body, n)
    if r < 0.72:
        return '{' + _gen_seq(rng, depth - 1, rng.randrange(0, 4)) + '}'
    if r < 0.90:
        o, c = rng.choice([('$', '$'), ('$$', '$$'), ('\\(', '\\)'), ('\\[', '\\]')])
        inner = _gen_seq(rng, depth - 1, rng.randrange(0, 3), math=True)
        return o + inner + c
    if r < 0.95:
        return '%' + rng.choice(['c', '', ' k ']) + '\n'
    return rng.choice(['\\\\', '\\newcommand{\\f}[1]{#1}', '\\begin{verbatim}$\\x{\\end{verbatim}',
                       '\\def\\g{h}', '\\newcommand\\h{i}'])


def _gen_seq(rng, depth, n, bracket=False, math=False):
    out = ''
    for _ in range(n):
        e = _gen_elem(rng, depth, bracket)
        if math and ('$' in e or '\\(' in e or '\\[' in e or '\\)' in e or '\\]' in e):
            e = 'm'
        out += e
    return out


def gen_doc(rng, depth=4, width=5):
    """A random document over the documented constructs (mostly well-formed)."""
    return _gen_seq(rng, depth, rng.randrange(0, width + 1))


# ----------------------------------------------------------------------------- comparison

def compare(docs, tol=0, driver_path=None, limit=10):
    """Run both sides on `docs`; returns (#agree, #trees, #records, disagreements)."""
    if driver_path:
        common.DRIVER = driver_path
    want = [impl_nav_line(s, tol) for s in docs]
    got = model_batch([nav_req(s, tol) for s in docs])
    bad = []
    trees = records = 0
    for s, w, g in zip(docs, want, got):
        if w.startswith('NAV '):
            trees += 1
            records += w.count(' # ') + 1
        if w != g and len(bad) < limit:
            bad.append((s, w, g))
    return sum(1 for w, g in zip(want, got) if w == g), trees, records, bad


FIXED = [
    '', ' ', 'x', '\\a', '\\a{b}', '\\a[ \\b]{\\c{d} e}', '{ {x} }', '$a$ $$b$$ \\(c\\) \\[d\\]',
    '\\begin{itemize}\n\\item A \\textbf{B}\n\\item[o] $c$\n\\end{itemize}',
    '\\begin{e}[ \\b]\n\\it A$B${\\b}\\end{e}', '\\newcommand\\foo{\\bar}', '\\section{ }\n\n\\ref{x}',
    '\\begin{equation}1+1\\end{equation}', '\\a{\\b{\\c{\\d{e}}}}', '{[}', '\\begin{e}{x}[y] z\\end{e}',
]

import gen as _gen  # noqa: E402
FIXED = FIXED + _gen.blank_run_docs()


def selftest(driver_path=None, n=3000, seed=0, verbose=True):
    """Differential self-test of `impl_nav` against the driver's `nav` request."""
    rng = random.Random('nav/%d' % seed)
    docs = list(FIXED) + [gen_doc(rng) for _ in range(n)]
    res = {}
    for tol in (0, 1):
        agree, trees, records, bad = compare(docs, tol, driver_path)
        res[tol] = (len(docs), agree, trees, records, bad)
        if verbose:
            print('nav selftest tol=%d: %d documents, %d agree, %d parsed trees, %d node records, '
                  '%d disagreements' % (tol, len(docs), agree, trees, records, len(docs) - agree))
            for s, w, g in bad[:3]:
                print('  doc  %r\n  impl %s\n  model %s' % (s, w[:400], g[:400]))
    return all(r[0] == r[1] for r in res.values()), res


if __name__ == '__main__':
    ok, _ = selftest(sys.argv[1] if len(sys.argv) > 1 else None)
    sys.exit(0 if ok else 1)
