"""Check driver shared by all properties (DESIGN.md section 6).

    ./check <ID> [--tier quick|thorough] [--replay FILE]

Steps: regenerate tables -> lake build (locked) -> audit (grep + #print axioms) ->
scoped correspondence model/implementation -> property oracle on the implementation ->
verdict -> evidence/<ID>.json.

Exit codes: 0 held, 1 violation (a `VIOLATION property=<id> replay=<path>` line is printed),
2 infrastructure failure (no VIOLATION line).
"""
import fcntl
import importlib
import json
import os
import re
import subprocess
import sys
import time
import traceback

HERE = os.path.dirname(os.path.abspath(__file__))
VERIF = os.path.dirname(HERE)
LEAN = os.environ.get('VERIF_LEAN_DIR') or os.path.join(VERIF, 'lean')
sys.path.insert(0, HERE)

import common  # noqa: E402

ACCEPTED_AXIOMS = {'propext', 'Classical.choice', 'Quot.sound'}
FORBIDDEN = re.compile(r'\bsorry\b|\badmit\b|^\s*axiom\s|native_decide|bv_decide|implemented_by|\bunsafe\s|maxHeartbeats\s+0')


class Infra(Exception):
    """Infrastructure failure: exit 2, never a violation."""


class Ctx:
    def __init__(self, pid, tier, seed):
        self.pid, self.tier, self.seed = pid, tier, seed
        self.t0 = time.time()
        self.notes = []

    @property
    def thorough(self):
        return self.tier == 'thorough'

    def rng(self, tag=''):
        import random
        return random.Random('%s/%d/%s' % (self.pid, self.seed, tag))

    def pick(self, quick, thorough):
        return thorough if self.thorough else quick

    def log(self, *a):
        print('[%s %5.1fs]' % (self.pid, time.time() - self.t0), *a, flush=True)


class Result:
    """Outcome of a correspondence run or of an oracle run."""

    def __init__(self):
        self.evaluations = 0
        self.nontrivial = set()      # hashes of distinct non-trivial cases
        self.failures = []           # dicts: {'key':..., 'what':..., 'input':..., ...}
        self.samples = []
        self.stats = {}
        self.rule = ''
        self.exhaustive = False

    def count(self, case_key, nontrivial=True):
        self.evaluations += 1
        if nontrivial:
            self.nontrivial.add(hash(case_key))

    def sample(self, x, limit=6):
        if len(self.samples) < limit:
            self.samples.append(x)

    def fail(self, key, what, **kw):
        d = {'key': key, 'what': what}
        d.update(kw)
        self.failures.append(d)

    def bump(self, name, n=1):
        self.stats[name] = self.stats.get(name, 0) + n


# ------------------------------------------------------------------------------------ build / audit

def sh(cmd, cwd=None, timeout=3600, env=None):
    p = subprocess.run(cmd, cwd=cwd, stdout=subprocess.PIPE, stderr=subprocess.STDOUT, timeout=timeout,
                       env=env)
    return p.returncode, p.stdout.decode(errors='replace')


def regenerate_tables(ctx):
    rc, out = sh(['/venv/bin/python', os.path.join(HERE, 'gen_tables.py')],
                 env=dict(os.environ, REPO=common.REPO))
    problems = [l for l in out.splitlines() if 'PROBLEM' in l]
    if rc not in (0, 1):
        raise Infra('gen_tables failed: ' + out[-400:])
    return problems, ('wrote' in out)


def lake_build(targets, ctx):
    """Build under a lock (checks may run concurrently). Returns (ok, output)."""
    lock = open(os.path.join(LEAN, '.build.lock'), 'w')
    fcntl.flock(lock, fcntl.LOCK_EX)
    try:
        rc, out = sh(['lake', 'build'] + targets, cwd=LEAN, timeout=3000)
    finally:
        fcntl.flock(lock, fcntl.LOCK_UN)
        lock.close()
    return rc == 0, out


def failing_modules(out):
    mods = set()
    for l in out.splitlines():
        m = re.match(r'^\s*- (TexSoup\S+|Driver\S*|tsmodel\S*)', l)
        if m:
            mods.add(m.group(1))
        m = re.match(r'^✖ \[\d+/\d+\] (?:Building|Running) (\S+)', l)
        if m:
            mods.add(m.group(1))
    return sorted(mods)


def grep_audit():
    """Forbidden constructs anywhere in the Lean sources (comments discarded)."""
    hits = []
    for root, _, files in os.walk(LEAN):
        if '.lake' in root:
            continue
        for fn in files:
            if not fn.endswith('.lean'):
                continue
            path = os.path.join(root, fn)
            in_block = 0
            for i, line in enumerate(open(path, encoding='utf-8'), 1):
                code = line
                # strip block comments (no nesting subtleties needed for our sources)
                out = ''
                j = 0
                while j < len(code):
                    if code.startswith('/-', j):
                        in_block += 1
                        j += 2
                    elif code.startswith('-/', j) and in_block:
                        in_block -= 1
                        j += 2
                    elif in_block:
                        j += 1
                    else:
                        out += code[j]
                        j += 1
                out = out.split('--')[0]
                if FORBIDDEN.search(out):
                    hits.append('%s:%d: %s' % (os.path.relpath(path, VERIF), i, line.strip()[:120]))
    return hits


def axiom_audit(imports, theorems, ctx):
    """`#print axioms` for every theorem; returns {theorem: [axioms]} ; missing theorem -> None."""
    if not theorems:
        return {}, ''
    src = ''.join('import %s\n' % m for m in imports)
    src += ''.join('#print axioms %s\n' % t for t in theorems)
    path = os.path.join(LEAN, '.lake', 'audit_%s_%d.lean' % (ctx.pid, os.getpid()))
    os.makedirs(os.path.dirname(path), exist_ok=True)
    open(path, 'w').write(src)
    try:
        rc, out = sh(['lake', 'env', 'lean', path], cwd=LEAN, timeout=1200)
    finally:
        try:
            os.remove(path)
        except OSError:
            pass
    res = {t: None for t in theorems}
    # messages: "'X' depends on axioms: [a, b]"  or "'X' does not depend on any axioms"
    flat = out.replace('\n', ' ')
    for t in theorems:
        short = t
        m = re.search(r"'%s' depends on axioms: \[([^\]]*)\]" % re.escape(short), flat)
        if m:
            res[t] = [a.strip() for a in m.group(1).split(',') if a.strip()]
        elif re.search(r"'%s' does not depend on any axioms" % re.escape(short), flat):
            res[t] = []
    return res, out


# ------------------------------------------------------------------------------------ known findings

def load_known(pid):
    path = os.path.join(VERIF, 'known_findings.txt')
    out = []
    if not os.path.exists(path):
        return out
    for line in open(path, encoding='utf-8'):
        line = line.strip()
        if not line.startswith('finding:'):
            continue
        fields = dict(re.findall(r'(\w+)=("(?:[^"\\]|\\.)*"|\S+)', line[len('finding:'):]))
        if fields.get('property') != pid:
            continue
        fields = {k: (json.loads(v) if v.startswith('"') else v) for k, v in fields.items()}
        out.append(fields)
    return out


# ------------------------------------------------------------------------------------ main

def write_replay(ctx, payload):
    d = os.path.join(os.environ.get('VERIF_OUT_DIR') or VERIF, 'replays')
    os.makedirs(d, exist_ok=True)
    path = os.path.join(d, '%s_%s_%d.json' % (ctx.pid, ctx.tier, ctx.seed))
    json.dump(payload, open(path, 'w'), indent=1, ensure_ascii=True)
    return os.path.relpath(path, VERIF)


def write_evidence(ctx, mod, cov, assumptions, violations):
    ev = {
        'property_id': ctx.pid, 'tier': ctx.tier, 'seed': ctx.seed, 'level': 'proof',
        'coverage': cov, 'assumptions': assumptions, 'wall_s': round(time.time() - ctx.t0, 2),
        'violations': violations,
    }
    d = os.path.join(os.environ.get('VERIF_OUT_DIR') or VERIF, 'evidence')
    os.makedirs(d, exist_ok=True)
    json.dump(ev, open(os.path.join(d, ctx.pid + '.json'), 'w'), indent=1, ensure_ascii=True)


def main(argv):
    import argparse
    ap = argparse.ArgumentParser()
    ap.add_argument('pid')
    ap.add_argument('--tier', default=os.environ.get('VERIF_TIER', 'quick'), choices=['quick', 'thorough'])
    ap.add_argument('--replay')
    a = ap.parse_args(argv)
    ctx = Ctx(a.pid, a.tier, common.seed())
    try:
        mod = importlib.import_module('props.' + a.pid.lower())
    except ImportError as e:
        print('no check for', a.pid, e)
        return 2
    try:
        if a.replay:
            return replay(ctx, mod, a.replay)
        return run(ctx, mod)
    except Infra as e:
        ctx.log('INFRASTRUCTURE FAILURE:', e)
        return 2
    except subprocess.TimeoutExpired as e:
        ctx.log('TIMEOUT:', e)
        return 2
    except common.ModelError as e:
        ctx.log('MODEL DRIVER FAILURE:', e)
        return 2


def replay(ctx, mod, path):
    payload = json.load(open(path if os.path.isabs(path) else os.path.join(VERIF, path)))
    ok, text = mod.replay(ctx, payload)
    print(text)
    return 0 if ok else 1


def run(ctx, mod):
    pid = ctx.pid
    broken = []          # proof obligations / ties that no longer check (strings)
    # 1. tables
    problems, changed = regenerate_tables(ctx)
    for p in problems:
        broken.append('table translator: ' + p)
    # 2. build
    targets = ['TexSoupModel', 'tsmodel'] + list(mod.LEAN_TARGETS)
    ok, out = lake_build(targets, ctx)
    driver_ok = os.path.exists(common.DRIVER)
    if not ok:
        bad = failing_modules(out)
        ctx.log('lake build failed for:', bad)
        model_bad = [m for m in bad if m.startswith('TexSoupModel') or m.startswith('Driver') or m.startswith('tsmodel')]
        if model_bad:
            # the model itself no longer compiles against the regenerated tables
            broken.append('model does not build against regenerated tables: ' + ', '.join(model_bad))
            # try to rebuild at least the driver from what is there
            driver_ok = False
        for m in bad:
            if m.startswith('TexSoupProofs'):
                broken.append('proof module no longer checks: ' + m)
        if not bad:
            raise Infra('lake build failed: ' + out[-600:])
    # 3. audit
    hits = grep_audit()
    if hits:
        for h in hits:
            broken.append('forbidden construct: ' + h)
    theorems = list(mod.THEOREMS)
    ax = {}
    if ok:
        ax, raw = axiom_audit(mod.LEAN_TARGETS, theorems, ctx)
        for t, a in ax.items():
            if a is None:
                broken.append('theorem missing or not checked: ' + t)
            elif not set(a) <= ACCEPTED_AXIOMS:
                broken.append('theorem %s depends on unaccepted axioms %s' % (t, a))
    discharged = sum(1 for t in theorems if ax.get(t) is not None and set(ax[t]) <= ACCEPTED_AXIOMS)
    rechecked = None
    if ok and ctx.thorough and mod.LEAN_TARGETS:
        # independent re-check of the compiled proof modules by the toolchain's own checker
        rc, out = sh(['lake', 'env', 'leanchecker'] + list(mod.LEAN_TARGETS), cwd=LEAN, timeout=3000)
        rechecked = (rc == 0)
        if rc != 0:
            broken.append('leanchecker rejects %s: %s' % (' '.join(mod.LEAN_TARGETS), out[-300:]))
        ctx.log('leanchecker:', 'ok' if rc == 0 else 'FAILED')
    ctx.log('obligations %d discharged %d' % (len(theorems), discharged))
    used_axioms = sorted({x for a in ax.values() if a for x in a})

    # 4. correspondence
    corr = Result()
    if driver_ok:
        corr = mod.correspondence(ctx)
        ctx.log('correspondence: %d cases, %d disagreements' % (corr.evaluations, len(corr.failures)))
        for f in corr.failures[:3]:
            ctx.log('  disagreement:', json.dumps(f, ensure_ascii=True)[:400])
        if corr.failures:
            broken.append('correspondence model/implementation: %d disagreements (first: %s)' % (
                len(corr.failures), json.dumps(corr.failures[0], ensure_ascii=True)[:300]))
    else:
        broken.append('model driver unavailable')

    # 5. oracle on the implementation (= failing-input search); diverging inputs first
    seeds = [f.get('input') for f in corr.failures if f.get('input') is not None][:200]
    orc = mod.oracle(ctx, seeds, 4 if broken else 1)
    ctx.log('oracle: %d cases, %d failures' % (orc.evaluations, len(orc.failures)))

    known = load_known(pid)
    known_keys = {k['key'] for k in known}
    known_hits = {}
    new_failures = []
    for f in orc.failures:
        if f['key'] in known_keys:
            known_hits.setdefault(f['key'], f)
        else:
            new_failures.append(f)
    # every listed finding is replayed: it must still fail, and is then reported as known
    for k in known:
        still = mod.replay_known(ctx, k)
        if still:
            print('KNOWN-FINDING: property=%s %s' % (pid, k.get('what', k['key'])))
        else:
            ctx.log('note: listed finding %s no longer reproduces' % k['key'])

    violations = 0
    verdict = 0
    if new_failures:
        violations = len(new_failures)
        f = new_failures[0]
        path = write_replay(ctx, {'property': pid, 'kind': 'failing-input', 'failure': f,
                                  'broken': broken, 'more': new_failures[1:10]})
        ctx.log('failing input:', json.dumps(f, ensure_ascii=True)[:500])
        print('VIOLATION property=%s replay=%s' % (pid, path))
        verdict = 1
    elif broken:
        violations = 1
        path = write_replay(ctx, {'property': pid, 'kind': 'no-longer-shown', 'broken': broken,
                                  'disagreements': corr.failures[:10]})
        for b in broken[:5]:
            ctx.log('broken:', b[:300])
        print('VIOLATION property=%s replay=%s no-failing-input-found' % (pid, path))
        verdict = 1

    cov = {
        'obligations': len(theorems), 'discharged': discharged,
        'checker_cmd': 'cd lean && lake build %s && lake env lean <audit: #print axioms of each theorem>' % ' '.join(mod.LEAN_TARGETS),
        'trusted_base': ['Lean 4.33 kernel'] + ['axiom ' + a for a in used_axioms] + list(getattr(mod, 'TRUSTED', [])),
        'theorems': {t: ax.get(t) for t in theorems},
        'leanchecker_recheck': rechecked,
        'partial_clauses': list(getattr(mod, 'PARTIAL', [])),
        'traces_validated_against_impl': corr.evaluations,
        'correspondence': {'cases': corr.evaluations, 'distinct_nontrivial': len(corr.nontrivial),
                           'disagreements': len(corr.failures), 'rule': corr.rule, 'stats': corr.stats,
                           'exhaustive': corr.exhaustive, 'samples': corr.samples},
        'evaluations': orc.evaluations + corr.evaluations,
        'distinct_nontrivial': len(orc.nontrivial) + len(corr.nontrivial),
        'rule': orc.rule,
        'samples': orc.samples or corr.samples or ['(none)'],
        'oracle': {'cases': orc.evaluations, 'distinct_nontrivial': len(orc.nontrivial),
                   'failures': len(orc.failures), 'known_findings_hit': sorted(known_hits), 'stats': orc.stats,
                   'exhaustive': orc.exhaustive},
        'broken': broken,
    }
    write_evidence(ctx, mod, cov, list(getattr(mod, 'ASSUMPTIONS', [])), violations)
    ctx.log('done: exit', verdict)
    return verdict


if __name__ == '__main__':
    sys.exit(main(sys.argv[1:]))
