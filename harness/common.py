"""Shared machinery of the checks: implementation access, canonical forms, model driver.

Everything runs in /venv/bin/python with TexSoup imported from the working tree of the
repository (REPO env, default /repo), in-process.
"""
import json
import os
import random
import subprocess
import sys
import time

REPO = os.environ.get('REPO', '/repo')
VERIF = os.path.dirname(os.path.dirname(os.path.abspath(__file__)))
LEAN = os.environ.get('VERIF_LEAN_DIR') or os.path.join(VERIF, 'lean')   # seeded runs use a private copy
DRIVER = os.path.join(LEAN, '.lake', 'build', 'bin', 'tsmodel')

if sys.path[0] != REPO:
    sys.path.insert(0, REPO)
sys.setrecursionlimit(20000)


def impl():
    """The implementation's modules, freshly imported from REPO."""
    import TexSoup
    import TexSoup.utils, TexSoup.category, TexSoup.tokens, TexSoup.reader, TexSoup.data, TexSoup.tex
    assert os.path.realpath(TexSoup.__file__).startswith(os.path.realpath(REPO) + os.sep), TexSoup.__file__
    if not getattr(TexSoup.TexSoup, '_verif_watchdog', False):
        # every parse the harness asks for runs under the watchdog (a hang becomes ImplHang, not a stuck check)
        inner = TexSoup.TexSoup

        def TexSoup_watched(*a, **k):
            with time_limit():
                return inner(*a, **k)
        TexSoup_watched._verif_watchdog = True
        TexSoup_watched.__doc__ = inner.__doc__
        TexSoup.TexSoup = TexSoup_watched
    return TexSoup


# ----------------------------------------------------------------------------- codec

def enc(s):
    return '.'.join(str(ord(c)) for c in s) if s else '-'


def dec(w):
    return '' if w == '-' else ''.join(chr(int(x)) for x in w.split('.'))


# ----------------------------------------------------------------------------- errors

DIAGNOSTIC = {'EOFError': 'ERR EOF', 'TypeError': 'ERR TYPE', 'AssertionError': 'ERR ASSERT'}


class ImplHang(Exception):
    """The implementation did not return within IMPL_TIME_LIMIT seconds (treated as non-termination)."""


IMPL_TIME_LIMIT = int(os.environ.get('VERIF_IMPL_TIME_LIMIT', '20'))


class time_limit:
    """Watchdog around one call into the implementation (main thread only; a no-op elsewhere), counting the
    CPU time of this process (ITIMER_VIRTUAL), so that a loaded machine cannot make a terminating call look
    like a hang. The proved model terminates on every input (structural recursion on fuel); a call into the
    code that does not is reported as `ERR HANG`, which no model answer equals."""

    hangs = 0      # per process; after two hangs the limit drops so that a looping change cannot stall a check for hours

    def __init__(self, seconds=None):
        self.seconds = seconds or (IMPL_TIME_LIMIT if time_limit.hangs < 2 else min(IMPL_TIME_LIMIT, 3))
        self.armed = False

    def _fire(self, signum, frame):
        time_limit.hangs += 1
        raise ImplHang('no answer within %d s of CPU time' % self.seconds)

    def __enter__(self):
        import signal
        import threading
        if threading.current_thread() is threading.main_thread():
            self.old = signal.signal(signal.SIGVTALRM, self._fire)
            signal.setitimer(signal.ITIMER_VIRTUAL, self.seconds)
            self.armed = True
        return self

    def __exit__(self, *exc):
        if self.armed:
            import signal
            signal.setitimer(signal.ITIMER_VIRTUAL, 0)
            signal.signal(signal.SIGVTALRM, self.old)
        return False


def classify_exc(e):
    """Map a Python exception to the model's error vocabulary."""
    if isinstance(e, ImplHang):
        return 'ERR HANG'
    n = type(e).__name__
    return DIAGNOSTIC.get(n, 'ERR INTERNAL')


# ----------------------------------------------------------------------------- canonical forms

def canon_cat(chars):
    return ' '.join('%d@%d:%s' % (ord(str(c)), c.position, c.category.name) for c in chars)


def canon_tokens(tokens):
    return 'TOK ' + ' '.join('%s@%d:%s' % (enc(str(t)), t.position, t.category.name) for t in tokens)


def canon_expr(e):
    """S-expression of a TexExpr (or a bare Token / str stored in contents)."""
    from TexSoup import data as D
    from TexSoup.utils import Token
    if isinstance(e, D.TexNode):       # never stored after the repair of F7; flagged if it is
        return '(NODE %s)' % canon_expr(e.expr)
    if isinstance(e, D.TexText):
        t = e._text
        pos = t.position if isinstance(t, Token) and t.position is not None else -1
        return '(t %d %s)' % (pos, enc(str(t)))
    if isinstance(e, Token):
        return '(t %d %s)' % (e.position if e.position is not None else -1, enc(e.text))
    if isinstance(e, str):
        return '(t -1 %s)' % enc(e)
    args = ' '.join(canon_expr(a) for a in e.args)
    body = ' '.join(canon_expr(c) for c in e._contents)
    if isinstance(e, D.TexCmd):
        return '(c %s %d [%s] [%s])' % (enc(str(e.name)), e.position, args, body)
    if isinstance(e, D.TexNamedEnv):
        return '(e %s %d [%s] [%s])' % (enc(str(e.name)), e.position, args, body)
    kinds = {D.TexDisplayMathModeEnv: 'm ddollar', D.TexMathModeEnv: 'm dollar',
             D.TexDisplayMathEnv: 'm displaymath', D.TexMathEnv: 'm math',
             D.BracketGroup: 'g bracket', D.BraceGroup: 'g brace'}
    k = kinds.get(type(e))
    if k is None:
        return '(UNKNOWN %s)' % type(e).__name__
    if e.args:
        return '(ARGS-ON-%s)' % k
    return '(%s %d [%s])' % (k, e.position, body)


def canon_root(soup):
    return '[%s]' % ' '.join(canon_expr(c) for c in soup.expr._contents)


def impl_parse(s, tol=0, skip=()):
    """Canonical result of TexSoup(s): 'TREE [...] SER ...' or 'ERR ...' (+ exception)."""
    T = impl()
    try:
        with time_limit():
            soup = T.TexSoup(s, skip_envs=tuple(skip), tolerance=tol)
        return 'TREE %s SER %s' % (canon_root(soup), enc(str(soup))), soup, None
    except RecursionError:
        raise
    except BaseException as e:      # noqa: we classify everything
        if isinstance(e, (KeyboardInterrupt, SystemExit)):
            raise
        return classify_exc(e), None, e


def impl_tokens(s):
    T = impl()
    from TexSoup.category import categorize
    from TexSoup.tokens import tokenize
    try:
        with time_limit():
            toks = list(tokenize(categorize(s)))
        return canon_tokens(toks), None
    except BaseException as e:
        if isinstance(e, (KeyboardInterrupt, SystemExit)):
            raise
        return classify_exc(e), e


def impl_token_list(s):
    """list(tokenize(categorize(s))) under the watchdog (raises ImplHang when it does not return)."""
    impl()
    from TexSoup.category import categorize
    from TexSoup.tokens import tokenize
    with time_limit():
        return list(tokenize(categorize(s)))


def parse_req(s, tol=0, skip=()):
    return 'parse %d %s %s' % (tol, ','.join(enc(x) for x in skip) if skip else '_', enc(s))


# ----------------------------------------------------------------------------- model driver

class ModelError(Exception):
    pass


def model_batch(lines, timeout=600):
    """Send request lines to the compiled model driver, return its answer lines."""
    if not lines:
        return []
    if not os.path.exists(DRIVER):
        raise ModelError('model driver not built: %s' % DRIVER)
    data = ('\n'.join(lines) + '\n').encode()
    p = subprocess.run([DRIVER], input=data, stdout=subprocess.PIPE, stderr=subprocess.PIPE,
                       timeout=timeout)
    if p.returncode != 0:
        raise ModelError('driver exit %d: %s' % (p.returncode, p.stderr.decode()[-300:]))
    out = p.stdout.decode().split('\n')
    if out and out[-1] == '':
        out.pop()
    if len(out) != len(lines):
        raise ModelError('driver answered %d lines for %d requests' % (len(out), len(lines)))
    return out


def model_batch_parallel(lines, jobs=None, timeout=900):
    """Same, split over several driver processes."""
    from concurrent.futures import ThreadPoolExecutor
    jobs = jobs or min(16, os.cpu_count() or 1)
    if len(lines) < 2000 or jobs == 1:
        return model_batch(lines, timeout)
    n = (len(lines) + jobs - 1) // jobs
    chunks = [lines[i:i + n] for i in range(0, len(lines), n)]
    with ThreadPoolExecutor(len(chunks)) as ex:
        res = list(ex.map(lambda c: model_batch(c, timeout), chunks))
    return [x for r in res for x in r]


# ----------------------------------------------------------------------------- misc

def seed():
    try:
        return int(os.environ.get('VERIF_SEED', '0'))
    except ValueError:
        return 0


def rng(tag=''):
    return random.Random('%d/%s' % (seed(), tag))
