"""Oracle helpers shared by the reader properties (implementation side, no model)."""
import re
import sys
import time

import common

WS = ' \t\n\r'


def aligned(s, out, allow_insert=False):
    """Is `out` obtained from `s` by deleting whitespace runs that stand directly before an
    opening brace/bracket (C08) and - if allow_insert - by inserting closing delimiters
    `}`, `]`, `\\end{name}` (C07c)?  Iterative DFS with memo."""
    n, m = len(s), len(out)
    # next opener after a whitespace run starting at i: jump[i] = k if s[i:k] is whitespace and s[k] in '{['
    jump = [None] * (n + 1)
    for i in range(n - 1, -1, -1):
        if s[i] in WS:
            if i + 1 < n and s[i + 1] in '{[':
                jump[i] = i + 1
            elif i + 1 < n and jump[i + 1] is not None:
                jump[i] = jump[i + 1]
    end_re = re.compile(r'\\end\{[^{}]*\}')
    seen = set()
    stack = [(0, 0)]
    while stack:
        i, j = stack.pop()
        if (i, j) in seen:
            continue
        seen.add((i, j))
        if i == n and j == m:
            return True
        if i < n and j < m and s[i] == out[j]:
            stack.append((i + 1, j + 1))
        if i < n and jump[i] is not None:
            stack.append((jump[i], j))
        if allow_insert and j < m:
            if out[j] in '}]':
                stack.append((i, j + 1))
            if out.startswith('\\end{', j):
                # an inserted \end{name}: the name may itself contain braces
                k = out.find('}', j + 5)
                while k != -1:
                    stack.append((i, k + 1))
                    k = out.find('}', k + 1)
    return False


# the commands whose mandatory arguments the side condition of C08/C16 is about ("the mandatory arguments of \\def,
# \\textbf, \\section and \\label are brace-delimited"): written down from the property, not read off the code
SIDE_CONDITION_COMMANDS = ('def', 'textbf', 'section', 'label')


def has_bare_args(soup, owners=None):
    """Does the tree contain an argument made up from a bare token or bare command
    (`'{%s}' % token` / `TexCmd(name)` in an argument list)?  Side condition of C08/C16.
    The side condition only covers the four commands it names: a made-up argument of ANY OTHER command is not
    excused (`owners` collects the names of the commands that own one)."""
    from TexSoup import data as D

    def walk(e):
        if isinstance(e, D.TexExpr) and not isinstance(e, D.TexText):
            for a in e.args:
                if isinstance(a, D.TexCmd) or (isinstance(a, D.TexGroup) and a.position == -1):
                    if owners is not None:
                        owners.add(str(e.name))
                        continue
                    return True
                if walk(a):
                    return True
            for c in e._contents:
                if walk(c):
                    return True
        return False
    return walk(soup.expr)


def excused_bare_args(soup):
    """True iff the tree has made-up arguments and ALL of them belong to the commands the side condition names."""
    owners = set()
    has_bare_args(soup, owners)
    return bool(owners) and owners <= set(SIDE_CONDITION_COMMANDS)


def unexcused_bare_args(soup):
    owners = set()
    has_bare_args(soup, owners)
    return sorted(owners - set(SIDE_CONDITION_COMMANDS))


_POS = re.compile(r'\((t|c \S+|e \S+|m \w+|g \w+) -?\d+')


def strip_positions(canon):
    return _POS.sub(lambda m: '(' + m.group(1), canon)


def size_prefix_detached(s):
    """C16's side condition fails: a sizing prefix (\\left, \\big, ...) not immediately followed
    by its delimiter shows up as a plain CommandName token."""
    from TexSoup.category import categorize
    from TexSoup.tokens import tokenize, SIZE_PREFIX
    from TexSoup.utils import TC
    try:
        prev = None
        for t in common.impl_token_list(s):
            if t.category == TC.CommandName and prev is not None and prev.category == TC.Escape \
                    and t.text in SIZE_PREFIX:
                return True
            prev = t
    except Exception:
        return False
    return False


F4B = re.compile(r'\\(begin|end)[ \t\n\r]*(\[|\{[ \t\n\r]|\{[^{}]*[ \t\n\r]\})')


_F4B_HEAD = re.compile(r'\\(begin|end)[ \t\n\r]*([\[{])')


def f4b_class(s):
    """Does the input belong to the input class of the recorded finding F4b: an environment name given as
    a bracket group, or with blanks at the border of the brace group that names it (also when that group
    is unclosed and runs to the end of the input)?  A failure on such an input is attributed to F4b;
    every other failing input of the property is a new violation."""
    for m in _F4B_HEAD.finditer(s):
        if m.group(2) == '[':
            if m.group(1) == 'begin':
                return True
            continue
        k = m.end()                      # first character of the name
        if k < len(s) and s[k] in WS:
            return True
        depth, i = 1, k
        while i < len(s) and depth:
            if s[i] == '\\' and i + 1 < len(s):
                i += 2
                continue
            if s[i] == '{':
                depth += 1
            elif s[i] == '}':
                depth -= 1
            i += 1
        if depth == 0:
            close = i - 1
            if close > k and (s[close - 1] in WS):
                return True
        elif s and s[-1] in WS:          # unclosed name group, input ends in blanks
            return True
    return False


def f4b_repair(s):
    """Neutralise the recorded finding F4b in an input: blank-padded or bracket-delimited
    environment names. Returns the repaired string (equal to s if nothing applies)."""
    s2 = re.sub(r'\\(begin|end)([ \t\n\r]*)\[([^\[\]{}]*)\]', lambda m: '\\%s%s{%s}' % (m.group(1), m.group(2), m.group(3)), s)
    s2 = re.sub(r'\\(begin|end)([ \t\n\r]*)\{[ \t\n\r]*([^{}]*?)[ \t\n\r]*\}',
                lambda m: '\\%s%s{%s}' % (m.group(1), m.group(2), m.group(3)), s2)
    s2 = re.sub(r'\\(begin|end)([ \t\n\r]*)\[', lambda m: '\\%s%s{' % (m.group(1), m.group(2)), s2)
    # blanks right after the opening brace of the name, and (unclosed, tolerant mode) blanks that end the input
    s2 = re.sub(r'\\(begin|end)([ \t\n\r]*)\{[ \t\n\r]+', lambda m: '\\%s%s{' % (m.group(1), m.group(2)), s2)
    s2 = re.sub(r'(\\(?:begin|end)[ \t\n\r]*\{[^{}]*?)[ \t\n\r]+$', lambda m: m.group(1), s2)
    return s2


_HIDDEN = re.compile(r'\\(begin|end)[ \t\n\r]*[\[{][^{}]*\\(def|textbf|section|label)(?![A-Za-z*])')


def hidden_bare(s):
    """A fixed-signature command inside the group that names an environment: its (possibly made-up)
    argument ends up in the environment *name*, where has_bare_args cannot see it. Such inputs are
    outside the side condition of C08/C16 ("mandatory arguments ... are brace-delimited") unless
    proven otherwise, so they are skipped."""
    return _HIDDEN.search(s) is not None


def name_not_in_source(s, soup):
    """Some environment's name (the stringified group after \\begin) does not occur in the source: the group
    that named it contained something the serialiser rewrites (a made-up `{..}` of a bare argument, a dropped
    spacer). That group is discarded by the parser, so has_bare_args cannot see it; such inputs are outside the
    side condition of C07c/C08/C16 and are skipped."""
    from TexSoup import data as D

    def walk(e):
        if isinstance(e, D.TexNamedEnv) and str(e.name) not in s:
            return True
        if isinstance(e, D.TexExpr) and not isinstance(e, D.TexText):
            for a in e.args:
                if walk(a):
                    return True
            for c in e._contents:
                if walk(c):
                    return True
        return False
    return walk(soup.expr)


def timed_parse(s, tol=0, skip=()):
    t = time.time()
    line, soup, exc = common.impl_parse(s, tol, skip)
    return line, soup, exc, time.time() - t


def mini_doc(rng, depth=3, allow_math=False):
    """A small well-formed document without math, verbatim or list regions (C07b)."""
    names = ['x', 'yy', 'foo', 'emph', 'ref']
    envs = ['a', 'bb', 'center', 'tabular']

    def text():
        return rng.choice(['a', 'bc ', ' d', 'e f', 'g\n', '1', ', '])

    def elem(d):
        k = rng.randrange(8)
        if d <= 0 or k < 3:
            return text()
        if k == 3:
            return '{' + seq(d - 1) + '}'
        if k in (4, 5):
            n = rng.choice(names)
            br = ''.join('[' + seq_noclose(d - 1) + ']' for _ in range(rng.randrange(2)))
            cu = ''.join('{' + seq(d - 1) + '}' for _ in range(rng.randrange(3)))
            tail = rng.choice([' ', '. ', ', '])
            return '\\' + n + br + cu + tail
        e = rng.choice(envs)
        args = ''.join('{' + seq(d - 1) + '}' for _ in range(rng.randrange(2)))
        return '\\begin{' + e + '}' + args + 'z' + seq(d - 1) + '\\end{' + e + '}'

    def seq(d):
        return ''.join(elem(d) for _ in range(rng.randint(1, 3)))

    def seq_noclose(d):
        return rng.choice(['o', 'p q', '1'])
    return seq(depth)
