"""Shared machinery of the grammar-document checks (C01, C02, C09-C12).

* walking the REAL tree (`TexExpr` objects) independently of the navigation API,
* implementation side of the driver's `find` request,
* span extraction of the real tree in the order of `gen_doc.spans`,
* seeded, process-parallel generation + evaluation of documents.
"""
import collections
import re

import common
import gen
import gen_doc as G
from common import enc, impl, impl_parse, classify_exc


# ----------------------------------------------------------------------------- the real tree

def is_token(x):
    from TexSoup.utils import Token
    from TexSoup.data import TexExpr
    return isinstance(x, Token) and not isinstance(x, TexExpr)


def leaf_token(x):
    """The Token behind a text element of a contents list (TexText, bare Token), else None."""
    from TexSoup.data import TexText
    from TexSoup.utils import Token
    if isinstance(x, TexText):
        t = x._text
        return t if isinstance(t, Token) else None
    if is_token(x):
        return x
    return None


def tag_of(e):
    from TexSoup import data as D
    if isinstance(e, D.TexCmd):
        return 'c'
    if isinstance(e, D.TexNamedEnv):
        return 'e'
    if isinstance(e, D.TexGroup):
        return 'g'
    if isinstance(e, D.TexEnv):
        return 'm'
    return '?'


def walk_exprs(soup):
    """Every element of the real tree, pre-order (node, its argument groups, its contents):
    yields (element, parent_expr, where) with where = 'arg' | 'body'."""
    from TexSoup.data import TexExpr, TexText

    def go(e, parent, where):
        yield e, parent, where
        if isinstance(e, TexText) or not isinstance(e, TexExpr):
            return
        for a in e.args:
            yield from go(a, e, 'arg')
        for c in e._contents:
            yield from go(c, e, 'body')

    for c in soup.expr._contents:
        yield from go(c, soup.expr, 'body')


def impl_spans(soup, texts=True):
    """[(tag, start, end)] of the real tree in the order of gen_doc.spans: non-text nodes with
    end = start + len(str(node)); maximal runs of contiguous text tokens as ('t', start, end)."""
    from TexSoup.data import TexExpr, TexText
    out = []

    def seq(xs):
        run = None
        for x in xs:
            if isinstance(x, TexExpr) and not isinstance(x, TexText):
                if run is not None:
                    out.append(tuple(run))
                    run = None
                one(x)
                continue
            if not texts:
                continue
            txt = str(x)
            if not txt:
                continue
            t = leaf_token(x)
            p = t.position if t is not None and t.position is not None else -1
            if run is not None and run[2] == p:
                run[2] = p + len(txt)
            else:
                if run is not None:
                    out.append(tuple(run))
                run = ['t', p, p + len(txt)]
        if run is not None:
            out.append(tuple(run))

    def one(e):
        out.append((tag_of(e), e.position, e.position + len(str(e))))
        for a in e.args:
            if isinstance(a, TexExpr):
                one(a)
        seq(e._contents)

    seq(soup.expr._contents)
    return out


# ----------------------------------------------------------------------------- find

def find_req(s, names, tol=0, skip=()):
    """Driver request: one name -> Query.name, several -> Query.names."""
    q = ','.join(enc(n) for n in names) if not isinstance(names, str) else enc(names)
    return 'find %d %s %s %s' % (tol, ','.join(enc(x) for x in skip) if skip else '_', enc(s), q)


def impl_find_line(s, names, tol=0, skip=()):
    """What the driver answers to find_req, computed from the real objects: the matches of the
    root, then of every non-text node of soup.descendants, each as the encodings of str(match)."""
    res, soup, exc = impl_parse(s, tol, skip)
    if soup is None:
        return res
    from TexSoup.data import TexNode
    q = names if isinstance(names, str) else list(names)

    def sers(xs):
        return ','.join(enc(str(x)) for x in xs)

    try:
        nodes = [d for d in soup.descendants if isinstance(d, TexNode)]
        recs = [sers(soup.find_all(q))] + [sers(n.find_all(q)) for n in nodes]
        return 'FIND ' + ' # '.join(recs)
    except RecursionError:
        raise
    except Exception as e:
        return 'FIND-RAISED ' + classify_exc(e) + ' ' + type(e).__name__


def impl_find_from(parsed, names):
    """impl_find_line for an already parsed document (parsed = result of impl_parse)."""
    res, soup, exc = parsed
    if soup is None:
        return res
    from TexSoup.data import TexNode
    q = names if isinstance(names, str) else list(names)

    def sers(xs):
        return ','.join(enc(str(x)) for x in xs)

    try:
        nodes = [d for d in soup.descendants if isinstance(d, TexNode)]
        return 'FIND ' + ' # '.join([sers(soup.find_all(q))] + [sers(n.find_all(q)) for n in nodes])
    except RecursionError:
        raise
    except Exception as e:
        return 'FIND-RAISED ' + classify_exc(e) + ' ' + type(e).__name__


def found(soup, name):
    """str of every node found by find_all(name) from the root."""
    return [str(x) for x in soup.find_all(name)]


# ----------------------------------------------------------------------------- corpus helper

_WS_BEFORE_OPENER = re.compile(r'[ \t\n\r]+(?=[\[{])')


def explained_by_dropped_spacers(src, out):
    """Is `out` = `src` minus whitespace that stands directly before '{' or '['?  (C08 allows
    exactly that; such documents are outside C01's adjacency clause.)"""
    return len(out) < len(src) and _WS_BEFORE_OPENER.sub('', src) == _WS_BEFORE_OPENER.sub('', out)


# ----------------------------------------------------------------------------- parallel jobs

def run_jobs(fn, jobs, chunk=1):
    """Order-preserving parallel map of a module-level function over job descriptions (each job
    derives its own random.Random from the strings in it, so the result is reproducible whatever
    the scheduling)."""
    jobs = list(jobs)
    if len(jobs) <= 1:
        return [fn(j) for j in jobs]
    import multiprocessing as mp
    import os
    n = min(16, os.cpu_count() or 1, len(jobs))
    ctx = mp.get_context('fork')
    with ctx.Pool(n) as pool:
        return pool.map(fn, jobs, chunksize=chunk)


def split(total, per):
    """Job sizes: `total` items in jobs of at most `per`."""
    out = []
    while total > 0:
        k = min(per, total)
        out.append(k)
        total -= k
    return out


class Stats:
    """Input-distribution statistics merged over jobs."""

    def __init__(self):
        self.c = collections.Counter()
        self.sizes = []
        self.depths = collections.Counter()

    def doc(self, src, ast):
        self.sizes.append(len(src))
        self.depths[min(G.depth(ast), 16)] += 1
        for k in G.constructs(ast):
            self.c['construct:' + k] += 1
        if ast.meta and ast.meta.get('twins'):
            self.c['docs_with_textual_twins'] += 1
        if ast.skip:
            self.c['docs_with_user_verbatim_names'] += 1

    def merge(self, other):
        self.c.update(other.c)
        self.sizes += other.sizes
        self.depths.update(other.depths)

    def into(self, r):
        for k, v in sorted(self.c.items()):
            r.stats[k] = r.stats.get(k, 0) + v
        if self.sizes:
            s = sorted(self.sizes)
            r.stats['size_median'] = s[len(s) // 2]
            r.stats['size_p90'] = s[(len(s) * 9) // 10]
            r.stats['size_max'] = s[-1]
            r.stats['size_total_chars'] = sum(s)
        for d, n in sorted(self.depths.items()):
            r.stats['depth:%02d%s' % (d, '+' if d == 16 else '')] = n


def parse_err_kind(line):
    return line if line.startswith('ERR') else 'TREE'


# ----------------------------------------------------------------------------- document jobs

def eval_docs(job):
    """Worker: generate job['n'] documents with job['gen'](rng, i) -> (src, ast, extra), parse each
    once per tolerance with the implementation, ask the model driver for the same parses (if
    job['model']) and run job['oracle'](src, ast, extra, parsed) -> [(key, what, info)] on the
    strict parse.  Everything is derived from random.Random(job['seed']).

    Returns a dict of plain data: counts, disagreements, oracle failures, statistics."""
    import random
    rng = random.Random(job['seed'])
    gen_fn, oracle_fn = job['gen'], job.get('oracle')
    tols = job.get('tols', (0,))
    with_model = job.get('model', True)
    st = Stats()
    out = {'n': 0, 'n_orc': 0, 'corr_cases': 0, 'corr_fail': [], 'orc_fail': [], 'hashes': set(), 'sample': None,
           'stats': st}
    docs = []
    for i in range(job['n']):
        src, ast, extra = gen_fn(rng, i, job)
        docs.append((src, ast, extra))
    reqs, want = [], []
    for src, ast, extra in docs:
        skip = ast.skip if ast is not None else (extra or {}).get('skip', ())
        parsed0 = None
        for tol in tols:
            p = impl_parse(src, tol, skip)
            if tol == 0:
                parsed0 = p
            st.c['parse:%s:tol%d' % (parse_err_kind(p[0]), tol)] += 1
            if with_model:
                reqs.append(common.parse_req(src, tol, skip))
                want.append((src, tol, skip, p[0]))
        if parsed0 is None:
            parsed0 = impl_parse(src, 0, skip)
        out['n'] += 1
        if ast is not None:
            st.doc(src, ast)
        nontrivial = job['nontrivial'](src, ast, extra) if job.get('nontrivial') else True
        if nontrivial:
            out['hashes'].add(hash(src))
        if oracle_fn is not None:
            out['n_orc'] += 1
            for key, what, info in (oracle_fn(src, ast, extra, parsed0) or ()):
                if len(out['orc_fail']) < 40:
                    d = {'key': key, 'what': what, 'input': src, 'skip': list(skip)}
                    d.update(info or {})
                    out['orc_fail'].append(d)
                st.c['oracle_failure:' + key] += 1
        if with_model and job.get('finds'):
            for name in job['finds'](src, ast, extra):
                reqs.append(find_req(src, name, 0, skip))
                want.append((src, 'find %r' % (name,), skip, impl_find_from(parsed0, name)))
        if out['sample'] is None and len(src) > 20:
            out['sample'] = {'input': src[:300], 'result': parsed0[0][:200]}
    if with_model and reqs:
        got = common.model_batch(reqs)
        for (src, tol, skip, w), g in zip(want, got):
            out['corr_cases'] += 1
            if w != g and len(out['corr_fail']) < 40:
                isfind = isinstance(tol, str)
                out['corr_fail'].append({'key': 'find-mismatch' if isfind else 'parse-mismatch',
                                         'what': 'model and implementation differ (%s)' % (tol if isfind else 'tol %d' % tol),
                                         'input': src, 'skip': list(skip), 'tol': tol, 'impl': w[:300], 'model': g[:300]})
    if job.get('cert'):
        # certificates: is the document an instance of the proved grammar? (lib_gram, driver request `cert`)
        import lib_gram
        skips = [tuple(ast.skip) if ast is not None else tuple((extra or {}).get('skip', ())) for _, ast, extra in docs]
        lines = common.model_batch([lib_gram.cert_req(src, 0, k) for (src, _, _), k in zip(docs, skips)])
        for (src, _, _), k, line in zip(docs, skips, lines):
            status, c = lib_gram.classify(line)
            lib_gram.tally(st.c, status)
            if status == 'contradiction' and len(out['corr_fail']) < 40:
                out['corr_fail'].append(lib_gram.contradiction(src, k, line))
            elif status.startswith('uncertified') and len(out.setdefault('uncertified', [])) < 5:
                out['uncertified'].append({'input': src[:300], 'skip': list(k), 'certificate': line})
            elif status.startswith('certified') and 'cert_sample' not in out and len(src) > 30:
                out['cert_sample'] = {'certified_document': src[:200], 'skip': list(k), 'certificate': line}
    return out


def merge_jobs(results, r_corr, r_orc):
    """Fold worker results into the correspondence / oracle Result objects."""
    st = Stats()
    for o in results:
        st.merge(o['stats'])
        if r_corr is not None:
            r_corr.evaluations += o['corr_cases']
            r_corr.nontrivial |= o['hashes']
            r_corr.failures += o['corr_fail']
            if o['sample']:
                r_corr.sample(o['sample'])
            if o.get('cert_sample'):
                if not any('certificate' in x for x in r_corr.samples):
                    r_corr.samples[:] = [o['cert_sample']] + r_corr.samples[:5]
            for u in o.get('uncertified', ()):
                lst = r_corr.stats.setdefault('cert_uncertified_examples', [])
                if len(lst) < 8:
                    lst.append(u)
        if r_orc is not None:
            r_orc.evaluations += o['n_orc']
            if o['n_orc']:
                r_orc.nontrivial |= o['hashes']
            r_orc.failures += o['orc_fail']
            if o['sample']:
                r_orc.sample(dict(o['sample'], verdict='holds'))
    for r in (r_corr, r_orc):
        if r is not None:
            # the smallest failing input first (it is the one the driver reports)
            r.failures.sort(key=lambda f: (len(f.get('input') or ''), f.get('input') or ''))
    return st


_SHRUNK = [0]


def may_shrink(limit=3):
    """Shrinking is expensive: each worker process shrinks only its first few failures."""
    _SHRUNK[0] += 1
    return _SHRUNK[0] <= limit
