"""Runs in a fresh interpreter (PYTHONHASHSEED set by the caller): canonical parse results of the
encoded sources read from stdin, one per line."""
import os
import sys
sys.path.insert(0, os.path.dirname(os.path.abspath(__file__)))
import common  # noqa: E402

common.impl()
for line in sys.stdin:
    w = line.strip()
    if not w:
        continue
    tol, src = w.split(' ', 1)
    print(common.impl_parse(common.dec(src), int(tol))[0])
