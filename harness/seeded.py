#!/usr/bin/env python3
"""Confirm a seeded change and run the checks against it.

    harness/seeded.py confirm <ID> <dir-with-patch.diff-and-demo.py>   -> copies into seeded/<ID>/ if confirmed
    harness/seeded.py run <ID> [check ids...]                           -> applies seeded/<ID>/patch.diff to /repo,
                                                                           runs the checks, undoes the change

`confirm` works in a scratch worktree under /tmp (removed afterwards): the patch applies to the current
HEAD of /repo, the 164 tests still pass with it, the demonstration fails with it and passes without it.
"""
import json
import os
import shutil
import subprocess
import sys
import tempfile

VERIF = os.path.dirname(os.path.dirname(os.path.abspath(__file__)))
REPO = '/repo'
PY = '/venv/bin/python'


def sh(cmd, cwd=None, env=None, timeout=1800):
    p = subprocess.run(cmd, cwd=cwd, env=env, stdout=subprocess.PIPE, stderr=subprocess.STDOUT, timeout=timeout)
    return p.returncode, p.stdout.decode(errors='replace')


def confirm(sid, src):
    patch = os.path.join(src, 'patch.diff')
    demo = os.path.join(src, 'demo.py')
    assert os.path.exists(patch) and os.path.exists(demo), 'patch.diff / demo.py missing in ' + src
    wt = tempfile.mkdtemp(prefix='seedchk_', dir='/tmp')
    os.rmdir(wt)
    res = {'id': sid}
    demo_src = demo
    try:
        rc, out = sh(['git', '-C', REPO, 'worktree', 'add', '-q', '--detach', wt, 'HEAD'])
        assert rc == 0, out
        env = dict(os.environ, PYTHONPATH=wt)
        # the demonstration runs from inside the scratch tree (a script's own directory comes first on sys.path)
        demo_wt = os.path.join(wt, '_seed_demo.py')
        shutil.copy(demo, demo_wt)
        demo_src = demo
        demo = demo_wt
        # demo on the original code
        rc0, out0 = sh([PY, demo], cwd=wt, env=env)
        res['demo_without_change'] = rc0
        rc, out = sh(['git', '-C', wt, 'apply', '--whitespace=nowarn', patch])
        res['patch_applies'] = (rc == 0)
        if rc != 0:
            res['apply_output'] = out[-500:]
            return res
        rc1, out1 = sh([PY, demo], cwd=wt, env=env)
        res['demo_with_change'] = rc1
        res['demo_output_with_change'] = out1[-600:]
        rct, outt = sh([PY, '-m', 'pytest', '-q', '-p', 'no:cacheprovider'], cwd=wt)
        res['tests_with_change'] = outt.strip().splitlines()[-1] if outt.strip() else ''
        res['tests_pass'] = (rct == 0)
        res['confirmed'] = bool(res['patch_applies'] and rc0 == 0 and rc1 != 0 and rct == 0)
    finally:
        sh(['git', '-C', REPO, 'worktree', 'remove', '--force', wt])
        shutil.rmtree(wt, ignore_errors=True)
    if res.get('confirmed'):
        dst = os.path.join(VERIF, 'seeded', sid)
        os.makedirs(dst, exist_ok=True)
        shutil.copy(patch, os.path.join(dst, 'patch.diff'))
        shutil.copy(demo_src, os.path.join(dst, 'demo.py'))
        notes = os.path.join(src, 'notes.md')
        if os.path.exists(notes):
            shutil.copy(notes, os.path.join(dst, 'notes.md'))
    return res


def run(sid, checks, tier='quick'):
    """Run checks against the seeded change. The change is applied to a scratch worktree of /repo's HEAD
    (REPO=<scratch> for the check), so that concurrent work on /repo is not disturbed; the effect is the
    same as `git -C /repo apply` + check + `git -C /repo checkout -- .`."""
    dst = os.path.join(VERIF, 'seeded', sid)
    patch = os.path.join(dst, 'patch.diff')
    wt = tempfile.mkdtemp(prefix='seedrun_', dir='/tmp')
    os.rmdir(wt)
    results = {}
    try:
        rc, out = sh(['git', '-C', REPO, 'worktree', 'add', '-q', '--detach', wt, 'HEAD'])
        assert rc == 0, out
        rc, out = sh(['git', '-C', wt, 'apply', '--whitespace=nowarn', patch])
        assert rc == 0, out
        # a private snapshot of the machinery: the Lean project (tables are regenerated from the changed tree there)
        # AND the harness, so that edits made to /verif while the checks run cannot mix two versions
        lean_copy = wt + '_lean'
        sh(['cp', '-r', os.path.join(VERIF, 'lean'), lean_copy])
        snap = wt + '_verif'
        os.makedirs(snap)
        sh(['cp', '-r', os.path.join(VERIF, 'harness'), os.path.join(snap, 'harness')])
        for f in ('check', 'known_findings.txt', 'properties.jsonl'):
            shutil.copy(os.path.join(VERIF, f), os.path.join(snap, f))
        env = dict(os.environ, REPO=wt, VERIF_LEAN_DIR=lean_copy, VERIF_OUT_DIR=wt + '_out')
        for c in checks:
            rc, out = sh([os.path.join(snap, 'check'), c, '--tier', tier], cwd=snap, timeout=3600, env=env)
            vio = [l for l in out.splitlines() if l.startswith('VIOLATION')]
            fail = [l for l in out.splitlines() if 'failing input' in l or 'disagreement:' in l or 'broken:' in l]
            results[c] = {'exit': rc, 'violation': vio[:1], 'detail': [f[:300] for f in fail[:3]]}
    finally:
        sh(['git', '-C', REPO, 'worktree', 'remove', '--force', wt])
        shutil.rmtree(wt, ignore_errors=True)
        shutil.rmtree(wt + '_lean', ignore_errors=True)
        shutil.rmtree(wt + '_out', ignore_errors=True)
        shutil.rmtree(wt + '_verif', ignore_errors=True)
    return results


if __name__ == '__main__':
    cmd = sys.argv[1]
    if cmd == 'confirm':
        r = confirm(sys.argv[2], sys.argv[3])
        print(json.dumps(r, indent=1))
    elif cmd == 'run':
        r = run(sys.argv[2], sys.argv[3:] or [sys.argv[2].split('-')[0]])
        print(json.dumps(r, indent=1))
