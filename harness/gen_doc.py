"""Grammar-directed generator of well-formed LaTeX documents (oracle of C01/C02/C09-C12).

A document is generated as an abstract syntax tree (`Node`) over the documented constructs and
then *rendered* to its source string; the renderer records, for every node, the half-open source
span `[start, end)` it was printed to.  Nothing in this module looks at the parser: names, tables
and frame conditions are written down here from the documentation (DESIGN.md appendix A.2), so the
generating tree is an independent oracle for the parse tree.

    src, ast = document(rng, depth=4, ...)
    expected_canon(ast)                 # canonical S-expression, text leaves merged, no positions
    normalise(common.impl_parse(src, 0, ast.skip)[0])   # same normal form of the real tree
    spans(ast)                          # [(tag, start, end)] of the non-text nodes, pre-order

Node kinds (`.kind` / `.sub`):
    root                       children
    text                       .s : the characters (plain runs, escaped symbols, bare [ ] ( ))
    comment                    .s : payload; printed as '%' + payload (the line break that ends it
                               belongs to the following text node)
    cmd  generic|fixed|zero|sizing|special|beginend     .name, .args (group nodes), .seps
    item                       .name == 'item', .args (0..1 bracket group), .children = owned content
    group brace|bracket        children
    math dollar|ddollar|math|displaymath                children
    env  plain|list|math|verb  .name, .args, children (verb: at most one text node = the raw body)
"""
import re

from common import enc, dec

# ----------------------------------------------------------------------------- documented tables
# (written down independently of TexSoup/tokens.py and reader.py)

SIZE_PREFIX = ('left', 'right', 'big', 'Big', 'bigg', 'Bigg')
SIZE_DELIMS = ('(', ')', '<', '>', '[', ']', '{', '}', '\\{', '\\}', '.', '|', '\\langle', '\\rangle',
               '\\lfloor', '\\rfloor', '\\lceil', '\\rceil', '\\ulcorner', '\\urcorner', '\\lbrack',
               '\\rbrack')
SIZING = tuple(p + d for p in SIZE_PREFIX for d in SIZE_DELIMS)
# sizing commands whose delimiter is itself a brace/bracket character are kept apart: the
# delimiter is part of the name, the generator never lets it look like a group
ZERO_OPS_MATH = ('cap', 'cup', 'in', 'notin', 'infty')
ZERO_OPS_TEXT = ('noindent',)
FIXED = {'def': (2, 0), 'textbf': (1, 0), 'section': (1, 1), 'label': (1, 0)}
SPECIAL = ('newcommand', 'renewcommand', 'providecommand')
MATH_ENVS = ('align', 'align*', 'alignat', 'array', 'displaymath', 'eqnarray', 'eqnarray*', 'equation',
             'equation*', 'flalign', 'flalign*', 'gather', 'gather*', 'math', 'multline', 'multline*', 'split')
VERB_ENVS = ('lstlisting', 'verbatim', 'verbatimtab', 'Verbatim', 'listing')
LIST_ENVS = ('itemize', 'enumerate', 'description')
PLAIN_ENVS = ('center', 'figure', 'table', 'tabular', 'abstract', 'quote', 'minipage', 'theorem', 'proof',
              'document', 'e', 'foo', 'frame', 'figure*',
              # neighbours of special names: ordinary environments
              'text', 'itemizes', 'verbatims', 'maths', 'ends', 'lstlistings', 'item', 'equations', 'listin', 'tex')
RESERVED = set(FIXED) | set(SPECIAL) | set(ZERO_OPS_MATH) | set(ZERO_OPS_TEXT) | {'item', 'begin', 'end'}
CMD_POOL = ('x', 'y', 'foo', 'bar', 'emph', 'textit', 'cite', 'ref', 'footnote', 'vspace', 'hline',
            'includegraphics', 'usepackage', 'caption', 'url', 'centering', 'q', 'Z', 'par', 'today',
            # neighbours of the names the reader treats specially (prefix / extension / starred form): they are
            # ordinary commands with an open signature
            'text', 'itemsep', 'itemindent', 'endnote', 'endgraf', 'begingroup', 'items', 'sectionmark', 'labels',
            'section*', 'textbf*', 'label*', 'def*', 'in*', 'cup*', 'notin*', 'newcommandx', 'verbatim', 'math',
            'equation', 'tex', 'infty*', 'noindent*', 'inf', 'i', 'e', 'command', 'mycommand', 'shellcommand',
            'KeyCommand', 'commandline')
MATH_CMD_POOL = (('frac', 0, 2), ('sqrt', 1, 1), ('sqrt', 0, 1), ('mathbf', 0, 1), ('sum', 0, 0), ('alpha', 0, 0),
                 ('int', 0, 0), ('text', 0, 1), ('hat', 0, 1), ('vec', 0, 1), ('mathcal', 0, 1), ('cdot', 0, 0),
                 ('ldots', 0, 0), ('le', 0, 0), ('binom', 0, 2), ('lim', 0, 0), ('to', 0, 0), ('min', 0, 0))
MATH_DELIMS = {'dollar': ('$', '$'), 'ddollar': ('$$', '$$'), 'math': ('\\(', '\\)'),
               'displaymath': ('\\[', '\\]')}
GROUP_DELIMS = {'brace': ('{', '}'), 'bracket': ('[', ']')}
ESCAPES = ('\\%', '\\$', '\\{', '\\}', '\\&', '\\#', '\\_', '\\ ', '\\\\',
           # every category that makes an escaped symbol: superscript, active, other (punctuation, digits, non-ASCII)
           '\\^', '\\~', '\\,', '\\;', '\\!', "\\'", '\\"', '\\.', '\\=', '\\-', '\\/', '\\@', '\\|', '\\1', '\\é', '\\*')

# separators between a command and its arguments (C09)
ATTACH = ('', ' ', '  ', '\t', ' \t ', '\n', ' \n', '\n ', ' \n\t', '\t\n  ')
DETACH = ('\n\n', '\n \n', ' \n\n ', '.', ';', ',', '%\n', '%c\n', '~', '\\\\')

HOSTILE = ('}', '{', ']', '[', '$', '$$', '\\', '\\\\', '\\begin{x}', '\\end{x}', '\\item', '%', '\\(', '\\)',
           '\\[', '\\]', '\\end{itemize}', '\\end{verbatim}', '\\begin{verbatim}', '\\zq{a}', '\\begin{zq}',
           ' ', 'a', '\\textbf', '\\%', '{a}', '[b]', '\\end', '\\left(', '\t')

# the reader takes (blanks, at most one line break, blanks) + '{' or '[' after a command as argument
OPENER = re.compile(r'[ \t]*(?:\n[ \t]*)?[\[{]')
LETTERS = 'abcdefghijklmnopqrstuvwxyzABCDEFGHIJKLMNOPQRSTUVWXYZ'


# ----------------------------------------------------------------------------- AST

class Node:
    __slots__ = ('kind', 'sub', 'name', 'args', 'seps', 'children', 's', 'start', 'end', 'skip', 'meta')

    def __init__(self, kind, sub=None, name=None, args=None, children=None, s=None, seps=None):
        self.kind, self.sub, self.name = kind, sub, name
        self.args = args if args is not None else []
        self.seps = seps if seps is not None else [''] * len(self.args)
        self.children = children if children is not None else []
        self.s = s
        self.start = self.end = -1
        self.skip = ()
        self.meta = None

    def clone(self):
        n = Node(self.kind, self.sub, self.name, [a.clone() for a in self.args],
                 [c.clone() for c in self.children], self.s, list(self.seps))
        n.skip = self.skip
        n.meta = self.meta
        return n

    def __repr__(self):
        return 'Node(%s/%s %r %r)' % (self.kind, self.sub, self.name, render_str(self)[:40])


def text(s):
    return Node('text', s=s)


def walk(n):
    """Pre-order: node, its argument groups (with their subtrees), its children."""
    yield n
    for a in n.args:
        yield from walk(a)
    for c in n.children:
        yield from walk(c)


def depth(n, as_arg=False):
    """Nesting depth in constructs (an argument group does not count on top of its command)."""
    sub = [depth(a, True) for a in n.args] + [depth(c) for c in n.children]
    own = 0 if (n.kind in ('root', 'text', 'comment') or as_arg) else 1
    return own + (max(sub) if sub else 0)


def constructs(n):
    """Set of construct tags used in the tree (for input statistics)."""
    out = set()

    def go(x, as_arg):
        if x.kind == 'text':
            out.add('text')
            if '\\' in x.s:
                out.add('escape')
            if '[' in x.s or ']' in x.s:
                out.add('bare-bracket')
            if '\n\n' in x.s:
                out.add('blank-line')
        elif x.kind == 'group':
            out.add(('arg-' if as_arg else 'group-') + x.sub)
        elif x.kind != 'root':
            out.add(x.kind + ('-' + x.sub if x.sub else ''))
        if any(sp for sp in x.seps):
            out.add('spaced-args')
        for a in x.args:
            go(a, True)
        for c in x.children:
            go(c, False)

    go(n, False)
    return out


# ----------------------------------------------------------------------------- rendering

def render(root):
    """Source string of the tree; sets `.start`/`.end` of every node (independent of any parser)."""
    out = []
    pos = [0]

    def emit(s):
        out.append(s)
        pos[0] += len(s)

    def rargs(n):
        for sep, a in zip(n.seps, n.args):
            emit(sep)
            r(a)

    def r(n):
        k = n.kind
        if k in ('cmd', 'item'):
            n.start = pos[0]
            emit('\\' + n.name)
            rargs(n)
            for c in n.children:
                r(c)
        elif k == 'text':
            n.start = pos[0]
            emit(n.s)
        elif k == 'comment':
            n.start = pos[0]
            emit('%' + n.s)
        elif k == 'group':
            n.start = pos[0]
            o, c = GROUP_DELIMS[n.sub]
            emit(o)
            for x in n.children:
                r(x)
            emit(c)
        elif k == 'math':
            n.start = pos[0]
            o, c = MATH_DELIMS[n.sub]
            emit(o)
            for x in n.children:
                r(x)
            emit(c)
        elif k == 'env':
            n.start = pos[0]
            emit('\\begin{' + n.name + '}')
            rargs(n)
            for x in n.children:
                r(x)
            emit('\\end{' + n.name + '}')
        elif k == 'root':
            n.start = pos[0]
            for x in n.children:
                r(x)
        else:
            raise ValueError(k)
        n.end = pos[0]

    r(root)
    return ''.join(out)


def render_str(n):
    """Source string of a subtree without touching spans."""
    k = n.kind
    if k == 'text':
        return n.s
    if k == 'comment':
        return '%' + n.s
    args = ''.join(sep + render_str(a) for sep, a in zip(n.seps, n.args))
    body = ''.join(render_str(c) for c in n.children)
    if k in ('cmd', 'item'):
        return '\\' + n.name + args + body
    if k == 'group':
        o, c = GROUP_DELIMS[n.sub]
        return o + body + c
    if k == 'math':
        o, c = MATH_DELIMS[n.sub]
        return o + body + c
    if k == 'env':
        return '\\begin{' + n.name + '}' + args + body + '\\end{' + n.name + '}'
    return body


# ----------------------------------------------------------------------------- canonical forms

def _raw(n, out):
    k = n.kind
    if k == 'text':
        if n.s:
            out.append('(t %d %s)' % (n.start, enc(n.s)))
        return
    if k == 'comment':
        out.append('(t %d %s)' % (n.start, enc('%' + n.s)))
        return
    if k in ('cmd', 'item', 'env'):
        a, b = [], []
        for x in n.args:
            _raw(x, a)
        for x in n.children:
            _raw(x, b)
        out.append('(%s %s %d [%s] [%s])' % ('e' if k == 'env' else 'c', enc(n.name), n.start,
                                             ' '.join(a), ' '.join(b)))
        return
    b = []
    for x in n.children:
        _raw(x, b)
    if k == 'group':
        out.append('(g %s %d [%s])' % (n.sub, n.start, ' '.join(b)))
    elif k == 'math':
        out.append('(m %s %d [%s])' % (n.sub, n.start, ' '.join(b)))
    else:
        raise ValueError(k)


def raw_canon(root):
    """The tree in the grammar of `common.canon_root` (positions = rendered start offsets)."""
    b = []
    for x in root.children:
        _raw(x, b)
    return '[%s]' % ' '.join(b)


def expected_canon(root, keep_pos=False):
    return normalise(raw_canon(root), keep_pos)


_TOK = re.compile(r'[()\[\]]|[^\s()\[\]]+')


def _parse_sexp(s):
    toks = _TOK.findall(s)
    i = 0

    def item():
        nonlocal i
        t = toks[i]
        if t == '(':
            i += 1
            xs = []
            while toks[i] != ')':
                xs.append(item())
            i += 1
            return ('(', xs)
        if t == '[':
            i += 1
            xs = []
            while toks[i] != ']':
                xs.append(item())
            i += 1
            return ('[', xs)
        i += 1
        return t

    x = item()
    if i != len(toks):
        raise ValueError('trailing input in canonical form')
    return x


def _norm_list(xs, keep_pos, blank_comments):
    out = []
    run = []        # pending text pieces

    def flush():
        if run:
            s = ''.join(run)
            if s:
                out.append('(t %s)' % enc(s))
            del run[:]

    for x in xs:
        if isinstance(x, tuple) and x[0] == '(' and x[1] and x[1][0] == 't' and len(x[1]) == 3:
            s = dec(x[1][2])
            if s.startswith('%'):       # a comment token (or a raw body that starts like one): kept apart
                flush()
                out.append('(k)' if blank_comments else '(k %s)' % enc(s))
            else:
                run.append(s)
        else:
            flush()
            out.append(_norm(x, keep_pos, blank_comments))
    flush()
    return '[%s]' % ' '.join(out)


def _norm(x, keep_pos, blank_comments):
    if isinstance(x, str):
        return x
    tag, xs = x
    if tag == '[':
        return _norm_list(xs, keep_pos, blank_comments)
    if not xs:
        return '()'
    head = xs[0]
    if head in ('c', 'e') and len(xs) == 5:
        rest = [xs[1]] + ([xs[2]] if keep_pos else []) + [_norm(xs[3], keep_pos, blank_comments),
                                                           _norm(xs[4], keep_pos, blank_comments)]
        return '(%s %s)' % (head, ' '.join(rest))
    if head in ('m', 'g') and len(xs) == 4:
        rest = [xs[1]] + ([xs[2]] if keep_pos else []) + [_norm(xs[3], keep_pos, blank_comments)]
        return '(%s %s)' % (head, ' '.join(rest))
    return '(%s)' % ' '.join(_norm(y, keep_pos, blank_comments) for y in xs)


def normalise(line, keep_pos=False, blank_comments=False):
    """Normal form of a `TREE [...] SER ...` line (or of a bare `[...]` tree): adjacent text leaves
    merged, empty text leaves dropped, comment leaves kept apart as `(k ..)`, positions dropped
    (kept for non-text nodes with keep_pos).  `ERR ...` lines are returned unchanged."""
    if line.startswith('TREE '):
        line = line[5:]
        j = line.rfind(' SER ')
        if j >= 0:
            line = line[:j]
    if not line.startswith('['):
        return line
    return _norm(_parse_sexp(line), keep_pos, blank_comments)


def spans(root, texts=False):
    """[(tag, start, end)] of every non-text node in pre-order (node, argument groups, children);
    with texts=True the maximal runs of adjacent text/comment leaves are included as ('t', s, e)."""
    out = []

    def seq(xs):
        run = None
        for x in xs:
            if x.kind in ('text', 'comment'):
                if texts and x.end > x.start:
                    if run is not None and run[2] == x.start:
                        run[2] = x.end
                    else:
                        if run is not None:
                            out.append(tuple(run))
                        run = ['t', x.start, x.end]
                continue
            if run is not None:
                out.append(tuple(run))
                run = None
            one(x)
        if run is not None:
            out.append(tuple(run))

    def one(n):
        tag = {'cmd': 'c', 'item': 'c', 'env': 'e', 'math': 'm', 'group': 'g'}[n.kind]
        out.append((tag, n.start, n.end))
        for a in n.args:
            one(a)
        seq(n.children)

    seq(root.children)
    return out


# ----------------------------------------------------------------------------- frame conditions

def _merge_text(xs):
    out = []
    for x in xs:
        if x.kind == 'text':
            if not x.s:
                continue
            if out and out[-1].kind == 'text':
                out[-1] = text(out[-1].s + x.s)
                continue
        out.append(x)
    return out


_SEPS_TEXT = ('.', ',', ';', ':', '!', ' ', '\n', '\n\n', '~', '-', '1', '\\ ', '\\\\', ' = ')
_SEPS_MATH = ('.', ',', ' ', '+', '-', '=', '1', '\\,', ' \\; ')


def _closer(n):
    if n.kind == 'group':
        return GROUP_DELIMS[n.sub][1]
    if n.kind == 'math':
        return MATH_DELIMS[n.sub][1]
    if n.kind == 'env':
        return '\\end{' + n.name + '}'
    if n.kind == 'item':
        return '\\item'        # or \end{list}: a backslash either way
    return ''


def _bad_after(n, follow, nxt):
    """Does `follow` (the source after node n inside its parent, closer included) break the meaning
    of n?  `nxt` = the sibling nodes after n."""
    k = n.kind
    if k == 'comment':
        return not follow.startswith('\n')
    if k == 'math':
        return n.sub == 'dollar' and follow.startswith('$')
    if k == 'cmd':
        if n.sub in ('generic', 'beginend', 'special'):
            if not n.args and follow[:1] and (follow[0] in LETTERS or follow[0] == '*'):
                return True
            return OPENER.match(follow) is not None
        if n.sub == 'sizing':
            return OPENER.match(follow) is not None
        if n.sub == 'zero':
            return bool(follow[:1]) and (follow[0] in LETTERS or follow[0] == '*')
        if n.sub == 'fixed':
            if n.name == 'section' and len(n.args) == 1:
                return follow.startswith('[')
            return False
    return False


def _head_bad(n, body):
    """Frame condition between the head of an environment / item and its body."""
    if n.kind == 'env':
        return OPENER.match(body) is not None
    if n.kind == 'item':
        if not n.args and body[:1] and (body[0] in LETTERS or body[0] == '*'):
            return True
        return OPENER.match(body) is not None
    return False


class FrameError(Exception):
    pass


# a text node: plain characters and escaped symbols (backslash + a character that is neither a
# letter nor a bracket/parenthesis, which would spell a command or a math switch)
TEXT_OK = re.compile(r'(?:\\[^a-zA-Z\[\]()]|[^\\{}$%])*', re.S)


def _choose_sep(rng, cands, ok):
    if rng is not None:
        cands = list(cands)
        rng.shuffle(cands)
    for c in cands:
        if ok(c):
            return c
    raise FrameError('no separator fits')


def fix(node, rng=None, eof_comment=True, math=False):
    """Enforce the frame conditions by inserting separator text between siblings (in place).
    Works on a whole document (root) or on a subtree.  With rng=None the choice is deterministic
    (used by the shrinker)."""

    def fix_seq(xs, closer, math, is_root=False):
        xs = _merge_text(xs)
        for x in xs:
            fix_node(x, math)
        cands = _SEPS_MATH if math else _SEPS_TEXT
        out = []            # reversed
        follow = closer
        for i in range(len(xs) - 1, -1, -1):
            n = xs[i]
            nxt = out[::-1]
            if n.kind == 'comment' and is_root and not out and eof_comment:
                # the very last element: may end at the end of input
                bad = rng is not None and rng.random() < 0.5
            else:
                bad = _bad_after(n, follow, nxt)
            if bad:
                if n.kind == 'comment':
                    sep = '\n'
                else:
                    def ok(c, n=n, follow=follow, nxt=nxt):
                        return not _bad_after(n, c + follow, [text(c)] + nxt)
                    sep = _choose_sep(rng, cands, ok)
                out.append(text(sep))
                follow = sep + follow
            out.append(n)
            follow = render_str(n) + follow
        return _merge_text(out[::-1])

    def fix_node(n, math):
        k = n.kind
        if k == 'text':
            if not TEXT_OK.fullmatch(n.s):
                raise FrameError('not a text run: %r' % n.s)
            return
        if k == 'comment':
            if '\n' in n.s or '\r' in n.s:
                raise FrameError('line break inside a comment payload')
            return
        if k == 'group' and n.sub == 'bracket' and any(c.kind == 'text' and ']' in c.s for c in n.children):
            raise FrameError('bare ] directly inside a bracket group')
        m = math or k == 'math' or (k == 'env' and n.sub == 'math')
        for a in n.args:
            fix_node(a, m)
        if k == 'env' and n.sub == 'verb':
            body = ''.join(c.s for c in n.children)
            if not verb_body_ok(body, n.name):
                raise FrameError('verbatim body violates the provisos: %r' % body)
            return
        closer = _closer(n)
        n.children = fix_seq(n.children, closer, m)
        if k == 'math' and n.sub == 'dollar' and not n.children:
            n.children = [text('x')]
        if k in ('env', 'item'):
            body = ''.join(render_str(c) for c in n.children) + closer
            if _head_bad(n, body):
                cands = _SEPS_MATH if m else _SEPS_TEXT
                sep = _choose_sep(rng, cands, lambda c: not _head_bad(n, c + body))
                n.children = _merge_text([text(sep)] + n.children)

    if node.kind == 'root':
        node.children = fix_seq(node.children, '', False, is_root=True)
    else:
        fix_node(node, math)
    return node


def verb_body_ok(body, name):
    """The provisos of C11 for a raw body (plus: the body is non-empty text without its own end)."""
    if OPENER.match(body):
        return False
    if body.endswith('\\'):
        return False
    if ('\\end{%s}' % name) in body:
        return False
    if '%' in body.rsplit('\n', 1)[-1]:
        return False
    return True


def check_frames(root):
    """True iff no frame condition is violated (fix() would not insert anything)."""
    before = render_str(root)
    c = root.clone()
    try:
        fix(c, None)
    except FrameError:
        return False
    return render_str(c) == before


# ----------------------------------------------------------------------------- generation

DEFAULT_WEIGHTS = {
    'text': 30, 'comment': 5, 'cmd': 14, 'fixed': 4, 'zero': 3, 'group': 6, 'bracket': 4, 'env': 6, 'list': 4,
    'math': 8, 'menv': 3, 'verb': 3, 'special': 2, 'twin': 3,
    # math-mode only
    'mcmd': 14, 'sizing': 6, 'paren': 6, 'script': 8, 'edollar': 3,
}

WORDS = ('a', 'b', 'x', 'Hello', 'world', 'the', 'of', 'text', 'A', 'Zq', 'lorem', 'ipsum', '0', '1', '42', '2024',
         'i', 'n')
PUNCT = ('.', ',', ';', ':', '!', '?', '-', '--', "'", '"', '(', ')', '=', '+', '/', '<', '>', '|', '@', '*', '`')
BLANKS = (' ', ' ', ' ', '  ', '\t', '\n', '\n', '\n\n', ' \n ', '\n\n\n', ' \n\n\t')
ODD = ('&', '#', '#1', '~', '^', '_', 'é', 'ß', '你', '😂', ' ')
# characters the category table calls Other but str.isalpha / isspace / splitlines / isprintable single out, and
# boundary code points
ODD = ODD + ('É', 'α', 'б', '中文', '\x0c', '\x0b', '\x1c', '\x85', '\xa0', '\u2028', '\u2029', '\u3000', '\u0660', '²',
             '\u200b', '\u0301', '\ufeff', 'e\u0301t', 'a\u0300 la', 'n\u0303', 'ÿ', 'Ā', '\xad', '\u2060', '\uffff', '\U00010000')
MATH_ATOMS = ('x', 'y', 'a', 'b', 'n', 'i', '0', '1', '2', '+', '-', '=', '<', '>', ',', '.', ' ', ' ', '!', '|',
              '/', '\\,', '\\;', '\\|', '&', '\n', '\\\\', '\\{', '\\}', "'")


LEAF_KINDS = ('text', 'comment', 'zero', 'bracket', 'sizing', 'paren', 'script', 'edollar', 'cmd0')


class Gen:
    def __init__(self, rng, layout='adjacent', weights=None, twins=0.0, hostile=0.0, width=5,
                 user_verb=0.5, unicode_ok=True):
        self.rng = rng
        self.layout = layout
        self.w = dict(DEFAULT_WEIGHTS)
        if weights:
            self.w.update(weights)
        self.twins = twins
        self.hostile = hostile
        self.width = width
        self.user_verb = user_verb
        self.unicode_ok = unicode_ok
        self.pool = []          # (node, features) candidates for textual twins
        self.skip = []          # user-chosen verbatim names
        self.ntwins = 0
        self.budget = 250       # structured nodes left

    # -- helpers
    def pick(self, table):
        """table: list of (weight, value)"""
        tot = sum(w for w, _ in table)
        r = self.rng.random() * tot
        for w, v in table:
            r -= w
            if r < 0:
                return v
        return table[-1][1]

    def sep(self):
        return self.rng.choice(ATTACH) if self.layout == 'spaced' else ''

    def seps_for(self, args, first_adjacent=False):
        """Separators before each argument group.  The reader makes a second pass for a bracket
        group directly after the brace groups (and braces directly after those), without looking
        over a spacer: those two transitions stay adjacent."""
        out = []
        prev = None
        second = False
        for i, a in enumerate(args):
            s = self.sep()
            if i == 0 and first_adjacent:
                s = ''
            if prev == 'brace' and a.sub == 'bracket':
                second = True
                s = ''
            elif second and prev == 'bracket' and a.sub == 'brace':
                s = ''
            out.append(s)
            prev = a.sub
        return out

    def name(self):
        r = self.rng
        while True:
            if r.random() < 0.7:
                n = r.choice(CMD_POOL)
            else:
                n = ''.join(r.choice(LETTERS) for _ in range(r.randint(1, 6)))
            if n in RESERVED or n.startswith(SIZE_PREFIX):
                continue
            if r.random() < 0.12:
                n += '*'
            return n

    # -- leaves
    def text_node(self, cx, n=None):
        r = self.rng
        n = n or r.randint(1, 5)
        out = []
        for _ in range(n):
            q = r.random()
            if cx.math:
                out.append(r.choice(MATH_ATOMS) if q < 0.85 else r.choice(WORDS))
            elif q < 0.45:
                out.append(r.choice(WORDS))
            elif q < 0.70:
                out.append(r.choice(BLANKS))
            elif q < 0.85:
                out.append(r.choice(PUNCT))
            elif q < 0.95:
                out.append(r.choice(ESCAPES))
            else:
                o = r.choice(ODD)
                if ord(o[0]) > 127 and not self.unicode_ok:
                    o = '~'
                out.append(o)
        return text(''.join(out))

    def bracket_text(self, cx):
        r = self.rng
        opening = ['[', '[', '[0,1)', '[[']
        closing = [] if cx.brtop else [']', ']', ']]', '(0,1]']
        both = [] if cx.brtop else ['] [']
        balanced = [] if cx.brtop else ['[a]', '[ b ]']
        return text(r.choice(['(0,1)'] + balanced + opening + closing + both))

    def comment(self, cx):
        r = self.rng
        if r.random() < self.hostile:
            p = ''.join(r.choice(HOSTILE) for _ in range(r.randint(1, 5)))
        else:
            p = r.choice(['', ' note', 'c', ' TODO: fix', '!TEX root', ' a b c ', '---'])
        return Node('comment', s=p)

    # -- structured
    def group_arg(self, sub, cx, depth):
        c = cx.inside(brtop=(sub == 'bracket'))
        return Node('group', sub, children=self.seq(c, depth - 1, self.rng.randint(0, 3)))

    def cmd(self, cx, depth):
        r = self.rng
        nb = self.pick([(60, 0), (25, 1), (10, 2), (5, 3)])
        nc = self.pick([(25, 0), (40, 1), (20, 2), (10, 3), (5, 4)])
        args = [self.group_arg('bracket', cx, depth) for _ in range(nb)] + \
               [self.group_arg('brace', cx, depth) for _ in range(nc)]
        return Node('cmd', 'generic', self.name(), args, seps=self.seps_for(args))

    def mcmd(self, cx, depth):
        name, nb, nc = self.rng.choice(MATH_CMD_POOL)
        args = [self.group_arg('bracket', cx, depth) for _ in range(nb)] + \
               [self.group_arg('brace', cx, depth) for _ in range(nc)]
        return Node('cmd', 'generic', name, args, seps=self.seps_for(args))

    def fixed(self, cx, depth):
        r = self.rng
        name = r.choice(sorted(FIXED))
        nreq, nopt = FIXED[name]
        args = []
        if nopt and r.random() < 0.5:
            args.append(self.group_arg('bracket', cx, depth))
        args += [self.group_arg('brace', cx, depth) for _ in range(nreq)]
        return Node('cmd', 'fixed', name, args, seps=self.seps_for(args))

    def zero(self, cx):
        r = self.rng
        name = r.choice(ZERO_OPS_MATH if (cx.math or r.random() < 0.3) else ZERO_OPS_TEXT)
        return Node('cmd', 'zero', name)

    def sizing(self, cx):
        return Node('cmd', 'sizing', self.rng.choice(SIZING))

    def special(self, cx, depth):
        r = self.rng
        c = cx.inside(special=True)
        defined = self.name().rstrip('*')
        while defined in RESERVED:      # `{\textbf}`: a fixed-signature command without its mandatory argument
            defined = self.name().rstrip('*')
        nm = Node('group', 'brace', children=[Node('cmd', 'generic', defined)])
        args = [nm]
        if r.random() < 0.6:
            args.append(Node('group', 'bracket', children=[text(str(r.randint(1, 9)))]))
            if r.random() < 0.3:
                args.append(self.group_arg('bracket', c, depth))
        if r.random() < 0.25 and depth > 1:
            # a list written inside a definition: \begin / \end are plain commands there, an \item still owns what
            # follows it up to the next \item, the \end command or the closing brace
            kids = self.special_list(c.inside(brtop=False), depth - 1)
        else:
            kids = self.seq(c.inside(brtop=False), depth - 1, r.randint(1, 4), force='beginend')
        body = Node('group', 'brace', children=kids)
        args.append(body)
        return Node('cmd', 'special', r.choice(SPECIAL), args, seps=self.seps_for(args))

    def special_list(self, cx, depth):
        r = self.rng
        name = r.choice(LIST_ENVS)

        def be(which):
            a = [Node('group', 'brace', children=[text(name)])]
            return Node('cmd', 'beginend', which, a, seps=self.seps_for(a, first_adjacent=True))
        # the contents of an \item are read in the ordinary (non-math, non-special) mode whatever surrounds the item
        ci = Cx(False, False, False, False, True)
        kids = [be('begin')] if r.random() < 0.8 else []
        for _ in range(r.randint(1, 3)):
            iargs = []
            if r.random() < 0.3:
                iargs = [self.group_arg('bracket', cx, min(depth, 2))]
            kids.append(Node('item', None, 'item', iargs, self.seq(ci, depth - 1, r.randint(1, 3)),
                             seps=self.seps_for(iargs)))
        if r.random() < 0.8:
            kids.append(be('end'))
        return kids

    def beginend(self, cx, depth):
        r = self.rng
        envname = r.choice(PLAIN_ENVS + LIST_ENVS + MATH_ENVS[:4] + VERB_ENVS[:2])
        args = [Node('group', 'brace', children=[text(envname)])]
        which = r.choice(['begin', 'begin', 'end', 'end'])
        if which == 'begin' and r.random() < 0.3:
            args.append(self.group_arg(r.choice(['brace', 'bracket']), cx, min(depth, 1)))
        return Node('cmd', 'beginend', which, args, seps=self.seps_for(args, first_adjacent=True))

    def env_args(self, cx, depth):
        r = self.rng
        shape = self.pick([(50, ''), (12, 'o'), (12, 'r'), (8, 'or'), (6, 'rr'), (6, 'ro'), (3, 'ror'), (3, 'oo')])
        return [self.group_arg('bracket' if ch == 'o' else 'brace', cx, min(depth, 2)) for ch in shape]

    def env(self, cx, depth):
        r = self.rng
        name = r.choice(PLAIN_ENVS)
        args = self.env_args(cx, depth)
        # the name group counts as a first brace group for the second-pass rule
        seps = self.seps_for([Node('group', 'brace')] + args)[1:]
        c = cx.inside(env=True)
        return Node('env', 'plain', name, args, self.seq(c, depth - 1, r.randint(0, self.width)), seps=seps)

    def menv(self, cx, depth):
        r = self.rng
        name = r.choice(MATH_ENVS)
        args = []
        if name in ('array', 'alignat') or r.random() < 0.1:
            args = [Node('group', 'brace', children=[text(r.choice(['cc', '2', 'c|c', 'l']))])]
        seps = self.seps_for([Node('group', 'brace')] + args)[1:]
        c = cx.inside(math=True)
        return Node('env', 'math', name, args, self.seq(c, depth - 1, r.randint(0, self.width)), seps=seps)

    def math(self, cx, depth, sub=None):
        r = self.rng
        sub = sub or r.choice(sorted(MATH_DELIMS))
        c = cx.inside(math=True, brtop=False)
        kids = self.seq(c, depth - 1, r.randint(0 if sub != 'dollar' else 1, self.width))
        return Node('math', sub, children=kids)

    def list_env(self, cx, depth):
        r = self.rng
        name = r.choice(LIST_ENVS)
        args = []
        if r.random() < 0.2:
            args = [Node('group', 'bracket', children=[text(r.choice(['a)', 'label=(i)', 'noitemsep']))])]
        seps = self.seps_for([Node('group', 'brace')] + args)[1:]
        c = cx.inside()
        ci = cx.inside(itemtop=True)
        kids = []
        q = r.random()
        if q < 0.7:
            kids.append(text(r.choice(['\n', '\n  ', ' ', '\n\n', '\t'])))
        elif q < 0.8:
            kids += self.seq(c, min(depth - 1, 1), r.randint(1, 2))
        for _ in range(r.randint(0, 4)):
            iargs = []
            if r.random() < 0.3:
                iargs = [self.group_arg('bracket', c, min(depth, 2))]
            it = Node('item', None, 'item', iargs, self.seq(ci, depth - 1, r.randint(0, 4)),
                      seps=self.seps_for(iargs))
            kids.append(it)
        return Node('env', 'list', name, args, kids, seps=seps)

    def verb_name(self):
        r = self.rng
        if r.random() >= self.user_verb:
            return r.choice(VERB_ENVS)
        if self.skip and r.random() < 0.4:
            return r.choice(self.skip)
        while True:
            alpha = LETTERS + '0123456789' + '*-  '
            n = ''.join(r.choice(alpha) for _ in range(r.randint(1, 8))).strip()
            if not n or n in MATH_ENVS or n in LIST_ENVS or n in PLAIN_ENVS or n in VERB_ENVS:
                continue
            if n not in self.skip:
                self.skip.append(n)
            return n

    def verb(self, cx, depth, name=None):
        name = name or self.verb_name()
        body = verb_body(self.rng, name)
        return Node('env', 'verb', name, [], [text(body)] if body else [])

    # -- sequences
    def seq(self, cx, depth, n, force=None):
        """n elements.  Below depth 3 every element may use the whole remaining depth; above, one
        element (the spine) does and the others stay shallow, so that deep documents stay small."""
        r = self.rng
        out = []
        spine = r.randrange(n) if n else 0
        for i in range(n):
            d = depth
            if depth > 3 and i != spine:
                d = r.choice((0, 1, 1, 2, 2, 3))
            if self.budget <= 0:
                d = min(d, 0)
            f = force if (force and i == 0) else None
            if f is None and depth > 3 and i == spine and r.random() < 0.8:
                f = 'structured'
            e = self.elem(cx, d, f)
            out.append(e)
            if e.kind == 'cmd' and e.sub == 'zero' and r.random() < 0.5:
                # a zero-argument operator directly followed by brackets / a group: they stay text / a sibling
                if r.random() < 0.8:
                    out.append(text(r.choice(['[0,1)', '[', '(0,1)'] + ([] if cx.brtop else ['[a]', '(a]', ']', '[0,1]']))))
                elif depth > 0:
                    out.append(self.free_group(cx, min(depth, 1)))
        return out

    def elem(self, cx, depth, force=None):
        r = self.rng
        w = self.w
        if force == 'beginend':
            return self.beginend(cx, depth)
        if self.twins and self.pool and r.random() < self.twins:
            cands = [n for n, f in self.pool if cx.admits(f)]
            if cands:
                self.ntwins += 1
                return r.choice(cands).clone()
        table = [(w['text'], 'text'), (w['comment'], 'comment'), (w['zero'], 'zero'), (w['bracket'], 'bracket')]
        if cx.math:
            table += [(w['sizing'], 'sizing'), (w['paren'], 'paren'), (w['script'], 'script'),
                      (w['edollar'], 'edollar')]
        if depth > 0:
            table += [(w['group'], 'group')]
            if cx.math:
                table += [(w['mcmd'], 'mcmd')]
            else:
                table += [(w['cmd'], 'cmd'), (w['fixed'], 'fixed'), (w['math'], 'math'), (w['special'], 'special')]
                if not cx.special:
                    table += [(w['env'], 'env'), (w['list'], 'list'), (w['menv'], 'menv')]
                    if cx.verb_ok:
                        table += [(w['verb'], 'verb')]
            if cx.special and not cx.itemtop:       # a plain \end directly in an item's contents would end the item
                table += [(w['cmd'], 'beginend')]
        else:
            table += [(w['cmd'] // 2, 'cmd0')]
        if force == 'structured' and depth > 0:
            table = [e for e in table if e[1] not in LEAF_KINDS] or table
        k = self.pick(table)
        if k == 'text':
            return self.text_node(cx)
        if k == 'comment':
            return self.comment(cx)
        if k == 'zero':
            return self.zero(cx)
        if k == 'bracket':
            return self.bracket_text(cx)
        if k == 'sizing':
            return self.sizing(cx)
        if k == 'paren':
            return text(r.choice(['(', ')', '(a', 'b)', '(', '(0,1)']
                                 + ['[', '[0,1)', '[']
                                 + ([] if cx.brtop else [']', ']', ')]', '(0,1]'])))
        if k == 'script':
            return text(r.choice(['^', '_', '^2', '_i', '^*', "_0'"]))
        if k == 'edollar':
            return text('\\$')
        if k == 'cmd0':
            return Node('cmd', 'generic', self.name())
        self.budget -= 1
        node = getattr(self, {'group': 'free_group', 'mcmd': 'mcmd', 'cmd': 'cmd', 'fixed': 'fixed', 'math': 'math',
                              'special': 'special', 'env': 'env', 'list': 'list_env', 'menv': 'menv', 'verb': 'verb',
                              'beginend': 'beginend'}[k])(cx, depth)
        if self.twins and len(self.pool) < 64:
            # settle the inner frame conditions now, so that later copies stay textually identical
            fix(node, r, math=cx.math)
            self.pool.append((node, features(node)))
        return node

    def free_group(self, cx, depth):
        c = cx.inside(brtop=False)
        c.special = False       # the reader does not carry the special mode into a free group
        return Node('group', 'brace', children=self.seq(c, depth - 1, self.rng.randint(0, 4)))


class Cx:
    """Where in the document we are generating (what the reader will know there)."""
    __slots__ = ('math', 'special', 'brtop', 'verb_ok', 'itemtop')

    def __init__(self, math=False, special=False, brtop=False, verb_ok=True, itemtop=False):
        self.math, self.special, self.brtop, self.verb_ok, self.itemtop = math, special, brtop, verb_ok, itemtop

    def inside(self, math=None, special=None, brtop=None, env=False, itemtop=False):
        """Context of the content of a nested construct.  Verbatim stays recognised only along a
        chain of named-environment bodies starting at the top level; a math region leaves the
        special mode of \\newcommand-style definitions."""
        c = Cx(self.math, self.special, False, self.verb_ok and env and not self.math and not self.special,
               itemtop)
        if math:
            c.math = True
            c.special = False
        if special:
            c.special = True
        if brtop is not None:
            c.brtop = brtop
        return c

    def admits(self, f):
        if 'verb' in f and not self.verb_ok:
            return False
        if self.math and f & {'math', 'env', 'special', 'beginend'}:
            return False
        if self.special and 'env' in f:
            return False
        if not self.special and 'beginend' in f:
            return False
        return True


def features(node):
    f = set()

    def go(n, in_special):
        if n.kind == 'math':
            f.add('math')
        elif n.kind == 'env':
            f.add('env')
            if n.sub == 'verb':
                f.add('verb')
        elif n.kind == 'cmd' and n.sub == 'special':
            f.add('special')
            in_special = True
        elif n.kind == 'cmd' and n.sub == 'beginend' and not in_special:
            f.add('beginend')
        for x in n.args + n.children:
            go(x, in_special)

    go(node, False)
    return f


VERB_PIECES = ('{', '}', '[', ']', '$', '$$', '\\', '\\\\', '\\begin{itemize}', '\\end{itemize}', '\\begin{e}',
               '\\end{e}', '\\item', '%', '% c\n', '\n', '\n', ' ', '  ', 'a', 'x = 1;', '\\(', '\\]', '\\zq{a}',
               '\\begin{verbatim}', '\\end{verbatimx}', '\\end{', '\\end', '#', '&', '\\textbf', '(', '\t', '\\[',
               'if (a[i] > 0) {', '\\begin{zq}', '\\end{zq}', '\\left(', '~', '^', '_',
               # bare sizing prefixes (a sizing command fuses with a following delimiter - also with `\\l..`-style ones)
               '\\left', '\\right', '\\big', '\\Bigg', '\\left\\l', '\\big\\')


def near_miss_closers(name):
    """almost `\\end{name}`: none of them ends the environment (the body runs to the first exact `\\end{name}`)"""
    return ('\\end {%s}' % name, '\\end\n{%s}' % name, '\\end\t{%s}' % name, '\\end{ %s}' % name, '\\end{%s }' % name,
            '\\end{%s' % name, '\\end{%s' % name[:-1] + '}', '\\end%s' % name, '\\end[%s]' % name, '\\End{%s}' % name,
            '\\end{{%s}}' % name, '\\begin{%s}' % name, '\\\\end{%sx}' % name, 'end{%s}' % name)


def verb_body(rng, name, hostile=True, near=True):
    """A raw body within the provisos of C11 (not starting with (blanks) + opener, not ending with a
    backslash, no % on the last line, not containing its own end)."""
    for _ in range(50):
        n = rng.randint(0, 8)
        pieces = VERB_PIECES + (near_miss_closers(name) * 2 if near else ())
        b = ''.join(rng.choice(pieces) for _ in range(n))
        if rng.random() < 0.4:
            b = '\n' + b + '\n'
        if verb_body_ok(b, name):
            return b
        # repair the common cases instead of rejecting (keeps hostile bodies frequent)
        if '%' in b.rsplit('\n', 1)[-1]:
            b += '\n'
        if b.endswith('\\'):
            b += ' '
        if OPENER.match(b):
            b = 'a' + b
        if verb_body_ok(b, name):
            return b
    return 'x'


def document(rng, depth=4, layout='adjacent', weights=None, twins=0.0, hostile=0.0, width=5,
             user_verb=0.5, eof_comment=True, unicode_ok=True):
    """A well-formed document: (source, ast).  `ast.skip` = user verbatim names to pass as skip_envs."""
    g = Gen(rng, layout, weights, twins, hostile, width, user_verb, unicode_ok)
    root = Node('root', children=g.seq(Cx(), depth, rng.randint(1, width + 2)))
    fix(root, rng, eof_comment)
    root.skip = tuple(g.skip)
    root.meta = {'twins': g.ntwins, 'layout': layout}
    src = render(root)
    return src, root


def finish(root, rng=None, eof_comment=True):
    """Fix frames and render a hand-built / mutated tree: (source, ast)."""
    fix(root, rng, eof_comment)
    return render(root), root


# ----------------------------------------------------------------------------- shrinking

def shrink(root, fails, budget=400):
    """Greedy reduction of a failing tree: drop children, drop arguments of generic commands /
    items / environments, halve texts and comment payloads, while `fails(source, ast)` stays true
    (the frame conditions are re-established after every step).  Returns (source, ast) of the
    smallest failing tree found."""
    def attempt(cand):
        try:
            cand.skip = root.skip
            src, c = finish(cand, None)
        except FrameError:
            return None
        try:
            return (src, c) if fails(src, c) else None
        except Exception:
            return None

    best = attempt(root.clone())
    if best is None:
        return render(root), root
    used = 1
    progress = True
    while progress and used < budget:
        progress = False
        cur = best[1]
        nodes = list(walk(cur))
        for idx, n in enumerate(nodes):
            ops = [('child', j) for j in range(len(n.children) - 1, -1, -1)]
            droppable = (n.kind == 'cmd' and n.sub == 'generic') or n.kind == 'item' or \
                        (n.kind == 'env' and n.sub != 'verb')
            if droppable:
                ops += [('arg', j) for j in range(len(n.args) - 1, -1, -1)]
            if n.kind in ('text', 'comment') and n.s and len(n.s) > 1:
                ops += [('half', 0), ('half', 1)]
            for op, j in ops:
                if used >= budget:
                    break
                cand = cur.clone()
                m = list(walk(cand))[idx]
                if op == 'child':
                    del m.children[j]
                elif op == 'arg':
                    del m.args[j]
                    del m.seps[j]
                else:
                    h = len(m.s) // 2
                    m.s = m.s[:h] if j == 0 else m.s[h:]
                used += 1
                got = attempt(cand)
                if got is not None and len(got[0]) < len(best[0]):
                    best = got
                    progress = True
                    break
            if progress or used >= budget:
                break
    return best
