#!/usr/bin/env python3
"""Rewrites 'Appendix B' of DESIGN.md from seeded/*/meta.json."""
import glob
import json
import os

VERIF = os.path.dirname(os.path.dirname(os.path.abspath(__file__)))
rows = []
for p in sorted(glob.glob(os.path.join(VERIF, 'seeded', '*', 'meta.json'))):
    m = json.load(open(p))
    res = m['results']
    caught = [c for c, r in res.items() if r['exit'] == 1]
    missed = [c for c, r in res.items() if r['exit'] == 0]
    other = [c for c, r in res.items() if r['exit'] not in (0, 1)]
    rows.append('| %s | %s | %s | %s | %s |' % (m['id'], m['breaks_property'], m['needs_to_manifest'].replace('|', '\\|'),
                                           ', '.join(caught) or '-', ', '.join(missed + ['%s (exit %s)' % (c, res[c]['exit']) for c in other]) or '-'))
text = ['## Appendix B – seeded changes and the checks that catch them', '',
        'Each change was written by an independent sub-agent that saw only the property text and a private worktree; it keeps',
        'the 164 tests green. "Caught by" = the check exits 1 with a VIOLATION line when run (quick tier) against the change;',
        '"quiet" = a related check that was also run and did not react (not every related property is actually broken by the change).',
        '', '| id | property | what it needs to manifest | caught by | quiet |', '|---|---|---|---|---|'] + rows + ['']
ctl = []
for p in sorted(glob.glob(os.path.join(VERIF, 'seeded', '*', 'control.json'))):
    m = json.load(open(p))
    loud = [c for c, r in m['results'].items() if r['exit'] != 0]
    ctl.append('| %s | %s | %s |' % (m['id'], m['change'].replace('|', '\\|'),
                                  'all 20 checks exit 0' if not loud else 'ALARM: ' + ', '.join(loud)))
if ctl:
    text += ['### Controls: behaviour-preserving refactorings', '',
             'Written by independent sub-agents asked for a realistic refactoring that changes no observable behaviour (and to',
             'falsify it themselves by differential testing). All twenty quick checks were run against each; none may react.',
             '', '| id | change | result |', '|---|---|---|'] + ctl + ['']
path = os.path.join(VERIF, 'DESIGN.md')
s = open(path).read()
marker = '## Appendix B – seeded changes'
if marker in s:
    s = s[:s.index(marker)]
s = s.rstrip('\n') + '\n\n' + '\n'.join(text)
open(path, 'w').write(s)
print('rows', len(rows))
