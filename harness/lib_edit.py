"""Differential check of the Lean edit model (TexSoupModel/Edit.lean, request `edit` of the
driver, see TexSoupModel/EditDriver.lean for the op syntax) against the real `TexNode` API.

    impl_edit(source, ops)  -> 'EDIT r1;...;rn;[tree]'   (same answer format as the driver)
    gen_doc(rng)            -> a well-formed document with textual twins
    gen_ops(rng, source, n) -> a valid history (list of op strings) of length <= n
    bfs_histories(source, depth=2) -> every history of length <= depth over a finite alphabet
    selftest(driver_path)   -> compares model and implementation, returns a report dict

Targets are named by structural paths (`b0.a1:2.b3`, `r` = root).  The implementation side
locates the target *expression* structurally and then obtains a correctly parented
`TexNode` by walking from the root through `.contents`, matching `node.expr is target`
(a `TexText` leaf is never yielded by `.contents` as a node, so for it the node is built the
way `TexNode.all` builds it: `TexNode(expr)` with `.parent` set).

Domain of the model (ops outside it are answered `FAIL` on the implementation side as well,
see `OutOfDomain`): `ren`/`args` only on `TexCmd`/`TexNamedEnv` targets; `str` not on text
leaves; `args` material must be expressions that `TexArgs` keeps (groups, commands); `aop`
(operations on the argument list itself: append/extend/insert/pop/remove/reverse/clear/slice/
permutation and the take-edit-put-back forms) only on `TexCmd`/`TexNamedEnv` targets; bare
`str` elements (inserted plain strings) are not addressable as *targets* through the
`TexNode` API (they have no node), they are only ever context.

Transplanted material (`i:<source>@<path>`, `c:<path>`, see EditDriver.lean): a node taken from
*inside* an argument / group / item body of a separately parsed snippet document, or a `.copy()`
of a node of the edited document itself.  The library never copies expressions, so such a
node is the same object in the snippet (resp. at its old place) and at its new place; `Sources`
keeps the snippet documents and checks after every step that they are still what they were
(`gen_transplant`, `transplant_pairs`, `run_transplant`).
"""
import os
import subprocess
import sys
import zlib

HERE = os.path.dirname(os.path.abspath(__file__))
if HERE not in sys.path:
    sys.path.insert(0, HERE)
import common                                           # noqa: E402
from common import enc, dec, canon_root                 # noqa: E402


class OutOfDomain(Exception):
    """The op is outside the domain of the model (both sides answer FAIL)."""


class BadPath(Exception):
    """The path does not exist in the current tree."""


# ----------------------------------------------------------------------------- paths

def supports_contents(expr):
    """Whether append/insert are allowed on the expression (everything but commands other than \\item) - stated
    here from the documented behaviour, not read off a private method of the implementation."""
    from TexSoup import data as D
    return not isinstance(expr, D.TexCmd) or expr.name == 'item'


def parse_path(w):
    if w == 'r':
        return []
    out = []
    for st in w.split('.'):
        if st[0] == 'b':
            out.append(('b', int(st[1:])))
        else:
            i, j = st[1:].split(':')
            out.append(('a', int(i), int(j)))
    return out


def show_path(p):
    if not p:
        return 'r'
    return '.'.join('b%d' % s[1] if s[0] == 'b' else 'a%d:%d' % (s[1], s[2]) for s in p)


def _is_expr(x):
    from TexSoup import data as D
    return isinstance(x, D.TexExpr)


def _is_text(x):
    from TexSoup import data as D
    return isinstance(x, D.TexText) or not isinstance(x, D.TexExpr)


def chain_of(soup, path):
    """The expressions from the root (excluded) down to the target, structurally."""
    e = soup.expr
    chain = []
    for st in path:
        if _is_text(e):
            raise BadPath(show_path(path))
        try:
            if st[0] == 'b':
                if st[1] >= len(e._contents):
                    raise BadPath(show_path(path))
                e = e._contents[st[1]]
            else:
                if st[1] >= len(e.args):
                    raise BadPath(show_path(path))
                a = e.args[st[1]]
                if st[2] >= len(a._contents):
                    raise BadPath(show_path(path))
                e = a._contents[st[2]]
        except (IndexError, AttributeError):
            raise BadPath(show_path(path))
        chain.append(e)
    return chain


def node_for(soup, path):
    """A correctly parented TexNode for the expression at `path`."""
    from TexSoup import data as D
    chain = chain_of(soup, path)
    node = soup
    for k, target in enumerate(chain):
        last = k == len(chain) - 1
        if isinstance(target, D.TexText):
            if not last:
                raise BadPath(show_path(path))
            n = D.TexNode(target)
            n.parent = node
            return n
        if not isinstance(target, D.TexExpr):
            raise OutOfDomain('bare string has no TexNode')
        found = None
        for c in node.contents:
            if isinstance(c, D.TexNode) and c.expr is target:
                found = c
                break
        if found is None:
            raise RuntimeError('target not reachable through .contents: %s' % show_path(path))
        assert found.parent is node
        node = found
    return node


# ----------------------------------------------------------------------------- material

def _subtree_ids(e):
    """ids of every expression object of the subtree of e (e, its arguments, all contents)."""
    from TexSoup import data as D
    out, todo = set(), [e]
    while todo:
        x = todo.pop()
        if not isinstance(x, D.TexExpr) or id(x) in out:
            continue
        out.add(id(x))
        if not isinstance(x, D.TexText):
            todo.extend(x.args)
            todo.extend(x._contents)
    return out


class Sources(object):
    """The snippet documents that transplanted material (`i:`) was taken from.  The expression
    handed to the API is the very object that sits in the snippet, so the snippet shows whether
    an edit of the main document was carried out somewhere else: after every step `check()`
    compares each snippet with its text.  A step that edits *inside* the transplanted subtree
    (its container/holder, or the node that is renamed / gets a new string or arguments, lies
    in that subtree) changes the shared object and thereby, legitimately, the snippet: those
    steps are counted in `excluded` and the snippet text is taken anew."""

    def __init__(self):
        self.items = []
        self.excluded = 0

    def add(self, snippet, expr):
        self.items.append({'soup': snippet, 'text': str(snippet), 'ids': _subtree_ids(expr), 'touch': False})

    def begin(self, soup, kind, path):
        for it in self.items:
            it['touch'] = False
        if not self.items:
            return
        try:
            chain = chain_of(soup, path)
        except Exception:
            return
        rel = chain[:-1] if kind in ('del', 'rep') else chain
        ids = set(id(e) for e in rel)
        for it in self.items:
            it['touch'] = bool(ids & it['ids'])

    def check(self):
        """None, or a message naming the snippet that an edit of the main document changed."""
        bad = None
        for it in self.items:
            now = str(it['soup'])
            if now != it['text']:
                if it['touch']:
                    self.excluded += 1
                elif bad is None:
                    bad = 'the document the new material was taken from changed: %r -> %r' % (it['text'], now)
                it['text'] = now
            it['touch'] = False
        return bad


def inner_material(w, sources=None, detach=False):
    """`i:<encoded source>@<path>`: the node at `path` inside a freshly parsed snippet, as the
    parented node that navigation gives (`snippet.textbf.emph`), or (`detach`) its `.copy()`."""
    T = common.impl()
    src, sel = w[2:].split('@')
    sp = T.TexSoup(dec(src))
    node = node_for(sp, parse_path(sel))
    if sources is not None:
        sources.add(sp, node.expr)
    else:
        node._snippet = sp                              # keep the snippet alive with the node
    return T.data.TexNode(node.expr) if detach else node


def copy_material(w, soup):
    """`c:<path>`: `.copy()` of the node at `path` of the document being edited."""
    if soup is None:
        raise BadPath('c: material needs the document')
    p = parse_path(w[2:])
    if not p:
        raise BadPath('root')
    return node_for(soup, p).copy()


def _detach(op_kind, w):
    """`insert` demands parentless nodes; append/replace take both (drawn from the text)."""
    return op_kind == 'ins' or bool(zlib.crc32(w.encode()) & 4)


def material(w, as_expr=False, soup=None, sources=None, op_kind='app'):
    T = common.impl()
    kind, payload = w[0], w[2:]
    if kind == 'n':
        sp = T.TexSoup(dec(payload))
        e = sp.expr._contents[0]
        if isinstance(e, T.data.TexText):               # `.contents` yields text as a Token
            n = T.data.TexNode(e)
        else:
            n = sp.contents[0].copy()
            assert n.expr is e and n.parent is None
        return n.expr if as_expr else n
    if kind == 'g':
        e = T.TexSoup(dec(payload)).contents[0].expr.args[0]
        return e
    if kind == 's':
        if as_expr:
            raise OutOfDomain('plain string in an argument list')
        return dec(payload)
    if kind == 'i':
        n = inner_material(w, sources, _detach(op_kind, w))
        return n.expr if as_expr else n
    if kind == 'c':
        n = copy_material(w, soup)
        return n.expr if as_expr else n
    if kind == 'o':                                     # the node at the path itself, as navigation gives it
        if soup is None:
            raise BadPath('o: material needs the document')
        n = node_for(soup, parse_path(payload))
        if op_kind == 'ins':
            n = n.copy()                                # insert demands parentless nodes
        return n.expr if as_expr else n
    if kind == 'd':
        if as_expr:
            raise OutOfDomain('a whole document in an argument list')
        return T.TexSoup(dec(payload))                  # the parsed document itself, as one piece
    raise ValueError(w)


def materials(w, as_expr=False, soup=None, sources=None, op_kind='app'):
    return [] if w == '_' else [material(x, as_expr, soup, sources, op_kind) for x in w.split(',')]


# ----------------------------------------------------------------------------- one op

def apply_op(soup, op, salt=0, variant=None, sources=None):
    """Apply one op to the real objects (raises on failure).  `del`/`rep` have two spellings
    in the API (`node.delete()` / `parent.remove(node)`, `node.replace_with` /
    `parent.replace`): `variant` 1 / 0 forces one, None draws it from a hash of (salt, op)."""
    from TexSoup import data as D
    words = op.split(' ')
    kind = words[0]
    coin = zlib.crc32(('%d/%s' % (salt, op)).encode()) & 1 if variant is None else variant
    if kind == 'del':
        p = parse_path(words[1])
        if not p:
            raise BadPath('root')
        node = node_for(soup, p)
        if coin:
            node.delete()
        else:
            node.parent.remove(node)
    elif kind == 'rep':
        p = parse_path(words[1])
        if not p:
            raise BadPath('root')
        node = node_for(soup, p)
        ms = materials(words[2], False, soup, sources, 'rep')
        if coin:
            node.replace_with(*ms)
        else:
            node.parent.replace(node, *ms)
    elif kind == 'ins':
        node = node_for(soup, parse_path(words[1]))
        if isinstance(node.expr, D.TexText):
            raise OutOfDomain('text leaf as container')
        node.insert(int(words[2]), *materials(words[3], False, soup, sources, 'ins'))
    elif kind == 'app':
        node = node_for(soup, parse_path(words[1]))
        if isinstance(node.expr, D.TexText):
            raise OutOfDomain('text leaf as container')
        node.append(*materials(words[2], False, soup, sources, 'app'))
    elif kind == 'ren':
        p = parse_path(words[1])
        if not p:
            raise BadPath('root')
        node = node_for(soup, p)
        if not isinstance(node.expr, (D.TexCmd, D.TexNamedEnv)):
            raise OutOfDomain('rename of %s' % type(node.expr).__name__)
        node.name = dec(words[2])
    elif kind == 'str':
        p = parse_path(words[1])
        if not p:
            raise BadPath('root')
        node = node_for(soup, p)
        if isinstance(node.expr, D.TexText):
            raise OutOfDomain('string of a text leaf')
        node.string = dec(words[2])
    elif kind == 'args':
        p = parse_path(words[1])
        if not p:
            raise BadPath('root')
        node = node_for(soup, p)
        if not isinstance(node.expr, (D.TexCmd, D.TexNamedEnv)):
            raise OutOfDomain('args of %s' % type(node.expr).__name__)
        ms = materials(words[2], True, soup, sources, 'args')
        if not all(isinstance(m, (D.TexGroup, D.TexCmd)) for m in ms):
            raise OutOfDomain('TexArgs drops this material')
        node.args = D.TexArgs(ms)
    elif kind == 'aop':
        # an operation on the node's own argument list (model: .setArgs with the result of the
        # same operation on a plain list, TexSoupModel/ArgsEdit.lean)
        p = parse_path(words[1])
        if not p:
            raise BadPath('root')
        P = Op(op, soup, sources)
        node = node_for(soup, p)
        if not isinstance(node.expr, (D.TexCmd, D.TexNamedEnv)):
            raise OutOfDomain('args of %s' % type(node.expr).__name__)
        perform(soup, P, coin)
    else:
        raise ValueError(op)


def impl_edit(source, ops, detail=None, soup=None, variant=None, sources=None):
    """Run a history on the real objects; answer in the driver's format.  `soup`: a prepared
    tree of `source` (see `clone`) instead of a fresh parse; `variant`: see `apply_op`.  After
    every step the snippet documents of transplanted material must be what they were
    (`Sources`); otherwise the answer of the step is marked `SOURCE-CHANGED!`."""
    T = common.impl()
    if soup is None:
        try:
            soup = T.TexSoup(source)
        except RecursionError:
            raise
        except Exception as e:
            return common.classify_exc(e)
    if sources is None:
        sources = Sources()
    outs = []
    for k, op in enumerate(ops):
        before = canon_root(soup)
        w = op.split(' ')
        try:
            sources.begin(soup, w[0], parse_path(w[1]))
        except Exception:
            pass
        try:
            apply_op(soup, op, salt=k, variant=variant, sources=sources)
            outs.append(enc(str(soup)))
        except RecursionError:
            raise
        except Exception as e:
            if detail is not None:
                detail.append((k, op, '%s: %s' % (type(e).__name__, e)))
            if canon_root(soup) != before:
                outs.append('FAIL!MUTATED(%s)' % type(e).__name__)
            else:
                outs.append('FAIL')
        msg = sources.check()
        if msg:
            if detail is not None:
                detail.append((k, op, msg))
            outs[-1] = 'SOURCE-CHANGED!' + outs[-1]
    outs.append(canon_root(soup))
    return 'EDIT ' + ';'.join(outs)


def edit_req(source, ops):
    return 'edit %s | %s' % (enc(source), ';'.join(ops))


def model_batch(lines, driver=None, timeout=900):
    driver = driver or common.DRIVER
    if not lines:
        return []
    data = ('\n'.join(lines) + '\n').encode()
    p = subprocess.run([driver], input=data, stdout=subprocess.PIPE, stderr=subprocess.PIPE,
                       timeout=timeout)
    if p.returncode != 0:
        raise common.ModelError('driver exit %d: %s' % (p.returncode, p.stderr.decode()[-300:]))
    out = p.stdout.decode().split('\n')
    if out and out[-1] == '':
        out.pop()
    if len(out) != len(lines):
        raise common.ModelError('driver answered %d lines for %d requests' % (len(out), len(lines)))
    return out


# ----------------------------------------------------------------------------- generators

TEXTS = [' y', ' z ', '1', '.', ' a b', ' ', '\n', '  ', ' y', '\n\nw', '%c\n']
CMDS = ['\\x', '\\y', '\\x', '\\textbf{b}', '\\textbf{b \\x}', '\\sec[o]{p}', '\\sec[o]{p \\x}',
        '\\x{a}{a}', '\\ref{k}', '\\def\\foo']
NAMES = ['x', 'y', 'textbf', 'item', 'itemize', 'q']


def _frag(rng, depth, pool, in_math=False):
    """One document fragment; `pool` collects fragments for twin reuse."""
    if pool and rng.random() < 0.3:
        f = rng.choice(pool)
        if not (in_math and '$' in f):
            return f
    r = rng.random()
    if depth <= 0 or r < 0.3:
        f = rng.choice(CMDS) if rng.random() < 0.6 else rng.choice(TEXTS)
    elif r < 0.4:
        f = rng.choice(TEXTS)
    elif r < 0.55:
        f = '{' + _seq(rng, depth - 1, pool, in_math) + '}'
    elif r < 0.7 and not in_math:
        o, c = rng.choice([('$', '$'), ('$$', '$$'), ('\\[', '\\]'), ('\\(', '\\)')])
        f = o + _seq(rng, depth - 1, pool, True) + c
    elif r < 0.85:
        items = ''.join('\\item' + rng.choice(['', '[o]']) + rng.choice([' ', '\n']) +
                        _seq(rng, depth - 1, pool, in_math)
                        for _ in range(rng.randint(1, 3)))
        f = '\\begin{itemize}' + rng.choice(['', ' ', '\n']) + items + '\\end{itemize}'
    else:
        nm = rng.choice(['a', 'center', 'a'])
        f = '\\begin{%s}%s%s\\end{%s}' % (nm, rng.choice(['', '{c}', '[o]{c \\x}']),
                                          _seq(rng, depth - 1, pool, in_math), nm)
    pool.append(f)
    return f


def _seq(rng, depth, pool, in_math=False):
    return ''.join(_frag(rng, depth, pool, in_math) for _ in range(rng.randint(0, 3)))


def gen_doc(rng):
    """A well-formed document (parses in strict mode) with textual twins."""
    T = common.impl()
    for _ in range(50):
        pool = []
        n = rng.randint(1, 5)
        parts = [_frag(rng, 2, pool) for _ in range(n)]
        if rng.random() < 0.7 and parts:                # force a twin of a body node
            parts.insert(rng.randint(0, len(parts)), rng.choice(parts))
        if rng.random() < 0.4:                          # a body node equal to an argument node
            parts.append('\\sec[o]{p \\x}\\x')
        doc = ''.join(parts)
        try:
            T.TexSoup(doc)
            return doc
        except Exception:
            continue
    return '\\x y\\x z'


MAT_NODES = ['\\x', '\\y{a}', '\\item c', '{g}', '$m$', '\\begin{a}t\\end{a}', ' y', '\\x']
MAT_STRS = ['s', ' ', ' y', '']
# plain strings that are LaTeX source: handed to append/insert/replace they are spliced in
# verbatim as ONE text leaf (never parsed): a command separated from its argument group by a
# blank / line break, a fixed-signature command with a bare token, unbalanced fragments, a lone
# backslash, a comment, closing delimiters
SRC_STRS = ['\\ref {fig}', '\\textbf a', '\\emph [a] {b}', '\\section\n{T}', '\\item [1] {uno}', '\\begin{x}',
            '\\end{a}', '$a $ b', '\\[', '\\(', '{', '}', '\\foo{', '\\', '%c', '\\x %c\n', '\\def \\foo', ']',
            '\\x{a}', '\\\\ \\$']


# whole parsed documents handed in as ONE piece (`d:`): blank-only text at their top level
DOC_SRCS = ['\\alpha \\beta', '\\a{1}\n\\b{2}\n', ' \\x', '\\x ', ' ', '$x$ $y$', '\\x\n', '{a} {b}\n\\x', '\\new{y}',
            '\\begin{a}t\\end{a} \\begin{a}t\\end{a}', 'a \\x b', '\n\n']


def uses_doc(ops):
    """Does a history use a whole document as material?  The model splices the elements of the
    document where the implementation nests its root as one element: equal serialisations,
    different trees - the canonical trees are then not compared (`same_answer`)."""
    return any(m[0] == 'd' for op in ops for m in _mat_words(op))


def same_answer(a, m, ops):
    """Model and implementation answers agree (without the final tree after `d:` material)."""
    if a == m:
        return True
    return uses_doc(ops) and a.rsplit(';', 1)[0] == m.rsplit(';', 1)[0]


def gen_str(rng, src=0.3):
    """A plain string for new material: a word/blank, or (probability `src`) LaTeX source."""
    return rng.choice(SRC_STRS) if rng.random() < src else rng.choice(MAT_STRS)
ARG_MATS = ['g:' + enc('\\x[o]'), 'g:' + enc('\\x{a}'), 'g:' + enc('\\x{a \\x}'),
            'n:' + enc('{n}'), 'g:' + enc('\\x{a}')]


# (snippet source, path of the node inside it): nodes that were parsed inside an argument, a
# brace group, an \\item body, a bracket argument, a group in a group, math in a group
INNER_MATS = [('\\textbf{\\emph{hi}}', 'b0.a0:0'), ('{\\x}', 'b0.b0'), ('\\sec[o]{p \\x}', 'b0.a1:1'),
              ('\\begin{itemize}\\item \\x y\\end{itemize}', 'b0.b0.b1'), ('{{g}}', 'b0.b0'),
              ('\\y[\\x{a}]', 'b0.a0:0'), ('{$m$ y}', 'b0.b0'), ('\\textbf{b \\x}', 'b0.a0:1'),
              ('\\begin{itemize}\\item[o] z {g}\\end{itemize}', 'b0.b0.b1'), ('{ y}', 'b0.b0')]


def inner_mat(src, sel):
    return 'i:%s@%s' % (enc(src), sel)


_INNER_TEXT = {}


def inner_text(src, sel):
    if (src, sel) not in _INNER_TEXT:
        T = common.impl()
        _INNER_TEXT[(src, sel)] = str(chain_of(T.TexSoup(src), parse_path(sel))[-1])
    return _INNER_TEXT[(src, sel)]


def gen_mats(rng, lo=1, hi=3, inner=0.12, docs=0.0):
    """1..3 new items: nodes parsed at the top level of a snippet (`n:`), plain strings (`s:`),
    with probability `inner` each a node taken from inside a snippet (`i:`) and with
    probability `docs` each a whole parsed document as one piece (`d:`)."""
    out = []
    for _ in range(rng.randint(lo, hi)):
        r = rng.random()
        if rng.random() < docs:
            out.append('d:' + enc(rng.choice(DOC_SRCS)))
        elif r < inner:
            out.append(inner_mat(*rng.choice(INNER_MATS)))
        elif r < inner + (1 - inner) * 0.6:
            out.append('n:' + enc(rng.choice(MAT_NODES)))
        else:
            out.append('s:' + enc(gen_str(rng)))
    return ','.join(out) if out else '_'


def enum_tree(soup):
    """(targets, containers): paths of all addressable non-root elements, with the
    expression, and of all containers (root included) with the length of their contents."""
    from TexSoup import data as D
    targets, containers = [], [([], len(soup.expr._contents), soup.expr)]

    def walk(e, path):
        for i, a in enumerate(e.args):
            for j, x in enumerate(a._contents):
                visit(x, path + [('a', i, j)])
        for j, x in enumerate(e._contents):
            visit(x, path + [('b', j)])

    def visit(x, path):
        if not isinstance(x, D.TexExpr):
            return                                      # bare string: context only
        targets.append((path, x))
        if not isinstance(x, D.TexText):
            containers.append((path, len(x._contents), x))
            walk(x, path)

    walk(soup.expr, [])
    return targets, containers


def _string_ok(x):
    """Would `node.string = s` succeed on expression x?"""
    from TexSoup import data as D
    if isinstance(x, D.TexText):
        return False
    if isinstance(x, D.TexCmd):
        return len(x.args) == 1
    c = list(x.contents)
    return len(c) == 1 and isinstance(c[0], str)


def past_end(rng, ln):
    """An insertion index beyond the end of a list of length ln (list.insert clamps: append)."""
    return rng.choice([ln + 1, ln + 2, ln + 10, 99, 1000])


def self_replacements(p):
    """Replacement lists (material words) for the node at path p that mention the node itself
    (`o:`) or its `.copy()` (`c:`, the same expression): wrap, text behind, text before, twice
    with a separator, itself only.  [(words, aliased)]: `aliased` = the object ends up twice."""
    o, c = 'o:' + p, 'c:' + p
    return [('s:%s,%s,s:%s' % (enc('['), o, enc(']')), False), ('%s,s:%s' % (o, enc('!')), False),
            ('s:%s,%s,s:%s' % (enc('{'), c, enc('}')), False), ('%s,s:%s' % (c, enc('!')), False),
            ('s:%s,%s' % (enc('!'), o), False), (o, False), ('n:%s,%s,n:%s' % (enc('\\x'), c, enc('\\x')), False),
            ('%s,s:%s,%s' % (o, enc(' / '), o), True), ('%s,%s' % (o, c), True)]


def neg_indices(ln):
    return sorted({-1, -2, -ln, -ln - 1, -99} - {0})


def neg_index(rng, ln):
    """A negative insertion index for a list of length ln (l[i:i] = pieces with list.insert's clamping)."""
    return rng.choice(neg_indices(ln))


def gen_op(rng, soup, docs=0.0):
    """One op on the current tree. Mostly ops that succeed, with a share (~10%) of ops the
    implementation refuses (insertion into a plain command, `.string` of a node that has
    none, ...).  `docs`: probability of a whole parsed document (`d:`) per new piece."""
    from TexSoup import data as D
    targets, containers = enum_tree(soup)
    sloppy = rng.random() < 0.1
    kind = rng.choice(['del', 'del', 'rep', 'rep', 'ins', 'ins', 'app', 'ren', 'str', 'args'])
    if kind in ('ins', 'app') or not targets:
        good = [c for c in containers if sloppy or supports_contents(c[2])]
        path, ln, x = rng.choice(good or containers)
        c = show_path(path)
        if kind == 'app':
            return 'app %s %s' % (c, gen_mats(rng, docs=docs))
        if rng.random() < 0.15:                         # beyond the end, mostly with several pieces
            return 'ins %s %d %s' % (c, past_end(rng, ln), gen_mats(rng, 2 if rng.random() < 0.7 else 1, 3, docs=docs))
        if rng.random() < 0.2:                          # negative: counted from the end, clamped at the front
            return 'ins %s %d %s' % (c, neg_index(rng, ln), gen_mats(rng, 2 if rng.random() < 0.7 else 1, 3, docs=docs))
        return 'ins %s %d %s' % (c, rng.randint(0, ln), gen_mats(rng, docs=docs))
    if kind == 'del':
        return 'del ' + show_path(rng.choice(targets)[0])
    if kind == 'rep':
        p = show_path(rng.choice(targets)[0])
        if rng.random() < 0.15:                         # the target itself (or its copy()) among 2..3 pieces
            ms = gen_mats(rng, 1, 2, docs=docs).split(',')
            ms.insert(rng.randint(0, len(ms)), rng.choice(['o:', 'c:']) + p)
            return 'rep %s %s' % (p, ','.join(ms))
        return 'rep %s %s' % (p, gen_mats(rng, 0 if rng.random() < 0.1 else 1, 3, docs=docs))
    named = [t for t in targets if sloppy or isinstance(t[1], (D.TexCmd, D.TexNamedEnv))]
    if kind == 'ren' and named:
        return 'ren %s %s' % (show_path(rng.choice(named)[0]), enc(rng.choice(NAMES)))
    if kind == 'args' and named:
        n = rng.randint(0, 3)
        ms = ','.join(rng.choice(ARG_MATS) for _ in range(n)) if n else '_'
        return 'args %s %s' % (show_path(rng.choice(named)[0]), ms)
    strs = [t for t in targets if sloppy or _string_ok(t[1])]
    if kind == 'str' and strs:
        return 'str %s %s' % (show_path(rng.choice(strs)[0]),
                              enc(rng.choice(['S', ' t ', '', ' '])))
    return 'del ' + show_path(rng.choice(targets)[0])


DOC_SHARE = 0.12


def gen_ops(rng, source, n, docs_any=False):
    """A valid history: every target is re-acquired by path in the tree as it is after the
    previous steps (tracked on the real objects).  Whole documents as material (`d:`) occur in
    the last step only (after them model and implementation trees differ, see `uses_doc`),
    unless `docs_any` (implementation-only runs)."""
    T = common.impl()
    soup = T.TexSoup(source)
    ops = []
    for k in range(n):
        op = gen_op(rng, soup, DOC_SHARE if (docs_any or k == n - 1) else 0.0)
        ops.append(op)
        try:
            apply_op(soup, op, salt=k)
        except Exception:
            pass
    return ops


BFS_DOCS = ['\\x y\\x z', '\\textbf{\\x}\\x', '\\begin{itemize}\\item a\\item a\\end{itemize}',
            '{\\x}$\\x$ ', '\\sec[o]{p \\x}\\x', '\\def\\foo']
BFS_MATS = ['n:' + enc('\\x'), 's:' + enc('s') + ',n:' + enc('{g}')]


def alphabet(soup):
    """Every op of a finite alphabet applicable to the current tree: every non-root node as
    target, every insertion index 0..len (and len+1, and -1 with two pieces) of every container."""
    from TexSoup import data as D
    targets, containers = enum_tree(soup)
    ops = []
    for path, x in targets:
        p = show_path(path)
        ops.append('del ' + p)
        ops.append('rep %s _' % p)
        for m in BFS_MATS:
            ops.append('rep %s %s' % (p, m))
        ops.append('rep %s s:%s,o:%s,s:%s' % (p, enc('['), p, enc(']')))
        if isinstance(x, (D.TexCmd, D.TexNamedEnv)):
            ops.append('ren %s %s' % (p, enc('y')))
            ops.append('args %s _' % p)
            ops.append('args %s %s' % (p, ARG_MATS[0] + ',' + ARG_MATS[1]))
        if not isinstance(x, D.TexText):
            ops.append('str %s %s' % (p, enc('S')))
    for path, ln, x in containers:
        c = show_path(path)
        for i in range(ln + 2):
            for m in BFS_MATS:
                ops.append('ins %s %d %s' % (c, i, m))
        ops.append('ins %s -1 %s' % (c, BFS_MATS[1]))
        ops.append('app %s %s' % (c, BFS_MATS[1]))
    return ops


def bfs_histories(source, depth=2):
    """All histories of length <= depth over `alphabet` (recomputed after every step)."""
    T = common.impl()
    out = [[]]
    frontier = [[]]
    for _ in range(depth):
        nxt = []
        for h in frontier:
            soup = T.TexSoup(source)
            for k, op in enumerate(h):
                try:
                    apply_op(soup, op, salt=k)
                except Exception:
                    pass
            for op in alphabet(soup):
                nxt.append(h + [op])
        out.extend(nxt)
        frontier = nxt
    return out


# ----------------------------------------------------------------------------- comparison

def compare(cases, driver=None):
    """cases: list of (source, ops). Returns the list of disagreeing (source, ops, impl, model)."""
    reqs = [edit_req(s, ops) for s, ops in cases]
    model = model_batch(reqs, driver)
    bad = []
    for (s, ops), m in zip(cases, model):
        i = impl_edit(s, ops)
        if not same_answer(i, m, ops):
            bad.append((s, ops, i, m))
    return bad


def disagree(source, ops, driver=None):
    return bool(compare([(source, ops)], driver))


def shrink(source, ops, driver=None):
    """Greedy shrinking of a disagreeing history (drop ops while the disagreement stays)."""
    i = impl_edit(source, ops).split(';')
    m = model_batch([edit_req(source, ops)], driver)[0].split(';')
    for k in range(len(ops)):                           # cut after the first differing step
        if k >= len(i) or k >= len(m) or i[k] != m[k]:
            ops = ops[:k + 1]
            break
    changed = True
    while changed:
        changed = False
        for k in range(len(ops) - 1):
            cand = ops[:k] + ops[k + 1:]
            try:
                if disagree(source, cand, driver):
                    ops, changed = cand, True
                    break
            except Exception:
                pass
    return source, ops


def explain(source, ops, driver=None):
    d = []
    i = impl_edit(source, ops, detail=d)
    m = model_batch([edit_req(source, ops)], driver)[0]
    lines = ['source: %r' % source]
    for k, op in enumerate(ops):
        lines.append('  op %d: %s' % (k, ' '.join(
            w if k2 == 0 or not any(ch.isdigit() for ch in w) else w for k2, w in enumerate(op.split(' ')))))
    ii, mm = i.split(';'), m.split(';')
    for k in range(max(len(ii), len(mm))):
        a = ii[k] if k < len(ii) else '<none>'
        b = mm[k] if k < len(mm) else '<none>'
        if a != b:
            def rd(x):
                x = x[5:] if x.startswith('EDIT ') else x
                try:
                    return repr(dec(x))
                except Exception:
                    return x
            if a.startswith('[') and len(a) > 300:
                a, b = '<tree>', '<tree differs>'
            lines.append('  step %d: impl %s   model %s' % (k, rd(a), rd(b)))
    for k, op, e in d:
        lines.append('  impl exception at op %d: %s' % (k, e))
    return '\n'.join(lines)


def selftest(driver_path=None, n_random=3000, max_len=8, verbose=True):
    rng = common.rng('lib_edit')
    cases = []
    for _ in range(n_random):
        doc = gen_doc(rng)
        cases.append((doc, gen_ops(rng, doc, rng.randint(1, max_len))))
    n_bfs = 0
    for doc in BFS_DOCS:
        hs = bfs_histories(doc, 2)
        n_bfs += len(hs)
        cases.extend((doc, h) for h in hs)
    bad = compare(cases, driver_path)
    n_ops = sum(len(o) for _, o in cases)
    n_fail = 0
    report = {'random_histories': n_random, 'bfs_histories': n_bfs, 'ops': n_ops,
              'disagreements': len(bad), 'examples': []}
    seen = set()
    for s, ops, i, m in bad[:200]:
        try:
            s2, o2 = shrink(s, ops, driver_path)
        except Exception:
            s2, o2 = s, ops
        key = (s2, tuple(o2))
        if key in seen:
            continue
        seen.add(key)
        if len(report['examples']) < 10:
            report['examples'].append(explain(s2, o2, driver_path))
    if verbose:
        print('edit selftest: %d random histories (len<=%d) + %d BFS histories, %d ops, '
              '%d disagreements' % (n_random, max_len, n_bfs, n_ops, len(bad)))
        for e in report['examples']:
            print(e)
    return report


# ----------------------------------------------------------------------------- string reference
#
# Everything below looks at the implementation only (no model): where an element of the
# tree lies in `str(soup)`, computed from the text of what precedes it structurally (never
# from `.position`), what an op is expected to do to that text (`resolve`), the op through
# the public API (`perform`), and the views after an edit (`check_views`, `check_untouched`).

def clone(soup):
    """An isomorphic copy of a tree (deep copy of the expressions, new root node)."""
    import copy
    from TexSoup import data as D
    return D.TexNode(copy.deepcopy(soup.expr))


def _delims(e):
    from TexSoup import data as D
    table = {D.BraceGroup: ('{', '}'), D.BracketGroup: ('[', ']'), D.TexMathModeEnv: ('$', '$'),
             D.TexDisplayMathModeEnv: ('$$', '$$'), D.TexDisplayMathEnv: ('\\[', '\\]'),
             D.TexMathEnv: ('\\(', '\\)')}
    if type(e) in table:
        return table[type(e)]
    if isinstance(e, D.TexCmd):
        return ('\\' + str(e.name), '')
    if isinstance(e, D.TexNamedEnv):
        return ('\\begin{%s}' % e.name, '\\end{%s}' % e.name)
    if isinstance(e, D.TexEnv):
        if e.name == '[tex]':
            return ('', '')
        return (str(e.begin), str(e.end))
    return ('', '')


def head_text(e):
    """The characters of str(e) in front of its arguments."""
    return _delims(e)[0]


def args_len(e):
    return sum(len(str(a)) for a in e.args)


def open_len(e):
    """Number of characters of str(e) in front of its own contents."""
    return len(head_text(e)) + args_len(e)


def body_len(e):
    return sum(len(str(c)) for c in e._contents)


def locate(soup, path):
    """(k, x, holder, owner): the element x at `path`, its offset k in str(soup), the
    expression `holder` whose `_contents` list holds it and the node expression `owner` that
    the holder belongs to (holder is owner or one of owner.args).  Root: (0, root, None, None)."""
    e, k, holder, owner = soup.expr, 0, None, None
    for st in path:
        if _is_text(e):
            raise BadPath(show_path(path))
        owner = e
        if st[0] == 'b':
            holder = e
            k += open_len(e)
        else:
            if st[1] >= len(e.args):
                raise BadPath(show_path(path))
            holder = e.args[st[1]]
            if _is_text(holder):
                raise BadPath(show_path(path))
            k += len(head_text(e)) + sum(len(str(a)) for a in list(e.args)[:st[1]]) + open_len(holder)
        j = st[-1]
        if j >= len(holder._contents):
            raise BadPath(show_path(path))
        k += sum(len(str(c)) for c in holder._contents[:j])
        e = holder._contents[j]
    return k, e, holder, owner


def span_of(soup, path):
    """(k, n): str(soup)[k:k+n] is the text of the element at `path`."""
    k, x, _, _ = locate(soup, path)
    return k, len(str(x))


def py_insert_index(n, i):
    """Where list.insert(i, x) puts x in a list of length n (a negative index counts from the
    end, everything is clamped into 0..n); several pieces go there in order: l[i:i] = pieces."""
    return max(0, n + i) if i < 0 else min(i, n)


def ins_point(soup, cpath, i):
    """Offset in str(soup) of insertion index i (resolved as list.insert does, negative
    indices included) of the contents of the container at `cpath`."""
    k, c, _, _ = locate(soup, cpath)
    if _is_text(c):
        raise BadPath(show_path(cpath))
    return k + open_len(c) + sum(len(str(x)) for x in c._contents[:py_insert_index(len(c._contents), i)])


def refuses_contents(e):
    """Content lists of plain commands (every command but `item`) cannot be edited
    (documented: TypeError)."""
    from TexSoup import data as D
    return isinstance(e, D.TexCmd) and str(e.name) != 'item'


def _blank(c):
    from TexSoup import data as D
    if isinstance(c, D.TexText):
        c = c._text
    return isinstance(c, str) and c.isspace()


def flat_all(e):
    """`expr.all`, structurally: the (non-blank) contents of every argument, then the own
    contents. Text leaves stay the TexText objects."""
    out = []
    for a in e.args:
        out.extend(flat_contents(a))
    out.extend(e._contents)
    return out


def flat_contents(e):
    return [c for c in flat_all(e) if not _blank(c)]


def _textlike(c):
    from TexSoup import data as D
    return isinstance(c, D.TexText) or not isinstance(c, D.TexExpr)


def _text_of(c):
    from TexSoup import data as D
    return c._text if isinstance(c, D.TexText) else c


_PROTO = {}


def fresh(w, as_expr=False):
    """Like `material`, but the source of a material is parsed once per process and every
    use gets its own deep copy of that parse (a new object each time, as `material` gives)."""
    import copy
    from TexSoup import data as D
    if w[0] == 's':
        return material(w, as_expr)
    key = (w, as_expr)
    if key not in _PROTO:
        _PROTO[key] = material(w, as_expr)
    m = _PROTO[key]
    if isinstance(m, D.TexNode):
        return D.TexNode(copy.deepcopy(m.expr))
    return copy.deepcopy(m)


def fresh_list(w, as_expr=False, soup=None, sources=None, op_kind='app'):
    if w == '_':
        return []
    out = []
    for x in w.split(','):
        if x[0] in 'ico':                               # transplanted: the real, shared object
            out.append(material(x, as_expr, soup, sources, op_kind))
        else:
            out.append(fresh(x, as_expr))
    return out


class Op(object):
    """A parsed op with its material objects (built once: the text of the material and the
    objects handed to the API are the same)."""

    def __init__(self, op, soup=None, sources=None):
        """`soup` (the document as it is now) is needed for `c:` material, `sources` registers
        the snippet documents of `i:` material."""
        w = op.split(' ')
        self.op, self.kind = op, w[0]
        self.path = parse_path(w[1])
        self.index = self.name = self.string = self.sub = self.bounds = self.inner = None
        self.mats, self.nums = [], []
        k = self.kind
        if k == 'rep':
            self.mats = fresh_list(w[2], False, soup, sources, 'rep')
        elif k == 'ins':
            self.index, self.mats = int(w[2]), fresh_list(w[3], False, soup, sources, 'ins')
        elif k == 'app':
            self.mats = fresh_list(w[2], False, soup, sources, 'app')
        elif k == 'ren':
            self.name = dec(w[2])
        elif k == 'str':
            self.string = dec(w[2])
        elif k == 'args':
            self.mats = fresh_list(w[2], True, soup, sources, 'args')
        elif k == 'aop':
            lop = _LOp(w[2:], op)
            self.sub, self.nums, self.mats = lop.sub, lop.nums, lop.mats
            self.bounds, self.inner = lop.bounds, lop.inner
        elif k != 'del':
            raise ValueError(op)

    def mat_exprs(self):
        from TexSoup import data as D
        return [m.expr if isinstance(m, D.TexNode) else m for m in self.mats]

    def mat_text(self):
        return ''.join(str(m) for m in self.mats)


def argmat(w):
    """Material of a TexArgs operation: a group/command object, or (s:) an unparsed argument
    string such as '{z}' that TexArgs turns into a group itself."""
    if w[0] == 's':
        return dec(w[2:])
    return fresh(w, as_expr=True)


def _bound(w):
    return None if w == '_' else int(w)


class _LOp(object):
    """A parsed operation on an argument list (the words behind `aop P`)."""

    def __init__(self, w, op=''):
        self.sub = sub = w[0]
        self.nums, self.mats, self.bounds, self.inner = [], [], None, None
        if sub in ('app', 'ext'):
            self.mats = [argmat(x) for x in w[1].split(',')]
        elif sub in ('ins', 'sins', 'set'):
            self.nums, self.mats = [int(w[1])], [argmat(w[2])]
        elif sub in ('pop', 'rem', 'spop'):
            self.nums = [int(w[1])]
        elif sub == 'sl':
            self.bounds = (_bound(w[1]), _bound(w[2]))
            self.nums = list(self.bounds)
        elif sub == 'perm':
            self.nums = [int(x) for x in w[1].split(',')] if w[1] != '_' else []
        elif sub == 'sapp':
            self.mats = [argmat(w[1])]
        elif sub in ('ks', 'kc', 'kca'):
            self.bounds = (_bound(w[1]), _bound(w[2]))
            self.inner = _LOp(w[3:], op)
            self.mats = self.inner.mats
        elif sub not in ('rev', 'rs', 'clr', 'same', 'srev'):
            raise ValueError(op or ' '.join(w))


class KeptSliceChanged(Exception):
    """A slice taken from `node.args` changed when the node's list was edited in place."""


SELF_ASSIGN = {'same': None, 'srev': 'rev', 'spop': 'pop', 'sins': 'ins', 'sapp': 'app'}


def _list_op(P, ref):
    """The TexArgs operation of P on a plain Python list (raises what list raises).  The
    self-assignment forms (`a = node.args; <edit a in place>; node.args = a`) mean the list as it
    is after the in-place edit."""
    s = P.sub
    if s in ('ks', 'kc', 'kca'):
        # a slice is a copy: keep = args[lo:hi]; ks: <inner on args>; args = keep
        #                    kc: <inner on keep> (args as they were); kca: ... then args = keep
        keep = list(ref[P.bounds[0]:P.bounds[1]])
        if s == 'ks':
            _list_op(P.inner, list(ref))
            ref[:] = keep
        elif s == 'kc':
            _list_op(P.inner, keep)
        else:
            ref[:] = _list_op(P.inner, keep)
        return ref
    if s in SELF_ASSIGN:
        s = SELF_ASSIGN[s]
        if s is None:
            return ref
    if s == 'app':
        ref.append(P.mats[0])
    elif s == 'ext':
        ref.extend(P.mats)
    elif s == 'ins':
        ref.insert(P.nums[0], P.mats[0])
    elif s == 'pop':
        ref.pop(P.nums[0])
    elif s == 'rem':
        ref.remove(ref[P.nums[0]])
    elif s == 'rev':
        ref.reverse()
    elif s == 'rs':
        ref[:] = ref[::-1]
    elif s == 'clr':
        ref.clear()
    elif s == 'sl':
        ref[:] = ref[P.nums[0]:P.nums[1]]
    elif s == 'perm':
        ref[:] = [ref[i] for i in P.nums]
    elif s == 'set':
        ref[P.nums[0]] = P.mats[0]
    return ref


def resolve(soup, P):
    """What the op is expected to do to str(soup), decided on the current tree *before* the
    op, independently of the code under test:

        ('skip', why)               the harness cannot express the op here (no such path, a
                                    bare string as target, ...): it is not applied
        ('refuse', why)             the API refuses (raises); the document stays as it is
        ('splice', [(k, n, new)..], site)   str(soup)[k:k+n] is replaced by `new` (disjoint
                                    spans, ascending), nothing else changes; `site` says
                                    which paths are affected (see check_untouched)
    """
    from TexSoup import data as D
    k = P.kind
    try:
        off, x, holder, owner = locate(soup, P.path)
    except BadPath:
        return ('skip', 'no such path')
    if k in ('ins', 'app'):
        if _is_text(x):
            return ('skip', 'text leaf as container')
        if refuses_contents(x):
            return ('refuse', 'command without contents')
        n = len(x._contents)
        i = n if k == 'app' else py_insert_index(n, P.index)
        at = off + open_len(x) + sum(len(str(c)) for c in x._contents[:i])
        return ('splice', [(at, 0, P.mat_text())],
                {'kind': 'list', 'q': list(P.path), 'h': ('b',), 's': i, 'd': 0, 'new': P.mat_exprs()})
    if not P.path:
        return ('skip', 'root as target')
    if not isinstance(x, D.TexExpr):
        return ('skip', 'bare string has no node')
    st = P.path[-1]
    if k in ('del', 'rep'):
        if refuses_contents(holder):
            return ('refuse', 'holder is a command without contents')
        new = P.mat_text() if k == 'rep' else ''
        return ('splice', [(off, len(str(x)), new)],
                {'kind': 'list', 'q': list(P.path[:-1]), 'h': st[:-1], 's': st[-1], 'd': 1,
                 'new': P.mat_exprs() if k == 'rep' else []})
    if k == 'ren':
        if isinstance(x, D.TexCmd):
            return ('splice', [(off + 1, len(str(x.name)), P.name)], {'kind': 'node', 'p': list(P.path)})
        if isinstance(x, D.TexNamedEnv):
            n, ln = len(str(x.name)), len(str(x))
            return ('splice', [(off + 7, n, P.name), (off + ln - 1 - n, n, P.name)],
                    {'kind': 'node', 'p': list(P.path)})
        return ('skip', 'rename of %s' % type(x).__name__)
    if k == 'str':
        if isinstance(x, D.TexText):
            return ('skip', 'string of a text leaf')
        if isinstance(x, D.TexCmd):
            if len(x.args) != 1:
                return ('refuse', 'command without exactly one argument')
            a = x.args[0]
            return ('splice', [(off + len(head_text(x)) + open_len(a), body_len(a), P.string)],
                    {'kind': 'inner', 'p': list(P.path), 'h': ('a', 0)})
        fc = flat_contents(x)
        if len(fc) == 1 and _textlike(fc[0]):
            return ('splice', [(off + open_len(x), body_len(x), P.string)],
                    {'kind': 'inner', 'p': list(P.path), 'h': ('b',)})
        return ('refuse', 'environment that is not text-only')
    if k in ('args', 'aop'):
        if not isinstance(x, (D.TexCmd, D.TexNamedEnv)):
            return ('skip', 'args of %s' % type(x).__name__)
        if k == 'args':
            if not all(isinstance(m, (D.TexGroup, D.TexCmd)) for m in P.mats):
                return ('skip', 'TexArgs drops this material')
            ref = list(P.mats)
        else:
            try:
                ref = _list_op(P, list(x.args))
            except (IndexError, ValueError) as e:
                if P.sub == 'rem':
                    return ('skip', 'no such argument')
                return ('refuse', 'list raises %s' % type(e).__name__)
        return ('splice', [(off + len(head_text(x)), args_len(x), ''.join(str(a) for a in ref))],
                {'kind': 'args', 'p': list(P.path), 'ref': ref})
    raise ValueError(P.op)


def ref_apply(text, splices):
    for k, n, new in sorted(splices, reverse=True):
        text = text[:k] + new + text[k + n:]
    return text


def perform(soup, P, variant=0):
    """The op through the public TexNode / TexArgs API on a correctly parented node."""
    from TexSoup import data as D
    k = P.kind
    node = node_for(soup, P.path)
    if k == 'del':
        if variant:
            node.delete()
        else:
            node.parent.remove(node)
    elif k == 'rep':
        if variant:
            node.replace_with(*P.mats)
        else:
            node.parent.replace(node, *P.mats)
    elif k == 'ins':
        node.insert(P.index, *P.mats)
    elif k == 'app':
        node.append(*P.mats)
    elif k == 'ren':
        node.name = P.name
    elif k == 'str':
        node.string = P.string
    elif k == 'args':
        node.args = D.TexArgs(P.mats)
    elif k == 'aop':
        s = P.sub
        if s == 'app':
            node.args.append(P.mats[0])
        elif s == 'ext':
            node.args.extend(P.mats)
        elif s == 'ins':
            node.args.insert(P.nums[0], P.mats[0])
        elif s == 'pop':
            node.args.pop(P.nums[0])
        elif s == 'rem':
            node.args.remove(node.args[P.nums[0]])
        elif s == 'rev':
            node.args.reverse()
        elif s == 'rs':
            node.args = node.args[::-1]
        elif s == 'clr':
            node.args.clear()
        elif s == 'sl':
            node.args = node.args[P.nums[0]:P.nums[1]]
        elif s == 'perm':
            node.args = D.TexArgs([node.args[i] for i in P.nums])
        elif s == 'set':
            node.args[P.nums[0]] = P.mats[0]
        elif s in ('ks', 'kc', 'kca'):
            old = list(node.args)[P.bounds[0]:P.bounds[1]]
            keep = node.args[P.bounds[0]:P.bounds[1]]   # a slice is a copy ...
            if s == 'ks':
                _in_place(node.args, P.inner)           # ... so editing the list itself
                if [id(a) for a in keep] != [id(a) for a in old]:
                    raise KeptSliceChanged('the slice taken before holds %r, not %r' % (
                        ''.join(map(str, keep)), ''.join(map(str, old))))
                node.args = keep                        # ... and putting the slice back gives the old elements
            else:
                _in_place(keep, P.inner)                # editing the copy leaves the node alone
                if s == 'kca':
                    node.args = keep
        elif s in SELF_ASSIGN:
            a = node.args                               # the live handle
            if s == 'srev':
                a.reverse()
            elif s == 'spop':
                a.pop(P.nums[0])
            elif s == 'sins':
                a.insert(P.nums[0], P.mats[0])
            elif s == 'sapp':
                a.append(P.mats[0])
            node.args = a                               # ... put back


def _in_place(lst, lop):
    """The in-place forms on a TexArgs object."""
    s = lop.sub
    if s == 'rev':
        lst.reverse()
    elif s == 'clr':
        lst.clear()
    elif s == 'pop':
        lst.pop(lop.nums[0])
    elif s == 'ins':
        lst.insert(lop.nums[0], lop.mats[0])
    elif s == 'app':
        lst.append(lop.mats[0])
    elif s == 'set':
        lst[lop.nums[0]] = lop.mats[0]
    else:
        raise ValueError(s)


# ----------------------------------------------------------------------------- tree snapshots

def snapshot(soup):
    """[(path, element)] for every element of every content list (bodies and argument
    contents), bare strings included, in document order."""
    out = []

    def walk(e, path):
        for i, a in enumerate(e.args):
            if _is_text(a):
                continue
            for j, x in enumerate(a._contents):
                visit(x, path + (('a', i, j),))
        for j, x in enumerate(e._contents):
            visit(x, path + (('b', j),))

    def visit(x, path):
        out.append((path, x))
        if _is_expr(x) and not _is_text(x):
            walk(x, path)

    walk(soup.expr, ())
    return out


def _starts(path, prefix):
    return len(path) >= len(prefix) and tuple(path[:len(prefix)]) == tuple(prefix)


def check_untouched(before, soup, site):
    """`before` = snapshot taken before a successful op, `site` from `resolve`. Every element
    that was not targeted must be the same object at the same place (siblings behind the edit
    point moved by inserted - removed), with the same text unless it contains the edit; new
    material sits at the edit point; no object occurs twice. Returns None or a message."""
    after = snapshot(soup)
    amap = dict(after)
    ids = [id(x) for _, x in after if _is_expr(x)]
    idset = set(ids)
    if len(ids) != len(idset):
        return 'an expression object occurs at two places'
    kind = site['kind']
    expected = 0
    if kind == 'list':
        q, h, s, d, new = tuple(site['q']), tuple(site['h']), site['s'], site['d'], site['new']
        shift = len(new) - d
        newids = set()                                  # the target itself may be among its replacement pieces
        for m in new:
            if _is_expr(m):
                newids |= _subtree_ids(m)
        for path, x in before:
            inside = _starts(path, q) and len(path) > len(q) and path[len(q)][:-1] == h
            np = path
            if inside:
                j = path[len(q)][-1]
                if s <= j < s + d:
                    if _is_expr(x) and id(x) in idset and id(x) not in newids:
                        return 'removed element %s is still in the tree' % show_path(path)
                    continue
                if j >= s + d:
                    np = path[:len(q)] + (h + (j + shift,),) + path[len(q) + 1:]
            expected += 1
            msg = _same(amap, np, x)
            if msg:
                return 'untargeted %s: %s' % (show_path(path), msg)
        for t, m in enumerate(new):
            at = q + (h + (s + t,),)
            got = amap.get(at)
            if (got is not m) if _is_expr(m) else (got != m or _is_expr(got)):
                return 'new material %d is not at %s' % (t, show_path(at))
            expected += sum(1 for pth, _ in after if _starts(pth, at))
    elif kind == 'node':
        p = tuple(site['p'])
        for path, x in before:
            expected += 1
            msg = _same(amap, path, x)
            if msg:
                return 'untargeted %s: %s' % (show_path(path), msg)
    elif kind in ('inner', 'args'):
        p = tuple(site['p'])
        for path, x in before:
            if _starts(path, p) and len(path) > len(p):
                st = path[len(p)]
                gone = (st[0] == 'a') if kind == 'args' else (st[:-1] == tuple(site['h']))
                if gone:
                    continue
            expected += 1
            msg = _same(amap, path, x)
            if msg:
                return 'untargeted %s: %s' % (show_path(path), msg)
        expected += sum(1 for pth, _ in after if _starts(pth, p) and len(pth) > len(p) and (
            (pth[len(p)][0] == 'a') if kind == 'args' else (pth[len(p)][:-1] == tuple(site['h']))))
    if expected != len(after):
        return 'the tree has %d elements, expected %d' % (len(after), expected)
    return None


def _same(amap, path, x):
    got = amap.get(path, amap)
    if got is amap:
        return 'lost (nothing at %s)' % show_path(path)
    if _is_expr(x):
        if got is not x:
            return 'another object at %s' % show_path(path)
    elif got != x or _is_expr(got):
        return 'another string at %s' % show_path(path)
    return None


def frozen_text(before):
    """{id: text} of the expressions of a snapshot (to compare after an op)."""
    return {id(x): str(x) for _, x in before if _is_expr(x)}


def check_texts(before, texts, soup, site):
    """Untargeted elements keep their text: all but the ancestors of the edit point (and,
    for node edits, the node itself)."""
    if site['kind'] == 'list':
        anc = tuple(site['q'])
    else:
        anc = tuple(site['p'])
    for path, x in before:
        if _is_expr(x) and not _starts(anc, path) and str(x) != texts[id(x)]:
            return 'untargeted %s changed its text' % show_path(path)
    return None


def check_views(soup, names=(), new=(), container=None):
    """find_all / descendants / children / contents / text / parent of the (edited) tree are
    mutually consistent, in the sense of C03/C04, with the structure (`flat_contents`).
    `new`: inserted material that must show up below the node at path `container`."""
    from TexSoup import data as D
    try:
        desc = list(soup.descendants)
    except Exception as e:
        return 'descendants raises %s: %s' % (type(e).__name__, e)
    nodes = [d for d in desc if isinstance(d, D.TexNode)]
    # structure
    want_nodes, want_text = [], []

    def walk(e):
        for c in flat_contents(e):
            if _textlike(c):
                want_text.append(_text_of(c))
            else:
                want_nodes.append(c)
                walk(c)
    walk(soup.expr)
    got = [id(n.expr) for n in nodes]
    if len(got) != len(set(got)):
        return 'a node occurs twice in descendants'
    if set(got) != set(id(x) for x in want_nodes):
        return 'descendants has %d nodes, the tree %d' % (len(got), len(want_nodes))
    dtext = [d for d in desc if not isinstance(d, D.TexNode)]
    if sorted(map(str, dtext)) != sorted(map(str, want_text)):
        return 'text items of descendants differ from the text leaves of the tree'
    try:
        text = list(soup.text)
    except Exception as e:
        return 'text raises %s: %s' % (type(e).__name__, e)
    if len(text) != len(want_text) or any(
            (a is not b) if isinstance(b, common.impl().utils.Token) else (a != b)
            for a, b in zip(text, want_text)):
        return 'text view %r differs from the text leaves %r' % (text[:8], [str(x) for x in want_text[:8]])
    # per node: contents, children, parent
    for node in [soup] + nodes:
        fc = flat_contents(node.expr)
        cont = list(node.contents)
        if len(cont) != len(fc):
            return 'contents of %r has %d items, expected %d' % (str(node)[:30], len(cont), len(fc))
        for c, x in zip(cont, fc):
            if _textlike(x):
                if isinstance(c, D.TexNode) or c != _text_of(x):
                    return 'contents of %r: text item differs' % str(node)[:30]
            elif not isinstance(c, D.TexNode) or c.expr is not x or c.parent is not node:
                return 'contents of %r: node item or its parent differs' % str(node)[:30]
        ch = list(node.children)
        wch = [x for x in fc if not _textlike(x)]
        if len(ch) != len(wch) or any(c.expr is not x or c.parent is not node for c, x in zip(ch, wch)):
            return 'children of %r differ from the nodes of contents' % str(node)[:30]
    for d in nodes:
        up, steps = d, 0
        while up.parent is not None and steps <= len(nodes) + 1:
            if not any(c is up.expr for c in flat_contents(up.parent.expr)):
                return 'parent of %r does not contain it' % str(up)[:30]
            up, steps = up.parent, steps + 1
        if up is not soup:
            return 'parent chain of %r does not end at the root' % str(d)[:30]
    # search
    for name in names:
        try:
            fa = list(soup.find_all(name))
        except Exception as e:
            return 'find_all(%r) raises %s' % (name, type(e).__name__)
        want = [n for n in nodes if str(n.expr.name) == name]
        if len(fa) != len(want) or any(a.expr is not b.expr for a, b in zip(fa, want)):
            return 'find_all(%r) gives %d nodes, descendants of that name: %d' % (name, len(fa), len(want))
        if soup.count(name) != len(want):
            return 'count(%r) differs' % name
    # inserted material
    if new:
        cnode = node_for(soup, container) if container else soup
        kids = [c.expr for c in cnode.children]
        ctext = list(cnode.text)
        for m in new:
            if _textlike(m):
                t = _text_of(m)
                if not (isinstance(t, str) and t.isspace()) and not any(x == t for x in ctext):
                    return 'inserted text %r is not in the text view of its container' % str(t)
            else:
                if not any(c is m for c in kids):
                    return 'inserted node %r is not among the children of its container' % str(m)[:30]
                if id(m) not in set(got):
                    return 'inserted node %r is not among the descendants' % str(m)[:30]
    return None


def tree_names(soup):
    from TexSoup import data as D
    return sorted({str(x.name) for _, x in snapshot(soup)
                   if isinstance(x, (D.TexCmd, D.TexNamedEnv))})


# ----------------------------------------------------------------------------- histories with TexArgs ops

AOP_MATS = ARG_MATS + ['s:' + enc('{z}'), 's:' + enc('[w]'), 'n:' + enc('\\x')]


def gen_aop(rng, soup):
    """One operation on the argument list of a command/environment of the current tree
    (`aop P <sub> ..`, implementation-only vocabulary, see `Op`/`perform`), or None."""
    from TexSoup import data as D
    targets, _ = enum_tree(soup)
    named = [t for t in targets if isinstance(t[1], (D.TexCmd, D.TexNamedEnv))]
    if not named:
        return None
    path, x = rng.choice(named)
    p, n = show_path(path), len(x.args)
    sub = rng.choice(['app', 'app', 'ext', 'ins', 'ins', 'pop', 'pop', 'rem', 'rev', 'rs', 'clr', 'sl', 'perm',
                      'same', 'srev', 'spop', 'sins', 'sapp'])
    if rng.random() < 0.25:                             # kept slices / slot assignment
        return 'aop %s %s' % (p, gen_kept(rng, n))
    if sub == 'sapp':
        return 'aop %s sapp %s' % (p, rng.choice(AOP_MATS))
    if sub == 'sins':
        return 'aop %s sins %d %s' % (p, rng.randint(-n - 1, n + 1), rng.choice(AOP_MATS))
    if sub == 'spop':
        return 'aop %s spop %d' % (p, rng.randint(-n - 1, n))
    if sub == 'app':
        return 'aop %s app %s' % (p, rng.choice(AOP_MATS))
    if sub == 'ext':
        return 'aop %s ext %s' % (p, ','.join(rng.choice(AOP_MATS) for _ in range(rng.randint(1, 3))))
    if sub == 'ins':
        return 'aop %s ins %d %s' % (p, rng.randint(-n - 1, n + 1), rng.choice(AOP_MATS))
    if sub == 'pop':
        return 'aop %s pop %d' % (p, rng.randint(-n - 1, n))
    if sub == 'rem':
        return ('aop %s rem %d' % (p, rng.randrange(n))) if n else ('aop %s rev' % p)
    if sub == 'sl':
        i = rng.randint(0, n)
        return 'aop %s sl %d %d' % (p, i, rng.randint(i, n))
    if sub == 'perm':
        idx = rng.sample(range(n), rng.randint(0, n))
        return 'aop %s perm %s' % (p, ','.join(map(str, idx)) or '_')
    return 'aop %s %s' % (p, sub)


def slice_bounds(n):
    """Bound shapes of a slice of a list of length n: the full-range ones in all spellings,
    prefixes, suffixes, inner, negative, beyond the end."""
    out = [('_', '_'), ('0', '_'), ('_', str(n)), ('_', '99'), ('0', str(n)), ('-99', '_'), ('1', '_'),
           ('_', str(max(n - 1, 0))), ('_', '-1'), ('-1', '_'), ('1', str(n)), ('0', '0'), ('_', str(n + 1))]
    if n:
        out.append((str(-n), '_'))
    return out


def gen_kept(rng, n, mats=None):
    """`ks lo hi <in-place op on the node's list>` or `kc/kca lo hi <op on the kept slice>`."""
    mats = mats or AOP_MATS
    gm = [m for m in mats if m[0] != 's']
    r = rng.random()
    # (a bare slot assignment `args[i] = M` is not generated on its own: list.__setitem__ is not overridden, the
    # shadow list .all keeps the old object and a later pop/remove of the new one raises after mutating - TexArgs
    # bookkeeping, property C18; inside `ks` the list is replaced by the kept slice afterwards)
    lo, hi = rng.choice(slice_bounds(n)) if rng.random() < 0.8 else (str(rng.randint(-n, n)), str(rng.randint(-n, n + 1)))
    if r < 0.7:
        inner = rng.choice(['rev', 'clr', 'pop %d' % rng.randint(-n, max(n - 1, 0)),
                            'ins %d %s' % (rng.randint(0, n), rng.choice(gm)), 'app %s' % rng.choice(gm),
                            'set %d %s' % (rng.randint(-n, max(n - 1, 0)), rng.choice(gm))])
        return 'ks %s %s %s' % (lo, hi, inner)
    inner = rng.choice(['pop 0', 'rev', 'pop -1'])
    return '%s %s %s %s' % ('kc' if r < 0.85 else 'kca', lo, hi, inner)


def step_variant(k, op):
    return zlib.crc32(('%d/%s' % (k, op)).encode()) & 1


def gen_history(rng, source, n, aop_share=0.2, docs_any=False):
    """Like gen_ops, with a share of TexArgs operations (`aop`); the tree is tracked through
    `perform`."""
    T = common.impl()
    soup = T.TexSoup(source)
    ops = []
    for k in range(n):
        op = gen_aop(rng, soup) if rng.random() < aop_share else None
        op = op or gen_op(rng, soup, DOC_SHARE if (docs_any or k == n - 1) else 0.0)
        ops.append(op)
        try:
            P = Op(op, soup)
            if resolve(soup, P)[0] != 'skip':
                perform(soup, P, step_variant(k, op))
        except Exception:
            pass
    return ops


# ----------------------------------------------------------------------------- transplanted nodes
#
# Histories in which a node that lived somewhere else (inside an argument / group / item of a
# snippet document, or - as a `.copy()` - elsewhere in the same document) is added and then
# itself deleted / replaced / removed at its new place.

def alias_ids(soup):
    """ids of the expression objects that occur at more than one place of the tree."""
    seen, dup = set(), set()
    for _, x in snapshot(soup):
        if _is_expr(x):
            (dup if id(x) in seen else seen).add(id(x))
    return dup


def alias_safe(soup, op, dup=None):
    """While an expression object occurs at two places (after `c:` material), an op is only
    well-defined if it does not edit *inside* such an object (that would change both places:
    the library shares, the model copies): the container of ins/app, the holder chain of
    del/rep and the target of ren/str/args/aop must lie outside."""
    dup = alias_ids(soup) if dup is None else dup
    if not dup:
        return True
    w = op.split(' ')
    try:
        chain = chain_of(soup, parse_path(w[1]))
    except Exception:
        return True
    rel = chain[:-1] if w[0] in ('del', 'rep') else chain
    return not any(id(e) in dup for e in rel)


def copy_ok(soup, opath, cpath, tpath=None):
    """May a `.copy()` of the node at `opath` be added to the container at `cpath` (or replace
    the node at `tpath`, whose parent is at `cpath`)?  Well-defined in the library iff the new
    parent node does not already hold the object in one of its own holders (its lookup is by
    identity among the holders of the parent), the object does not get into itself, and no
    object is aliased yet."""
    from TexSoup import data as D
    if not opath or alias_ids(soup):
        return False
    try:
        o = chain_of(soup, opath)[-1]
        cchain = chain_of(soup, cpath)
    except Exception:
        return False
    if not isinstance(o, D.TexExpr):
        return False
    sub = _subtree_ids(o)
    if any(id(e) in sub for e in cchain):
        return False
    c = cchain[-1] if cchain else soup.expr
    if _is_text(c):
        return False
    held = list(c._contents)
    for a in c.args:
        if not _is_text(a):
            held.extend(a._contents)
    if any(x is o for x in held):
        return False
    if tpath is not None:
        try:
            t = chain_of(soup, tpath)[-1]
        except Exception:
            return False
        if id(t) in sub or (isinstance(t, D.TexExpr) and id(o) in _subtree_ids(t)):
            return False
    return True


def _track(soup, ops, op):
    """Append op to the history and follow it on the real objects (as the runners do)."""
    k = len(ops)
    ops.append(op)
    try:
        P = Op(op, soup)
        if resolve(soup, P)[0] != 'skip':
            perform(soup, P, step_variant(k, op))
        return P
    except Exception:
        return None


_TWIN = {}


def _standalone_twin(text):
    """`n:` material with the same text, if the text parses on its own to that one element."""
    if text not in _TWIN:
        T = common.impl()
        try:
            c = T.TexSoup(text).expr._contents
            _TWIN[text] = 'n:' + enc(text) if len(c) == 1 and str(c[0]) == text else None
        except Exception:
            _TWIN[text] = None
    return _TWIN[text]


def gen_transplant(rng, source, tail=3, allow_copy=True, prefix=2):
    """A history: 0..prefix ordinary steps, one step that adds (append mostly; insert,
    replace) a node taken from inside a snippet (`i:`) or a `.copy()` of a node of the document
    (`c:`, if `allow_copy` and well-defined, see `copy_ok`), often next to a fresh textual twin
    of it, then 1..tail steps most of which delete / replace that very node in its new place."""
    T = common.impl()
    soup = T.TexSoup(source)
    ops = []
    for _ in range(rng.randint(0, prefix)):
        _track(soup, ops, gen_op(rng, soup))
    targets, containers = enum_tree(soup)
    good = [c for c in containers if supports_contents(c[2])] or containers
    kind = rng.choice(['app'] * 6 + ['ins'] * 2 + ['rep'] * 2)
    if kind == 'rep' and not targets:
        kind = 'app'
    if kind == 'rep':
        tpath, _ = rng.choice(targets)
        cpath = tpath[:-1]
    else:
        cpath, ln, _ = rng.choice(good)
        tpath = None
    main = None
    if allow_copy and targets and rng.random() < 0.4:
        cands = [pth for pth, _ in targets if copy_ok(soup, pth, cpath, tpath)]
        if cands:
            opath = rng.choice(cands)
            main = 'c:' + show_path(opath)
            text = str(chain_of(soup, opath)[-1])
    if main is None:
        doc_text = str(soup)
        pool = [m for m in INNER_MATS if inner_text(*m) in doc_text] if rng.random() < 0.7 else []
        src, sel = rng.choice(pool or INNER_MATS)
        main, text = inner_mat(src, sel), inner_text(src, sel)
    mats = [main]
    if rng.random() < 0.5:
        tw = _standalone_twin(text) or gen_mats(rng, 1, 1, 0)
        mats.insert(rng.randint(0, 1), tw)
    if rng.random() < 0.25:
        mats.insert(rng.randint(0, len(mats)), gen_mats(rng, 1, 1, 0))
    m = ','.join(mats)
    if kind == 'rep':
        op = 'rep %s %s' % (show_path(tpath), m)
    elif kind == 'ins':
        op = 'ins %s %d %s' % (show_path(cpath), rng.randint(0, ln), m)
    else:
        op = 'app %s %s' % (show_path(cpath), m)
    P = _track(soup, ops, op)
    added = [x for x, w in zip(P.mat_exprs(), mats) if w[0] in 'ic'] if P is not None else []
    for _ in range(rng.randint(1, tail)):
        places = [pth for pth, x in snapshot(soup) if any(x is a for a in added)]
        if places and rng.random() < 0.7:
            pth = show_path(list(rng.choice(places)))
            if rng.random() < 0.5:
                op = 'del ' + pth
            else:
                tw = _standalone_twin(text)
                op = 'rep %s %s' % (pth, (tw + ',' if tw and rng.random() < 0.3 else '') + gen_mats(rng, 1, 2))
        else:
            op = None
            for _try in range(8):
                cand = gen_op(rng, soup)
                if alias_safe(soup, cand):
                    op = cand
                    break
            if op is None:
                break
        _track(soup, ops, op)
    return ops


def transplant_pairs(source, rng=None, cap=None):
    """[(ops, variant)]: for (up to `cap`) containers of the document, every `INNER_MATS` node and
    the first well-defined `.copy()`s of nodes of the document appended (alone / behind a fresh
    textual twin) or inserted at 0, then that very node deleted (both spellings) or replaced
    (both spellings) at its new place."""
    T = common.impl()
    base = T.TexSoup(source)
    targets, containers = enum_tree(base)
    good = [c for c in containers if supports_contents(c[2])]
    if cap is not None and len(good) > cap:
        good = [good[0]] + (rng or __import__('random').Random(0)).sample(good[1:], cap - 1)
    out = []
    for cpath, ln, _ in good:
        c = show_path(cpath)
        mats = [(inner_mat(*m), inner_text(*m)) for m in INNER_MATS]
        n = 0
        for opath, x in targets:
            if n < 3 and copy_ok(base, opath, cpath):
                mats.append(('c:' + show_path(opath), str(x)))
                n += 1
        for m, text in mats:
            tw = _standalone_twin(text)
            firsts = [('app %s %s' % (c, m), ln), ('ins %s 0 %s' % (c, m), 0)]
            if tw:
                firsts.append(('app %s %s,%s' % (c, tw, m), ln + 1))
            for op1, at in firsts:
                p = show_path(list(cpath) + [('b', at)])
                for v in (0, 1):
                    out.append(([op1, 'del ' + p], v))
                    out.append(([op1, 'rep %s s:%s,n:%s' % (p, enc('NEW'), enc('\\x{1}'))], v))
    return out


def run_transplant(source, ops, variant=None, stats=None):
    """The steps of a history on the implementation alone, each against the string reference
    (`resolve`): after every step str(soup) is the spliced text, a refused edit changed
    nothing, the snippet documents of transplanted material are unchanged (`Sources`), and -
    as long as no object occurs twice - untargeted nodes are where they were.  `variant`
    forces the API spelling of the last step.  None or (key, what, step).

    Counted exclusion (`aliased_inner_edit`): once a `.copy()` makes an object occur twice, a
    step that edits inside that object is not well-defined (both places would change); the
    history ends there."""
    T = common.impl()
    soup = T.TexSoup(source)
    sources = Sources()
    ref = str(soup)
    stats = stats if stats is not None else {}

    def bump(k, n=1):
        stats[k] = stats.get(k, 0) + n
    for k, op in enumerate(ops):
        try:
            P = Op(op, soup, sources)
        except Exception:
            bump('skip')
            continue
        res = resolve(soup, P)
        if res[0] == 'skip':
            bump('skip')
            continue
        dup = alias_ids(soup)
        if dup and not alias_safe(soup, op, dup):
            bump('aliased_inner_edit')
            break
        before = snapshot(soup)
        texts = frozen_text(before)
        sources.begin(soup, P.kind, P.path)
        v = variant if (variant is not None and k == len(ops) - 1) else step_variant(k, op)
        exc = None
        try:
            perform(soup, P, v)
        except RecursionError:
            raise
        except Exception as e:
            exc = e
        now = str(soup)
        want = ref if res[0] == 'refuse' else ref_apply(ref, res[1])
        call = _call_text(P, v)
        if any(w[0] in 'ic' for w in _mat_words(op)):
            bump('transplant_steps')
        if now != want or (exc is not None and res[0] == 'splice'):
            how = 'must be refused (%s)' % res[1] if res[0] == 'refuse' else \
                'must splice %s' % [(a, a + n, new) for a, n, new in res[1]]
            return ('%s-not-local' % {'del': 'delete' if v else 'remove', 'rep': 'replace', 'ins': 'insert',
                                       'app': 'insert'}.get(P.kind, 'edit'),
                    'step %d: %s%s %s; expected %r, got %r' % (
                        k, call, ' raised %s (%s)' % (type(exc).__name__, str(exc)[:80]) if exc else '', how,
                        want[:200], now[:200]), k)
        msg = sources.check()
        if msg:
            return ('source-document-changed', 'step %d: %s: %s' % (k, call, msg), k)
        ref = want
        bump('refused' if exc is not None or res[0] == 'refuse' else 'applied')
        if exc is not None or res[0] == 'refuse':
            continue
        if not dup and not alias_ids(soup):
            msg = check_untouched(before, soup, res[2]) or check_texts(before, texts, soup, res[2])
            if msg:
                return ('untargeted-changed', 'step %d: %s: %s' % (k, call, msg), k)
    bump('source_inner_edit', sources.excluded)
    return None


def _mat_words(op):
    w = op.split(' ')
    if w[0] in ('rep', 'app', 'args') and len(w) > 2:
        return [] if w[2] == '_' else w[2].split(',')
    if w[0] == 'ins' and len(w) > 3:
        return [] if w[3] == '_' else w[3].split(',')
    return []


def mat_show(m):
    if m[0] == 's':
        return repr(dec(m[2:]))
    if m[0] == 'i':
        src, sel = m[2:].split('@')
        return 'node at %s of TexSoup(%r)' % (sel, dec(src))
    if m[0] == 'c':
        return 'copy() of the node at %s' % m[2:]
    if m[0] == 'o':
        return 'the node at %s itself' % m[2:]
    if m[0] == 'g':
        return 'the first argument of %s' % dec(m[2:])
    if m[0] == 'd':
        return 'TexSoup(%r)' % dec(m[2:])
    return 'node(%s)' % dec(m[2:])


def _call_text(P, v):
    ms = ', '.join(mat_show(m) for m in _mat_words(P.op))
    p = show_path(P.path)
    return {'del': 'node.delete()' if v else 'node.parent.remove(node)',
            'rep': ('node.replace_with(%s)' if v else 'node.parent.replace(node, %s)') % ms,
            'ins': 'node.insert(%s, %s)' % (P.index, ms), 'app': 'node.append(%s)' % ms}.get(P.kind, P.op) \
        + ' with node at ' + p


if __name__ == '__main__':
    drv = sys.argv[1] if len(sys.argv) > 1 else None
    rep = selftest(drv)
    sys.exit(1 if rep['disagreements'] else 0)
