"""Differential check of the Lean edit model (TexSoupModel/Edit.lean, request `edit` of the
driver, see TexSoupModel/EditDriver.lean for the op syntax) against the real `TexNode` API.

    impl_edit(source, ops)  -> 'EDIT r1;...;rn;[tree]'   (same answer format as the driver)
    gen_doc(rng)            -> a well-formed document with textual twins
    gen_ops(rng, source, n) -> a valid history (list of op strings) of length <= n
    bfs_histories(source, depth=2) -> every history of length <= depth over a finite alphabet
    selftest(driver_path)   -> compares model and implementation, returns a report dict

Targets are named by structural paths (`b0.a1:2.b3`, `r` = root).  The implementation side
locates the target *expression* structurally and then obtains a correctly parented
`TexNode` by walking from the root through `.contents`, matching `node.expr is target`
(a `TexText` leaf is never yielded by `.contents` as a node, so for it the node is built the
way `TexNode.all` builds it: `TexNode(expr)` with `.parent` set).

Domain of the model (ops outside it are answered `FAIL` on the implementation side as well,
see `OutOfDomain`): `ren`/`args` only on `TexCmd`/`TexNamedEnv` targets; `str` not on text
leaves; `args` material must be expressions that `TexArgs` keeps (groups, commands); bare
`str` elements (inserted plain strings) are not addressable as *targets* through the
`TexNode` API (they have no node), they are only ever context.
"""
import os
import subprocess
import sys
import zlib

HERE = os.path.dirname(os.path.abspath(__file__))
for _p in (HERE, '/verif/harness'):
    if _p not in sys.path:
        sys.path.insert(0, _p)
import common                                           # noqa: E402
from common import enc, dec, canon_root                 # noqa: E402


class OutOfDomain(Exception):
    """The op is outside the domain of the model (both sides answer FAIL)."""


class BadPath(Exception):
    """The path does not exist in the current tree."""


# ----------------------------------------------------------------------------- paths

def parse_path(w):
    if w == 'r':
        return []
    out = []
    for st in w.split('.'):
        if st[0] == 'b':
            out.append(('b', int(st[1:])))
        else:
            i, j = st[1:].split(':')
            out.append(('a', int(i), int(j)))
    return out


def show_path(p):
    if not p:
        return 'r'
    return '.'.join('b%d' % s[1] if s[0] == 'b' else 'a%d:%d' % (s[1], s[2]) for s in p)


def _is_expr(x):
    from TexSoup import data as D
    return isinstance(x, D.TexExpr)


def _is_text(x):
    from TexSoup import data as D
    return isinstance(x, D.TexText) or not isinstance(x, D.TexExpr)


def chain_of(soup, path):
    """The expressions from the root (excluded) down to the target, structurally."""
    e = soup.expr
    chain = []
    for st in path:
        if _is_text(e):
            raise BadPath(show_path(path))
        try:
            if st[0] == 'b':
                if st[1] >= len(e._contents):
                    raise BadPath(show_path(path))
                e = e._contents[st[1]]
            else:
                if st[1] >= len(e.args):
                    raise BadPath(show_path(path))
                a = e.args[st[1]]
                if st[2] >= len(a._contents):
                    raise BadPath(show_path(path))
                e = a._contents[st[2]]
        except (IndexError, AttributeError):
            raise BadPath(show_path(path))
        chain.append(e)
    return chain


def node_for(soup, path):
    """A correctly parented TexNode for the expression at `path`."""
    from TexSoup import data as D
    chain = chain_of(soup, path)
    node = soup
    for k, target in enumerate(chain):
        last = k == len(chain) - 1
        if isinstance(target, D.TexText):
            if not last:
                raise BadPath(show_path(path))
            n = D.TexNode(target)
            n.parent = node
            return n
        if not isinstance(target, D.TexExpr):
            raise OutOfDomain('bare string has no TexNode')
        found = None
        for c in node.contents:
            if isinstance(c, D.TexNode) and c.expr is target:
                found = c
                break
        if found is None:
            raise RuntimeError('target not reachable through .contents: %s' % show_path(path))
        assert found.parent is node
        node = found
    return node


# ----------------------------------------------------------------------------- material

def material(w, as_expr=False):
    T = common.impl()
    kind, payload = w[0], w[2:]
    if kind == 'n':
        sp = T.TexSoup(dec(payload))
        e = sp.expr._contents[0]
        if isinstance(e, T.data.TexText):               # `.contents` yields text as a Token
            n = T.data.TexNode(e)
        else:
            n = sp.contents[0].copy()
            assert n.expr is e and n.parent is None
        return n.expr if as_expr else n
    if kind == 'g':
        e = T.TexSoup(dec(payload)).contents[0].expr.args[0]
        return e
    if kind == 's':
        if as_expr:
            raise OutOfDomain('plain string in an argument list')
        return dec(payload)
    raise ValueError(w)


def materials(w, as_expr=False):
    return [] if w == '_' else [material(x, as_expr) for x in w.split(',')]


# ----------------------------------------------------------------------------- one op

def apply_op(soup, op, salt=0):
    """Apply one op to the real objects (raises on failure)."""
    from TexSoup import data as D
    words = op.split(' ')
    kind = words[0]
    coin = zlib.crc32(('%d/%s' % (salt, op)).encode()) & 1
    if kind == 'del':
        p = parse_path(words[1])
        if not p:
            raise BadPath('root')
        node = node_for(soup, p)
        if coin:
            node.delete()
        else:
            node.parent.remove(node)
    elif kind == 'rep':
        p = parse_path(words[1])
        if not p:
            raise BadPath('root')
        node = node_for(soup, p)
        ms = materials(words[2])
        if coin:
            node.replace_with(*ms)
        else:
            node.parent.replace(node, *ms)
    elif kind == 'ins':
        node = node_for(soup, parse_path(words[1]))
        if isinstance(node.expr, D.TexText):
            raise OutOfDomain('text leaf as container')
        node.insert(int(words[2]), *materials(words[3]))
    elif kind == 'app':
        node = node_for(soup, parse_path(words[1]))
        if isinstance(node.expr, D.TexText):
            raise OutOfDomain('text leaf as container')
        node.append(*materials(words[2]))
    elif kind == 'ren':
        p = parse_path(words[1])
        if not p:
            raise BadPath('root')
        node = node_for(soup, p)
        if not isinstance(node.expr, (D.TexCmd, D.TexNamedEnv)):
            raise OutOfDomain('rename of %s' % type(node.expr).__name__)
        node.name = dec(words[2])
    elif kind == 'str':
        p = parse_path(words[1])
        if not p:
            raise BadPath('root')
        node = node_for(soup, p)
        if isinstance(node.expr, D.TexText):
            raise OutOfDomain('string of a text leaf')
        node.string = dec(words[2])
    elif kind == 'args':
        p = parse_path(words[1])
        if not p:
            raise BadPath('root')
        node = node_for(soup, p)
        if not isinstance(node.expr, (D.TexCmd, D.TexNamedEnv)):
            raise OutOfDomain('args of %s' % type(node.expr).__name__)
        ms = materials(words[2], as_expr=True)
        if not all(isinstance(m, (D.TexGroup, D.TexCmd)) for m in ms):
            raise OutOfDomain('TexArgs drops this material')
        node.args = D.TexArgs(ms)
    else:
        raise ValueError(op)


def impl_edit(source, ops, detail=None):
    """Run a history on the real objects; answer in the driver's format."""
    T = common.impl()
    try:
        soup = T.TexSoup(source)
    except RecursionError:
        raise
    except Exception as e:
        return common.classify_exc(e)
    outs = []
    for k, op in enumerate(ops):
        before = canon_root(soup)
        try:
            apply_op(soup, op, salt=k)
            outs.append(enc(str(soup)))
        except RecursionError:
            raise
        except Exception as e:
            if detail is not None:
                detail.append((k, op, '%s: %s' % (type(e).__name__, e)))
            if canon_root(soup) != before:
                outs.append('FAIL!MUTATED(%s)' % type(e).__name__)
            else:
                outs.append('FAIL')
    outs.append(canon_root(soup))
    return 'EDIT ' + ';'.join(outs)


def edit_req(source, ops):
    return 'edit %s | %s' % (enc(source), ';'.join(ops))


def model_batch(lines, driver=None, timeout=900):
    driver = driver or common.DRIVER
    if not lines:
        return []
    data = ('\n'.join(lines) + '\n').encode()
    p = subprocess.run([driver], input=data, stdout=subprocess.PIPE, stderr=subprocess.PIPE,
                       timeout=timeout)
    if p.returncode != 0:
        raise common.ModelError('driver exit %d: %s' % (p.returncode, p.stderr.decode()[-300:]))
    out = p.stdout.decode().split('\n')
    if out and out[-1] == '':
        out.pop()
    if len(out) != len(lines):
        raise common.ModelError('driver answered %d lines for %d requests' % (len(out), len(lines)))
    return out


# ----------------------------------------------------------------------------- generators

TEXTS = [' y', ' z ', '1', '.', ' a b', ' ', '\n', '  ', ' y']
CMDS = ['\\x', '\\y', '\\x', '\\textbf{b}', '\\textbf{b \\x}', '\\sec[o]{p}', '\\sec[o]{p \\x}',
        '\\x{a}{a}', '\\ref{k}', '\\def\\foo']
NAMES = ['x', 'y', 'textbf', 'item', 'itemize', 'q']


def _frag(rng, depth, pool, in_math=False):
    """One document fragment; `pool` collects fragments for twin reuse."""
    if pool and rng.random() < 0.3:
        f = rng.choice(pool)
        if not (in_math and '$' in f):
            return f
    r = rng.random()
    if depth <= 0 or r < 0.3:
        f = rng.choice(CMDS) if rng.random() < 0.6 else rng.choice(TEXTS)
    elif r < 0.4:
        f = rng.choice(TEXTS)
    elif r < 0.55:
        f = '{' + _seq(rng, depth - 1, pool, in_math) + '}'
    elif r < 0.7 and not in_math:
        o, c = rng.choice([('$', '$'), ('$$', '$$'), ('\\[', '\\]'), ('\\(', '\\)')])
        f = o + _seq(rng, depth - 1, pool, True) + c
    elif r < 0.85:
        items = ''.join('\\item' + rng.choice(['', '[o]']) + rng.choice([' ', '\n']) +
                        _seq(rng, depth - 1, pool, in_math)
                        for _ in range(rng.randint(1, 3)))
        f = '\\begin{itemize}' + rng.choice(['', ' ', '\n']) + items + '\\end{itemize}'
    else:
        nm = rng.choice(['a', 'center', 'a'])
        f = '\\begin{%s}%s%s\\end{%s}' % (nm, rng.choice(['', '{c}', '[o]{c \\x}']),
                                          _seq(rng, depth - 1, pool, in_math), nm)
    pool.append(f)
    return f


def _seq(rng, depth, pool, in_math=False):
    return ''.join(_frag(rng, depth, pool, in_math) for _ in range(rng.randint(0, 3)))


def gen_doc(rng):
    """A well-formed document (parses in strict mode) with textual twins."""
    T = common.impl()
    for _ in range(50):
        pool = []
        n = rng.randint(1, 5)
        parts = [_frag(rng, 2, pool) for _ in range(n)]
        if rng.random() < 0.7 and parts:                # force a twin of a body node
            parts.insert(rng.randint(0, len(parts)), rng.choice(parts))
        if rng.random() < 0.4:                          # a body node equal to an argument node
            parts.append('\\sec[o]{p \\x}\\x')
        doc = ''.join(parts)
        try:
            T.TexSoup(doc)
            return doc
        except Exception:
            continue
    return '\\x y\\x z'


MAT_NODES = ['\\x', '\\y{a}', '\\item c', '{g}', '$m$', '\\begin{a}t\\end{a}', ' y', '\\x']
MAT_STRS = ['s', ' ', ' y', '']
ARG_MATS = ['g:' + enc('\\x[o]'), 'g:' + enc('\\x{a}'), 'g:' + enc('\\x{a \\x}'),
            'n:' + enc('{n}'), 'g:' + enc('\\x{a}')]


def gen_mats(rng, lo=1, hi=3):
    out = []
    for _ in range(rng.randint(lo, hi)):
        if rng.random() < 0.6:
            out.append('n:' + enc(rng.choice(MAT_NODES)))
        else:
            out.append('s:' + enc(rng.choice(MAT_STRS)))
    return ','.join(out) if out else '_'


def enum_tree(soup):
    """(targets, containers): paths of all addressable non-root elements, with the
    expression, and of all containers (root included) with the length of their contents."""
    from TexSoup import data as D
    targets, containers = [], [([], len(soup.expr._contents), soup.expr)]

    def walk(e, path):
        for i, a in enumerate(e.args):
            for j, x in enumerate(a._contents):
                visit(x, path + [('a', i, j)])
        for j, x in enumerate(e._contents):
            visit(x, path + [('b', j)])

    def visit(x, path):
        if not isinstance(x, D.TexExpr):
            return                                      # bare string: context only
        targets.append((path, x))
        if not isinstance(x, D.TexText):
            containers.append((path, len(x._contents), x))
            walk(x, path)

    walk(soup.expr, [])
    return targets, containers


def _string_ok(x):
    """Would `node.string = s` succeed on expression x?"""
    from TexSoup import data as D
    if isinstance(x, D.TexText):
        return False
    if isinstance(x, D.TexCmd):
        return len(x.args) == 1
    c = list(x.contents)
    return len(c) == 1 and isinstance(c[0], str)


def gen_op(rng, soup):
    """One op on the current tree. Mostly ops that succeed, with a share (~10%) of ops the
    implementation refuses (insertion into a plain command, `.string` of a node that has
    none, ...)."""
    from TexSoup import data as D
    targets, containers = enum_tree(soup)
    sloppy = rng.random() < 0.1
    kind = rng.choice(['del', 'del', 'rep', 'rep', 'ins', 'ins', 'app', 'ren', 'str', 'args'])
    if kind in ('ins', 'app') or not targets:
        good = [c for c in containers if sloppy or c[2]._supports_contents()]
        path, ln, x = rng.choice(good or containers)
        c = show_path(path)
        if kind == 'app':
            return 'app %s %s' % (c, gen_mats(rng))
        i = rng.randint(0, ln + (2 if rng.random() < 0.15 else 0))
        return 'ins %s %d %s' % (c, i, gen_mats(rng))
    if kind == 'del':
        return 'del ' + show_path(rng.choice(targets)[0])
    if kind == 'rep':
        return 'rep %s %s' % (show_path(rng.choice(targets)[0]),
                              gen_mats(rng, 0 if rng.random() < 0.1 else 1, 3))
    named = [t for t in targets if sloppy or isinstance(t[1], (D.TexCmd, D.TexNamedEnv))]
    if kind == 'ren' and named:
        return 'ren %s %s' % (show_path(rng.choice(named)[0]), enc(rng.choice(NAMES)))
    if kind == 'args' and named:
        n = rng.randint(0, 3)
        ms = ','.join(rng.choice(ARG_MATS) for _ in range(n)) if n else '_'
        return 'args %s %s' % (show_path(rng.choice(named)[0]), ms)
    strs = [t for t in targets if sloppy or _string_ok(t[1])]
    if kind == 'str' and strs:
        return 'str %s %s' % (show_path(rng.choice(strs)[0]),
                              enc(rng.choice(['S', ' t ', '', ' '])))
    return 'del ' + show_path(rng.choice(targets)[0])


def gen_ops(rng, source, n):
    """A valid history: every target is re-acquired by path in the tree as it is after the
    previous steps (tracked on the real objects)."""
    T = common.impl()
    soup = T.TexSoup(source)
    ops = []
    for k in range(n):
        op = gen_op(rng, soup)
        ops.append(op)
        try:
            apply_op(soup, op, salt=k)
        except Exception:
            pass
    return ops


BFS_DOCS = ['\\x y\\x z', '\\textbf{\\x}\\x', '\\begin{itemize}\\item a\\item a\\end{itemize}',
            '{\\x}$\\x$ ', '\\sec[o]{p \\x}\\x', '\\def\\foo']
BFS_MATS = ['n:' + enc('\\x'), 's:' + enc('s') + ',n:' + enc('{g}')]


def alphabet(soup):
    """Every op of a finite alphabet applicable to the current tree: every non-root node as
    target, every insertion index 0..len (and len+1) of every container."""
    from TexSoup import data as D
    targets, containers = enum_tree(soup)
    ops = []
    for path, x in targets:
        p = show_path(path)
        ops.append('del ' + p)
        ops.append('rep %s _' % p)
        for m in BFS_MATS:
            ops.append('rep %s %s' % (p, m))
        if isinstance(x, (D.TexCmd, D.TexNamedEnv)):
            ops.append('ren %s %s' % (p, enc('y')))
            ops.append('args %s _' % p)
            ops.append('args %s %s' % (p, ARG_MATS[0] + ',' + ARG_MATS[1]))
        if not isinstance(x, D.TexText):
            ops.append('str %s %s' % (p, enc('S')))
    for path, ln, x in containers:
        c = show_path(path)
        for i in range(ln + 2):
            for m in BFS_MATS:
                ops.append('ins %s %d %s' % (c, i, m))
        ops.append('app %s %s' % (c, BFS_MATS[1]))
    return ops


def bfs_histories(source, depth=2):
    """All histories of length <= depth over `alphabet` (recomputed after every step)."""
    T = common.impl()
    out = [[]]
    frontier = [[]]
    for _ in range(depth):
        nxt = []
        for h in frontier:
            soup = T.TexSoup(source)
            for k, op in enumerate(h):
                try:
                    apply_op(soup, op, salt=k)
                except Exception:
                    pass
            for op in alphabet(soup):
                nxt.append(h + [op])
        out.extend(nxt)
        frontier = nxt
    return out


# ----------------------------------------------------------------------------- comparison

def compare(cases, driver=None):
    """cases: list of (source, ops). Returns the list of disagreeing (source, ops, impl, model)."""
    reqs = [edit_req(s, ops) for s, ops in cases]
    model = model_batch(reqs, driver)
    bad = []
    for (s, ops), m in zip(cases, model):
        i = impl_edit(s, ops)
        if i != m:
            bad.append((s, ops, i, m))
    return bad


def disagree(source, ops, driver=None):
    return bool(compare([(source, ops)], driver))


def shrink(source, ops, driver=None):
    """Greedy shrinking of a disagreeing history (drop ops while the disagreement stays)."""
    i = impl_edit(source, ops).split(';')
    m = model_batch([edit_req(source, ops)], driver)[0].split(';')
    for k in range(len(ops)):                           # cut after the first differing step
        if k >= len(i) or k >= len(m) or i[k] != m[k]:
            ops = ops[:k + 1]
            break
    changed = True
    while changed:
        changed = False
        for k in range(len(ops) - 1):
            cand = ops[:k] + ops[k + 1:]
            try:
                if disagree(source, cand, driver):
                    ops, changed = cand, True
                    break
            except Exception:
                pass
    return source, ops


def explain(source, ops, driver=None):
    d = []
    i = impl_edit(source, ops, detail=d)
    m = model_batch([edit_req(source, ops)], driver)[0]
    lines = ['source: %r' % source]
    for k, op in enumerate(ops):
        lines.append('  op %d: %s' % (k, ' '.join(
            w if k2 == 0 or not any(ch.isdigit() for ch in w) else w for k2, w in enumerate(op.split(' ')))))
    ii, mm = i.split(';'), m.split(';')
    for k in range(max(len(ii), len(mm))):
        a = ii[k] if k < len(ii) else '<none>'
        b = mm[k] if k < len(mm) else '<none>'
        if a != b:
            def rd(x):
                x = x[5:] if x.startswith('EDIT ') else x
                try:
                    return repr(dec(x))
                except Exception:
                    return x
            if a.startswith('[') and len(a) > 300:
                a, b = '<tree>', '<tree differs>'
            lines.append('  step %d: impl %s   model %s' % (k, rd(a), rd(b)))
    for k, op, e in d:
        lines.append('  impl exception at op %d: %s' % (k, e))
    return '\n'.join(lines)


def selftest(driver_path=None, n_random=3000, max_len=8, verbose=True):
    rng = common.rng('lib_edit')
    cases = []
    for _ in range(n_random):
        doc = gen_doc(rng)
        cases.append((doc, gen_ops(rng, doc, rng.randint(1, max_len))))
    n_bfs = 0
    for doc in BFS_DOCS:
        hs = bfs_histories(doc, 2)
        n_bfs += len(hs)
        cases.extend((doc, h) for h in hs)
    bad = compare(cases, driver_path)
    n_ops = sum(len(o) for _, o in cases)
    n_fail = 0
    report = {'random_histories': n_random, 'bfs_histories': n_bfs, 'ops': n_ops,
              'disagreements': len(bad), 'examples': []}
    seen = set()
    for s, ops, i, m in bad[:200]:
        try:
            s2, o2 = shrink(s, ops, driver_path)
        except Exception:
            s2, o2 = s, ops
        key = (s2, tuple(o2))
        if key in seen:
            continue
        seen.add(key)
        if len(report['examples']) < 10:
            report['examples'].append(explain(s2, o2, driver_path))
    if verbose:
        print('edit selftest: %d random histories (len<=%d) + %d BFS histories, %d ops, '
              '%d disagreements' % (n_random, max_len, n_bfs, n_ops, len(bad)))
        for e in report['examples']:
            print(e)
    return report


if __name__ == '__main__':
    drv = sys.argv[1] if len(sys.argv) > 1 else None
    rep = selftest(drv)
    sys.exit(1 if rep['disagreements'] else 0)
