"""C18 - TexArgs against the Lean model (`args` request of the driver) and a plain Python list.

Operation syntax (one word per operation, a history is `;`-joined) - the same as
TexSoupModel/ArgsDriver.lean:

    item ::= <str> | g:<str> | g@<pos>:<str> | c:<str> | n:<str> | x:<str> | h<k>
             unparsed str | TexGroup.parse(str) [with .position = pos] | TexCmd(str)
             | TexNamedEnv(str) | TexText(str)          - a fresh object at every occurrence
             | h<k>: the SAME object at every occurrence in one history
               (h2 = one BracketGroup('b'), every other h<k> = one BraceGroup('a'))
             | P<k> | Q<k>: the k-th argument object of \\o / \\q of the PARSED probe document PROBE
               (one parse per history, the same object at every occurrence) - groups with child
               nodes, unlike what TexGroup.parse makes of the equal string
    op   ::= a:<item> | e:<item>,.. | i:<int>:<item> | r:<item> | p:<int> | p | v | c
             | g:<int> | s:<lo>:<hi> | t          (bounds: int or `_`)
             | x:<lo>:<hi>      target.extend(target[lo:hi])    - extend by a TexArgs object
             | X                target.extend(target)           - extend by the list itself
             | y                target.extend(other)            - `other` = the args of a second command
             | o:<op>           <op> with the roles of target and other swapped (o:y = other.extend(target))
             | I                (first operation only) target / other are not the empty .args of two
                                hand-made commands but the .args of \\o / \\q of the parsed PROBE

(`X` used not to terminate on a non-empty TexArgs - the implementation looped over the list it was
growing, where a Python list doubles; fixed as F20. Every operation on the implementation runs under
common.time_limit: a hang is the answer `HANG`, which no model answer equals, and ends the history.)

Canonical answer: `<out> @ lst=..|all=..` per operation, joined by `;` (see ArgsDriver.lean);
histories that use `other` (`y`, `o:..`) append ` & lst=..|all=..` of `other` to every state.
The list reference has no `.all`; comparisons with it drop the `|all=..` parts.
"""
import itertools
import os
import re
import sys

sys.path.insert(0, os.path.dirname(os.path.abspath(__file__)))
import common                                   # noqa: E402
from common import enc, dec, canon_expr         # noqa: E402


# ----------------------------------------------------------------------------- items and ops

#: the probe document behind `I` and the `P<k>`/`Q<k>` items (ArgsDriver.lean has the same string)
PROBE = r'\o{A \textbf{b} c}[$x$]{{k}}{\begin{e}z\end{e}}{plain} \q{A \textbf{b} c}{plain}[$x$]'


def _probe(shared):
    """(expr of \\o, expr of \\q) of one parse of PROBE per history; their original argument objects
    are kept in shared['__probe_args__'] (the lists themselves change during the history)."""
    if '__probe__' not in shared:
        import TexSoup
        soup = TexSoup.TexSoup(PROBE)
        po, pq = soup.find('o').expr, soup.find('q').expr
        shared['__probe__'] = (po, pq)
        shared['__probe_args__'] = (tuple(list.__iter__(po.args)), tuple(list.__iter__(pq.args)))
    return shared['__probe__']


def _mk_item(word, shared=None):
    """The Python value an item word denotes: a fresh object every time, except `h<k>`, which
    is one object per history (kept in the dict `shared`)."""
    from TexSoup import data as D
    if word[:1] in 'PQ':
        shared = {} if shared is None else shared
        _probe(shared)
        return shared['__probe_args__'][word[0] == 'Q'][int(word[1:])]
    if word[:1] == 'h':
        shared = {} if shared is None else shared
        if word not in shared:
            int(word[1:])
            shared[word] = D.BracketGroup('b') if word == 'h2' else D.BraceGroup('a')
        return shared[word]
    parts = word.split(':')
    if len(parts) == 1:
        return dec(parts[0])
    tag, s = parts[0], dec(parts[1])
    if tag == 'g' or tag.startswith('g@'):
        g = D.TexGroup.parse(s)
        if tag.startswith('g@'):
            g.position = int(tag[2:])
        return g
    if tag == 'c':
        return D.TexCmd(s)
    if tag == 'n':
        return D.TexNamedEnv(s)
    if tag == 'x':
        return D.TexText(s)
    raise ValueError('bad item ' + word)


def _bound(w):
    return None if w == '_' else int(w)


def _canon_item(x):
    return canon_expr(x)


def _state(lst, all_=None):
    s = 'lst=' + ','.join(enc(str(x)) for x in list.__iter__(lst))
    if all_ is not None:
        s += '|all=' + ','.join(enc(str(x)) for x in all_)
    return s


ERRS = (TypeError, ValueError, IndexError)


def _apply(target, op, slice_state, shared=None, other=None):
    """Run one operation word on `target` (TexArgs or RefList); canonical output.
    `shared` holds the `h<k>` objects of the history, `other` is the second list (for `y`)."""
    k, _, rest = op.partition(':')
    _mk = lambda w: _mk_item(w, shared)      # noqa: E731
    try:
        if k == 'a':
            target.append(_mk(rest))
            return 'none'
        if k == 'e':
            items = [_mk(w) for w in rest.split(',')] if rest else []
            target.extend(items)
            return 'none'
        if k == 'i':
            i, _, it = rest.partition(':')
            target.insert(int(i), _mk(it))
            return 'none'
        if k == 'r':
            target.remove(_mk(rest))
            return 'none'
        if k == 'p':
            r = target.pop(int(rest)) if rest else target.pop()
            return 'item ' + _canon_item(r)
        if k == 'v':
            target.reverse()
            return 'none'
        if k == 'c':
            target.clear()
            return 'none'
        if k == 'g':
            return 'item ' + _canon_item(target[int(rest)])
        if k == 's':
            lo, _, hi = rest.partition(':')
            r = target[_bound(lo):_bound(hi)]
            # a slice of a list is a NEW list, also when it covers everything (`args[:]` is the copy idiom)
            return 'slice ' + slice_state(r) + (' ALIASES-THE-LIST' if r is target else '')
        if k == 't':
            return 'string ' + enc(str(target))
        if k == 'x':
            lo, _, hi = rest.partition(':')
            target.extend(target[_bound(lo):_bound(hi)])
            return 'none'
        if k == 'X':
            target.extend(list(target.l) if isinstance(target, RefList) else target)
            return 'none'
        if k == 'y' and other is not None:
            target.extend(other)
            return 'none'
    except ERRS as e:
        return type(e).__name__
    except common.ImplHang:
        raise
    except Exception as e:                          # anything else is a disagreement by itself
        return 'EXC:' + type(e).__name__
    raise ValueError('bad op ' + op)


# ----------------------------------------------------------------------------- implementation

def uses_other(ops):
    return any(op == 'y' or op.startswith('o:') for op in ops)


#: per process: set once an operation on the implementation did not return; from then on `X` on a
#: non-empty TexArgs is not attempted again (answer `HANG`), so that a looping `extend` costs one time
#: limit per worker, not one per history
HANG_SEEN = [False]
OP_TIME_LIMIT = min(common.IMPL_TIME_LIMIT, 5)


def _run(ops, target, other, slice_state, state, extra, start, watched=False):
    """Common loop of impl_run / ref_run over `target` and `other`. With `watched` every operation
    runs under common.time_limit; a hang is the answer `HANG` and ends the history."""
    two = uses_other(ops)
    res = []
    shared = {}
    if ops and ops[0] == 'I':
        target, other = start(shared)
        ops = ops[1:]
        res.append('none @ ' + state(target) + (' & ' + state(other) if two else '') + extra(target, other))
    for op in ops:
        me, you, op1 = (other, target, op[2:]) if op.startswith('o:') else (target, other, op)
        if not watched:
            out = _apply(me, op1, slice_state, shared, you)
        elif HANG_SEEN[0] and op1 == 'X' and len(me) > 0:
            out = 'HANG'
        else:
            try:
                with common.time_limit(OP_TIME_LIMIT):
                    out = _apply(me, op1, slice_state, shared, you)
            except common.ImplHang:
                HANG_SEEN[0] = True
                out = 'HANG'
        if out == 'HANG':                            # the lists are in no defined state any more
            res.append('HANG')
            break
        line = out + ' @ ' + state(target)
        if two:
            line += ' & ' + state(other)
        res.append(line + extra(target, other))
    return ';'.join(res)


def impl_run(ops):
    """Canonical answer of the REAL TexSoup.data.TexArgs for the history `ops` (list of
    operation words). The list under test is the `.args` of a command `\\o`, `other` the `.args`
    of a second command `\\q` (hand-made and empty, or - first operation `I` - those of the parsed
    probe document); the `str` of both commands is checked after every step ("which is what the
    owning node prints")."""
    common.impl()
    from TexSoup import data as D
    owners = [D.TexCmd('o'), D.TexCmd('q')]
    args, other = owners[0].args, owners[1].args
    assert type(args) is D.TexArgs and len(args) == 0 and args.all == [] and other is not args

    def start(shared):
        owners[:] = _probe(shared)
        return owners[0].args, owners[1].args

    def slice_state(r):
        if type(r) is not D.TexArgs:
            return 'NOT-TEXARGS ' + repr(r)
        return _state(r, r.all)

    def extra(a, o):
        ok = str(owners[0]) == '\\o' + ''.join(str(x) for x in list.__iter__(a)) and \
            str(owners[1]) == '\\q' + ''.join(str(x) for x in list.__iter__(o))
        return '' if ok else ' OWNER-MISMATCH'

    return _run(ops, args, other, slice_state, lambda a: _state(a, a.all), extra, start, watched=True)


# ----------------------------------------------------------------------------- list reference

class RefList(object):
    """A plain Python `list` of group objects plus the two conventions of the property:
    unparsed strings are coerced ('{..}' / '[..]', anything else: TypeError), and a value
    that is not an argument (whitespace, other objects) is not put into the list."""

    GROUP = re.compile(r'\A(?:(\[)(.*)\]|(\{)(.*)\})\Z', re.S)

    def __init__(self, items=()):
        self.l = list(items)

    def _coerce(self, x):
        from TexSoup import data as D
        if isinstance(x, str):
            if x.isspace():
                return None
            m = self.GROUP.match(x)
            if not m:
                raise TypeError(x)
            return D.BracketGroup(m.group(2)) if m.group(1) else D.BraceGroup(m.group(4))
        return x if isinstance(x, (D.TexGroup, D.TexCmd)) else None

    def append(self, x):
        x = self._coerce(x)
        if x is not None:
            self.l.append(x)

    def extend(self, xs):
        for x in xs:
            self.append(x)

    def insert(self, i, x):
        x = self._coerce(x)
        if x is not None:
            self.l.insert(i, x)

    def remove(self, x):
        y = self._coerce(x)
        t = str(x if y is None else y)           # groups are equal when they print the same; a
        for j, e in enumerate(self.l):           # non-argument is simply not in the list
            if str(e) == t:
                del self.l[j]
                return
        raise ValueError(x)

    def pop(self, *a):
        return self.l.pop(*a)

    def reverse(self):
        self.l.reverse()

    def clear(self):
        self.l.clear()

    def __getitem__(self, k):
        return self.l[k]

    def __str__(self):
        return ''.join(str(x) for x in self.l)

    def __len__(self):
        return len(self.l)

    def __iter__(self):
        return iter(list(self.l))

    def copy(self):
        return RefList(self.l)


def _ref_start(shared):
    po, pq = _probe(shared)
    return RefList(list.__iter__(po.args)), RefList(list.__iter__(pq.args))


def ref_run(ops, ref=None, ref_other=None):
    """The same history on plain lists; answers carry `lst=` only."""
    common.impl()
    ref = RefList() if ref is None else ref
    ref_other = RefList() if ref_other is None else ref_other
    return _run(ops, ref, ref_other, lambda r: _state(r), lambda r: _state(r.l), lambda a, o: '', _ref_start)


_ALL = re.compile(r'\|all=[^ ;]*')


def drop_all(answer):
    """Forget the `.all` parts of an implementation/model answer."""
    return _ALL.sub('', answer)


# ----------------------------------------------------------------------------- histories

S_A, S_B, S_WS, S_BAD = enc('{a}'), enc('[b]'), enc(' '), enc('{x]')
POOL = [S_A, 'g:' + S_A, S_B, S_WS, S_BAD]       # duplicates: '{a}' twice (str and object)


def ops_at(n, pool):
    """Every operation offered at a state whose list has `n` items."""
    idx = list(range(-(n + 2), n + 3))
    bounds = ['_'] + [str(b) for b in sorted({-(n + 1), -1, 1, n})]
    ops = ['a:' + it for it in pool]
    ops += ['i:%d:%s' % (i, it) for i in idx for it in pool]
    ops += ['r:' + it for it in pool]
    ops += ['p'] + ['p:%d' % i for i in idx]
    ops += ['v', 'c', 't', 'X']
    ops += ['g:%d' % i for i in idx]
    ops += ['s:%s:%s' % (lo, hi) for lo in bounds for hi in bounds]
    ops += ['e:', 'e:' + ','.join(pool[:2]), 'e:' + ','.join([pool[0], pool[-1], pool[2]])]
    return ops


def bfs_histories(depth, pool=POOL):
    """ALL histories of exactly `depth` operations (their prefixes are checked with them,
    every answer lists every step). Indices range over -(n+2)..n+2 for the current length."""
    def rec(prefix, ref, d):
        if d == 0:
            yield prefix
            return
        for op in ops_at(len(ref), pool):
            r2 = ref.copy()
            _apply(r2, op, lambda r: '')
            yield from rec(prefix + [op], r2, d - 1)
    common.impl()
    return rec([], RefList(), depth)


#: BFS pool with duplicates ('{a}' three times: unparsed, and two positioned twin objects),
#: a bracket group, whitespace and a string with mismatched delimiters.
POOL_TWINS = [S_A, 'g@3:' + S_A, 'g@7:' + S_A, S_B, S_WS, S_BAD]
#: small pool for deeper exploration: unparsed '{a}', its twin object, the mismatched string.
POOL_SMALL = [S_A, 'g@7:' + S_A, S_BAD]


def bfs_extend(prefix, rest, pool=POOL):
    """ALL histories that extend `prefix` by exactly `rest` operations (same alphabet as
    `bfs_histories`, which is `bfs_extend([], depth)`)."""
    common.impl()
    ref = RefList()
    for op in prefix:
        if op == 'I':
            ref = _ref_start({})[0]
        else:
            _apply(ref, op, lambda r: '')

    def rec(pre, ref, d):
        if d == 0:
            yield pre
            return
        for op in ops_at(len(ref), pool):
            r2 = ref.copy()
            _apply(r2, op, lambda r: '')
            yield from rec(pre + [op], r2, d - 1)
    return rec(list(prefix), ref, rest)


# ----------------------------------------------------------------------------- two lists, extend by a TexArgs

#: pool for the histories over two argument lists: an unparsed '{a}', a shared object (may be in
#: a list twice, and in both lists), whitespace.
POOL_PAIR = [S_A, 'h0', S_WS]

#: states worth starting from: `.all` order differs from list order after an insertion at the front
#: of a non-empty list, or when the same object is in the list twice and something is added later
PAIR_PREFIXES = [
    [],
    ['o:a:' + S_A, 'o:i:0:' + S_B],
    ['a:' + S_A, 'i:0:' + S_B],
    ['o:a:h0', 'o:a:h0', 'o:a:' + S_B],
    ['a:h0', 'a:h0', 'a:' + S_B],
    ['o:a:' + S_A, 'o:a:' + S_WS, 'o:i:-9:' + S_B, 'a:' + S_A],
]


def ops_side_at(n, pool):
    """Operations offered to one of the two lists when it has `n` items (the single-list alphabet
    of `ops_at`, slightly narrower, plus extending by an own slice)."""
    idx = list(range(-(n + 1), n + 2))
    bounds = ['_', '-1', '1']
    ops = ['a:' + it for it in pool]
    ops += ['i:%d:%s' % (i, it) for i in idx for it in pool]
    ops += ['r:' + it for it in pool]
    ops += ['p'] + ['p:%d' % i for i in idx]
    ops += ['v', 'c', 't']
    ops += ['g:%d' % i for i in idx]
    ops += ['s:%s:%s' % (lo, hi) for lo in bounds for hi in bounds]
    ops += ['x:%s:%s' % (lo, hi) for lo in bounds for hi in bounds]
    ops += ['X', 'e:' + ','.join(pool[:2])]
    return ops


def ops_pair_at(nt, no, pool):
    return ops_side_at(nt, pool) + ['y'] + ['o:' + op for op in ops_side_at(no, pool)] + ['o:y']


# ----------------------------------------------------------------------------- parsed start states

S_PA, S_PM, S_PK, S_PP = (enc(x) for x in (r'{A \textbf{b} c}', '[$x$]', '{{k}}', '{plain}'))
#: pool for the histories that start from the PARSED argument lists (`I`): strings and fresh objects
#: that print like parsed groups with child nodes (but have none, being made by TexGroup.parse), the
#: parsed objects themselves, a flat twin
POOL_PARSED = [S_PA, 'g:' + S_PA, S_PK, S_PM, 'P0', 'P2', 'Q0', S_PP]
PARSED_PREFIXES = [['I'], ['I', 'i:0:' + S_PA], ['I', 'i:1:g:' + S_PK, 'a:' + S_PM], ['a:P0', 'a:' + S_PA]]


def ops_parsed_at(n, pool):
    """Operations offered on a parsed argument list with `n` items: the equality-based ones in full
    (remove by string / fresh equal object / the object itself), insertions at the ends and next to
    the front, and a few of each other kind."""
    idx = sorted({0, 1, -1, n})
    ops = ['a:' + it for it in pool]
    ops += ['i:%d:%s' % (i, it) for i in idx for it in pool]
    ops += ['r:' + it for it in pool]
    ops += ['p', 'p:0', 'p:1', 'v', 'c', 't', 'X', 'y', 'g:0', 'g:-1', 'g:%d' % n]
    ops += ['s:_:2', 's:1:_', 's:-2:_', 'x:_:1', 'x:-1:_']
    ops += ['e:' + ','.join(pool[:2])]
    return ops


def bfs_parsed(prefix, rest, pool=None):
    """ALL histories that extend `prefix` (of PARSED_PREFIXES) by exactly `rest` operations of
    `ops_parsed_at`."""
    pool = POOL_PARSED if pool is None else pool
    common.impl()
    refs = (RefList(), RefList())
    for op in prefix:
        if op == 'I':
            refs = _ref_start({})
        else:
            _pair_apply(refs, op)

    def rec(pre, refs, d):
        if d == 0:
            yield pre
            return
        for op in ops_parsed_at(len(refs[0]), pool):
            r2 = (refs[0].copy(), refs[1].copy())
            _pair_apply(r2, op)
            yield from rec(pre + [op], r2, d - 1)
    return rec(list(prefix), refs, rest)


def _pair_apply(refs, op):
    t, o = refs
    if op.startswith('o:'):
        _apply(o, op[2:], lambda r: '', None, t)
    else:
        _apply(t, op, lambda r: '', None, o)


def bfs_pair(prefix, rest, pool=POOL_PAIR):
    """ALL histories over two lists that extend `prefix` by exactly `rest` operations of
    `ops_pair_at` (indices -(n+1)..n+1 for the current length of the list concerned)."""
    common.impl()
    refs = (RefList(), RefList())
    for op in prefix:
        _pair_apply(refs, op)

    def rec(pre, refs, d):
        if d == 0:
            yield pre
            return
        for op in ops_pair_at(len(refs[0]), len(refs[1]), pool):
            r2 = (refs[0].copy(), refs[1].copy())
            _pair_apply(r2, op)
            yield from rec(pre + [op], r2, d - 1)
    return rec(list(prefix), refs, rest)


RANDOM_ITEMS = [enc(s) for s in ('{a}', '{a}', '[b]', '{}', '[]', '[a]', '{[b]}', ' ', '\n\t', '',
                                 '{x]', '[', '}', '[x]{y}', 'a', ' {a}', '{a} ', '[]]', '\\c')] + \
               ['g:' + enc('{a}'), 'g@3:' + enc('{a}'), 'g@7:' + enc('{a}'), 'g:' + enc('[b]'),
                'g@5:' + enc('[]'), 'c:' + enc('c'), 'c:' + enc('a'), 'n:' + enc('e'),
                'x:' + enc('{a}'), 'x:' + enc(' '), 'x:' + enc('q'), 'h0', 'h0', 'h1', 'h2',
                'P0', 'P0', 'P1', 'P2', 'P3', 'P4', 'Q0', 'Q2',
                enc(r'{A \textbf{b} c}'), enc(r'{A \textbf{b} c}'), 'g:' + enc(r'{A \textbf{b} c}'),
                enc('[$x$]'), 'g:' + enc('[$x$]'), enc('{{k}}'), 'g@9:' + enc('{{k}}'),
                enc(r'{\begin{e}z\end{e}}'), 'g:' + enc('{plain}')] + \
               [enc(x) for x in (  # delimiters, escapes and line breaks at the ends of the content
                   '{a\\\\}', '[2\\\\]', '{a\\}', '{\\}}', '[\\]]', '{{x}}', '{{', '{a}}', '[[y]]', '{\\textbf{a}}', '{ }', '{\n}',
                   '{a\\\\}', '[2\\\\]')]


def random_history(rng, maxlen, items=None):
    """A random history over target and other: the single-list operations on either list,
    extending by an own slice (`x`) and by the other list (`y`, `o:y`)."""
    items = RANDOM_ITEMS if items is None else items
    ops, ns = [], [0, 0]                             # rough lengths, only steer indices
    for _ in range(rng.randint(1, maxlen)):
        side = 1 if rng.random() < 0.3 else 0
        n = ns[side]
        it = rng.choice(items)
        i = rng.randint(-(n + 3), n + 3)
        k = rng.choice('aaaiiiirrppvcgsteexxyyXX')
        b = lambda: '_' if rng.random() < 0.3 else str(rng.randint(-(n + 3), n + 3))   # noqa: E731
        if k == 'a':
            op = 'a:' + it; n += 1
        elif k == 'i':
            op = 'i:%d:%s' % (rng.choice([0, 0, i]), it); n += 1
        elif k == 'r':
            op = 'r:' + it; n = max(0, n - 1)
        elif k == 'p':
            op = 'p' if rng.random() < 0.3 else 'p:%d' % i; n = max(0, n - 1)
        elif k == 'g':
            op = 'g:%d' % i
        elif k == 's':
            op = 's:%s:%s' % (b(), b())
        elif k == 'x':
            op = 'x:%s:%s' % (b(), b()); n = min(2 * n, 13)
        elif k == 'X':
            op = 'X'; n = min(2 * n, 13)
        elif k == 'y':
            op = 'y'; n = min(n + ns[1 - side], 12)
        elif k == 'e':
            m = rng.randint(0, 4)
            op = 'e:' + ','.join(rng.choice(items) for _ in range(m)); n += m
        else:
            op = k
            if k == 'c':
                n = 0
        if n > 12 and k in 'xyX':                    # keep the lists from doubling for ever
            op, n = 'c', 0
        ns[side] = n
        ops.append('o:' + op if side else op)
    if rng.random() < 0.4:                           # start from the parsed argument lists
        ops.insert(0, 'I')
    return ops


def random_histories(rng, n, maxlen=40):
    return [random_history(rng, maxlen) for _ in range(n)]


# ----------------------------------------------------------------------------- comparison

def model_run_many(histories, driver_path=None):
    old = common.DRIVER
    if driver_path:
        common.DRIVER = driver_path
    try:
        return common.model_batch_parallel([('args ' + ';'.join(h)).rstrip() for h in histories])
    finally:
        common.DRIVER = old


def compare(histories, driver_path=None, check_ref=True, limit=20):
    """impl vs model (byte-identical answers) and impl vs list reference (without `.all`).
    Returns (count, disagreements) with disagreements as dicts."""
    histories = [list(h) for h in histories]
    model = model_run_many(histories, driver_path)
    bad = []
    for h, m in zip(histories, model):
        a = impl_run(h)
        if a != m:
            bad.append({'kind': 'impl-vs-model', 'ops': ';'.join(h), 'impl': a, 'model': m})
        if check_ref:
            r = ref_run(h)
            if drop_all(a) != r:
                bad.append({'kind': 'impl-vs-list', 'ops': ';'.join(h), 'impl': drop_all(a), 'list': r})
        if len(bad) >= limit:
            break
    return len(histories), bad


def twin_probe(driver_path=None):
    """Witness of the former deviation of `pop` (it used to return the first *textual twin*
    stored in `.all`, i.e. the object at position 3): since the repair the implementation, the
    model and the list must all hand back the list item (position 7)."""
    h = ['a:g@3:' + S_A, 'a:g@7:' + S_A, 'p:1']
    a, r = impl_run(h), ref_run(h)
    m = model_run_many([h], driver_path)[0]
    return {'ops': ';'.join(h), 'impl': a.split(';')[-1], 'model': m.split(';')[-1],
            'list': r.split(';')[-1], 'impl_equals_model': a == m,
            'impl_equals_list': drop_all(a) == r,
            'ok': a == m and drop_all(a) == r}


def selftest(driver_path=None, depth=3, nrandom=2000, maxlen=40, verbose=True):
    import time
    t0 = time.time()
    n1, bad1 = compare(bfs_histories(depth), driver_path)
    for pre in PAIR_PREFIXES:                        # two lists, extend by a TexArgs object
        n1b, bad1b = compare(bfs_pair(pre, 2), driver_path)
        n1, bad1 = n1 + n1b, bad1 + bad1b
    for pre in PARSED_PREFIXES:                      # parsed argument lists, equal strings / objects
        n1b, bad1b = compare(bfs_parsed(pre, 2), driver_path)
        n1, bad1 = n1 + n1b, bad1 + bad1b
    t1 = time.time()
    rng = common.rng('lib_args')
    # random histories use a richer pool, including textual twins at different positions:
    # returned items are compared with the list reference position and all
    hs = random_histories(rng, nrandom, maxlen)
    n2, bad2 = compare(hs, driver_path)
    t2 = time.time()
    probe = twin_probe(driver_path)
    if not probe['ok']:
        bad2 = bad2 + [dict(probe, kind='twin-probe')]
    res = {'bfs_depth': depth, 'bfs_histories': n1, 'bfs_disagreements': bad1,
           'random_histories': n2, 'random_disagreements': bad2,
           'twin_probe': probe, 'seconds': (round(t1 - t0, 1), round(t2 - t1, 1))}
    if verbose:
        print('lib_args selftest: BFS depth %d + pair and parsed prefixes depth 2: %d histories, %d disagreements (%.1fs); '
              'random: %d histories, %d disagreements (%.1fs)' %
              (depth, n1, len(bad1), t1 - t0, n2, len(bad2), t2 - t1))
        for b in (bad1 + bad2)[:10]:
            print('  ', b)
        print('   twin probe:', probe)
    return res


if __name__ == '__main__':
    r = selftest(sys.argv[1] if len(sys.argv) > 1 else None,
                 depth=int(sys.argv[2]) if len(sys.argv) > 2 else 3)
    sys.exit(1 if r['bfs_disagreements'] or r['random_disagreements'] else 0)
