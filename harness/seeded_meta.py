#!/usr/bin/env python3
"""Runs every seeded change against its own property's check (and a few related ones) and writes
seeded/<id>/meta.json.  Usage: harness/seeded_meta.py [ids...]"""
import json
import os
import sys

sys.path.insert(0, os.path.dirname(os.path.abspath(__file__)))
import seeded  # noqa: E402

VERIF = seeded.VERIF
NEEDS = {
 'C01-a': ('C01', ['C02'], 'read_args drops `mode` in its second pass: a \\newcommand{name}[n]{body} definition whose body has an unbalanced \\begin{env} raises EOFError'),
 'C02-a': ('C02', ['C01'], 'read_command no longer passes the caller\'s mode to ordinary commands: \\begin/\\end inside an inner command\'s argument inside a \\newcommand body open a real environment'),
 'C03-a': ('C03', ['C04'], 'descendants walk skips environments textually equal to one already visited: commands inside a second identical $..$ / {..} / \\begin..\\end are not found'),
 'C04-a': ('C04', ['C03'], 'TexExpr.children looks only at the body when there is one: nodes inside arguments of an \\item[..] or environment with body drop out of children/descendants'),
 'C05-a': ('C05', ['C15'], '__holder uses `in` (textual equality): editing a body node whose twin sits in an earlier argument of the same parent edits the twin'),
 'C06-a': ('C06', ['C07'], 'read_arg_required drops a hasNext() check: a fixed-signature command followed only by whitespace up to the end of input leaks StopIteration/RuntimeError'),
 'C07-a': ('C07', ['C06'], 'read_env consumes \\end{name} with tolerance 0: a document that lost the final `}` of its last \\end{name} fails in tolerant mode too'),
 'C08-a': ('C08', ['C16', 'C01'], 'read_env consumes \\end with the open signature: every group following \\end{name} is swallowed and vanishes from the output'),
 'C09-a': ('C09', ['C12'], 'read_arg_optional refuses a bracket after a spacer in math mode: `$\\cmd [a]{b}$` keeps [a]{b} as text'),
 'C10-a': ('C10', ['C11'], 'a comment stops before `\\end{verbatim}` (any built-in verbatim name): the rest of the comment line becomes live LaTeX'),
 'C11-a': ('C11', ['C17'], 'user skip_envs names are added in place to a module-level set: a later parse WITHOUT the option still treats that environment as verbatim'),
 'C12-a': ('C12', ['C09'], 'zero-argument operators only keep their (0,0) signature in math mode, but a bare {..} inside math is read in non-math mode: `$\\bigcup_{i \\in [0,n)}$` fails'),
 'C13-a': ('C13', ['C11'], 'Buffer.forward_until starts its result at the buffer index instead of the token offset: the text inside verbatim-like environments gets a wrong position'),
 'C14-a': ('C14', ['C15'], 'TexCmd.__str__ prints the body only while the name is `item`: renaming an \\item drops its whole body from the output'),
 'C15-a': ('C15', ['C05'], 'same slip as C05-a (textual __holder), found independently: twins in different arguments/body of one parent'),
 'C16-a': ('C16', ['C08'], 'verbatim/math classification uses the raw (unstripped) environment name: `\\begin{ verbatim}` is parsed as LaTeX on load 1 and as verbatim on load 2'),
 'C17-a': ('C17', ['C11'], 'SKIP_ENV_NAMES became a list extended in place by read_tex: names passed via skip_envs leak into all later parses of the process'),
 'C18-a': ('C18', ['C15'], 'TexArgs.pop delegates to remove(): pops the first argument with equal text instead of the one at the index'),
 'C19-a': ('C19', ['C08'], 'tokenize_spacers treats CR LF as one line break but keeps only the LF: the CR disappears from the tokens'),
 'C20-a': ('C20', [], 'Buffer.endswith short-cuts on len(s) > cursor, comparing characters with items: wrong on token-backed buffers'),
 'C01-b': ('C01', ['C11'], 'read_skip_env scans to the first `\\end` of any kind and checks the name only there: a verbatim-like body that contains a foreign `\\end{..}` (or a bare `\\end`) is reported as unclosed'),
 'C02-b': ('C02', ['C01'], 'read_arg_optional/required stop at nine collected groups: a command or environment followed by ten or more adjacent groups leaves the tenth as a free group'),
 'C03-b': ('C03', ['C04'], '`find` walks in an order different from find_all: find(name) is no longer find_all(name)[0] when an earlier match is nested deeper'),
 'C04-b': ('C04', ['C03'], 'read_arg builds every group with preserve_whitespace=True: a FREE brace group (not an argument) that holds a blank-only token shows it in contents/text/descendants'),
 'C05-b': ('C05', ['C15'], '__holder trusts expr.parent, which append() does not refresh: a node parsed inside an argument/group/item, appended elsewhere and then deleted/replaced there edits the old place'),
 'C06-b': ('C06', ['C19'], 'tokenize_line_comment declines after a bare Escape token: NUL/DEL next to a backslash before `%` makes next_token spin forever (no tree, no error)'),
 'C07-b': ('C07', ['C06'], 'tolerant mode ends an open environment at an unbalanced `}` in its body: where strict parsing succeeds (the `}` is text), tolerant parsing returns another tree and inserts an `\\end{name}`'),
 'C08-b': ('C08', ['C16', 'C19'], '`~` is filed under the Spacer category: a tilde between a command and its argument group is dropped like a blank but is not whitespace'),
 'C09-b': ('C09', ['C16'], 'a blank line after a bracket group no longer ends the argument run'),
 'C10-b': ('C10', ['C08'], 'the comment loop consumes backslash + line break as one escaped symbol: a payload ending in an odd number of backslashes runs on over the next line'),
 'C11-b': ('C11', ['C10'], 'read_skip_env matches the closing marker as a prefix (`\\end{verbatim` without the brace): a body containing `\\end{verbatimtab}` or `\\end{verbatim*}` ends the environment early'),
 'C12-b': ('C12', ['C19'], 'tokenize_punctuation_command_name refuses `left[`/`big]`... when two escapes precede: `\\\\\\left[` directly after a line break opens an optional argument'),
 'C13-b': ('C13', ['C19'], 'Token.__iadd__ uses `self.position or other.position`: a text/comment/whitespace token of two or more characters starting at offset 0 records position 1'),
 'C14-b': ('C14', ['C18'], 'TexArgs.__str__ prints the shadow list `.all`: in-place list edits of node.args (slot swap, slice assignment, del, insert(0, ..)) do not reach the printed text'),
 'C15-b': ('C15', ['C05'], 'TexNode.insert stores the TexNode wrapper instead of its expression: nothing below an inserted node is found, later replace/delete of it falls back to textual lookup'),
 'C16-b': ('C16', ['C08'], 'read_args returns early on a blank line after the command name but leaves the first spacer consumed: one newline is lost on save 1 and the following group becomes an argument on load 2'),
 'C17-b': ('C17', ['C18'], 'argument-less signature commands (\\in, \\cup, \\noindent, ...) all share one module-level TexArgs object: editing the args of one changes every tree and every later parse'),
 'C18-b': ('C18', ['C14'], 'TexArgs.remove finds the identical object first: remove(args[2]) with an equal group earlier removes the later one, unlike list.remove'),
 'C19-b': ('C19', ['C06', 'C08'], 'next_token makes a single pass over the tokenizers: after tokenize_ignore consumed NUL/DEL at a token boundary, a following `%` or `$` ends the token stream silently'),
 'C20-b': ('C20', [], 'Buffer.num_forward_until is rewritten on top of forward_until and counts characters instead of items: wrong count and rewind on token-backed buffers with multi-character tokens'),
 'C01-c': ('C01', ['C11'], 'a missing comma joins two literals of SKIP_ENV_NAMES: `listing` is no longer verbatim-like (the generated table follows the code, so model and code agree; the TableSpec theorem builtin_verbatim_names breaks)'),
 'C02-c': ('C02', ['C19', 'C09'], 'categorize gets a str.isalpha() fast path: non-ASCII letters become Letter, so `\\itemÉcole` is one command name and `\\é` a command'),
 'C03-c': ('C03', ['C04', 'C02'], 'read_item ends the item by a prefix test on the text (`\\end`, `\\item`): `\\itemsep`, `\\endnote` … end the item body, later nodes become siblings and searches rooted at the item miss them'),
 'C04-c': ('C04', ['C03'], 'TexExpr.children = expressions whose name is not `text`: a command or environment literally named `text` (amsmath `\\text{..}`) drops out of children/descendants/search'),
 'C05-c': ('C05', ['C15'], 'string pieces containing a backslash are parsed before being stored: `\\ref {fig}` is stored as `\\ref{fig}`, `\\textbf a` as `\\textbf{ a}`, unbalanced fragments raise'),
 'C06-c': ('C06', ['C07'], 'unclosed_env_handler concatenates input tokens into the format template: a mismatched `\\end{b}%` raises ValueError (incomplete format) instead of EOFError'),
 'C07-c': ('C07', ['C08', 'C16'], 'read_env strips the name of `\\end{ a }` before comparing: the padded closer is accepted and printed canonically, so the tolerant output is not the input plus closers'),
 'C08-c': ('C08', ['C09', 'C10'], 'read_spacer also swallows a comment + line break in front of a group: `\\textit% slanted\\n{b}` loses the comment on output'),
 'C09-c': ('C09', ['C16'], 'the signature table is looked up with the star stripped: `\\section*{A}{B}` attaches only `{A}`'),
 'C10-c': ('C10', ['C19', 'C13'], 'form feed and vertical tab are filed under EndOfLine: a comment stops at the first FF/VT of its payload'),
 'C11-c': ('C11', ['C12'], 'math-environment names take precedence over skip_envs: `skip_envs=(\'equation\',)` is ignored'),
 'C12-c': ('C12', ['C02'], '`\\begin` is matched as an environment only in non-math mode: an environment nested directly in a math region (split in equation, array in \\[..\\]) is a plain command / EOFError'),
 'C13-c': ('C13', ['C19'], 'CharToLineOffset builds its table with str.splitlines(): FF, VT, FS-RS, NEL, U+2028/2029 count as line ends'),
 'C14-c': ('C14', ['C18'], 'the args setter clears and re-extends the existing list: assigning a node its own (edited) argument list empties it'),
 'C15-c': ('C15', ['C05'], 'TexExpr.insert skips an empty string piece but still advances the index: later pieces of the same call land one slot too far right'),
 'C16-c': ('C16', ['C08'], 'TexCmd.__str__ puts a blank between an argument-less `\\item` and a body that starts with a letter (str.isalpha): `\\item中文` gains a blank on save 1 that is part of the text on load 2'),
 'C17-c': ('C17', ['C16'], 'TexGroup.parse is memoised (lru_cache): bare arguments of fixed-signature commands (`\\section Intro`) are one shared mutable object across all trees of the process'),
 'C18-c': ('C18', ['C14'], 'extend(other TexArgs) reads other.all: wrong order after insert(0, ..) / shared objects, whitespace copied'),
 'C18-d': ('C18', [], 'the reverse of repair F20: extend(args) iterates over the list it appends to, so extend by the list itself never terminates'),
 'C19-c': ('C19', ['C08'], 'categorize merges a high+low surrogate pair into the astral character it encodes: one token fewer than characters, foreign code point in the output'),
 'C20-c': ('C20', [], 'Buffer.__next__ fetches the gap after a forward() jump with one list comprehension: items are lost when the iterator ends inside it'),
 'C01-d': ('C01', ['C19'], 'categorize uses a 255-slot lookup table with an off-by-one guard: U+00FF raises IndexError inside the generator, Buffer.peek takes it for end of input and the document is silently cut at `ÿ`'),
 'C02-d': ('C02', ['C12'], 'a math switch met in math mode no longer opens a formula: `$a \\text{if $b$} c$` loses the inner region (arguments of commands inside math are read in math mode)'),
 'C03-d': ('C03', ['C04'], '__match__ treats every falsy name as "no name": find_all([]) and find_all(\'\') return every node instead of nothing'),
 'C05-d': ('C05', ['C15'], 'a whole parsed document passed as new material is flattened through the whitespace-filtered `contents`: blank-only text at the top level of the fragment is lost'),
 'C07-d': ('C07', ['C06'], 'read_env drops the end-of-input test: an unclosed environment whose last body command has the environment name as first argument (nested same-name environment, `\\label{center}`) raises RuntimeError in both modes'),
 'C09-d': ('C09', ['C12'], 'bracket groups read in math mode pair inner brackets: `$\\cmd[a[b]c]{d}$` closes too late, a lone `[` inside needs a partner'),
 'C12-d': ('C12', ['C19'], '`$`-runs are cut by parity: in `$$x$$$y$` the three dollars become `$` `$$`, so a display region directly followed by an inline one fails'),
 'C13-d': ('C13', [], 'CharToLineOffset remembers the line of the previous lookup with a `>` instead of `>=` guard: after a lookup on line k, the offset of the line feed ending line k-1 gives (k, -1)'),
 'C14-d': ('C14', ['C18'], 'a full-range slice of a TexArgs returns the list itself: `saved = node.args[:]; node.args.reverse(); node.args = saved` keeps the reversal'),
 'C15-d': ('C15', ['C05'], 'TexExpr.insert inserts the pieces back to front at the same index: a multi-piece insert at an index past the end comes out reversed'),
 'C16-d': ('C16', ['C19', 'C08'], 'untabled characters that are not str.isprintable() (NBSP, soft hyphen, zero-width space, BOM, controls) are categorised Ignored: one of them between a command name and a letter vanishes on save 1 and the name grows on load 2'),
 'C17-d': ('C17', [], 'read() strips leading U+FEFF only for non-str input forms: the same characters as list/generator/file lose the BOM and shift every position'),
 'C04-e': ('C04', ['C03'], 'contents trusts the token category for blank detection: a whitespace-only run of blanks the tokenizer does not know as spacers (form feed, NBSP, U+2028, U+3000 …) standing between two nodes stays in contents/descendants/text'),
 'C06-e': ('C06', ['C09'], 'the second argument pass became a loop whose guard misses one case: `\\section{A}{B}` (optional slot open, required used up, `{` follows) never terminates'),
 'C08-e': ('C08', ['C09', 'C16'], 'the second pass skips a spacer before a trailing `[`: for a fixed-signature command whose optional quota is used up the spacer is dropped but the bracket is not attached (`\\textbf{a} [b]` -> `\\textbf{a}[b]`)'),
 'C10-e': ('C10', ['C19'], 'a comment runs on over a bare CR (poses as a CRLF tweak): on CR-ended lines the comment swallows the following lines'),
 'C11-e': ('C11', ['C01'], 'read_skip_env accepts a spacer between `\\end` and `{name}`: a verbatim body containing `\\end {verbatim}` ends early'),
 'C15-e': ('C15', ['C05'], 'the reverse of repair F22: a multi-piece insert at a negative index scatters its pieces'),
 'C18-e': ('C18', ['C14'], 'TexGroup.parse strips delimiters with lstrip/rstrip: `{{x}}` is coerced to `{x}`, `{\\textbf{a}}` to an unbalanced group'),
 'C19-e': ('C19', ['C12', 'C13'], 'the sizing-command lookup is memoised on Token keys that hash by text only: a later `\\left(` with the same following characters gets the position of the first one (also across tokenisations)'),
 'C20-e': ('C20', [], 'Buffer.peek no longer clamps the stop of a range peek: a range entirely before the start returns items from the front once enough look-ahead is buffered'),
 'C01-f': ('C01', ['C08', 'C19'], '`\\~` and `\\^` tokenize as one-character commands instead of escaped symbols: a blank between them and a following group is dropped (`se\\~ {n}or` -> `se\\~{n}or`)'),
 'C02-f': ('C02', ['C01'], '`\\item` owns content only in non-math mode, which also excludes the special mode of definition bodies: an `\\item` inside `\\newcommand{..}{..}` owns nothing'),
 'C03-f': ('C03', ['C04'], 'find_all returns at once when the text of the search root has no backslash: searches rooted at a backslash-free group / formula / document miss the `$` and BraceGroup nodes below'),
 'C04-f': ('C04', ['C03'], 'TexNode.__getitem__ indexes the expression: a SLICE returns bare expressions (no TexNode, parent is not the indexed node)'),
 'C05-f': ('C05', ['C15'], 'replace inserts the pieces before removing the child: a replacement list that contains the target itself followed by another piece removes the fresh occurrence (`x.replace_with("[", x, "]")` -> `[]X`)'),
 'C11-f': ('C11', ['C12', 'C19'], 'a sizing prefix followed by a backslash and a letter is one token (`\\left\\lvert`): a verbatim body ending in `\\left` hides the closer `\\end{name}` behind the token boundary'),
 'C12-f': ('C12', ['C02'], 'in definition bodies a math switch opens a region only if its closer comes before the next `}` (brace nesting ignored): `\\newcommand{\\half}{$\\frac{1}{2}$}` has no math node'),
 'C13-f': ('C13', ['C16'], 'read() hands str(tree) instead of the source to the line table: spacers dropped before argument groups shift every later line/column'),
 'C14-f': ('C14', ['C15'], 'the .string setter of an environment swaps only the visible text piece: hidden blank-only pieces of the body (`\\begin{quote}\\n\\nwords`) survive next to the new string'),
 'C17-f': ('C17', ['C06'], 'read() raises the interpreter recursion limit for sources with many braces and never restores it: a deeply nested document fails before and parses after an unrelated long parse'),
 'C06-g': ('C06', ['C09'], 'read_item peeks with the signature (1, 0) like read_env: every item-level command argument is read twice, so `\\item a \\x{\\item a \\x{..}}` costs 2^depth (depth 40 does not come back)'),
 'C07-g': ('C07', ['C06'], 'a free brace group inside a definition body keeps the special mode but loses the tolerance: a lost `]` inside it makes tolerant parsing raise TypeError'),
 'C08-g': ('C08', ['C16', 'C09'], '`frac` added to the signature table with two mandatory arguments: `$\\frac1{n}$` prints with invented braces (the side condition names only \\def, \\textbf, \\section, \\label)'),
 'C09-g': ('C09', ['C02'], 'in special mode a command without arguments takes a following bare command as its argument (posing as support for `\\newcommand\\name`): `\\small\\emph{#1}` inside a definition body'),
 'C10-g': ('C10', ['C19'], 'comments are scanned in blocks of 256 characters with an off-by-one for a line break at a block start: a comment line of exactly 256k characters swallows its line break'),
 'C15-g': ('C15', ['C04', 'C05'], 'TexExpr.all yields a bare-command argument (`\\def\\foo`) as a child: it shows up in descendants/search, but the edit code cannot find its holder (raises, or edits a twin)'),
 'C18-g': ('C18', ['C05'], 'TexExpr.__eq__ returns early when the numbers of children differ: an unparsed `{A \\textbf{b}}` string no longer equals the parsed group, so remove(str) raises or removes a later element'),
 'C19-g': ('C19', ['C12', 'C08'], 'sizing commands skip blanks between prefix and delimiter but emit the canonical name: `\\left (` consumes the blank and emits `left(`'),
 'C20-g': ('C20', [], 'Buffer.__next__ advances the cursor before it knows an item exists: each failed next() at the end moves the cursor one further'),
 'C01-h': ('C01', ['C13'], 'a bare-command argument (`\\def\\name{..}`) records the position of the name token instead of the backslash: the node-slice clause fails for that argument node only'),
 'C02-h': ('C02', ['C09'], 'every command whose name ends in `command` (any case, optional star) is read as a definition: `\\shellcommand{\\begin{center}..\\end{center}}` has no environment node'),
 'C03-h': ('C03', ['C04'], 'a query with `[` counts as a full expression only if it starts with a backslash: the full text of a `$x \\in [0,1]$` region (bracket, no brace) is compared as a name and never found'),
 'C04-h': ('C04', ['C11'], 'verbatim-like environments get preserve_whitespace=True: a blank-only verbatim body stays in contents/descendants/text'),
 'C05-h': ('C05', ['C15'], 'TexExpr.remove also accepts an element with the same text AND the same recorded offset: after merging two documents (same command at the same offset of its own source) the earlier twin is edited'),
 'C11-h': ('C11', ['C09'], 'the skip decision strips a trailing star from the name in the document but not from the names in skip_envs: `skip_envs=(\'code*\',)` is ignored'),
 'C13-h': ('C13', ['C19'], 'search_regex matches on the NFC-normalised leaf but adds the match start to the source position: matches after a letter + combining accent are reported too far left'),
 'C14-h': ('C14', ['C15'], 'the .string setter of a single-token argument overwrites Token.text in place: the str value of the token keeps the old text, so text searches / .text still see the old string'),
 'C16-h': ('C16', ['C17'], 'a parameterless \\newcommand registers its name with signature (0,0) in the module-level table: a use before the definition is read with arguments on load 1 and without on load 2'),
 'C17-h': ('C17', ['C16'], '\\newcommand{\\x}[n]{..} writes the arity into the module-level signature table: a later parse of another document using `\\x` is read with the earlier document\'s arity'),
 'C07-i': ('C07', ['C06'], 'in tolerant mode a group stops before an unmatched `\\end` (outside definition bodies): `{\\small\\end{center}}` parses differently in strict and tolerant mode'),
 'C08-i': ('C08', ['C16'], 'TexExpr.string joins the whitespace-filtered contents: an environment name group with a blank-only piece (`\\begin{\\a \\b}`) loses the blank in the regenerated \\begin/\\end'),
 'C09-i': ('C09', ['C02'], 'a bracket group whose body contains a blank line is not attached (posing as TeX-faithful): `\\cmd[a\\n\\nb]{c}` gets no arguments'),
 'C12-i': ('C12', ['C11'], 'the tokenizer keeps an inline-math flag on the character buffer: an odd number of `$` in a verbatim body makes every later `$$` two single switches'),
 'C15-i': ('C15', ['C14'], 'TexCmd decides at construction whether it owns a body: a command renamed to `item` (or an item renamed away) keeps the old answer for append/insert/remove'),
 'C18-i': ('C18', ['C16'], 'TexGroup.parse rejects strings ending in an escaped delimiter: `{a\\\\}` (group ending in a line break) is refused although balanced'),
 'C19-i': ('C19', ['C13'], 'tokenize overwrites token positions with a running sum of token lengths: after a dropped NUL/DEL at a token boundary every later offset is one too small'),
 'C20-i': ('C20', [], 'Buffer.__next__ refills one item per recursive call: a forward jump over about 1000 unbuffered items raises RecursionError'),
 'C06-i': ('C06', ['C19'], 'a new `\\verb` tokenizer scans for its delimiter without an end-of-input guard: an unterminated `\\verb|foo` at the end of the input leaks AttributeError'),
 'C10-i': ('C10', ['C19'], 'a `%` directly inside the brace argument of `\\url` is not a comment (percent-encoded URLs): the payload after it is live'),
 'C02-j': ('C02', ['C09'], 'read_item ends an \\item at a `]` with no earlier `[` in its body (posing as support for \\item inside an optional argument): `\\item the interval (0,1] is ...` loses everything from the `]` on to the enclosing list; the printed text is unchanged'),
 'C04-j': ('C04', ['C03'], 'TexNode.__getitem__ normalises a negative index with len(expr.all) but looks it up in the whitespace-filtered contents: node[-j] on a node with blank-only text pieces raises IndexError or returns an element too far right'),
 'C13-j': ('C13', ['C19'], 'tokenize_string drops NUL/DEL inside a text run as well (tokenize_ignore drops them at token boundaries only): the text token is shorter than its source span and search_regex reports every later match of that run too far left'),
 'C16-j': ('C16', ['C08'], 'read_env skips a leading blank of the body of a MATH environment: `\\begin{equation} [0,1] ..` is printed without the blank on save 1 and `[0,1]` becomes an argument of the environment on load 2, which drops the next blank on save 2'),
}


def one(sid):
    main([sid])
    return sid


def main(ids):
    if len(ids) > 1:
        from concurrent.futures import ThreadPoolExecutor
        with ThreadPoolExecutor(4) as ex:
            list(ex.map(one, ids))
        return
    for sid in ids:
        own, related, needs = NEEDS[sid]
        d = os.path.join(VERIF, 'seeded', sid)
        res = seeded.run(sid, [own] + related)
        meta = {
            'id': sid, 'breaks_property': own, 'needs_to_manifest': needs,
            'written_by': 'independent sub-agent given only the property text and a private worktree',
            'confirmed': 'harness/seeded.py confirm: patch applies to HEAD of /repo, 164 tests pass with it, demo.py exits 1 with it and 0 without it',
            'ran': 'harness/seeded.py run %s %s  (scratch worktree, REPO=<worktree>, quick tier)' % (sid, ' '.join([own] + related)),
            'results': {c: {'exit': r['exit'], 'violation_line': (r['violation'] or [''])[0]} for c, r in res.items()},
            'caught_by_own_check': res[own]['exit'] == 1,
        }
        json.dump(meta, open(os.path.join(d, 'meta.json'), 'w'), indent=1)
        print(sid, {c: r['exit'] for c, r in res.items()}, flush=True)


if __name__ == '__main__':
    main(sys.argv[1:] or sorted(NEEDS))
