"""Scoped correspondence for the reader layer: `parse` (tree, serialisation, positions, error
class) of the model vs the implementation on a list of (source, tolerance, skip) cases."""
import common
import gen


def _impl(case):
    s, tol, skip = case
    return common.impl_parse(s, tol, skip)[0]


def run_cases(r, cases, tag='parse', limit_fail=50):
    """cases: list of (s, tol, skip_tuple). Records disagreements in r."""
    impl = gen.pmap(_impl, cases)
    model = common.model_batch_parallel([common.parse_req(s, tol, skip) for s, tol, skip in cases])
    for (s, tol, skip), a, b in zip(cases, impl, model):
        kind = a.split(' ')[0] + (' ' + a.split(' ')[1] if a.startswith('ERR') else '')
        r.bump(kind)
        r.count((tag, s, tol, skip), len(s) > 2)
        if a != b and len(r.failures) < limit_fail:
            r.fail(tag + '-mismatch', 'model and implementation disagree on parse', input=s, tol=tol,
                   skip=list(skip), impl=a[:400], model=b[:400])
    return impl


# a small alphabet around environments, arguments and spacers: dense in the constructs where
# the reader's look-ahead and token counting matter
ENV_ALPHA = ['\\begin{a}', '\\end{a}', '\\end', ' ', '{a}', '[b]', '{', '}', 'x', 'a', '\\x', '\n', '$', '\\item',
             '\\begin{verbatim}', '\\end{verbatim}', '%', ']']


CORE_ALPHA = ['\\begin{a}', '\\end{a}', '\\end', ' ', '{a}', '[b]', 'x', '\\x', '}']


def alpha_cases(ctx, alpha, exh_len, n_random, lo, hi, tols=(0, 1), tag='alpha'):
    strs = list(gen.exhaustive(alpha, exh_len))
    strs += list(gen.random_strings(ctx.rng(tag), alpha, n_random, lo, hi))
    strs += list(gen.exhaustive(ENV_ALPHA, ctx.pick(3, 4)))
    strs += list(gen.exhaustive(CORE_ALPHA, ctx.pick(4, 5), 4))
    strs += list(gen.random_strings(ctx.rng(tag + '/env'), ENV_ALPHA, n_random // 2, 4, 9))
    strs += gen.padded_env_docs()
    strs += gen.long_arg_runs()
    strs += gen.unicode_strings(ctx.rng(tag + '/uni'), ctx.pick(3000, 30000))
    strs += gen.escape_docs()
    strs += gen.signature_probe_docs()
    strs += gen.length_boundary_docs()
    strs += gen.sizing_spacing_docs()
    strs += gen.definition_docs()
    strs += gen.verb_docs()
    strs += gen.env_body_start_docs()
    cases = [(s, t, ()) for s in strs for t in tols]
    cases += [(s, tols[0], ()) for s in gen.codepoint_docs(ctx.rng(tag + '/cp'), ctx.thorough, 1500)]
    cases += [(s, t, sk) for s, sk in gen.name_neighbour_docs() for t in tols]
    return cases
