"""C20 – differential harness for `TexSoup.utils.Buffer`.

Three parties answer the same request in the same canonical form:

* `impl_run`  – the real `TexSoup.utils.Buffer`, in-process, imported from REPO (default /repo);
* `model_run` – the Lean model through the compiled driver (`buf ...` line protocol,
  see lean/TexSoupModel/BufDriver.lean);
* `ref_run`   – a plain Python list with an integer index (the property's oracle).

A history is `(flavour, src, ops)`: flavour `'s'` (string-backed, `src` a str, elements are its
characters) or `'t'` (token-backed, `src` a list of token texts); `ops` a list of op words:

    n | f:<int> | b:<int> | p:<int> | r:<int>:<int> | g:<nat> | l:<onat>:<onat> | h:<int>
    s:<str> | e:<str> | u:<set> | c:<set> | pos

(`<str>` = decimal code points joined by '.', '-' for ''; `<onat>` = natural or '_';
`<set>` = comma-separated `<str>`, '_' for the empty set).  The canonical answer is
`<out>@<cursor>` per op joined by ';' with `<out>` an encoded string, `None`, `True`/`False`,
`#<nat>` or the exception's class name.

Python 3.12, standard library only.
"""
import itertools
import os
import random
import subprocess
import sys

REPO = os.environ.get('REPO', '/repo')
if REPO not in sys.path:
    sys.path.insert(0, REPO)


# ----------------------------------------------------------------------------- codec

def enc(s):
    return '.'.join(str(ord(c)) for c in s) if s else '-'


def dec(w):
    return '' if w == '-' else ''.join(chr(int(x)) for x in w.split('.'))


def enc_set(xs):
    return ','.join(enc(x) for x in xs) if xs else '_'


def dec_set(w):
    return [] if w == '_' else [dec(x) for x in w.split(',')]


def dec_onat(w):
    return None if w == '_' else int(w)


def enc_src(flavour, src):
    return enc(src) if flavour == 's' else enc_set(list(src))


def request(flavour, src, ops):
    """The driver request line of a history."""
    return 'buf %s %s | %s' % (flavour, enc_src(flavour, src), ';'.join(ops))


def elements(flavour, src):
    return list(src)


def canon(v):
    if v is None:
        return 'None'
    if isinstance(v, bool):
        return 'True' if v else 'False'
    if isinstance(v, int):
        return '#%d' % v
    if isinstance(v, str):
        return enc(str(v))
    return 'UNKNOWN:%s' % type(v).__name__


# ----------------------------------------------------------------------------- operations

def apply_op(b, word):
    """Run one op word against an object with the Buffer interface; returns the raw value."""
    parts = word.split(':')
    k = parts[0]
    if k == 'n':
        return next(b)
    if k == 'pos':
        return b.position
    if k == 'f':
        return b.forward(int(parts[1]))
    if k == 'b':
        return b.backward(int(parts[1]))
    if k == 'p':
        return b.peek(int(parts[1]))
    if k == 'r':
        return b.peek((int(parts[1]), int(parts[2])))
    if k == 'g':
        return b[int(parts[1])]
    if k == 'l':
        return b[dec_onat(parts[1]):dec_onat(parts[2])]
    if k == 'h':
        return b.hasNext(int(parts[1]))
    if k == 's':
        return b.startswith(dec(parts[1]))
    if k == 'e':
        return b.endswith(dec(parts[1]))
    if k == 'u':
        cond = frozenset(dec_set(parts[1]))
        return b.forward_until(lambda x: x in cond)
    if k == 'c':
        cond = frozenset(dec_set(parts[1]))
        return b.num_forward_until(lambda x: x in cond)
    raise ValueError('bad op %r' % word)


def run_on(b, ops):
    out = []
    for w in ops:
        try:
            v = canon(apply_op(b, w))
        except (KeyboardInterrupt, SystemExit):
            raise
        except BaseException as e:       # noqa: every exception is an observable
            v = type(e).__name__
        out.append('%s@%d' % (v, b.position))
    return ';'.join(out)


# ----------------------------------------------------------------------------- implementation

def impl_buffer(flavour, src):
    from TexSoup.utils import Buffer, Token
    import TexSoup
    assert os.path.realpath(TexSoup.__file__).startswith(os.path.realpath(REPO) + os.sep)
    if flavour == 's':
        return Buffer(src)
    toks, off = [], 0
    for text in src:
        toks.append(Token(text, off))
        off += len(text)
    return Buffer(iter(toks))


def impl_run(flavour, src, ops):
    """The real Buffer on the history, canonical output."""
    return run_on(impl_buffer(flavour, src), ops)


# ----------------------------------------------------------------------------- reference oracle

class RefBuffer:
    """A plain list with an integer index – what C20 says a Buffer is."""

    def __init__(self, items):
        self.items = list(items)
        self.idx = 0

    @property
    def position(self):
        return self.idx

    def __next__(self):
        if self.idx >= len(self.items):
            raise StopIteration
        self.idx += 1
        return self.items[self.idx - 1]

    def __getitem__(self, k):
        if isinstance(k, int):
            if k >= len(self.items):
                raise IndexError
            return self.items[k]
        return ''.join(self.items[k])

    def peek(self, j=0):
        if isinstance(j, int):
            k = self.idx + j
            return self.items[k] if 0 <= k < len(self.items) else None
        return ''.join(self.items[max(self.idx + j[0], 0):max(self.idx + j[1], 0)])

    def hasNext(self, n=1):
        return bool(self.peek(n - 1))

    def startswith(self, s):
        return ''.join(self.items[self.idx:self.idx + len(s)]).startswith(s)

    def endswith(self, s):
        return ''.join(self.items[max(self.idx - len(s), 0):self.idx]).endswith(s)

    def forward(self, j=1):
        if j < 0:
            return self.backward(-j)
        self.idx += j
        return ''.join(self.items[self.idx - j:self.idx])

    def backward(self, j=1):
        if j < 0:
            return self.forward(-j)
        if j > self.idx:
            raise AssertionError
        self.idx -= j
        return ''.join(self.items[self.idx:self.idx + j])

    def _run(self, cond):
        n = 0
        while self.idx + n < len(self.items) and self.items[self.idx + n] \
                and not cond(self.items[self.idx + n]):
            n += 1
        return n

    def forward_until(self, cond):
        n = self._run(cond)
        self.idx += n
        return ''.join(self.items[self.idx - n:self.idx])

    def num_forward_until(self, cond):
        return self._run(cond)


def ref_run(flavour, src, ops):
    return run_on(RefBuffer(elements(flavour, src)), ops)


# ----------------------------------------------------------------------------- scope of C20

MOVES = ('n', 'f', 'b', 'u')            # op kinds that may move the cursor
OBSERVERS = ('pos', 'p', 'r', 'g', 'l', 'h', 's', 'e', 'c')


def op_kind(word):
    return word.split(':')[0]


def scope_len(flavour, src, ops):
    """Length of the longest prefix of `ops` that lies inside the property's scope: `forward`
    and `backward` moves that stay inside the sequence (0 <= index <= length after the move);
    every other operation is unrestricted.  Computed on the list+index reference."""
    ref = RefBuffer(elements(flavour, src))
    n = len(ref.items)
    for k, w in enumerate(ops):
        parts = w.split(':')
        if parts[0] in ('f', 'b'):
            j = int(parts[1])
            target = ref.idx + j if parts[0] == 'f' else ref.idx - j
            if not 0 <= target <= n:
                return k
        try:
            apply_op(ref, w)
        except (StopIteration, IndexError, AssertionError):
            pass
    return len(ops)


def parse_request(line):
    """Inverse of `request`: (flavour, src, ops)."""
    head, _, tail = line.partition(' | ')
    words = head.split(' ')
    assert words[0] == 'buf' and words[1] in ('s', 't'), line
    src = dec(words[2]) if words[1] == 's' else dec_set(words[2])
    return words[1], src, [w for w in tail.split(';') if w]


# ----------------------------------------------------------------------------- model driver

def model_batch(driver, lines, timeout=900):
    if not lines:
        return []
    p = subprocess.run([driver], input=('\n'.join(lines) + '\n').encode(),
                       stdout=subprocess.PIPE, stderr=subprocess.PIPE, timeout=timeout)
    if p.returncode != 0:
        raise RuntimeError('driver exit %d: %s' % (p.returncode, p.stderr.decode()[-300:]))
    out = p.stdout.decode().split('\n')
    if out and out[-1] == '':
        out.pop()
    if len(out) != len(lines):
        raise RuntimeError('driver answered %d lines for %d requests' % (len(out), len(lines)))
    return out


def model_run(driver, flavour, src, ops):
    return model_batch(driver, [request(flavour, src, ops)])[0]


# ----------------------------------------------------------------------------- history generators

#: sources of the exhaustive exploration: every string over {a,b} up to length 2, a few longer
#: ones, and token lists with multi-character tokens.
DEFAULT_SOURCES = (
    [('s', ''.join(p)) for n in range(0, 3) for p in itertools.product('ab', repeat=n)]
    + [('s', 'abc'), ('s', 'aaba')]
    + [('t', []), ('t', ['ab']), ('t', ['ab', 'c']), ('t', ['a', 'bc', 'a']),
       ('t', ['ab', 'ab', 'c', 'ab'])]
)

#: the op alphabet of the exhaustive exploration (in-range and out-of-range arguments).
DEFAULT_OPS = (
    ['n', 'pos',
     'f:0', 'f:1', 'f:2', 'f:-1', 'b:1', 'b:2', 'b:-1',
     'p:0', 'p:1', 'p:-1', 'p:-2', 'p:3',
     'r:0:2', 'r:-1:1', 'r:-3:0', 'r:1:0',
     'g:0', 'g:2', 'l:_:_', 'l:1:_', 'l:_:2', 'l:1:3', 'l:2:1',
     'h:1', 'h:2', 'h:0',
     's:' + enc('a'), 's:' + enc('ab'), 's:-', 'e:' + enc('a'), 'e:' + enc('ab'), 'e:-',
     'u:' + enc_set(['b']), 'u:_', 'u:' + enc_set(['ab', 'c']),
     'c:' + enc_set(['b']), 'c:_', 'c:' + enc_set(['c'])]
)


#: a small alphabet for deeper exhaustive exploration (10 ops: depth 5 = 111,111 per source).
CORE_OPS = ['n', 'f:1', 'f:2', 'b:1', 'p:0', 'p:-1', 'r:-1:2', 'l:1:_', 'h:1',
            'u:' + enc_set(['b'])]


def all_sources(maxlen, alphabet='ab'):
    """Every string over `alphabet` up to `maxlen` (string-backed) and every split of those
    strings into tokens of length 1-2 (token-backed)."""
    out = []
    for n in range(maxlen + 1):
        for p in itertools.product(alphabet, repeat=n):
            w = ''.join(p)
            out.append(('s', w))

            def splits(rest):
                if not rest:
                    yield []
                for k in (1, 2):
                    if len(rest) >= k:
                        for tail in splits(rest[k:]):
                            yield [rest[:k]] + tail
            seen = set()
            for sp in splits(w):
                if any(len(t) > 1 for t in sp) or not sp:
                    key = tuple(sp)
                    if key not in seen:
                        seen.add(key)
                        out.append(('t', sp))
    return out


def bfs_histories(depth, sources=None, ops=None):
    """ALL op sequences of length 0..depth over every source (both flavours)."""
    sources = DEFAULT_SOURCES if sources is None else sources
    ops = DEFAULT_OPS if ops is None else ops
    for flavour, src in sources:
        for d in range(depth + 1):
            for seq in itertools.product(ops, repeat=d):
                yield flavour, src, list(seq)


def random_op(rng, alphabet):
    def rs(maxlen=3):
        return ''.join(rng.choice(alphabet) for _ in range(rng.randint(0, maxlen)))

    def rset():
        return enc_set([rs(2) for _ in range(rng.randint(0, 3))])

    def ri(lo=-4, hi=6):
        return rng.randint(lo, hi)

    def ron():
        return '_' if rng.random() < 0.3 else str(rng.randint(0, 8))

    k = rng.choice(['n', 'n', 'pos', 'f', 'f', 'b', 'b', 'p', 'p', 'r', 'g', 'l', 'h', 's', 'e',
                    'u', 'c'])
    if k in ('n', 'pos'):
        return k
    if k in ('f', 'b'):
        return '%s:%d' % (k, ri(-3, 4))
    if k in ('p', 'h'):
        return '%s:%d' % (k, ri())
    if k == 'r':
        return 'r:%d:%d' % (ri(), ri())
    if k == 'g':
        return 'g:%d' % rng.randint(0, 9)
    if k == 'l':
        return 'l:%s:%s' % (ron(), ron())
    if k in ('s', 'e'):
        return '%s:%s' % (k, enc(rs()))
    return '%s:%s' % (k, rset())


def random_histories(rng, n, maxlen, allow_empty_tokens=True):
    """`n` random histories of up to `maxlen` ops over random sources of both flavours.
    The alphabet contains a non-BMP character and a lone surrogate; token-backed sources
    occasionally contain a token with empty text (falsy element)."""
    alphabets = ['ab', 'abc', 'a\\{', 'a\U0001F600\udc00']
    for _ in range(n):
        alphabet = rng.choice(alphabets)
        if rng.random() < 0.5:
            flavour = 's'
            src = ''.join(rng.choice(alphabet) for _ in range(rng.randint(0, 8)))
        else:
            flavour = 't'
            src = []
            for _ in range(rng.randint(0, 6)):
                lo = 0 if allow_empty_tokens and rng.random() < 0.1 else 1
                src.append(''.join(rng.choice(alphabet) for _ in range(rng.randint(lo, 3))))
        ops = [random_op(rng, alphabet) for _ in range(rng.randint(0, maxlen))]
        yield flavour, src, ops


# ----------------------------------------------------------------------------- comparison

def compare(driver, histories, limit=20, chunk=50000):
    """Run impl, model and reference on the histories (streamed in chunks).
    Returns (count, impl-vs-model disagreements, impl-vs-reference disagreements, counts)."""
    bad_model, bad_ref = [], []
    total = n_model = n_ref = 0
    it = iter(histories)
    while True:
        hs = list(itertools.islice(it, chunk))
        if not hs:
            break
        total += len(hs)
        model = model_batch(driver, [request(*h) for h in hs])
        for h, m in zip(hs, model):
            a = impl_run(*h)
            r = ref_run(*h)
            if a != m:
                n_model += 1
                if len(bad_model) < limit:
                    bad_model.append((h, a, m))
            if a != r:
                n_ref += 1
                if len(bad_ref) < limit:
                    bad_ref.append((h, a, r))
    return total, bad_model, bad_ref, (n_model, n_ref)


def selftest(driver, depth=3, nrandom=2000, seed=0, verbose=True):
    """impl vs model driver vs reference on BFS `depth` and `nrandom` random histories.
    Returns a dict with the numbers; `ok` is True when nobody disagrees."""
    res = {}
    n, bm, br, (cm, cr) = compare(driver, bfs_histories(depth))
    res['bfs'] = {'depth': depth, 'histories': n, 'impl_vs_model': bm, 'impl_vs_ref': br,
                  'n_impl_vs_model': cm, 'n_impl_vs_ref': cr}
    rng = random.Random(seed)
    n2, bm2, br2, (cm2, cr2) = compare(driver, random_histories(rng, nrandom, 50))
    res['random'] = {'histories': n2, 'impl_vs_model': bm2, 'impl_vs_ref': br2,
                     'n_impl_vs_model': cm2, 'n_impl_vs_ref': cr2}
    res['ok'] = not (bm or br or bm2 or br2)
    if verbose:
        for k in ('bfs', 'random'):
            r = res[k]
            print('%s: %d histories, impl/model disagreements %d, impl/reference disagreements %d'
                  % (k, r['histories'], r['n_impl_vs_model'], r['n_impl_vs_ref']))
            for h, a, b in r['impl_vs_model'][:5]:
                print('  MODEL  %s\n    impl  %s\n    model %s' % (request(*h), a, b))
            for h, a, b in r['impl_vs_ref'][:5]:
                print('  REF    %s\n    impl  %s\n    ref   %s' % (request(*h), a, b))
        print('ok' if res['ok'] else 'DISAGREEMENTS')
    return res


if __name__ == '__main__':
    drv = sys.argv[1] if len(sys.argv) > 1 else os.path.join(
        os.path.dirname(os.path.dirname(os.path.abspath(__file__))), 'lean', '.lake', 'build',
        'bin', 'tsmodel')
    d = int(sys.argv[2]) if len(sys.argv) > 2 else 3
    sys.exit(0 if selftest(drv, depth=d)['ok'] else 1)
