"""C04 – Navigation views of a node are mutually consistent."""
import common
import gen
import lib_nav
from framework import Result
from props import _util

ID = 'C04'
LEAN_TARGETS = ['TexSoupProofs.Properties.C04', 'TexSoupProofs.Properties.C03C04Parsed']
THEOREMS = ['TexSoup.C04.' + n for n in (
    'contents_eq', 'all_eq', 'children_eq', 'iter_eq', 'getitem_eq', 'contents_map_snd', 'contents_steps',
    'descendants_unfold', 'closure_unfold', 'descendants_closure', 'descendants_closure_root',
    'descendants_closure_paths', 'descendants_once', 'descendants_complete', 'desc_map_snd', 'desc_map_snd_root',
    'parent_is_source', 'descendant_has_parent', 'parent_chain_reaches_root', 'text_in_document_order',
    'text_in_document_order_root', 'leaves_in_ser_order', 'leaves_in_ser_order_root', 'text_unfold',
    'text_eq_closure_text', 'root_all_concat', 'descendants_root', 'parent_is_source_root', 'root_contents',
    'root_descendants', 'contents_map_snd_parsed', 'contents_map_snd_root_parsed',
    'desc_map_snd_parsed', 'desc_map_snd_root_parsed')] + ['TexSoup.parse_flatArgs', 'TexSoup.parse_flatArgs_node']
PARTIAL = []
TRUSTED = ['hand-written model of the views (lean/TexSoupModel/Nav.lean, NavPath.lean) and of the reader, tied to the '
           'code by the correspondence run only',
           'correspondence harness (props/c04.py, lib_nav.py): structural paths computed by object identity along '
           'the real .parent links']
ASSUMPTIONS = ['documents are freshly parsed (no edits): every expression object occurs once in the tree',
               'arguments are groups without arguments of their own (Expr.flatArgs; true of every parsed tree, '
               'reported by the driver as NAV-NONFLAT otherwise)',
               'the model driver is the compiled form of the verified definitions',
               'TexNode.all (as opposed to expr.all) asserts that every element is an expression and raises on text '
               'inside arguments: a recorded observation about a different attribute, not part of C04']


def _docs(ctx, tag, n):
    rng = ctx.rng(tag)
    docs = list(lib_nav.FIXED) + gen.corpus()
    docs += [lib_nav.gen_doc(rng) for _ in range(n)]
    docs += [lib_nav.gen_doc(rng, depth=6, width=8) for _ in range(n // 10)]
    seen, out = set(), []
    for d in docs:
        if d not in seen:
            seen.add(d)
            out.append(d)
    return out


# ------------------------------------------------------------------------------------ correspondence

def _impl_nav0(s):
    return lib_nav.impl_nav_line(s, 0)


def _impl_nav1(s):
    return lib_nav.impl_nav_line(s, 1)


def correspondence(ctx):
    r = Result()
    common.impl()
    docs = _docs(ctx, 'corr-docs', ctx.pick(8000, 80000))
    for tol, fn in ((0, _impl_nav0), (1, _impl_nav1)):
        impl = gen.pmap(fn, docs, chunk=50)
        model = common.model_batch_parallel([lib_nav.nav_req(s, tol) for s in docs])
        for s, a, b in zip(docs, impl, model):
            recs = a.count(' # ') + 1 if a.startswith('NAV ') else 0
            r.count(('nav', tol, s), recs >= 3)
            r.bump('node_records_tol%d' % tol, recs)
            if a != b:
                k = 'nav-mismatch'
                if b.startswith('NAV-NONFLAT'):
                    k = 'nav-nonflat'
                elif a.startswith('NAV-RAISED'):
                    k = 'nav-view-raises'
                r.fail(k, 'views/parent links differ (tolerance %d)' % tol, input=s, tol=tol,
                       impl=a[:300], model=b[:300])
        r.bump('documents_tol%d' % tol, len(docs))
        r.bump('parsed_tol%d' % tol, sum(1 for a in impl if a.startswith('NAV ')))
    s = '\\a[ \\b]{\\c{d} e}'
    r.sample({'request': lib_nav.nav_req(s), 'impl': _impl_nav0(s)})
    r.rule = ('nav request (for the root and every non-text node in descendants order: structural path, path of its '
              'parent, contents, children, descendants, text) model vs the real TexNode views and .parent links '
              '(lib_nav.impl_nav: paths resolved by object identity along the real parent chain up to the soup '
              'object), strict and tolerant, on lib_nav.FIXED + repository corpus + random documents of the '
              'documented grammar (two sizes); non-trivial = at least 3 node records')
    return r


# ------------------------------------------------------------------------------------ oracle

def _oracle_doc(src):
    """C04 as stated, on the implementation alone.  Returns (stats, failures)."""
    from TexSoup import data as D
    from TexSoup.utils import Token
    T = common.impl()
    try:
        soup = T.TexSoup(src)
    except Exception:       # noqa: not a document
        return {'unparsed': 1}, []
    st = {'parsed': 1}
    fails = []

    def bump(k, n=1):
        st[k] = st.get(k, 0) + n

    def fail(key, what):
        if all(k != key for k, _ in fails):
            fails.append((key, what))

    def unwrap(x):
        return x._text if isinstance(x, D.TexText) else x

    def blank(x):
        return isinstance(x, str) and x.isspace()

    def own_contents(e):
        """expr.all without whitespace-only text, TexText unwrapped"""
        # the reader never asks for preserved whitespace, so on a parsed document the filter is unconditional
        # (the node's own flag is implementation state, not part of the stated relation)
        return [y for y in (unwrap(x) for x in e.all) if not blank(y)]

    def is_expr(x):
        return isinstance(x, D.TexExpr) and not isinstance(x, D.TexText)

    parent_of = {}              # id(expr) -> expr of the node whose contents hold it

    def closure(e, out):
        """transitive closure of own_contents, document order"""
        for x in own_contents(e):
            out.append(x)
            if is_expr(x):
                parent_of[id(x)] = e
                closure(x, out)
        return out

    def leaves(e, out):
        for x in own_contents(e):
            if is_expr(x):
                leaves(x, out)
            elif isinstance(x, str):
                out.append(x)
        return out

    def same(view, want, where, key, parent=None):
        """element-wise: nodes by identity of .expr (and parent `is` the producing node), text by identity"""
        view = list(view)
        if len(view) != len(want):
            fail(key, '%s: %d elements, expected %d' % (where, len(view), len(want)))
            return False
        for i, (a, b) in enumerate(zip(view, want)):
            if isinstance(a, D.TexNode):
                if a.expr is not b:
                    fail(key, '%s[%d] is %r, expected %r' % (where, i, str(a)[:30], str(b)[:30]))
                    return False
                if parent is not None and a.parent is not parent:
                    fail('parent', '%s[%d] (%r): .parent is not the node whose view produced it' % (
                        where, i, str(a)[:30]))
                    return False
            elif not same_leaf(a, b):
                fail(key, '%s[%d] is %r, expected %r' % (where, i, str(a)[:30], str(b)[:30]))
                return False
        return True

    def same_leaf(a, b):
        # tokens by identity; a plain str (text of a brace-less argument) has no identity of its own
        # (CPython shares one-character strings): by value
        return a is b or (type(a) is str and type(b) is str and a == b)

    def ident(x):
        if isinstance(x, D.TexNode):
            x = x.expr
        return (0, x) if type(x) is str else (1, id(x))

    def ids(xs):
        return sorted(ident(x) for x in xs)

    def check(node, root, depth_bound):
        bump('nodes')
        e = node.expr
        want = own_contents(e)
        where = '%s %r' % (type(e).__name__, str(e)[:24])
        try:
            contents = list(node.contents)
            same(contents, want, where + ' contents', 'contents', node)
            # children = contents without text
            same(node.children, [x for x in want if not isinstance(x, str)], where + ' children', 'children', node)
            # iteration and indexing follow contents
            same(list(node), want, where + ' iteration', 'iteration', node)
            n = len(want)
            for i in range(-n, n):
                same([node[i]], [want[i]], where + ' [%d]' % i, 'indexing', node)
            for i in (n, -n - 1):
                try:
                    node[i]
                    fail('indexing', '%s[%d] does not raise IndexError' % (where, i))
                except IndexError:
                    pass
            bump('indexings', 2 * n + 2)
            # slices follow contents too (a list of the same nodes / text, parents included)
            for sl in (slice(None), slice(1, None), slice(None, -1), slice(None, None, -1), slice(0, n, 2), slice(n, None),
                       slice(-2, None)):
                try:
                    got = node[sl]
                except Exception as ex:      # noqa
                    fail('indexing', '%s[%r] raises %s' % (where, sl, type(ex).__name__))
                    continue
                if not isinstance(got, list):
                    fail('indexing', '%s[%r] is a %s, not a list' % (where, sl, type(got).__name__))
                    continue
                if any(is_expr(g) for g in got):
                    fail('indexing', '%s[%r] holds bare expressions instead of nodes' % (where, sl))
                    continue
                same(got, want[sl], where + ' [%r]' % (sl,), 'indexing', node)
            bump('slicings', 7)
            # descendants = transitive closure, every node once
            desc = list(node.descendants)
            clo = closure(e, [])
            bump('descendants', len(desc))
            if ids(desc) != ids(clo):
                fail('descendants', '%s: %d descendants, closure of contents has %d (or other objects)' % (
                    where, len(desc), len(clo)))
            objs = [id(x) for x in clo if type(x) is not str]
            if len(set(objs)) != len(objs):
                fail('descendants', '%s: an object occurs twice in the closure' % where)
            # parents of everything reached
            for d in desc:
                if not isinstance(d, D.TexNode):
                    continue
                p = d.parent
                if not isinstance(p, D.TexNode) or p.expr is not parent_of.get(id(d.expr)):
                    fail('parent', '%s: descendant %r has parent %r, reached from %r' % (
                        where, str(d)[:24], str(p)[:24], str(parent_of.get(id(d.expr)))[:24]))
                    continue
                if p.expr is e and p is not node:
                    fail('parent', '%s: direct descendant %r: .parent is a different TexNode object' % (
                        where, str(d)[:24]))
                # walking parents ends at the root in finitely many steps
                steps, x = 0, d
                while x is not root and x is not None and steps <= depth_bound:
                    x = getattr(x, 'parent', None)
                    steps += 1
                if x is not root:
                    fail('parent-chain', '%s: walking .parent from %r does not end at the root' % (
                        where, str(d)[:24]))
                bump('parent_links')
            # text = non-blank text leaves in document order
            text = list(node.text)
            lv = leaves(e, [])
            bump('text_leaves', len(lv))
            if len(text) != len(lv) or any(not same_leaf(a, b) for a, b in zip(text, lv)):
                fail('text', '%s: text %r, leaves %r' % (where, [str(t)[:10] for t in text][:6],
                                                         [str(t)[:10] for t in lv][:6]))
            pos = [t.position for t in text if isinstance(t, Token) and isinstance(t.position, int)]
            if any(b <= a for a, b in zip(pos, pos[1:])):
                fail('text-order', '%s: text leaves not in document order (positions %r)' % (where, pos[:8]))
        except RecursionError:
            raise
        except Exception as ex:     # noqa: a view that raises
            fail('view-raises', '%s: %s %s' % (where, type(ex).__name__, str(ex)[:80]))

    # depth bound for the parent walk: number of expressions + 1
    total = len(closure(soup.expr, [])) + 2
    check(soup, soup, total)
    if ''.join(map(str, soup.expr.all)) != str(soup):
        fail('root-concat', 'the complete content list does not concatenate to str(soup)')
    try:
        nodes = [d for d in soup.descendants if isinstance(d, D.TexNode)]
    except Exception as ex:         # noqa
        nodes = []
        fail('view-raises', 'soup.descendants: %s' % type(ex).__name__)
    for d in nodes:
        check(d, soup, total)
    return st, fails


def oracle(ctx, seeds, scale):
    r = Result()
    common.impl()
    docs = [s for s in seeds if isinstance(s, str)]
    docs += _docs(ctx, 'oracle-docs', ctx.pick(10000, 100000) * scale)
    res = gen.pmap(_oracle_doc, docs, chunk=50)
    for s, (st, fails) in zip(docs, res):
        r.count(('doc', s), st.get('nodes', 0) >= 3)
        for k, v in st.items():
            r.bump(k, v)
        for key, what in fails:
            r.fail(key, what, input=s)
    r.sample({'input': '\\begin{itemize}\n\\item A \\textbf{B}\n\\item[o] $c$\n\\end{itemize}', 'verdict': 'holds'})
    r.rule = ('on TexSoup(src), for the root and EVERY TexNode of soup.descendants: contents == expr.all without '
              'whitespace-only text (TexText unwrapped; nodes by identity of .expr, text by identity); children == '
              'contents without strings; list(node) and node[i] for every i in -n..n-1 follow contents, node[n] and '
              'node[-n-1] raise IndexError; descendants == transitive closure of contents computed on the expr '
              'objects, as a multiset of object identities (every object once); text == the non-blank text leaves of '
              'that closure in traversal order AND with strictly increasing source positions; every node yielded by '
              'contents/children/iteration/indexing has .parent `is` the producing node; every node of descendants '
              'has .parent.expr `is` the expression whose contents hold it (`is` the node itself for direct ones) and '
              'walking .parent reaches the soup object within (number of nodes + 2) steps; at the root '
              "''.join(map(str, soup.expr.all)) == str(soup).  Documents: lib_nav.FIXED + repository corpus + random "
              'documents of the documented grammar (two sizes); non-trivial = at least 3 nodes')
    return r


def replay_known(ctx, k):
    inp = k.get('input')
    if not isinstance(inp, str):
        return False
    import re
    if re.fullmatch(r'-|\d+(\.\d+)*', inp):
        inp = common.dec(inp)
    return any(f[0] == k.get('key') for f in _oracle_doc(inp)[1])


def replay(ctx, payload):
    f = payload.get('failure') or {}
    inp = f.get('input')
    if not isinstance(inp, str):
        return True, 'nothing to replay: ' + '; '.join(payload.get('broken', []))[:400]
    common.impl()
    st, fails = _oracle_doc(inp)
    return not fails, 'replay %r -> %r' % (inp, fails[0] if fails else 'holds')
