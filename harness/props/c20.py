"""C20 – The look-ahead buffer is a faithful cursor over its sequence."""
import itertools

import common
import lib_buf as L
from framework import Result
from props import _util

ID = 'C20'
LEAN_TARGETS = ['TexSoupProofs.Properties.C20']
THEOREMS = ['TexSoup.C20.' + n for n in (
    'step_refines', 'run_refines_from', 'run_refines', 'trace_refines', 'run_refines_string',
    'observers_keep_cursor', 'past_end_reports_exhaustion', 'only_documented_errors',
    'laziness_unobservable', 'scope_keeps_cursor_in_range', 'Legacy.peek_leaks_laziness')]
PARTIAL = []
TRUSTED = ['hand-written model of TexSoup.utils.Buffer (lean/TexSoupModel/Buf.lean), tied to the code by the '
           'correspondence run only',
           'correspondence harness (props/c20.py, lib_buf.py): op vocabulary, canonical answers',
           'list+index reference lib_buf.RefBuffer (the oracle) = Spec of lean/TexSoupProofs/BufSpec.lean by '
           'inspection']
ASSUMPTIONS = ['CPython list/slice/iterator semantics',
               'the model driver is the compiled form of the verified definitions',
               'elements are str-like (characters, Token texts) joined by Token.join; conditions of the scans '
               'are membership tests in a finite set of strings',
               'an element with empty text is falsy: hasNext and the scans stop at it (model, reference and '
               'implementation agree on this; the tokenizer never produces one, C19 token_nonempty)']


def _sources(ctx):
    """All short underlying sequences: every string over {a,b} up to length 2 (3 in thorough) as a
    string-backed buffer, as single-character tokens and in every split into tokens of length 1-2,
    plus the library's longer ones."""
    n = ctx.pick(2, 3)
    out = list(L.all_sources(n))
    for k in range(1, n + 1):
        for p in itertools.product('ab', repeat=k):
            out.append(('t', list(p)))
    for s in L.DEFAULT_SOURCES:
        if s not in out:
            out.append(s)
    return out


def _plans(ctx):
    """[(label, sources, op alphabet, depth)] of the exhaustive explorations."""
    src = _sources(ctx)
    if not ctx.thorough:
        return [('bfs3', src, L.DEFAULT_OPS, 3)]
    small = [('s', ''), ('s', 'ab'), ('s', 'abc'), ('t', ['ab']), ('t', ['ab', 'c']), ('t', ['a', 'bc', 'a'])]
    return [('bfs3', src, L.DEFAULT_OPS, 3), ('bfs4', small, L.DEFAULT_OPS, 4), ('bfs5-core', src, L.CORE_OPS, 5)]


def _units(plans):
    """Work units (label, flavour, src, prefix, alphabet, remaining depth): every unit enumerates
    prefix + all sequences of exactly `remaining` ops (shorter histories are prefixes of these and
    every answer lists every step)."""
    units = []
    for label, sources, ops, depth in plans:
        rest = next((k for k in range(1, depth) if len(ops) ** k >= 1000), depth - 1)
        fix = depth - rest
        for flavour, src in sources:
            for pre in itertools.product(ops, repeat=fix):
                units.append((label, flavour, src, list(pre), ops, depth - fix))
    return units


def _unit_histories(u):
    label, flavour, src, pre, ops, rest = u
    for seq in itertools.product(ops, repeat=rest):
        yield flavour, src, pre + list(seq)


def _nontrivial(ops):
    """A history is non-trivial when it moves the cursor and afterwards looks at the buffer."""
    moved = False
    for w in ops:
        k = L.op_kind(w)
        if moved and k != 'pos':
            return True
        if k in L.MOVES:
            moved = True
    return False


def _inp(h):
    return {'flavour': h[0], 'src': h[1], 'ops': list(h[2]), 'request': L.request(*h)}


def _hist(inp):
    if isinstance(inp, dict) and 'ops' in inp:
        return inp['flavour'], inp['src'], list(inp['ops'])
    if isinstance(inp, str) and inp.startswith('buf '):
        return L.parse_request(inp)
    return None


# ------------------------------------------------------------------------------------ correspondence

def _corr_histories(hs):
    model = _util.model([L.request(*h) for h in hs])
    n = nt = 0
    fails = []
    for h, m in zip(hs, model):
        a = L.impl_run(*h)
        n += 1
        nt += _nontrivial(h[2])
        if a != m and len(fails) < 3:
            sa, sm = a.split(';'), m.split(';')
            k = next((i for i, (x, y) in enumerate(zip(sa, sm)) if x != y), min(len(sa), len(sm)))
            op = h[2][k] if k < len(h[2]) else '?'
            fails.append(('model-mismatch-' + L.op_kind(op), 'step %d (%s): impl %s model %s' % (
                k, op, sa[k] if k < len(sa) else '-', sm[k] if k < len(sm) else '-'), _inp(h)))
    return n, nt, fails


def _corr_unit(u):
    return _corr_histories(list(_unit_histories(u)))


def _random_chunks(rng, n, size=500):
    hs = list(L.random_histories(rng, n, 50))
    return [hs[i:i + size] for i in range(0, len(hs), size)]


def _collect(r, results, label):
    for n, nt, fails in results:
        r.evaluations += n
        r.nontrivial.extra += nt
        r.bump(label, n)
        for key, what, inp in fails:
            if len(r.failures) < 50:
                r.fail(key, what, input=inp)


def correspondence(ctx):
    r = Result()
    r.nontrivial = _util.Tally()
    common.impl()
    plans = _plans(ctx)
    for label, sources, ops, depth in plans:
        units = _units([(label, sources, ops, depth)])
        _collect(r, _util.pmap(_corr_unit, units), label + '_histories')
        r.bump(label + '_sources', len(sources))
        ctx.log('correspondence %s: %d sources x %d ops, depth %d: %d histories so far' % (
            label, len(sources), len(ops), depth, r.evaluations))
    chunks = _random_chunks(ctx.rng('corr-random'), ctx.pick(20000, 200000))
    res = _util.pmap(_corr_chunk_random, chunks)
    _collect(r, res, 'random_histories')
    h = ('t', ['ab', 'c'], ['n', 'p:-1', 'f:3', 'n', 'b:1', 'u:' + L.enc_set(['c']), 'l:_:_'])
    r.sample({'request': L.request(*h), 'impl': L.impl_run(*h), 'model': _util.model([L.request(*h)])[0]})
    r.rule = ('model (buf request) vs TexSoup.utils.Buffer, canonical output AND cursor after every step: '
              + '; '.join('ALL sequences of %d ops over %d-op alphabet on %d sources (%s)' % (d, len(o), len(s), lab)
                          for lab, s, o, d in plans)
              + '; sources = every string over {a,b} up to length %d string-backed, as single-character tokens and '
                'in every split into 1-2 character tokens, plus longer ones; random histories up to 50 ops over '
                'four alphabets (non-BMP, lone surrogate, empty-text tokens); every shorter sequence is a prefix '
                'of an enumerated one; non-trivial = an operation other than `position` after a cursor move'
              % ctx.pick(2, 3))
    r.exhaustive = True
    return r


def _corr_chunk_random(hs):
    return _corr_histories(hs)


# ------------------------------------------------------------------------------------ oracle

def _oracle_one(h, truncate=True):
    """C20 as stated, on the implementation alone.  Returns (status, failure) with status
    'skip' (leaves the scope and truncate=False) or 'ok'/'fail'; failure = (key, what)."""
    flavour, src, ops = h
    k = L.scope_len(flavour, src, ops)
    if k < len(ops):
        if not truncate:
            return 'skip', None
        ops = ops[:k]
    a = L.impl_run(flavour, src, ops).split(';') if ops else []
    ref = L.ref_run(flavour, src, ops).split(';') if ops else []
    n_items = len(L.elements(flavour, src))
    pos = 0
    for i, w in enumerate(ops):
        kind = L.op_kind(w)
        out, _, cur = a[i].rpartition('@')
        if a[i] != ref[i]:
            return 'fail', ('list-mismatch-' + kind, 'step %d (%s): buffer %s, list+index %s' % (i, w, a[i], ref[i]))
        # the two explicit clauses (implied by equality with the list; separate keys)
        if kind in L.OBSERVERS and int(cur) != pos:
            return 'fail', ('observer-moves-cursor-' + kind, 'step %d (%s): cursor %d -> %s' % (i, w, pos, cur))
        if kind == 'n' and pos >= n_items and out != 'StopIteration':
            return 'fail', ('past-end-next', 'step %d: next at the end gave %s' % (i, out))
        if kind in ('p', 'r', 'l', 'h', 's', 'e', 'u', 'c', 'pos') and out[:1].isalpha() and \
                out not in ('None', 'True', 'False'):
            return 'fail', ('past-end-raises-' + kind, 'step %d (%s) raised %s' % (i, w, out))
        pos = int(cur)
    return 'ok', None


def _oracle_histories(hs, truncate):
    n = nt = skipped = 0
    fails = []
    for h in hs:
        st, f = _oracle_one(h, truncate)
        if st == 'skip':
            skipped += 1
            continue
        n += 1
        nt += _nontrivial(h[2])
        if f is not None and len(fails) < 3:
            fails.append((f[0], f[1], _inp(h)))
    return n, nt, fails, skipped


def _oracle_unit(u):
    return _oracle_histories(_unit_histories(u), False)


def _oracle_chunk_random(hs):
    return _oracle_histories(hs, True)


def _long_jumps(kind):
    import sys
    from TexSoup.utils import Buffer
    from TexSoup.category import categorize
    from TexSoup.tokens import tokenize
    old = sys.getrecursionlimit()
    sys.setrecursionlimit(1000)
    try:
        if kind == 0:
            items = list('ab' * 3000)
            buf = Buffer(''.join(items))
        else:
            src = '\\x{a} ' * 1500
            items = [str(t) for t in tokenize(categorize(src))]
            buf = Buffer(tokenize(categorize(src)))
        pos = 0
        for move in (5, 1200, -700, 2500, -1, 1500, -3000):
            try:
                got = buf.forward(move) if move > 0 else buf.backward(-move)
            except BaseException as e:      # noqa
                return 'forward/backward(%d) at index %d of %d items raises %s' % (move, pos, len(items), type(e).__name__)
            lo, hi = (pos, pos + move) if move > 0 else (pos + move, pos)
            pos += move
            want = ''.join(items[lo:hi])
            if ''.join(map(str, got)) != want or buf.position != pos:
                return 'move %d: got %r.. at %r, list model %r.. at %r' % (move, str(got)[:20], buf.position, want[:20], pos)
        return None
    finally:
        sys.setrecursionlimit(old)


def oracle(ctx, seeds, scale):
    r = Result()
    r.nontrivial = _util.Tally()
    common.impl()
    seen = [h for h in (_hist(s) for s in seeds) if h is not None]
    skipped = 0
    if seen:
        n, nt, fails, _ = _oracle_histories(seen, True)
        _collect(r, [(n, nt, fails)], 'seed_histories')
    for label, sources, ops, depth in _plans(ctx):
        res = _util.pmap(_oracle_unit, _units([(label, sources, ops, depth)]))
        _collect(r, [x[:3] for x in res], label + '_in_scope_histories')
        skipped += sum(x[3] for x in res)
    chunks = _random_chunks(ctx.rng('oracle-random'), ctx.pick(20000, 200000) * scale)
    res = _util.pmap(_oracle_chunk_random, chunks)
    _collect(r, [x[:3] for x in res], 'random_histories_truncated_to_scope')
    r.bump('bfs_histories_leaving_scope_skipped', skipped)
    # long sequences at the interpreter's DEFAULT recursion limit (the harness itself runs with a larger one): moves over
    # thousands of items that were never looked at, string- and token-backed
    x = _util.pmap(_long_jumps, [0, 1])
    for kind, bad in zip(('string', 'tokens'), x):
        r.count(('long', kind), True)
        if bad:
            r.fail('long-jump', bad, input={'kind': kind})
    h = ('s', 'abc', ['f:2', 'p:-1', 'r:-1:5', 'b:2', 'n', 'n', 'n', 'n'])
    r.sample({'request': L.request(*h), 'buffer': L.impl_run(*h), 'list+index': L.ref_run(*h), 'verdict': 'holds'})
    r.rule = ('TexSoup.utils.Buffer vs a plain list with an integer index (lib_buf.RefBuffer): output and cursor '
              'after every step equal; observers leave the cursor where it was; next at the end raises '
              'StopIteration, peeks/slices/tests/scans never raise.  Scope as stated: forward/backward moves that '
              'stay inside the sequence (0 <= index <= length), every other operation with any argument.  The same '
              'exhaustive families as the correspondence restricted to in-scope sequences (a sequence leaving the '
              'scope is dropped: its in-scope prefix is enumerated on its own), random histories cut before their '
              'first out-of-scope move')
    r.exhaustive = True
    return r


def replay_known(ctx, k):
    h = _hist(k.get('input'))
    return h is not None and _oracle_one(h)[1] is not None


def replay(ctx, payload):
    f = payload.get('failure') or {}
    h = _hist(f.get('input'))
    if h is None:
        return True, 'nothing to replay: ' + '; '.join(payload.get('broken', []))[:400]
    common.impl()
    st, x = _oracle_one(h)
    return x is None, 'replay %s -> %r' % (L.request(*h), x if x else 'holds')
