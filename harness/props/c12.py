"""C12 – Math regions are delimited correctly and tolerate unbalanced brackets."""
import collections

import common
import gen_doc as G
import lib_doc as L
from gen_doc import Node, text as T
from framework import Result

ID = 'C12'
LEAN_TARGETS = ['TexSoupProofs.Properties.C12', 'TexSoupProofs.Properties.C12Grammar']
THEOREMS = ['TexSoup.C12.' + n for n in (
    'double_dollar_greedy', 'escaped_dollar_is_no_switch', 'dollar_facts', 'asymmetric_switch',
    'sizing_command_is_one_token', 'math_region')] + [
    'TexSoup.C12G.math_region_is_one_node', 'TexSoup.C12G.math_region_wf', 'TexSoup.C12G.math_environment_body_mode', 'TexSoup.C12G.math_environment_is_one_node', 'TexSoup.C12G.bracket_leaf_in_math']
PARTIAL = []
TRUSTED = ['harness/props/c12.py (math kinds x bodies x contexts, expected nodes and search results)',
           'harness/gen_doc.py (math grammar, sizing-command and operator tables written down from the documentation, '
           'expected tree, frame conditions)',
           'correspondence harness (lib_doc.py, common.py)']
ASSUMPTIONS = ['CPython str semantics', 'the model driver is the compiled form of the verified definitions',
               'math bodies contain no math switch of their own (no nested math), `$a$$b$` is out of scope, lists do not '
               'occur inside math, a bracket or brace directly (or after blanks) after an ordinary or sizing command is '
               'its argument and therefore not generated unbalanced there']
LEAN_TARGETS = LEAN_TARGETS + ['TexSoupProofs.Properties.TableSpec']
# entries of the generated tables that the property's statement names (they stop compiling when a table edit drops them)
THEOREMS = THEOREMS + ['TexSoup.TableSpec.' + n for n in ['named_math_environments', 'zero_argument_operators', 'sizing_prefixes_and_delimiters']]
# the same for every strictly parsing representable input, math nodes anywhere in the tree (Properties/AllInputs2.lean)
LEAN_TARGETS = LEAN_TARGETS + ['TexSoupProofs.Properties.AllInputs2']
THEOREMS = THEOREMS + ['TexSoup.C12.' + n for n in ['math_node_all', 'math_environment_node_all',
                                                    'no_free_bracket_group_all', 'command_node_all',
                                                    'command_found_all']] + ['TexSoup.AllInputs.good_all']

_CACHE = {}

KINDS = tuple(('math', k) for k in ('dollar', 'ddollar', 'math', 'displaymath')) + tuple(('env', n) for n in G.MATH_ENVS)
CLASS_OF = {'dollar': 'TexMathModeEnv', 'ddollar': 'TexDisplayMathModeEnv', 'math': 'TexMathEnv',
            'displaymath': 'TexDisplayMathEnv'}
NAME_OF = {'dollar': '$', 'ddollar': '$$', 'math': 'math', 'displaymath': 'displaymath'}


# ----------------------------------------------------------------------------- hand-built trees

def C(name, *braces, brackets=()):
    args = [Node('group', 'bracket', children=list(b)) for b in brackets] + \
           [Node('group', 'brace', children=list(b)) for b in braces]
    return Node('cmd', 'generic', name, args)


def SZ(name):
    return Node('cmd', 'sizing', name)


def Z(name):
    return Node('cmd', 'zero', name)


def GR(*kids):
    return Node('group', 'brace', children=list(kids))


def ENV(name, kids, sub='plain', args=()):
    return Node('env', sub, name, list(args), list(kids))


def math_node(kind, kids):
    k, n = kind
    if k == 'math':
        return Node('math', n, children=list(kids))
    args = [Node('group', 'brace', children=[T('cc')])] if n in ('array', 'alignat') else []
    return Node('env', 'math', n, args, list(kids))


def bodies():
    """Fixed math bodies (lists of nodes), fresh objects on every call."""
    return [
        [T('x')], [T('a+b=c')], [C('alpha')], [C('frac', [T('a')], [T('b')])], [GR(T('x'))], [T('x^2_i')], [T('\\$')],
        [T('(')], [T(')')], [T('[')], [T(']')], [T('(a,b]')], [T('[0,1)')], [T(']a[')], [T('f(x')], [T('))((')],
        [T(']]][')], [SZ('left('), T('x'), SZ('right)')], [SZ('left['), T('0,1'), SZ('right)')], [SZ('big|'), T('x')],
        [SZ('left.'), T('x'), SZ('right\\}')], [SZ('Bigg\\langle'), T('x,y'), SZ('Bigg\\rangle')],
        [Z('cup'), T('[a]')], [Z('in'), T('[0,1)')], [Z('notin'), T('(a]')], [Z('infty'), T(']')], [Z('cap'), GR(T('x'))],
        [T('x'), Z('in'), T(' [0,1]')], [Z('cup'), T('[')], [Z('infty'), T(')')],
        [C('sqrt', [T('x')], brackets=([T('3')],))], [T('a&b\\\\c&d')], [T('\\{x\\}')], [T(' ')], [T('\n')],
        [C('mathbf', [T('x')]), T('.['), C('hat', [T('y')]), T(')')], [T('x'), Node('comment', s=' c]$'), T('\ny')],
        [C('text', [T('if ]')])], [T("f'(x)")], [T('a\\,b\\;c')], [T('1 \\$ 2 \\$')], [T('\\$\\$')],
        [C('frac', [C('frac', [T('(')], [T(']')])], [GR(T('['))])], [T('x_'), GR(T('i]')), T('^'), GR(T('(2'))],
        [C('zq', [T('a')]), T('+'), C('zq', [T('b')])], [T('[a]')], [T('(0,1) '), Z('cup')], [],
    ]


def contexts(hole):
    """The ten placements of a list of nodes; fresh trees on every call."""
    h = lambda: [x.clone() for x in hole]
    item1 = Node('item', None, 'item', [], [T(' a')])
    item2 = Node('item', None, 'item', [], [T(' w ')] + h() + [T(' z')])
    special = Node('cmd', 'special', 'newcommand',
                   [Node('group', 'brace', children=[Node('cmd', 'generic', 'zz')]),
                    Node('group', 'bracket', children=[T('1')]),
                    Node('group', 'brace', children=[T('x ')] + h() + [T(' #1')])])
    if any(x.kind == 'env' for x in hole):
        # inside a \\newcommand-style definition \\begin/\\end are plain commands: named environments go elsewhere
        special = ENV('quote', [T('x ')] + h() + [T(' y')])
    return [
        ('top', [T('a ')] + h() + [T(' b')]),
        ('bare', h()),
        ('env', [ENV('center', [T('\nx ')] + h() + [T(' y\n')])]),
        ('group', [GR(*([T('p ')] + h() + [T(' q')]))]),
        ('brace-arg', [C('textit', [T('p ')] + h())]),
        ('bracket-arg', [C('w', [T('r')], brackets=(h() + [T(' q')],))]),
        ('item', [ENV('itemize', [item1, item2], sub='list')]),
        ('nested', [ENV('center', [GR(C('textit', h()))])]),
        ('special', [special]),
        ('escaped-dollars', [T('\\$ a \\$')] + h() + [T('\\$ b \\$\\$')]),
        # a named math environment directly inside another math region (split in equation, array in \[..\] or $..$):
        # the context is math mode. Delimiter pairs do not nest in LaTeX: for them these two fall back to `top`.
        ('in-math-env', [math_node(('env', 'equation'), [T('x ')] + h() + [T(' y')])] if envs_only(hole)
         else [T('a ')] + h() + [T(' b')]),
        ('in-display', [math_node(('math', 'displaymath'), [T('x ')] + h() + [T(' y')])] if envs_only(hole)
         else [T('a ')] + h() + [T(' b')]),
        # after a verbatim-like body with an odd number of dollars (a shell prompt): what a raw body contains must not
        # influence how later math switches are read
        ('after-verbatim', [Node('env', 'verb', 'verbatim', [], [T('$ make test\necho $HOME $\n')]), T(' a ')] + h()
         + [T(' b '), Node('env', 'verb', 'lstlisting', [], [T('$$$')])]),
    ]


def envs_only(hole):
    return bool(hole) and all(x.kind == 'env' for x in hole)


NCONTEXTS = 13


def _doc(rng, nodes):
    root = Node('root', children=nodes)
    src, root = G.finish(root, rng, eof_comment=False)
    return src, root


def _gen_fixed(rng, i, job):
    ki, ci, bi = job['items'][i]
    body = bodies()[bi]
    kind = KINDS[ki]
    if not body and kind == ('math', 'dollar'):
        body = [T('x')]
    label, nodes = contexts([math_node(kind, body)])[ci]
    src, ast = _doc(rng, nodes)
    return src, ast, {'family': 'fixed', 'ctx': label}


def _gen_sizing(rng, i, job):
    si, ki, fi = job['items'][i]
    name = G.SIZING[si]
    follow = ('x', '(', ']', ' + [', ')')[fi]
    body = [T('a'), SZ(name), T(follow)]
    if rng.random() < 0.5:
        body = [SZ(name), T(follow), SZ(rng.choice(G.SIZING))]
    label, nodes = contexts([math_node(KINDS[ki], body)])[rng.randrange(NCONTEXTS)]
    src, ast = _doc(rng, nodes)
    return src, ast, {'family': 'sizing', 'ctx': label}


def _gen_zero(rng, i, job):
    zi, fi, ki, ci = job['items'][i]
    follow = ('[a]', '[0,1)', '(a]', ']', '[', ' [b', '(', ')]')[fi]
    body = [T('x'), Z(G.ZERO_OPS_MATH[zi]), T(follow)]
    if fi == 7:
        body = [Z(G.ZERO_OPS_MATH[zi]), GR(T('x')), T('[')]
    label, nodes = contexts([math_node(KINDS[ki], body)])[ci]
    src, ast = _doc(rng, nodes)
    return src, ast, {'family': 'zero', 'ctx': label}


def _gen_adjacent(rng, i, job):
    ks, ci = job['items'][i]
    bs = bodies()
    hole = []
    for k in ks:
        b = bs[rng.randrange(len(bs) - 1)]
        hole.append(math_node(KINDS[k], [x.clone() for x in b]))
    label, nodes = contexts(hole)[ci]
    src, ast = _doc(rng, nodes)
    return src, ast, {'family': 'adjacent', 'ctx': label}


def _gen_random_body(rng, i, job):
    g = G.Gen(rng, 'adjacent', {'comment': 2}, 0.0, 0.2, 4)
    kind = KINDS[rng.randrange(len(KINDS))]
    kids = g.seq(G.Cx(math=True, verb_ok=False), rng.randint(0, 3), rng.randint(1, 6))
    label, nodes = contexts([math_node(kind, kids)])[rng.randrange(NCONTEXTS)]
    src, ast = _doc(rng, nodes)
    return src, ast, {'family': 'random-body', 'ctx': label}


def _gen_doc(rng, i, job):
    src, ast = G.document(rng, depth=rng.randint(1, job['depth']), layout='adjacent', twins=0.05, hostile=0.2,
                          width=rng.randint(2, 5),
                          weights={'math': 30, 'menv': 14, 'verb': 1, 'text': 20, 'sizing': 10, 'paren': 10, 'zero': 6,
                                   'edollar': 6})
    return src, ast, {'family': 'doc', 'ctx': 'generated'}


# ----------------------------------------------------------------------------- oracle

def _math_nodes_expected(src, ast):
    out = []
    for x in G.walk(ast):
        if x.kind == 'math':
            out.append((CLASS_OF[x.sub], NAME_OF[x.sub], x.start, src[x.start:x.end]))
        elif x.kind == 'env' and x.sub == 'math':
            out.append(('TexNamedEnv', x.name, x.start, src[x.start:x.end]))
    return out


def _math_nodes_real(soup):
    from TexSoup import data as D
    out = []
    for e, p, w in L.walk_exprs(soup):
        if isinstance(e, (D.TexMathModeEnv, D.TexDisplayMathModeEnv, D.TexMathEnv, D.TexDisplayMathEnv)):
            out.append((type(e).__name__, e.name, e.position, str(e)))
        elif isinstance(e, D.TexNamedEnv) and e.name in G.MATH_ENVS:
            out.append(('TexNamedEnv', e.name, e.position, str(e)))
    return out


def _expected_counts(ast):
    c = collections.Counter()
    for x in G.walk(ast):
        if x.kind in ('cmd', 'item', 'env'):
            c[x.name] += 1
        elif x.kind == 'math':
            c[NAME_OF[x.sub]] += 1
    return c


def check_doc(src, ast, parsed):
    from TexSoup.data import BracketGroup
    line, soup, exc = parsed
    if soup is None:
        return [('parse-fails', '%s: %s' % (line, str(exc)[:120]), None)]
    want, got = _math_nodes_expected(src, ast), _math_nodes_real(soup)
    if want != got:
        k = next((j for j in range(min(len(want), len(got))) if want[j] != got[j]), min(len(want), len(got)))
        return [('math-kind', 'math region %d: generated %r, tree has %r'
                 % (k, want[k][:3] + (want[k][3][:40],) if k < len(want) else None,
                    got[k][:3] + (got[k][3][:40],) if k < len(got) else None), None)]
    for e, p, w in L.walk_exprs(soup):
        if isinstance(e, BracketGroup) and w != 'arg':
            return [('bracket-not-text', 'a bracket group outside argument position at %r' % e.position, None)]
    exp, real = G.expected_canon(ast), G.normalise(common.canon_root(soup))
    if exp != real:
        k = next((j for j in range(min(len(exp), len(real))) if exp[j] != real[j]), min(len(exp), len(real)))
        return [('tree-mismatch', 'expected ...%s, got ...%s' % (exp[max(0, k - 30):k + 60], real[max(0, k - 30):k + 60]),
                 None)]
    if str(soup) != src:
        return [('roundtrip', 'output %r' % str(soup)[:80], None)]
    counts = _expected_counts(ast)
    for name in list(counts) + ['$', '$$', 'math', 'displaymath']:
        if '{' in name or '[' in name:
            continue            # find() treats such a name as source text, not as a name
        found = soup.find_all(name)
        if len(found) != counts.get(name, 0):
            return [('math-search', 'find_all(%r) returns %d nodes, %d were written' % (name, len(found), counts.get(name, 0)),
                     None)]
    return None


def _oracle(src, ast, extra, parsed):
    v = check_doc(src, ast, parsed)
    if not v:
        return None
    key = v[0][0]

    def fails(s, a):
        vv = check_doc(s, a, common.impl_parse(s, 0, a.skip))
        return bool(vv) and vv[0][0] == key
    small, sast = G.shrink(ast, fails, 200) if L.may_shrink() else (src, ast)
    return [(k, w, {'input': small, 'skip': list(sast.skip), 'original': src[:300], 'family': extra['family'],
                    'expected': G.expected_canon(sast)[:2000]}) for k, w, _ in v]


def _nontrivial(src, ast, extra):
    c = G.constructs(ast)
    return any(k.startswith('math-') or k == 'env-math' for k in c) and len(c) >= 3


def _finds(src, ast, extra):
    names = [x.name for x in G.walk(ast) if x.kind == 'cmd' and '{' not in x.name and '[' not in x.name]
    out = ['$'] if '$' in src else ['displaymath']
    if names:
        out.append(names[len(names) // 2])
    return out


# ----------------------------------------------------------------------------- jobs

def _all_jobs(ctx, model, scale=1):
    nb = len(bodies())
    jobs = []

    def enum(tag, gen, items, per):
        for lo in range(0, len(items), per):
            jobs.append({'seed': '%s/%d/%s/%d' % (ID, ctx.seed, tag, lo), 'n': min(per, len(items) - lo),
                         'items': items[lo:lo + per], 'gen': gen, 'oracle': _oracle, 'nontrivial': _nontrivial,
                         'finds': _finds, 'model': model, 'tols': (0,)})

    per = ctx.pick(500, 1500)
    if ctx.thorough:
        fixed = [(ki, ci, bi) for ki in range(len(KINDS)) for ci in range(NCONTEXTS) for bi in range(nb)]
    else:
        # every kind x body, every kind x context, every context x body; the third coordinate rotates
        fixed = [(ki, (ki + bi) % NCONTEXTS, bi) for ki in range(len(KINDS)) for bi in range(nb)]
        fixed += [(ki, ci, (ki * 7 + ci * 3) % nb) for ki in range(len(KINDS)) for ci in range(NCONTEXTS)]
        fixed += [((ci + bi) % len(KINDS), ci, bi) for ci in range(NCONTEXTS) for bi in range(nb)]
    enum('fixed', _gen_fixed, fixed, per)
    kinds6 = [0, 1, 2, 3, KINDS.index(('env', 'equation')), KINDS.index(('env', 'align*'))]
    sizing = [(si, ki, fi) for si in range(len(G.SIZING)) for ki in (kinds6 if ctx.thorough else kinds6[:4])
              for fi in (range(5) if ctx.thorough else ((si + ki) % 5,))]
    enum('sizing', _gen_sizing, sizing, per)
    zero = [(zi, fi, ki, ci) for zi in range(len(G.ZERO_OPS_MATH)) for fi in range(8) for ki in range(len(KINDS))
            for ci in (range(NCONTEXTS) if ctx.thorough else ((zi + fi + ki) % NCONTEXTS,))]
    enum('zero', _gen_zero, zero, per)
    pairs = [((a, b), (a + b) % NCONTEXTS) for a in range(len(KINDS)) for b in range(len(KINDS))]
    if ctx.thorough:
        pairs = [((a, b), ci) for a in range(len(KINDS)) for b in range(len(KINDS)) for ci in range(NCONTEXTS)]
    triples = [((a, b, c), (a + b + c) % NCONTEXTS) for a in range(4) for b in range(len(KINDS)) for c in range(4)]
    enum('adjacent', _gen_adjacent, pairs + triples, per)
    for k, n in enumerate(L.split(ctx.pick(14000, 250000) * scale, per)):
        jobs.append({'seed': '%s/%d/body/%d' % (ID, ctx.seed, k), 'n': n, 'gen': _gen_random_body, 'oracle': _oracle,
                     'nontrivial': _nontrivial, 'finds': _finds, 'model': model, 'tols': (0,)})
    for k, n in enumerate(L.split(ctx.pick(7000, 80000) * scale, ctx.pick(125, 400))):
        jobs.append({'seed': '%s/%d/doc/%d' % (ID, ctx.seed, k), 'n': n, 'gen': _gen_doc, 'oracle': _oracle,
                     'nontrivial': _nontrivial, 'finds': _finds, 'model': model, 'tols': (0,),
                     'depth': ctx.pick(5, 10)})
    jobs.sort(key=lambda j: -j['n'] * (5 if j['gen'] is _gen_doc else 1))
    return jobs


def _run(ctx, model=True, scale=1):
    key = (ctx.tier, ctx.seed, model, scale)
    if key not in _CACHE:
        _CACHE[key] = L.run_jobs(L.eval_docs, _all_jobs(ctx, model, scale))
    return _CACHE[key]


def _rule(ctx):
    return ('the four delimiter pairs and all %d named math environments x %d fixed bodies (text, commands with brace '
            'arguments, groups, ^/_, escaped dollars, unbalanced ( ) [ ], sizing commands, zero-argument operators '
            'followed by brackets, comments) x %d placements (top level, alone, environment, group, brace and bracket '
            'argument, item, nested, \\newcommand body, between escaped dollars)%s; every one of the %d sizing commands '
            '(6 prefixes x 22 delimiters) in several kinds with following text; the 5 zero-argument operators x 8 '
            'followers x all kinds; adjacent regions: all ordered pairs of kinds and triples (`$a$` directly before `$` '
            'is separated: out of scope); random bodies from the math grammar; generated documents rich in math; '
            'non-trivial = a math region plus two other constructs'
            % (len(G.MATH_ENVS), len(bodies()), NCONTEXTS, ' (full product)' if ctx.thorough else ' (pairwise cover)',
               len(G.SIZING)))


def _padded_names(r):
    """Environment names padded with blanks inside the braces (the parser strips names, so they still mean the
    verbatim-like / math environment).  Model and implementation must agree; they are outside the oracle domain
    (the serialisation drops the blanks: recorded finding)."""
    import gen
    docs = gen.padded_env_docs()
    reqs, want = [], []
    for d in docs:
        for tol in (0, 1):
            reqs.append(common.parse_req(d, tol, ()))
            want.append(common.impl_parse(d, tol, ())[0])
    got = common.model_batch(reqs)
    for i, (w, g) in enumerate(zip(want, got)):
        d = docs[i // 2]
        r.count(('padded', d, i % 2), True)
        r.bump('padded_names:' + L.parse_err_kind(w))
        if w != g:
            r.fail('parse-mismatch', 'model and implementation differ on a padded environment name (tol %d)' % (i % 2),
                   input=d, impl=w[:300], model=g[:300])


def correspondence(ctx):
    r = Result()
    common.impl()
    st = L.merge_jobs(_run(ctx, True), r, None)
    st.into(r)
    _padded_names(r)
    r.exhaustive = ctx.thorough
    r.rule = ('`parse` (tolerance 0) and `find` of `$`/`displaymath` and of a command inside, compared textually on: ' +
              _rule(ctx) + '; plus (correspondence only) environment names padded with blanks inside the braces, '
              'tolerance 0 and 1')
    return r


def oracle(ctx, seeds, scale):
    r = Result()
    common.impl()
    # the inputs on which the correspondence diverged are among the (shared) inputs below, where they are
    # evaluated first-class with their generating record; nothing more can be said about a bare string
    r.stats['diverging_inputs_received'] = len([s for s in seeds if isinstance(s, str)])
    key = (ctx.tier, ctx.seed, True, 1)
    res = list(_CACHE[key]) if key in _CACHE and scale == 1 else list(_run(ctx, False, scale))
    st = L.merge_jobs(res, None, r)
    st.into(r)
    r.exhaustive = ctx.thorough
    r.rule = ('the math nodes of the tree (class, name, position, str) are exactly the generated regions with str == the '
              'enclosed source; no bracket group outside argument position; the whole tree equals the generating tree '
              '(brackets, parentheses, escaped dollars as text; sizing commands and operators as argument-less commands); '
              'exact round trip; find_all(name) returns as many nodes as were written for every command, environment '
              'and math kind; failures are shrunk; on: ' + _rule(ctx))
    return r


def replay_known(ctx, k):
    s = common.dec(k['input'])
    line, soup, exc = common.impl_parse(s, 0, ())
    if soup is None:
        return True
    exp = common.dec(k['expected']) if k.get('expected') else None
    return exp is not None and G.normalise(common.canon_root(soup)) != exp


def replay(ctx, payload):
    f = payload.get('failure') or {}
    s = f.get('input')
    if not isinstance(s, str):
        return True, 'nothing to replay: ' + '; '.join(payload.get('broken', []))[:400]
    skip = tuple(f.get('skip') or ())
    line, soup, exc = common.impl_parse(s, 0, skip)
    if soup is None:
        return False, 'replay %r -> %s' % (s, line)
    got = G.normalise(common.canon_root(soup))
    exp = f.get('expected')
    ok = exp is None or got == exp
    return ok, 'replay %r -> %s (expected %s)' % (s, got[:300], (exp or '?')[:300])
