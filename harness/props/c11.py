"""C11 – Verbatim-like environments are opaque."""
import itertools
import re

import common
import gen_doc as G
import lib_doc as L
from common import enc
from framework import Result

ID = 'C11'
LEAN_TARGETS = ['TexSoupProofs.Properties.C11', 'TexSoupProofs.Properties.C11Grammar', 'TexSoupProofs.Properties.AllInputs']
THEOREMS = ['TexSoup.C11.' + n for n in (
    'body_is_opaque', 'unclosed_is_diagnostic', 'end_marker_is_five_tokens', 'builtin_names_plain')] + [
    'TexSoup.C11G.verbatim_is_one_text', 'TexSoup.C11G.skip_list_in_force', 'TexSoup.C11G.verbatim_wf_iff', 'TexSoup.C11G.no_skip_list_no_verbatim', 'TexSoup.C11G.other_name_is_interpreted',
    'TexSoup.C11.verbatim_is_one_text_all', 'TexSoup.AllInputs.StrictInput.doc']
PARTIAL = []
TRUSTED = ['harness/props/c11.py (names, hostile bodies within the provisos, placements, expected shape)',
           'harness/gen_doc.py (documents with verbatim-like environments, expected tree)',
           'correspondence harness (lib_doc.py, common.py)']
ASSUMPTIONS = ['CPython str semantics', 'the model driver is the compiled form of the verified definitions',
               'provisos as stated: the body does not start with (blanks, at most one line break, blanks +) a brace or '
               'bracket, does not end with a backslash, has no % on its last line, does not contain \\end{name}',
               'user names: letters, digits, *, -, inner blanks (one text token); placements: top level and bodies of '
               'named environments (the reader passes skip_envs nowhere else)']
LEAN_TARGETS = LEAN_TARGETS + ['TexSoupProofs.Properties.TableSpec']
# entries of the generated tables that the property's statement names (they stop compiling when a table edit drops them)
THEOREMS = THEOREMS + ['TexSoup.TableSpec.' + n for n in ['builtin_verbatim_names', 'verbatim_and_math_disjoint']]

_CACHE = {}

BUILTIN = G.VERB_ENVS
PIECES = G.VERB_PIECES
PIECES_SMALL = ('{', '}', '[', ']', '$', '\\', '\\begin{itemize}', '\\end{itemize}', '\\item', '% c\n', '\n', ' ',
                'a', '\\zq{a}')
PROBES = ('zq', 'item', 'itemize', 'e', 'textbf', 'begin', 'end', '$', '$$', 'BraceGroup', 'BracketGroup', 'math',
          'displaymath', 'left(', 'verbatim')
HAS_COMMAND = re.compile(r'\\[a-zA-Z]')

# label, pre, post ; NAME is replaced
CONTEXTS = (
    ('top-bare', '', ''),
    ('top', 'intro \\x{a} ', ' outro $m$'),
    ('env1', '\\begin{center}\nx ', ' y\n\\end{center}'),
    ('env2', '\\begin{figure}[h]\\begin{center}', '\\end{center}\\caption{c}\\end{figure}'),
    ('env3', '\\begin{document}\\begin{a}\\begin{b}p ', ' q\\end{b}\\end{a}\\end{document}'),
    ('after-list', '\\begin{itemize}\\item a\\end{itemize}', 'z'),
    ('twice', '\\begin{NAME}first {\\end{NAME} mid ', ' \\begin{NAME}$last\\end{NAME}'),
    ('same-parent', '\\begin{NAME2}\n', '\n\\end{NAME2}'),
)


def user_names(rng, n):
    out = []
    alpha = G.LETTERS + '0123456789' + '*-  '
    while len(out) < n:
        s = ''.join(rng.choice(alpha) for _ in range(rng.randint(1, 9))).strip()
        if s and s not in out and s not in G.MATH_ENVS and s not in BUILTIN and s not in (
                'center', 'figure', 'document', 'a', 'b', 'itemize', 'e', 'x', 'zq', 'quote'):
            out.append(s)
    return out


def special_user_names(rng):
    """user-chosen names that collide with other tables of the reader: named math environments (their bodies are
    kept verbatim all the same when the caller asks for it) and neighbours of the built-in names. Only used with the
    option given (without it a math environment is not an ordinary environment)."""
    return rng.sample(list(G.MATH_ENVS), 3) + rng.sample(['verbatimx', 'listings', 'lstlistin', 'verb'], 1) + \
        [rng.choice(['code*', 'Verbatim*', 'my-listing*', 'A*B', '*'])]


SKIP_ONLY = set(G.MATH_ENVS)


def build(name, ci, body, mode):
    """mode: 'skip' (name is built-in or passed via skip_envs) | 'noopt' (user name, option not given)."""
    label, pre, post = CONTEXTS[ci]
    pre = pre.replace('NAME2', 'quote').replace('NAME', name)
    post = post.replace('NAME2', 'quote').replace('NAME', name)
    src = pre + '\\begin{' + name + '}' + body + '\\end{' + name + '}' + post
    user = name not in BUILTIN
    skip = (name,) if (user and mode == 'skip') else ()
    return src, {'name': name, 'ci': ci, 'ctx': label, 'body': body, 'mode': mode, 'skip': skip, 'pre': pre, 'post': post,
                 'count': 3 if label == 'twice' else 1}


def _gen_enum(rng, i, job):
    name, ci, body, mode = job['items'][i]
    src, spec = build(name, ci, body, mode)
    return src, None, spec


def _gen_random(rng, i, job):
    names = job['names']
    name = rng.choice(BUILTIN) if rng.random() < 0.4 else rng.choice(names)
    if rng.random() < 0.15:
        name = user_names(rng, 1)[0]
    mode = 'noopt' if (name not in BUILTIN and name not in SKIP_ONLY and rng.random() < 0.3) else 'skip'
    # without the option the environment is an ordinary one, for which `\end {name}` (spacer before the name) IS the
    # closer: the near misses are only near misses for a verbatim-like environment
    body = G.verb_body(rng, name, near=(mode == 'skip'))
    if rng.random() < 0.3:
        body = ''.join(rng.choice(PIECES) for _ in range(rng.randint(8, 20)))
        if not G.verb_body_ok(body, name):
            body = G.verb_body(rng, name, near=(mode == 'skip'))
    src, spec = build(name, rng.randrange(len(CONTEXTS)), body, mode)
    return src, None, spec


def _gen_doc(rng, i, job):
    src, ast = G.document(rng, depth=rng.randint(1, job['depth']), layout='adjacent', twins=0.05, hostile=0.2,
                          width=rng.randint(2, 5), user_verb=0.6,
                          weights={'verb': 30, 'env': 16, 'list': 6, 'text': 20})
    return src, ast, {'doc': True, 'skip': ast.skip}


# ----------------------------------------------------------------------------- oracle

def _envs(soup, name):
    from TexSoup.data import TexNamedEnv
    return [e for e, p, w in L.walk_exprs(soup) if isinstance(e, TexNamedEnv) and e.name == name]


def _counts(soup):
    return [len(soup.find_all(n)) for n in PROBES]


def _renamed(norm, old, new):
    return norm.replace('(e %s ' % enc(old), '(e %s ' % enc(new))


_BASE = {}


def _cached_parse(src, skip):
    k = (src, skip)
    if k not in _BASE:
        if len(_BASE) > 3000:
            _BASE.clear()
        line, soup, exc = common.impl_parse(src, 0, skip)
        _BASE[k] = (line, None if soup is None else (G.normalise(line), _counts(soup)))
    return _BASE[k]


def check_case(src, spec, parsed):
    from TexSoup.data import TexText
    line, soup, exc = parsed
    name, body, ci = spec['name'], spec['body'], spec['ci']
    if spec['mode'] == 'noopt':
        # without the option the environment is an ordinary one: same result as under any other name
        other = 'quote' if name != 'quote' else 'center'
        osrc = build(other, ci, body, 'noopt')[0] if CONTEXTS[ci][0] != 'same-parent' else \
            build('center', ci, body, 'noopt')[0]
        other = other if CONTEXTS[ci][0] != 'same-parent' else 'center'
        oline, o = _cached_parse(osrc, ())
        if line == 'ERR INTERNAL':
            return [('verbatim-noopt-crash', '%s: %s' % (type(exc).__name__, str(exc)[:100]), None)]
        if soup is None:
            if o is not None or oline != line:
                return [('verbatim-noopt', 'without the option: %s, under the name %r: %s' % (line, other, oline[:20]), None)]
            return None
        if o is None:
            return [('verbatim-noopt', 'without the option: parses, under the name %r: %s' % (other, oline), None)]
        if _renamed(G.normalise(line), name, other) != o[0]:
            return [('verbatim-noopt', 'without the option the tree differs from that under the name %r' % other, None)]
        if HAS_COMMAND.search(body):
            for e in _envs(soup, name):
                if len(e._contents) == 1 and L.leaf_token(e._contents[0]) is not None and str(e._contents[0]) == body \
                        and not e.args:
                    return [('verbatim-noopt', 'body with commands kept as a single text without the option', None)]
        return None
    if soup is None:
        return [('verbatim-error', '%s: %s' % (line, str(exc)[:120]), None)]
    envs = _envs(soup, name)
    if len(envs) != spec['count']:
        return [('verbatim-open', '%d environments named %r in the tree, expected %d' % (len(envs), name, spec['count']),
                 None)]
    env = envs[1] if spec['count'] == 3 else envs[0]
    kids = [c for c in env._contents if str(c) != '']
    if env.args or len(kids) > 1 or (kids and (L.leaf_token(kids[0]) is None or str(kids[0]) != body)) or \
            (not kids and body != ''):
        return [('verbatim-body', 'arguments %r, contents %r; expected the single text %r'
                 % ([str(a) for a in env.args][:3], [str(c)[:40] for c in env._contents][:4], body[:60]), None)]
    if str(env) != '\\begin{%s}%s\\end{%s}' % (name, body, name):
        return [('verbatim-body', 'environment prints as %r' % str(env)[:80], None)]
    if str(soup) != src:
        return [('roundtrip', 'output %r' % str(soup)[:80], None)]
    # names inside the body are not found; the tree around the environment does not depend on the body
    bsrc = build(name, ci, 'x', 'skip')[0]
    bline, b = _cached_parse(bsrc, spec['skip'])
    if b is None:
        return [('baseline-fails', 'benign body does not parse: %s' % bline, None)]
    c = _counts(soup)
    if c != b[1]:
        bad = [PROBES[i] for i in range(len(PROBES)) if c[i] != b[1][i]]
        return [('verbatim-search', 'find_all(%r) counts %d, with a benign body %d'
                 % (bad[0], c[PROBES.index(bad[0])], b[1][PROBES.index(bad[0])]), None)]
    if body:
        leaf = '(%s %s)' % ('k' if body.startswith('%') else 't', enc(body))
        mine = G.normalise(line)
        if not _replace_nth(mine, leaf, b[0]):
            return [('verbatim-shape', 'the tree around the environment depends on the body', None)]
    # a user-supplied name behaves exactly like a built-in one
    if name not in BUILTIN:
        vsrc = build('verbatim', ci, body, 'skip')[0]
        if G.verb_body_ok(body, 'verbatim'):
            vline, v = _cached_parse(vsrc, ())
            if v is None or _renamed(G.normalise(line), name, 'verbatim') != v[0]:
                return [('verbatim-user', 'user name %r and built-in verbatim give different trees (%s)'
                         % (name, vline[:20]), None)]
    return None


def _replace_nth(mine, leaf, target):
    """Is target == mine with ONE occurrence of leaf replaced by the benign leaf?"""
    start = 0
    while True:
        k = mine.find(leaf, start)
        if k < 0:
            return False
        if mine[:k] + '(t 120)' + mine[k + len(leaf):] == target:
            return True
        start = k + 1


def _oracle(src, ast, extra, parsed):
    if extra.get('doc'):
        line, soup, exc = parsed
        if soup is None:
            return [('verbatim-error', '%s: %s' % (line, str(exc)[:120]), None)]
        want, got = G.expected_canon(ast), G.normalise(common.canon_root(soup))
        if want != got:
            def fails(s, a):
                p = common.impl_parse(s, 0, a.skip)
                return p[1] is None or G.expected_canon(a) != G.normalise(common.canon_root(p[1]))
            small, sast = G.shrink(ast, fails, 200) if L.may_shrink() else (src, ast)
            return [('tree-mismatch', 'tree differs from the generating tree', {'input': small, 'skip': list(sast.skip),
                                                                                 'original': src[:300]})]
        # names that occur only inside verbatim bodies are not found
        inside = ''.join(x.children[0].s for x in G.walk(ast) if x.kind == 'env' and x.sub == 'verb' and x.children)
        outside_zq = sum(1 for x in G.walk(ast) if x.kind in ('cmd', 'env') and x.name == 'zq')
        if 'zq' in inside and len(soup.find_all('zq')) != outside_zq:
            return [('verbatim-search', 'zq inside a verbatim body is found', None)]
        return None
    v = check_case(src, extra, parsed)
    return [(k, w, {'spec': {a: b for a, b in extra.items() if a not in ('pre', 'post')}}) for k, w, _ in v] if v else None


def _nontrivial(src, ast, extra):
    if extra.get('doc'):
        return 'env-verb' in G.constructs(ast)
    return len(extra['body']) > 1


def _finds(src, ast, extra):
    if extra.get('doc'):
        return ['zq', 'item']
    b = extra['body']
    out = [n for n, probe in (('zq', 'zq'), ('item', '\\item'), ('itemize', 'itemize'), ('$', '$'), ('e', '{e}'))
           if probe in b]
    return out[:2]


# ----------------------------------------------------------------------------- jobs

def _bodies(pieces, n, name):
    out = ['']
    for k in range(1, n + 1):
        for t in itertools.product(pieces, repeat=k):
            b = ''.join(t)
            if G.verb_body_ok(b, name):
                out.append(b)
    return out


def _enum_items(ctx, names):
    items = []
    allc = range(len(CONTEXTS))
    if ctx.thorough:
        for name in list(BUILTIN) + names[:3]:
            for b in _bodies(PIECES, 2, name):
                for ci in allc:
                    items.append((name, ci, b, 'skip'))
        for name in ('verbatim', names[0]):
            for b in _bodies(PIECES_SMALL, 3, name):
                for ci in (0, 2):
                    items.append((name, ci, b, 'skip'))
    else:
        for name in ('verbatim', names[0]):
            for b in _bodies(PIECES, 2, name):
                for ci in (0, 2):
                    items.append((name, ci, b, 'skip'))
    for name in list(BUILTIN) + names:
        for b in _bodies(PIECES, 1, name):
            for ci in allc:
                items.append((name, ci, b, 'skip'))
    for name in names[:4]:
        for b in _bodies(PIECES, 1, name) + (_bodies(PIECES_SMALL, 2, name) if ctx.thorough else []):
            for ci in allc:
                items.append((name, ci, b, 'noopt'))
    return items


def _all_jobs(ctx, model, scale=1):
    names = user_names(ctx.rng('names'), 10) + special_user_names(ctx.rng('names/special'))
    items = _enum_items(ctx, names)
    jobs = []
    per = ctx.pick(500, 1500)
    for lo in range(0, len(items), per):
        jobs.append({'seed': '%s/%d/enum/%d' % (ID, ctx.seed, lo), 'n': min(per, len(items) - lo),
                     'items': items[lo:lo + per], 'gen': _gen_enum, 'oracle': _oracle, 'nontrivial': _nontrivial,
                     'finds': _finds, 'model': model, 'tols': (0,)})
    for k, n in enumerate(L.split(ctx.pick(10000, 150000) * scale, ctx.pick(500, 1500))):
        jobs.append({'seed': '%s/%d/rand/%d' % (ID, ctx.seed, k), 'n': n, 'gen': _gen_random, 'oracle': _oracle,
                     'nontrivial': _nontrivial, 'finds': _finds, 'model': model, 'tols': (0,), 'names': names})
    for k, n in enumerate(L.split(ctx.pick(2500, 40000) * scale, ctx.pick(125, 400))):
        jobs.append({'seed': '%s/%d/doc/%d' % (ID, ctx.seed, k), 'n': n, 'gen': _gen_doc, 'oracle': _oracle,
                     'nontrivial': _nontrivial, 'finds': _finds, 'model': model, 'tols': (0,),
                     'depth': ctx.pick(5, 10)})
    jobs.sort(key=lambda j: -j['n'] * (6 if j['gen'] is _gen_doc else 1))
    return jobs, names


def _run(ctx, model=True, scale=1):
    key = (ctx.tier, ctx.seed, model, scale)
    if key not in _CACHE:
        jobs, names = _all_jobs(ctx, model, scale)
        _CACHE[key] = (L.run_jobs(L.eval_docs, jobs), names)
    return _CACHE[key]


def _rule(ctx, names):
    return ('every built-in name (%s) and user names via skip_envs (this run: %s; fresh random ones in the random '
            'family) x bodies over a hostile alphabet of %d pieces (unbalanced delimiters, \\begin/\\end of other '
            'environments, \\begin of the same one, math switches, comments on earlier lines, prefixes of \\end{name}), '
            'all bodies of <= %d pieces within the provisos, random longer ones, x %d placements (top level, nested in '
            '1-3 named environments, after a list, three in a row, surrounded by content); user names also WITHOUT '
            'the option; generated documents rich in verbatim-like environments; non-trivial = body longer than one '
            'character' % (', '.join(BUILTIN), ', '.join(repr(n) for n in names[:10]), len(PIECES),
                           2, len(CONTEXTS)))


def _padded_names(r):
    """Environment names padded with blanks inside the braces (the parser strips names, so they still mean the
    verbatim-like / math environment).  Model and implementation must agree; they are outside the oracle domain
    (the serialisation drops the blanks: recorded finding)."""
    import gen
    docs = gen.padded_env_docs()
    reqs, want = [], []
    for d in docs:
        for tol in (0, 1):
            reqs.append(common.parse_req(d, tol, ()))
            want.append(common.impl_parse(d, tol, ())[0])
    got = common.model_batch(reqs)
    for i, (w, g) in enumerate(zip(want, got)):
        d = docs[i // 2]
        r.count(('padded', d, i % 2), True)
        r.bump('padded_names:' + L.parse_err_kind(w))
        if w != g:
            r.fail('parse-mismatch', 'model and implementation differ on a padded environment name (tol %d)' % (i % 2),
                   input=d, impl=w[:300], model=g[:300])


def correspondence(ctx):
    r = Result()
    common.impl()
    res, names = _run(ctx, True)
    st = L.merge_jobs(res, r, None)
    st.into(r)
    _padded_names(r)
    r.exhaustive = True
    r.rule = ('`parse` (tolerance 0; with skip_envs=(name,) and, for user names, also without) and `find` of names that '
              'occur inside the body, compared textually on: ' + _rule(ctx, names) +
              '; plus (correspondence only) environment names padded with blanks inside the braces, tolerance 0 and 1')
    return r


def oracle(ctx, seeds, scale):
    r = Result()
    common.impl()
    # the inputs on which the correspondence diverged are among the (shared) inputs below, where they are
    # evaluated first-class with their generating record; nothing more can be said about a bare string
    r.stats['diverging_inputs_received'] = len([s for s in seeds if isinstance(s, str)])
    key = (ctx.tier, ctx.seed, True, 1)
    res, names = _CACHE[key] if key in _CACHE and scale == 1 else _run(ctx, False, scale)
    st = L.merge_jobs(list(res), None, r)
    st.into(r)
    # recorded finding F19: the proviso speaks of a body that STARTS with a brace/bracket; a body that starts with
    # blanks (at most one line break) and THEN a brace/bracket is read as an environment argument as well
    # (read_args skips one spacer token), so it is not kept verbatim and an unbalanced one is a parse error
    kept = 0
    for name in BUILTIN:
        for body in ('\n{x}\n', ' [y] z', '\n{\n'):
            x = _blank_opener_probe(name, body)
            r.count(('f19', name, body), True)
            if x is None:
                kept += 1
            else:
                r.fail('verbatim-arg-after-blank', x, input='\\begin{%s}%s\\end{%s}' % (name, body, name))
    r.stats['probe_body_blank_then_opener_kept_verbatim'] = '%d of %d' % (kept, 3 * len(BUILTIN))
    r.exhaustive = True
    r.rule = ('no exception; exactly the expected environments named `name`, each with no arguments and a single text '
              'child equal to the body (up to the FIRST \\end{name}); str(env) and str(soup) exact; find_all counts of 15 '
              'probe names and the tree around the environment equal those with a benign body; a user name gives the '
              'same tree as the built-in `verbatim`; without the option the result equals that under an ordinary '
              'environment name (and is not the single-text shape when the body holds commands), never an error '
              'other than the diagnostic ones; on: ' + _rule(ctx, names))
    return r


def _blank_opener_probe(name, body):
    """None if the body is kept as a single uninterpreted text, else what happened."""
    src = '\\begin{%s}%s\\end{%s}' % (name, body, name)
    line, soup, exc = common.impl_parse(src, 0, ())
    if soup is None:
        return 'parse error %s on a verbatim body that starts with blanks + opener' % line
    e = _envs(soup, name)
    if e and not e[0].args and len(e[0]._contents) == 1 and str(e[0]._contents[0]) == body:
        return None
    return 'body %r is not kept verbatim: the group after the blanks is read as an environment argument' % body


def replay_known(ctx, k):
    if k.get('key') == 'verbatim-arg-after-blank':
        src = common.dec(k['input'])
        import re
        m = re.match(r'\\begin\{([^}]*)\}(.*)\\end\{', src, re.S)
        return m is not None and _blank_opener_probe(m.group(1), m.group(2)) is not None
    return _replay_known_other(ctx, k)


def _replay_known_other(ctx, k):
    s = common.dec(k['input'])
    skip = tuple(common.dec(x) for x in k.get('skip', '').split(',') if x)
    return common.impl_parse(s, 0, skip)[1] is None


def replay(ctx, payload):
    f = payload.get('failure') or {}
    s = f.get('input')
    if not isinstance(s, str):
        return True, 'nothing to replay: ' + '; '.join(payload.get('broken', []))[:400]
    spec = f.get('spec') or {}
    if 'ci' in spec:
        src, full = build(spec['name'], spec['ci'], spec['body'], spec['mode'])
        v = check_case(src, full, common.impl_parse(src, 0, tuple(full['skip'])))
    else:
        v = [] if common.impl_parse(s, 0, tuple(f.get('skip') or ()))[1] is not None else [('verbatim-error', '', None)]
    return not v, 'replay %r -> %r' % (s, v)
