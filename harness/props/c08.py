"""C08 – Serialisation conserves the characters of any parseable input."""
import common
import gen
import oracles
import parsecorr
from framework import Result

ID = 'C08'
LEAN_TARGETS = ['TexSoupProofs.Properties.C08']
THEOREMS = ['TexSoup.C08.' + n for n in ('conservation', 'output_sublist', 'output_exact', 'reader_invariant',
                                         'conservation_string', 'dropped_tokens_are_whitespace')]
PARTIAL = ['hypothesis EnvNamesPlain (finding F4b) is part of the theorem; inputs violating it are covered by the oracle '
           'and the known-findings list, not by the proof']
TRUSTED = ['harness/gen_tables.py (tables regenerated from the working tree)',
           'correspondence harness (parsecorr.py, common.py) over the token-kind alphabet',
           'modelled, not verified: control flow of reader.py, tokens.py, data.py serialisers']
ASSUMPTIONS = ['CPython str semantics', 'the model driver is the compiled form of the verified definitions']
LEAN_TARGETS = LEAN_TARGETS + ['TexSoupProofs.Properties.TableSpec']
# entries of the generated tables that the property's statement names (they stop compiling when a table edit drops them)
THEOREMS = THEOREMS + ['TexSoup.TableSpec.' + n for n in ['spacer_chars', 'mandatory_argument_commands']]

ALPHA = [a for a in gen.TOKEN_ALPHA if '\x00' not in a and '\x7f' not in a] + ['~', '&', '#', '^', '_', '\t', '\r', 'é', '*', '|', '.']


def correspondence(ctx):
    r = Result()
    common.impl()
    cases = parsecorr.alpha_cases(ctx, ALPHA, ctx.pick(2, 3), ctx.pick(6000, 80000), 3, 12, tols=(0,), tag='c08')
    parsecorr.run_cases(r, cases)
    r.rule = ('parse (tree, text, positions, error class) model vs implementation, strict mode: all strings of length '
              '<= %d over the %d-symbol token-kind alphabet plus random strings of 3..12 symbols; '
              'non-trivial = more than two characters' % (ctx.pick(2, 3), len(ALPHA)))
    return r


def check_one(s, skip=()):
    """None if out of scope or the property holds, else (key, what)."""
    if '\x00' in s or '\x7f' in s:
        return None
    line, soup, exc = common.impl_parse(s, 0, skip)
    if soup is None:
        return None                      # does not parse in strict mode: out of scope
    if oracles.excused_bare_args(soup) or oracles.hidden_bare(s) or oracles.name_not_in_source(s, soup):
        return None                      # side condition on fixed-signature commands
    out = str(soup)
    if oracles.aligned(s, out):
        return 'ok'
    # a failure on an input of the F4b class is the recorded finding; anything else is new
    if oracles.f4b_class(s):
        return ('env-name-f4b', 'environment name with blanks/brackets: %r -> %r' % (s[:60], out[:60]))
    return ('conservation', '%r -> %r' % (s[:80], out[:80]))


def _check(s):
    try:
        return check_one(s)
    except RecursionError:
        return None


def inputs(ctx, scale):
    strs = list(gen.exhaustive(ALPHA, ctx.pick(2, 3)))
    rg = ctx.rng('oracle')
    strs += list(gen.random_strings(rg, ALPHA, ctx.pick(8000, 120000) * scale, 3, 14))
    strs += list(gen.exhaustive(parsecorr.ENV_ALPHA, ctx.pick(3, 4)))
    strs += list(gen.exhaustive(parsecorr.CORE_ALPHA, ctx.pick(4, 5), 4))
    strs += list(gen.random_strings(rg, parsecorr.ENV_ALPHA, ctx.pick(4000, 60000) * scale, 4, 9))
    strs += gen.padded_env_docs()
    strs += gen.signature_probe_docs() + gen.escape_docs() + gen.codepoint_docs(rg, False, 500)
    docs = gen.corpus()
    strs += docs
    for d in docs[:40]:
        strs += gen.mutations(rg, d, ctx.pick(3, 20))
    for _ in range(ctx.pick(300, 3000)):
        d = oracles.mini_doc(rg, 3)
        strs.append(d)
        strs += gen.mutations(rg, d, 3)
    return strs


def oracle(ctx, seeds, scale):
    r = Result()
    common.impl()
    strs = [s for s in seeds if isinstance(s, str)] + inputs(ctx, scale)
    res = gen.pmap(_check, strs)
    for s, x in zip(strs, res):
        if x is None:
            r.bump('out_of_scope')
            r.evaluations += 1
            continue
        r.count(s, len(s) > 2)
        r.bump('in_scope')
        if x != 'ok':
            r.fail(x[0], x[1], input=s)
    r.sample({'input': '\\x {a}', 'output': '\\x{a}', 'verdict': 'aligned (spacer before opener removed)'})
    r.rule = ('for every string that parses strictly, has no NUL/DEL and no made-up argument of \\def/\\textbf/\\section/\\label (a made-up argument of any other command is not excused): str(TexSoup(s)) must equal s '
              'up to deletion of whitespace directly before { or [ (DFS alignment); inputs: exhaustive short strings and '
              'random strings over the token-kind alphabet, repository documents and their mutants, generated documents and '
              'their mutants; non-trivial = in scope and longer than two characters')
    return r


def replay_known(ctx, k):
    x = _check(common.dec(k['input']))
    return x not in (None, 'ok')


def replay(ctx, payload):
    f = payload.get('failure') or {}
    s = f.get('input')
    if not isinstance(s, str):
        return True, 'nothing to replay: ' + '; '.join(payload.get('broken', []))[:600]
    x = _check(s)
    return x in (None, 'ok'), 'replay %r -> %r' % (s, x)
