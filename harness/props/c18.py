"""C18 – Argument lists behave like Python lists of groups."""
import re

import common
import lib_args as A
from common import enc, dec
from framework import Result
from props import _util

ID = 'C18'
LEAN_TARGETS = ['TexSoupProofs.Properties.C18']
THEOREMS = ['TexSoup.C18.' + n for n in (
    'step_refines', 'step_output_exact', 'pop_returns_list_item_on_witness', 'run_refines',
    'step_refines_plain', 'run_refines_plain', 'failed_ops_keep_state', 'failed_coercion_changes_nothing',
    'extend_failure_keeps_prefix', 'coerce_correct', 'str_is_concat',
    'Legacy.insert_breaks_list_semantics', 'Legacy.pop_returns_textual_twin',
    'Legacy.pop_differs_only_in_returned_object', 'Legacy.pop_agrees_on_plain_pool',
    'Legacy.insert_repaired_on_witness', 'all_holds_every_list_object', 'inv_survives_content_edit',
    'Legacy2.insert_misplaced_twin', 'Legacy2.remove_mutated_all_before_raising')]
PARTIAL = []
TRUSTED = ['hand-written model of TexSoup.data.TexArgs (lean/TexSoupModel/Args.lean), tied to the code by the '
           'correspondence run only',
           'correspondence harness (props/c18.py, lib_args.py): op vocabulary, canonical answers',
           'the list reference of the oracle (props/c18.py _oracle_history) = ArgsSpec of the proofs by inspection',
           'object identity is represented in the model by the recorded position of a group (positioned twins); the '
           'oracle compares real object identities']
ASSUMPTIONS = ['CPython list semantics (insert clamps, pop/index raise IndexError, remove raises ValueError, '
               'a failing extend keeps the items already added)',
               'the model driver is the compiled form of the verified definitions',
               'groups compare by their text (TexExpr.__eq__), which is what list.remove uses on either side',
               'whitespace strings are not arguments: appending/inserting one leaves the list as it is '
               '(documented behaviour of TexArgs; they live in .all only)']


# ------------------------------------------------------------------------------------ history families

def _plans(ctx):
    """[(label, pool, depth, prefix depth)]"""
    plans = [('bfs3', A.POOL_TWINS, 3, 1)]
    if ctx.thorough:
        plans.append(('bfs4-small', A.POOL_SMALL, 4, 2))
    return plans


def _units(plan):
    label, pool, depth, pre = plan
    return [(label, pool, p, depth - pre) for p in A.bfs_extend([], pre, pool)]


def _nontrivial(ops):
    """at least two operations, one of which puts something into the list"""
    return len(ops) >= 2 and any(o[0] in 'aie' for o in ops)


def _line(ops):
    return ('args ' + ';'.join(ops)).rstrip()


# ------------------------------------------------------------------------------------ correspondence

def _corr_histories(hs):
    hs = [list(h) for h in hs]
    model = _util.model([_line(h) for h in hs])
    n = nt = 0
    fails = []
    for h, m in zip(hs, model):
        a = A.impl_run(h)
        n += 1
        nt += _nontrivial(h)
        if a != m and len(fails) < 3:
            sa, sm = a.split(';'), m.split(';')
            k = next((i for i, (x, y) in enumerate(zip(sa, sm)) if x != y), min(len(sa), len(sm)))
            op = h[k] if k < len(h) else '?'
            fails.append(('model-mismatch-' + op[:1], 'step %d (%s): impl %s | model %s' % (
                k, op, sa[k] if k < len(sa) else '-', sm[k] if k < len(sm) else '-'), ';'.join(h)))
    return n, nt, fails


def _corr_unit(u):
    label, pool, prefix, rest = u
    return _corr_histories(A.bfs_extend(prefix, rest, pool))


def _collect(r, results, label):
    for n, nt, fails in results:
        r.evaluations += n
        r.nontrivial.extra += nt
        r.bump(label, n)
        for key, what, inp in fails:
            if len(r.failures) < 50:
                r.fail(key, what, input=inp)


def correspondence(ctx):
    r = Result()
    r.nontrivial = _util.Tally()
    common.impl()
    plans = _plans(ctx)
    for plan in plans:
        _collect(r, _util.pmap(_corr_unit, _units(plan)), plan[0] + '_histories')
        ctx.log('correspondence %s: %d histories so far' % (plan[0], r.evaluations))
    hs = A.random_histories(ctx.rng('corr-random'), ctx.pick(30000, 150000), 40)
    _collect(r, _util.pmap(_corr_histories, _util.chunks(hs, 500)), 'random_histories')
    probe = A.twin_probe()
    if not probe['impl_equals_model']:
        r.fail('model-mismatch-twin-probe', 'pop on positioned twins', input=probe['ops'])
    r.sample({'request': _line(['a:' + A.S_A, 'i:-1:g@3:' + A.S_A, 'a:' + A.S_BAD, 'p:0', 't']),
              'impl': A.impl_run(['a:' + A.S_A, 'i:-1:g@3:' + A.S_A, 'a:' + A.S_BAD, 'p:0', 't'])})
    r.rule = ('model (args request) vs TexSoup.data.TexArgs (the .args of a command), answer after every step = '
              'output/exception class + list + shadow list .all + owner str: '
              + '; '.join('ALL sequences of %d ops over a pool of %d items with indices -(n+2)..n+2 (%s)' % (
                  p[2], len(p[1]), p[0]) for p in plans)
              + "; bfs3 pool = unparsed '{a}', two positioned twin objects {a}@3 {a}@7, '[b]', whitespace, "
                "mismatched '{x]'; random histories up to 40 ops over %d items (twins at different positions, TexCmd, "
                'TexNamedEnv, TexText, malformed strings); non-trivial = at least 2 ops including an insertion'
              % len(A.RANDOM_ITEMS))
    r.exhaustive = True
    return r


# ------------------------------------------------------------------------------------ oracle

_GROUP = re.compile(r'\A(?:\[(.*)\]|\{(.*)\})\Z', re.S)


class _Coerced(object):
    """Place of a group that the implementation has to create from an unparsed string."""

    def __init__(self, cls, text):
        self.cls, self.text = cls, text


class _Fail(Exception):
    def __init__(self, key, what):
        Exception.__init__(self, key, what)
        self.key, self.what = key, what


def _oracle_history(ops):
    """C18 as stated, on the implementation alone: the .args of a command against a plain Python
    list holding the same group OBJECTS.  Returns None or (key, what, step)."""
    from TexSoup import data as D
    owner = D.TexCmd('o')
    args = owner.args
    lst = []
    shared = {}

    def item(word):
        if word[:1] == 'h':                       # the same object every time (oracle only)
            if word not in shared:
                shared[word] = D.BracketGroup('b') if word == 'h2' else D.BraceGroup('a')
            return shared[word]
        return A._mk_item(word)

    def plan(x):
        """what putting `x` into a list of groups means: ('obj', x) | ('new', cls, text) | ('ws',) | ('bad',)"""
        if isinstance(x, str):
            if x.isspace():
                return ('ws',)
            m = _GROUP.match(x)
            if not m:
                return ('bad',)
            return ('new', D.BracketGroup if x[0] == '[' else D.BraceGroup, str(x))
        return ('obj', x)

    def put(i, x):
        """list side of insert/append; returns the expected exception class or None"""
        p = plan(x)
        if p[0] == 'bad':
            return TypeError
        if p[0] == 'ws':
            return None
        e = p[1] if p[0] == 'obj' else _Coerced(p[1], p[2])
        if i is None:
            lst.append(e)
        else:
            lst.insert(i, e)
        return None

    def run(f):
        try:
            return None, f()
        except Exception as e:      # noqa: the class is the observation
            return type(e), None

    for step, op in enumerate(ops):
        k, _, rest = op.partition(':')
        before = list(lst)
        bad_string = False
        want_exc = want_val = None
        got_exc = got_val = None
        if k == 'a':
            x = item(rest)
            bad_string = plan(x)[0] == 'bad'
            want_exc = put(None, x)
            got_exc, _ = run(lambda: args.append(x))
        elif k == 'i':
            i, _, w = rest.partition(':')
            x = item(w)
            bad_string = plan(x)[0] == 'bad'
            want_exc = put(int(i), x)
            got_exc, _ = run(lambda: args.insert(int(i), x))
        elif k == 'e':
            xs = [item(w) for w in rest.split(',')] if rest else []
            for x in xs:
                want_exc = put(None, x)
                if want_exc:
                    break
            got_exc, _ = run(lambda: args.extend(xs))
        elif k == 'r':
            x = item(rest)
            p = plan(x)
            bad_string = p[0] == 'bad'
            if bad_string:
                want_exc = TypeError
            else:
                probe = p[1](p[2][1:-1]) if p[0] == 'new' else x
                want_exc, _ = run(lambda: lst.remove(probe))
            got_exc, _ = run(lambda: args.remove(x))
        elif k == 'p':
            want_exc, want_val = run((lambda: lst.pop(int(rest))) if rest else (lambda: lst.pop()))
            got_exc, got_val = run((lambda: args.pop(int(rest))) if rest else (lambda: args.pop()))
        elif k == 'v':
            lst.reverse()
            got_exc, _ = run(args.reverse)
        elif k == 'c':
            lst.clear()
            got_exc, _ = run(args.clear)
        elif k == 'g':
            want_exc, want_val = run(lambda: lst[int(rest)])
            got_exc, got_val = run(lambda: args[int(rest)])
        elif k == 's':
            lo, _, hi = rest.partition(':')
            sl = slice(A._bound(lo), A._bound(hi))
            want_exc, want_val = run(lambda: lst[sl])
            got_exc, got_val = run(lambda: args[sl])
        elif k == 't':
            want_val = ''.join(str(g) for g in lst)
            got_exc, got_val = run(lambda: str(args))
        else:
            raise ValueError('bad op ' + op)

        def fail(key, what):
            return key, 'step %d (%s): %s' % (step, op, what), step

        # exceptions
        if got_exc is not want_exc:
            if bad_string:
                return fail('bad-string-not-rejected', 'expected TypeError, got %s' % (got_exc and got_exc.__name__))
            return fail('exception-' + k, 'list: %s, TexArgs: %s' % (
                want_exc and want_exc.__name__, got_exc and got_exc.__name__))
        # contents, by identity; freshly coerced groups are adopted once their class and text are right
        now = list(args)
        if len(now) != len(lst):
            if bad_string:
                return fail('bad-string-changed-list', 'list had %d items, now %d' % (len(before), len(now)))
            return fail('contents-' + k, 'list has %d items, TexArgs %d' % (len(lst), len(now)))
        for j, e in enumerate(lst):
            if isinstance(e, _Coerced):
                if type(now[j]) is not e.cls or str(now[j]) != e.text:
                    return fail('coercion', 'item %d is %r, expected %s %r' % (j, now[j], e.cls.__name__, e.text))
                lst[j] = now[j]
            elif now[j] is not e:
                if bad_string:
                    return fail('bad-string-changed-list', 'item %d changed' % j)
                return fail('contents-' + k, 'item %d is %r (position %r), list has %r (position %r)' % (
                    j, now[j], getattr(now[j], 'position', None), e, getattr(e, 'position', None)))
        if bad_string and (len(before) != len(lst) or any(a is not b for a, b in zip(before, lst))):
            return fail('bad-string-changed-list', 'the reference itself changed')      # cannot happen
        # returned values
        if k in 'pg' and want_exc is None and got_val is not want_val:
            return fail('returned-' + k, 'returned %r (position %r), list gives %r (position %r)' % (
                got_val, getattr(got_val, 'position', None), want_val, getattr(want_val, 'position', None)))
        if k == 's' and want_exc is None:
            if not isinstance(got_val, list) or len(got_val) != len(want_val) or \
                    any(a is not b for a, b in zip(list(got_val), want_val)):
                return fail('returned-s', 'slice %r, list gives %r' % (got_val, want_val))
        if k == 't' and got_val != want_val:
            return fail('str-args', '%r != %r' % (got_val, want_val))
        # serialisation, always
        cat = ''.join(str(g) for g in lst)
        if str(args) != cat:
            return fail('str-args', 'str(args) %r, concatenation %r' % (str(args), cat))
        if str(owner) != '\\o' + cat:
            return fail('str-owner', 'str(owner) %r, expected %r' % (str(owner), '\\o' + cat))
        if len(args) != len(lst):
            return fail('contents-' + k, 'len')
    return None


def _is_group_item(word):
    """items inside the property's domain: unparsed strings and group objects"""
    return ':' not in word or word.startswith('g') or word.startswith('h')


_ORACLE_ITEMS = [w for w in A.RANDOM_ITEMS if _is_group_item(w)] + ['h0', 'h0', 'h1', 'h2']


def _oracle_random(rng, maxlen):
    """like lib_args.random_history, over strings, group objects and three SHARED group objects
    (h0, h1: two distinct BraceGroup('a'); h2: BracketGroup('b')) that may enter the list twice"""
    ops, n = [], 0
    for _ in range(rng.randint(1, maxlen)):
        it = rng.choice(_ORACLE_ITEMS)
        i = rng.randint(-(n + 3), n + 3)
        k = rng.choice('aaaiiiirrppvcgstee')
        if k == 'a':
            op = 'a:' + it
            n += 1
        elif k == 'i':
            op = 'i:%d:%s' % (i, it)
            n += 1
        elif k == 'r':
            op = 'r:' + it
            n = max(0, n - 1)
        elif k == 'p':
            op = 'p' if rng.random() < 0.3 else 'p:%d' % i
            n = max(0, n - 1)
        elif k == 'g':
            op = 'g:%d' % i
        elif k == 's':
            def b():
                return '_' if rng.random() < 0.3 else str(rng.randint(-(n + 3), n + 3))
            op = 's:%s:%s' % (b(), b())
        elif k == 'e':
            m = rng.randint(0, 4)
            op = 'e:' + ','.join(rng.choice(_ORACLE_ITEMS) for _ in range(m))
            n += m
        else:
            op = k
            if k == 'c':
                n = 0
        ops.append(op)
    return ops


def _in_domain(ops):
    for op in ops:
        k, _, rest = op.partition(':')
        if k in 'ar':
            ws = [rest]
        elif k == 'i':
            ws = [rest.partition(':')[2]]
        elif k == 'e':
            ws = rest.split(',') if rest else []
        else:
            ws = []
        if not all(_is_group_item(w) for w in ws):
            return False
    return True


def _oracle_histories(hs):
    n = nt = 0
    fails = []
    for h in hs:
        h = list(h)
        x = _oracle_history(h)
        n += 1
        nt += _nontrivial(h)
        if x is not None and len(fails) < 3:
            fails.append((x[0], x[1], ';'.join(h[:x[2] + 1])))
    return n, nt, fails


def _oracle_unit(u):
    label, pool, prefix, rest = u
    return _oracle_histories(A.bfs_extend(prefix, rest, pool))


def oracle(ctx, seeds, scale):
    r = Result()
    r.nontrivial = _util.Tally()
    common.impl()
    seen = [s.split(';') for s in seeds if isinstance(s, str) and s]
    seen = [h for h in seen if _in_domain(h)]
    if seen:
        _collect(r, [_oracle_histories(seen)], 'seed_histories')
    for plan in _plans(ctx):
        _collect(r, _util.pmap(_oracle_unit, _units(plan)), plan[0] + '_histories')
    rng = ctx.rng('oracle-random')
    hs = [_oracle_random(rng, 40) for _ in range(ctx.pick(30000, 150000) * scale)]
    _collect(r, _util.pmap(_oracle_histories, _util.chunks(hs, 500)), 'random_histories')
    r.sample({'history': 'a:%s;a:g@3:%s;a:g@7:%s;p:1;a:%s;t' % (A.S_A, A.S_A, A.S_A, A.S_BAD), 'verdict': 'holds'})
    r.rule = ('the .args (TexArgs) of a command vs a plain Python list that is handed the SAME group objects, after '
              'every step: same exception class (IndexError/ValueError/TypeError or none); list(args) equals the list '
              'element by element BY IDENTITY (a group coerced from an unparsed string must have the right class and '
              'text and is then tracked by identity); pop/indexing return the very object the list returns, slices '
              'the same objects; str(args) == concatenation of the groups in list order; str(owner) == \\o + that; '
              'a string with mismatched delimiters raises TypeError and leaves the list unchanged (extend keeps the '
              'items before it, like list.extend).  Families: the exhaustive ones of the correspondence, random '
              'histories up to 40 ops over unparsed strings (good, malformed, whitespace), positioned twins and three '
              'shared objects that can be in the list twice.  Whitespace strings are not arguments (list unchanged)')
    r.exhaustive = True
    return r


def replay_known(ctx, k):
    inp = k.get('input')
    return isinstance(inp, str) and _oracle_history(inp.split(';')) is not None


def replay(ctx, payload):
    f = payload.get('failure') or {}
    inp = f.get('input')
    if not isinstance(inp, str) or not inp:
        return True, 'nothing to replay: ' + '; '.join(payload.get('broken', []))[:400]
    common.impl()
    x = _oracle_history(inp.split(';'))
    return x is None, 'replay %s -> %r' % (inp, x[:2] if x else 'holds')
