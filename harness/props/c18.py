"""C18 – Argument lists behave like Python lists of groups."""
import re

import common
import lib_args as A
from common import enc, dec
from framework import Result
from props import _util

ID = 'C18'
LEAN_TARGETS = ['TexSoupProofs.Properties.C18']
THEOREMS = ['TexSoup.C18.' + n for n in (
    'step_refines', 'step_output_exact', 'pop_returns_list_item_on_witness', 'run_refines',
    'step_refines_plain', 'run_refines_plain', 'failed_ops_keep_state', 'failed_coercion_changes_nothing',
    'extend_failure_keeps_prefix', 'coerce_correct', 'str_is_concat',
    'Legacy.insert_breaks_list_semantics', 'Legacy.pop_returns_textual_twin',
    'Legacy.pop_differs_only_in_returned_object', 'Legacy.pop_agrees_on_plain_pool',
    'Legacy.insert_repaired_on_witness', 'all_holds_every_list_object', 'inv_survives_content_edit',
    'Legacy2.insert_misplaced_twin', 'Legacy2.remove_mutated_all_before_raising',
    'extend_by_args_refines', 'extend_by_self_refines', 'stepPair_refines', 'runPair_refines')]
PARTIAL = []
TRUSTED = ['hand-written model of TexSoup.data.TexArgs (lean/TexSoupModel/Args.lean), tied to the code by the '
           'correspondence run only',
           'correspondence harness (props/c18.py, lib_args.py): op vocabulary, canonical answers',
           'the list reference of the oracle (props/c18.py _oracle_history) = ArgsSpec of the proofs by inspection',
           'object identity is represented in the model by the recorded position of a group (positioned twins); the '
           'oracle compares real object identities']
ASSUMPTIONS = ['CPython list semantics (insert clamps, pop/index raise IndexError, remove raises ValueError, '
               'a failing extend keeps the items already added)',
               'the model driver is the compiled form of the verified definitions',
               'groups compare by their text (TexExpr.__eq__), which is what list.remove uses on either side',
               'whitespace strings are not arguments: appending/inserting one leaves the list as it is '
               '(documented behaviour of TexArgs; they live in .all only)']


# ------------------------------------------------------------------------------------ history families

def _plans(ctx):
    """[(label, pool, depth, prefix depth)]; the `pair` plans run over two argument lists from every
    prefix of lib_args.PAIR_PREFIXES (their `depth` counts the operations after the prefix)"""
    plans = [('bfs3', A.POOL_TWINS, 3, 1), ('pair2', A.POOL_PAIR, 2, 1), ('parsed2', A.POOL_PARSED, 2, 1)]
    if ctx.thorough:
        plans.append(('bfs4-small', A.POOL_SMALL, 4, 2))
        plans.append(('pair3', A.POOL_PAIR, 3, 1))
    return plans


def _units(plan):
    label, pool, depth, pre = plan
    if label.startswith('pair'):
        return [(label, pool, p, depth - pre) for start in A.PAIR_PREFIXES
                for p in A.bfs_pair(start, pre, pool)]
    if label.startswith('parsed'):
        return [(label, pool, p, depth - pre) for start in A.PARSED_PREFIXES
                for p in A.bfs_parsed(start, pre, pool)]
    return [(label, pool, p, depth - pre) for p in A.bfs_extend([], pre, pool)]


def _unit_histories(u):
    label, pool, prefix, rest = u
    f = A.bfs_pair if label.startswith('pair') else A.bfs_parsed if label.startswith('parsed') else A.bfs_extend
    return f(prefix, rest, pool)


def _nontrivial(ops):
    """at least two operations, one of which puts something into a list"""
    return len(ops) >= 2 and any((o[2:] if o.startswith('o:') else o)[0] in 'aiexyXI' for o in ops)


def _line(ops):
    return ('args ' + ';'.join(ops)).rstrip()


# ------------------------------------------------------------------------------------ correspondence

def _corr_histories(hs):
    hs = [list(h) for h in hs]
    model = _util.model([_line(h) for h in hs])
    n = nt = 0
    fails = []
    for h, m in zip(hs, model):
        a = A.impl_run(h)
        n += 1
        nt += _nontrivial(h)
        if a != m and len(fails) < 3:
            sa, sm = a.split(';'), m.split(';')
            k = next((i for i, (x, y) in enumerate(zip(sa, sm)) if x != y), min(len(sa), len(sm)))
            op = h[k] if k < len(h) else '?'
            fails.append(('model-mismatch-' + op[:1], 'step %d (%s): impl %s | model %s' % (
                k, op, sa[k] if k < len(sa) else '-', sm[k] if k < len(sm) else '-'), ';'.join(h)))
    return n, nt, fails


def _corr_unit(u):
    return _corr_histories(_unit_histories(u))


def _collect(r, results, label):
    for n, nt, fails in results:
        r.evaluations += n
        r.nontrivial.extra += nt
        r.bump(label, n)
        for key, what, inp in fails:
            if len(r.failures) < 50:
                r.fail(key, what, input=inp)


def correspondence(ctx):
    r = Result()
    r.nontrivial = _util.Tally()
    common.impl()
    plans = _plans(ctx)
    for plan in plans:
        _collect(r, _util.pmap(_corr_unit, _units(plan)), plan[0] + '_histories')
        ctx.log('correspondence %s: %d histories so far' % (plan[0], r.evaluations))
    hs = A.random_histories(ctx.rng('corr-random'), ctx.pick(30000, 150000), 40)
    _collect(r, _util.pmap(_corr_histories, _util.chunks(hs, 500)), 'random_histories')
    probe = A.twin_probe()
    if not probe['impl_equals_model']:
        r.fail('model-mismatch-twin-probe', 'pop on positioned twins', input=probe['ops'])
    r.sample({'request': _line(['o:a:' + A.S_A, 'o:i:0:' + A.S_B, 'y', 'x:-1:_']),
              'impl': A.impl_run(['o:a:' + A.S_A, 'o:i:0:' + A.S_B, 'y', 'x:-1:_'])})
    r.sample({'request': _line(['a:' + A.S_A, 'i:-1:g@3:' + A.S_A, 'a:' + A.S_BAD, 'p:0', 't']),
              'impl': A.impl_run(['a:' + A.S_A, 'i:-1:g@3:' + A.S_A, 'a:' + A.S_BAD, 'p:0', 't'])})
    r.rule = ('model (args request) vs TexSoup.data.TexArgs (the .args of a command), answer after every step = '
              'output/exception class + list + shadow list .all + owner str: '
              + '; '.join('ALL sequences of %d ops over a pool of %d items with indices -(n+2)..n+2 (%s)' % (
                  p[2], len(p[1]), p[0]) for p in plans)
              + "; bfs3 pool = unparsed '{a}', two positioned twin objects {a}@3 {a}@7, '[b]', whitespace, "
                "mismatched '{x]'; parsed plans = from each of %d start states built on the argument lists of a "
                'PARSED document (op `I`: the .args of \\o and \\q of lib_args.PROBE, groups with child nodes: a '
                'command, $..$, an inner group, an environment) ALL sequences over a pool of strings and fresh '
                'objects that print like those parsed groups but have another shape, the parsed objects themselves '
                "(P<k>/Q<k>) and a flat twin; pair plans = two argument lists (of two commands): from each of %d start "
                'states (front insertion into a non-empty list, the same object twice, whitespace - on either '
                'list) ALL sequences over the single-list operations on either list plus extend by a TexArgs '
                "OBJECT (own slice `x:lo:hi`, the other list `y`/`o:y`), pool = unparsed '{a}', a shared object, "
                'whitespace, indices -(n+1)..n+1; the list itself `X` is in every alphabet; an implementation '
                'operation that does not return within the watchdog answers HANG; random histories up to 40 ops over both lists and %d items '
                '(twins at different positions, shared objects, TexCmd, TexNamedEnv, TexText, malformed strings) '
                'including x/y; non-trivial = at least 2 ops including an insertion'
              % (len(A.PARSED_PREFIXES), len(A.PAIR_PREFIXES), len(A.RANDOM_ITEMS)))
    r.exhaustive = True
    return r


# ------------------------------------------------------------------------------------ oracle

_GROUP = re.compile(r'\A(?:\[(.*)\]|\{(.*)\})\Z', re.S)


class _Coerced(object):
    """Place of a group that the implementation has to create from an unparsed string."""

    def __init__(self, cls, text):
        self.cls, self.text = cls, text


class _Fail(Exception):
    def __init__(self, key, what):
        Exception.__init__(self, key, what)
        self.key, self.what = key, what


class _Side(object):
    """One of the two argument lists of a history: the .args of a command and the plain list."""

    def __init__(self, name):
        from TexSoup import data as D
        self.name = name
        self.owner = D.TexCmd(name)
        self.args = self.owner.args
        self.lst = []


def _oracle_history(ops):
    """`_oracle_steps` with the watchdog: an operation of the implementation that does not return within
    lib_args.OP_TIME_LIMIT seconds is a failure of the history at that step (key `hang-<op>`)."""
    cur = [0, '']
    try:
        return _oracle_steps(ops, cur)
    except common.ImplHang:
        A.HANG_SEEN[0] = True
        step, op = cur
        return ('hang-' + (op[2:] if op.startswith('o:') else op)[:1],
                'step %d (%s): the implementation did not return within %d s' % (step, op, A.OP_TIME_LIMIT), step)


def _oracle_steps(ops, cur):
    """C18 as stated, on the implementation alone: the .args of a command (and, for `o:`/`y`
    operations, of a second command) against plain Python lists holding the same group OBJECTS.
    Returns None or (key, what, step)."""
    from TexSoup import data as D
    sides = (_Side('o'), _Side('q'))
    shared = {}

    def item(word):
        return A._mk_item(word, shared)           # h<k>: the same object every time

    def plan(x):
        """what putting `x` into a list of groups means: ('obj', x) | ('new', cls, text) | ('ws',) | ('bad',)"""
        if isinstance(x, str):
            if x.isspace():
                return ('ws',)
            m = _GROUP.match(x)
            if not m:
                return ('bad',)
            return ('new', D.BracketGroup if x[0] == '[' else D.BraceGroup, str(x))
        return ('obj', x)

    def run(f):
        try:
            return None, f()
        except common.ImplHang:
            raise
        except Exception as e:      # noqa: the class is the observation
            return type(e), None

    def watched(f):
        """a call into the implementation, under the watchdog"""
        def g():
            with common.time_limit(A.OP_TIME_LIMIT):
                return f()
        return run(g)

    for step, op in enumerate(ops):
        cur[0], cur[1] = step, op
        if op == 'I' and step == 0:                 # the argument lists of the parsed probe document
            for sd, ex in zip(sides, A._probe(shared)):
                sd.owner, sd.args, sd.lst = ex, ex.args, list(list.__iter__(ex.args))
            continue
        swapped = op.startswith('o:')
        me, you = (sides[1], sides[0]) if swapped else sides
        op1 = op[2:] if swapped else op
        args, lst = me.args, me.lst
        k, _, rest = op1.partition(':')
        before = list(lst)
        bad_string = False
        want_exc = want_val = None
        got_exc = got_val = None

        def put(i, x):
            """list side of insert/append; returns the expected exception class or None"""
            p = plan(x)
            if p[0] == 'bad':
                return TypeError
            if p[0] == 'ws':
                return None
            e = p[1] if p[0] == 'obj' else _Coerced(p[1], p[2])
            if i is None:
                lst.append(e)
            else:
                lst.insert(i, e)
            return None

        if k == 'a':
            x = item(rest)
            bad_string = plan(x)[0] == 'bad'
            want_exc = put(None, x)
            got_exc, _ = watched(lambda: args.append(x))
        elif k == 'i':
            i, _, w = rest.partition(':')
            x = item(w)
            bad_string = plan(x)[0] == 'bad'
            want_exc = put(int(i), x)
            got_exc, _ = watched(lambda: args.insert(int(i), x))
        elif k == 'e':
            xs = [item(w) for w in rest.split(',')] if rest else []
            for x in xs:
                want_exc = put(None, x)
                if want_exc:
                    break
            got_exc, _ = watched(lambda: args.extend(xs))
        elif k == 'x':                              # extend by a TexArgs object: the list's own slice
            lo, _, hi = rest.partition(':')
            sl = slice(A._bound(lo), A._bound(hi))
            lst.extend(lst[sl])
            got_exc, _ = watched(lambda: args.extend(args[sl]))
        elif k == 'X':                              # extend by the list itself: a Python list doubles
            lst.extend(lst)
            if A.HANG_SEEN[0] and len(args) > 0:    # one time limit per process is enough
                raise common.ImplHang('skipped after an earlier hang')
            got_exc, _ = watched(lambda: args.extend(args))
        elif k == 'y':                              # extend by the other command's argument list
            lst.extend(you.lst)
            got_exc, _ = watched(lambda: args.extend(you.args))
        elif k == 'r':
            x = item(rest)
            p = plan(x)
            bad_string = p[0] == 'bad'
            if bad_string:
                want_exc = TypeError
            else:
                # groups are equal when they print the same (TexExpr.__eq__ of the clean code); the list
                # side does not go through the implementation's `==`
                text = p[2] if p[0] == 'new' else str(x)

                def list_remove():
                    for j, e in enumerate(lst):
                        if str(e) == text:
                            del lst[j]
                            return
                    raise ValueError(text)
                want_exc, _ = run(list_remove)
            got_exc, _ = watched(lambda: args.remove(x))
        elif k == 'p':
            want_exc, want_val = run((lambda: lst.pop(int(rest))) if rest else (lambda: lst.pop()))
            got_exc, got_val = watched((lambda: args.pop(int(rest))) if rest else (lambda: args.pop()))
        elif k == 'v':
            lst.reverse()
            got_exc, _ = watched(args.reverse)
        elif k == 'c':
            lst.clear()
            got_exc, _ = watched(args.clear)
        elif k == 'g':
            want_exc, want_val = run(lambda: lst[int(rest)])
            got_exc, got_val = watched(lambda: args[int(rest)])
        elif k == 's':
            lo, _, hi = rest.partition(':')
            sl = slice(A._bound(lo), A._bound(hi))
            want_exc, want_val = run(lambda: lst[sl])
            got_exc, got_val = watched(lambda: args[sl])
        elif k == 't':
            want_val = ''.join(str(g) for g in lst)
            got_exc, got_val = watched(lambda: str(args))
        else:
            raise ValueError('bad op ' + op)

        def fail(key, what):
            return key, 'step %d (%s): %s' % (step, op, what), step

        # exceptions
        if got_exc is not want_exc:
            if bad_string:
                return fail('bad-string-not-rejected', 'expected TypeError, got %s' % (got_exc and got_exc.__name__))
            return fail('exception-' + k, 'list: %s, TexArgs: %s' % (
                want_exc and want_exc.__name__, got_exc and got_exc.__name__))
        # contents of BOTH lists, by identity; freshly coerced groups are adopted once class and text are right
        for sd in (me, you):
            now = list(sd.args)
            ref = sd.lst
            tag = k if sd is me else k + '-other'
            if len(now) != len(ref):
                if bad_string:
                    return fail('bad-string-changed-list', 'list had %d items, now %d' % (len(before), len(now)))
                return fail('contents-' + tag, 'list has %d items, TexArgs %d: %r vs %r' % (
                    len(ref), len(now), [str(g) for g in ref if not isinstance(g, _Coerced)],
                    [str(g) for g in now]))
            for j, e in enumerate(ref):
                if isinstance(e, _Coerced):
                    if type(now[j]) is not e.cls or str(now[j]) != e.text:
                        return fail('coercion', 'item %d is %r, expected %s %r' % (j, now[j], e.cls.__name__, e.text))
                    ref[j] = now[j]
                elif now[j] is not e:
                    if bad_string:
                        return fail('bad-string-changed-list', 'item %d changed' % j)
                    return fail('contents-' + tag, 'item %d is %r (position %r), list has %r (position %r)' % (
                        j, now[j], getattr(now[j], 'position', None), e, getattr(e, 'position', None)))
        if bad_string and (len(before) != len(lst) or any(a is not b for a, b in zip(before, lst))):
            return fail('bad-string-changed-list', 'the reference itself changed')      # cannot happen
        # returned values
        if k in 'pg' and want_exc is None and got_val is not want_val:
            return fail('returned-' + k, 'returned %r (position %r), list gives %r (position %r)' % (
                got_val, getattr(got_val, 'position', None), want_val, getattr(want_val, 'position', None)))
        if k == 's' and want_exc is None:
            if not isinstance(got_val, list) or len(got_val) != len(want_val) or \
                    any(a is not b for a, b in zip(list(got_val), want_val)):
                return fail('returned-s', 'slice %r, list gives %r' % (got_val, want_val))
            if got_val is args:
                return fail('slice-aliases', 'the slice [%s] IS the list itself; a slice of a list is a new list' % rest)
        if k == 't' and got_val != want_val:
            return fail('str-args', '%r != %r' % (got_val, want_val))
        # serialisation, always, of both commands
        for sd in (me, you):
            cat = ''.join(str(g) for g in sd.lst)
            if str(sd.args) != cat:
                return fail('str-args', 'str(args) %r, concatenation %r' % (str(sd.args), cat))
            if str(sd.owner) != '\\' + sd.name + cat:
                return fail('str-owner', 'str(owner) %r, expected %r' % (str(sd.owner), '\\' + sd.name + cat))
    return None


def _is_group_item(word):
    """items inside the property's domain: unparsed strings and group objects"""
    return ':' not in word or word.startswith('g') or word[:1] in 'hPQ'


_ORACLE_ITEMS = [w for w in A.RANDOM_ITEMS if _is_group_item(w)] + ['h0', 'h0', 'h1', 'h2']


def _oracle_random(rng, maxlen):
    """lib_args.random_history (both lists, extend by own slice / by the other list) over strings,
    group objects and three SHARED group objects (h0, h1: two distinct BraceGroup('a'); h2:
    BracketGroup('b')) that may enter a list twice"""
    return A.random_history(rng, maxlen, _ORACLE_ITEMS)


def _in_domain(ops):
    for op in ops:
        if op.startswith('o:'):
            op = op[2:]
        k, _, rest = op.partition(':')
        if k in 'ar':
            ws = [rest]
        elif k == 'i':
            ws = [rest.partition(':')[2]]
        elif k == 'e':
            ws = rest.split(',') if rest else []
        else:
            ws = []
        if not all(_is_group_item(w) for w in ws):
            return False
    return True


def _oracle_histories(hs):
    n = nt = 0
    fails = []
    for h in hs:
        h = list(h)
        x = _oracle_history(h)
        n += 1
        nt += _nontrivial(h)
        if x is not None and len(fails) < 3:
            fails.append((x[0], x[1], ';'.join(h[:x[2] + 1])))
    return n, nt, fails


def _oracle_unit(u):
    return _oracle_histories(_unit_histories(u))


def oracle(ctx, seeds, scale):
    r = Result()
    r.nontrivial = _util.Tally()
    common.impl()
    seen = [s.split(';') for s in seeds if isinstance(s, str) and s]
    seen = [h for h in seen if _in_domain(h)]
    if seen:
        _collect(r, [_oracle_histories(seen)], 'seed_histories')
    for plan in _plans(ctx):
        _collect(r, _util.pmap(_oracle_unit, _units(plan)), plan[0] + '_histories')
    rng = ctx.rng('oracle-random')
    hs = [_oracle_random(rng, 40) for _ in range(ctx.pick(30000, 150000) * scale)]
    _collect(r, _util.pmap(_oracle_histories, _util.chunks(hs, 500)), 'random_histories')
    r.sample({'history': 'a:%s;a:g@3:%s;a:g@7:%s;p:1;a:%s;t' % (A.S_A, A.S_A, A.S_A, A.S_BAD), 'verdict': 'holds'})
    r.sample({'history': 'o:a:%s;o:i:0:%s;a:%s;y;x:-1:_;t' % (A.S_A, A.S_B, A.S_A), 'verdict': 'holds'})
    r.rule = ('the .args (TexArgs) of a command vs a plain Python list that is handed the SAME group objects, after '
              'every step: same exception class (IndexError/ValueError/TypeError or none); list(args) equals the list '
              'element by element BY IDENTITY (a group coerced from an unparsed string must have the right class and '
              'text and is then tracked by identity); pop/indexing return the very object the list returns, slices '
              'the same objects; str(args) == concatenation of the groups in list order; str(owner) == \\o + that; '
              'a string with mismatched delimiters raises TypeError and leaves the list unchanged (extend keeps the '
              'items before it, like list.extend); extending by a TexArgs OBJECT (a slice of the list itself, or the '
              '.args of a second command kept in the same history) is list.extend by its elements in list order, and '
              'leaves the source as it is - both commands are checked after every step; equality of groups is '
              'TEXTUAL (list.remove on the list side takes the first element that prints like the operand, whatever '
              'its shape - parsed with child nodes or made from a string).  Families: the exhaustive '
              'ones of the correspondence (one list; the argument lists of a parsed document with strings / fresh '
              'objects printing like its groups; two lists from start states with front insertions / the same '
              'object twice), random histories up to 40 ops over both lists and unparsed strings (good, malformed, '
              'whitespace), positioned twins and three shared objects that can be in a list twice.  Whitespace '
              'strings are not arguments (list unchanged).  `args.extend(args)` (op X) doubles the list like a '
              'Python list; every call into the implementation runs under a %d s watchdog and a call that does '
              'not return is a failure of the history (it used to loop for ever, F20)' % A.OP_TIME_LIMIT)
    r.exhaustive = True
    return r


def replay_known(ctx, k):
    inp = k.get('input')
    return isinstance(inp, str) and _oracle_history(inp.split(';')) is not None


def replay(ctx, payload):
    f = payload.get('failure') or {}
    inp = f.get('input')
    if not isinstance(inp, str) or not inp:
        return True, 'nothing to replay: ' + '; '.join(payload.get('broken', []))[:400]
    common.impl()
    x = _oracle_history(inp.split(';'))
    return x is None, 'replay %s -> %r' % (inp, x[:2] if x else 'holds')
