"""C07 – Tolerant mode is a conservative extension that only inserts closers."""
import re

import common
import gen
import oracles
import parsecorr
from framework import Result

ID = 'C07'
LEAN_TARGETS = ['TexSoupProofs.Properties.C07', 'TexSoupProofs.Properties.C07b']
THEOREMS = ['TexSoup.C07.' + n for n in ('reader_strict_tolerant', 'strict_implies_tolerant',
                                         'tolerant_only_inserts', 'inserted_are_closers')] + [
    'TexSoup.C07b.' + n for n in ('reader_balanced', 'reader_env_balanced', 'strict_success_braces', 'strict_success_envs',
                                  'lost_brace_strict_fails', 'lost_brace_strict_error', 'tolerant_succeeds',
                                  'reader_tolerant_ok', 'lost_brace_tolerant_succeeds', 'lost_end_strict_fails',
                                  'lost_end_strict_error', 'lost_end_tolerant_succeeds', 'lost_closer', 'name_tokens',
                                  'wellNamed_of_tokens')]
# a lost closing bracket (Properties/C07Brackets.lean)
LEAN_TARGETS = LEAN_TARGETS + ['TexSoupProofs.Properties.C07Brackets']
THEOREMS = THEOREMS + ['TexSoup.C07b.' + n for n in (
    'readArgBody_closer', 'readArg_closer', 'readArgOpt_commits', 'readArgOpt_commits_error', 'lost_bracket_at_start',
    'lost_bracket_counterexample', 'lost_bracket_example')]
PARTIAL = ['clause (b) is proved for a lost closing brace and a lost \\end{name} (C07b.lost_closer: strict fails with a '
           'diagnostic, tolerant succeeds) under token-level hypotheses (no math, no \\item, plainly named environments; for '
           'the \\end case additionally no special or fixed-signature commands)',
           'clause (b) for a lost closing BRACKET: REFUTED as stated when a `]` occurs later in the input '
           '(C07b.lost_bracket_counterexample: \\x[a]b]c is well-formed, \\x[ab]c still parses strictly); PROVED on the '
           'reader: a strictly read argument ends at a closer of its kind (readArgBody_closer) and at a `[` behind a command '
           'that takes optional arguments the reader is committed - with no `]` token in the REST OF THE INPUT (a `}` does not '
           'stop the search: inside an unclosed `[` it is a text leaf) reading fails with an error (readArgOpt_commits), '
           'and at document level for a command at the beginning of the input (lost_bracket_at_start); NOT proved for a '
           'command at an arbitrary place of a well-formed document (needs prefix-read-back-then-error versions of the '
           'completeness lemmas at every enclosing reader loop) - there it is explored by the oracle on documents without '
           'stray brackets',
           'clause (c) is proved under the hypothesis bundle Hyp (finding F4b excluded)']
TRUSTED = ['harness/gen_tables.py', 'correspondence harness (parsecorr.py, common.py), both tolerance modes',
           'modelled, not verified: control flow of reader.py, tokens.py, data.py serialisers']
ASSUMPTIONS = ['CPython str semantics', 'the model driver is the compiled form of the verified definitions']

ALPHA = gen.TOKEN_ALPHA


def correspondence(ctx):
    r = Result()
    common.impl()
    cases = parsecorr.alpha_cases(ctx, ALPHA, ctx.pick(2, 3), ctx.pick(4000, 60000), 3, 12, tols=(0, 1), tag='c07')
    parsecorr.run_cases(r, cases)
    r.rule = ('parse model vs implementation in BOTH tolerance modes over the token-kind alphabet (exhaustive short, '
              'random longer) and the dense environment alphabets; non-trivial = more than two characters')
    return r


CLOSERS = re.compile(r'\}|\]|\\end\{[^{}]*\}')


def check_a_c(s):
    """clauses (a) and (c) on one string"""
    l0, soup0, _ = common.impl_parse(s, 0)
    l1, soup1, e1 = common.impl_parse(s, 1)
    if soup0 is not None:
        if l0 != l1:
            return ('strict-not-tolerant', 'strict: %s / tolerant: %s' % (l0[:120], l1[:120]))
    if soup1 is not None and '\x00' not in s and '\x7f' not in s and not oracles.excused_bare_args(soup1) \
            and not oracles.hidden_bare(s) and not oracles.name_not_in_source(s, soup1):
        out = str(soup1)
        if not oracles.aligned(s, out, allow_insert=True):
            if oracles.f4b_class(s):
                return ('env-name-f4b', '%r -> %r' % (s[:60], out[:60]))
            return ('tolerant-changes-text', '%r -> %r' % (s[:80], out[:80]))
    return 'ok'


def check_b(doc):
    """clause (b): every single-closer deletion of a well-formed document (no math/verbatim/list)"""
    bad = []
    l, soup, _ = common.impl_parse(doc, 0)
    if soup is None:
        return [('generator', 'mini_doc does not parse: %r' % doc[:80], doc)]
    n = 0
    spans = [(m.start(), m.end()) for m in CLOSERS.finditer(doc)]
    # the closing brace of an `\\end{name}` is a closing brace as well
    spans += [(m.end() - 1, m.end()) for m in re.finditer(r'\\end\{[^{}]*\}', doc)]
    for a, b in sorted(set(spans)):
        piece = doc[a:b]
        # a `]` that closes no argument is plain text: only brackets that belong to an argument
        if piece == ']' and not _is_arg_bracket(doc, a):
            continue
        d = doc[:a] + doc[b:]
        n += 1
        l0, s0, _ = common.impl_parse(d, 0)
        l1, s1, _ = common.impl_parse(d, 1)
        if s0 is not None:
            bad.append(('lost-closer-accepted', 'strict parse succeeds without %r at %d' % (piece, a), d))
        elif s1 is None:
            bad.append(('tolerant-rejects', 'tolerant parse fails (%s) without %r at %d' % (l1, piece, a), d))
    return bad, n


def _is_arg_bracket(doc, i):
    # mini_doc only writes `[...]` directly after a command name, with a body free of brackets
    j = doc.rfind('[', 0, i)
    return j > 0 and re.search(r'\\[a-z]+(\[[^\[\]]*\])*$', doc[:j]) is not None


def _ac(s):
    try:
        return check_a_c(s)
    except RecursionError:
        return 'ok'


def _b(d):
    return check_b(d)


def oracle(ctx, seeds, scale):
    r = Result()
    common.impl()
    rg = ctx.rng('oracle')
    strs = [s for s in seeds if isinstance(s, str)]
    strs += list(gen.exhaustive(ALPHA, ctx.pick(2, 3)))
    strs += list(gen.random_strings(rg, ALPHA, ctx.pick(6000, 80000) * scale, 3, 12))
    strs += list(gen.exhaustive(parsecorr.CORE_ALPHA, ctx.pick(4, 5), 3))
    strs += list(gen.random_strings(rg, parsecorr.ENV_ALPHA, ctx.pick(3000, 40000) * scale, 3, 9))
    docs = [oracles.mini_doc(rg, ctx.pick(3, 4)) for _ in range(ctx.pick(400, 5000) * scale)]
    for d in docs[:200] + gen.corpus():
        strs.append(d)
        strs += [d[:rg.randrange(len(d) + 1)] for _ in range(3)] if d else []
    res = gen.pmap(_ac, strs)
    for s, x in zip(strs, res):
        r.count(s, len(s) > 2)
        if x != 'ok':
            r.fail(x[0], x[1], input=s)
    nb = 0
    for d, res_b in zip(docs, gen.pmap(_b, docs, chunk=20)):
        if isinstance(res_b, list):           # generator problem: not a violation of the property
            r.bump('mini_doc_rejected')
            continue
        bad, n = res_b
        nb += n
        r.count(('b', d), n > 0)
        for key, what, inp in bad:
            r.fail(key, what, input=inp, document=d)
    r.bump('closer_deletions', nb)
    r.sample({'document': docs[0] if docs else '', 'clause': 'b: every single-closer deletion fails strictly, parses tolerantly'})
    r.rule = ('(a) strict result == tolerant result whenever strict succeeds, (c) tolerant output aligns with the input allowing '
              'only deleted whitespace before openers and inserted }, ], \\end{..}: on exhaustive/random alphabet strings, '
              'repository documents and their prefixes; (b) every single-closer deletion of generated well-formed documents '
              'without math/verbatim/list regions')
    return r


def replay_known(ctx, k):
    return _ac(common.dec(k['input'])) != 'ok'


def replay(ctx, payload):
    f = payload.get('failure') or {}
    s = f.get('input')
    if not isinstance(s, str):
        return True, 'nothing to replay: ' + '; '.join(payload.get('broken', []))[:600]
    x = _ac(s)
    if f.get('key') in ('lost-closer-accepted', 'tolerant-rejects'):
        l0, s0, _ = common.impl_parse(s, 0)
        l1, s1, _ = common.impl_parse(s, 1)
        ok = s0 is None and s1 is not None
        return ok, 'replay %r -> strict %s, tolerant %s' % (s, l0[:40], l1[:40])
    return x == 'ok', 'replay %r -> %r' % (s, x)
