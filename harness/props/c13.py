"""C13 – Recorded source positions are true offsets."""
import itertools
import re

import common
import gen
import lib_nav
import lib_pos
from framework import Result
from props import _util

ID = 'C13'
LEAN_TARGETS = ['TexSoupProofs.Properties.C13Lines', 'TexSoupProofs.Properties.C13Lines2', 'TexSoupProofs.Properties.C13Positions', 'TexSoupProofs.Properties.C19',
                'TexSoupProofs.Reader.LeafSlices', 'TexSoupProofs.Properties.C13Regex']
THEOREMS = ['TexSoup.C13Lines.' + n for n in (
    'lineStart_no_lf', 'lineStart_after_lf', 'charPosToLine_correct_le', 'charPosToLine_correct',
    'charPosToLine_correct_at_end', 'charPosToLine_beyond_end',
    'lineStart_le', 'lineStart_append_no_lf', 'lineCol_recover', 'lineStart_eq_of_same_line', 'lineCol_injective',
    'charPosToLine_injective', 'charPosToLine_recover', 'lineCol_no_lf_between', 'lineCol_lf_before_start',
    'Legacy.charPosToLine_wrong_at_lf', 'Legacy.charPosToLine_wrong_at_every_lf')] + [
    'TexSoup.C13.node_positions', 'TexSoup.C13.node_positions_nonempty', 'TexSoup.C13.node_first_char',
    'TexSoup.C13.intended_statement_false', 'TexSoup.token_offsets', 'TexSoup.token_offsets_bounded', 'TexSoup.C13.match_offset',
    'TexSoup.parse_sliced', 'TexSoup.C13.text_leaf_slice', 'TexSoup.C13.text_leaf_slice_node', 'TexSoup.C13.match_in_slice',
    'TexSoup.C13.mem_searchRegexIn', 'TexSoup.C13.search_regex_offsets_leaf', 'TexSoup.C13.search_regex_offsets',
    'TexSoup.C13.search_regex_offsets_all', 'TexSoup.C13.search_regex_bare_argument']
PARTIAL = ['clause (i) is proved in the form: at the recorded offset of every node the source carries the first token of '
           'that node and the node\'s text starts with it (C13.node_positions, node_first_char); the only exception is the '
           'empty text child of an empty verbatim-like environment (C13.intended_statement_false); nodes made up for a bare '
           'argument (position -1) are outside the grammar and skipped',
           'clause (iii) "every match reported by search_regex carries the true source offset" is proved for every parsed '
           'tree (strict and tolerant, source without NUL/DEL) with the regular-expression engine as a parameter '
           '(C13.search_regex_offsets, model lean/TexSoupModel/SearchRegex.lean): every text leaf of the text view with a '
           'recorded position carries exactly the source slice at that position (C13.text_leaf_slice; a verbatim body is a '
           'run of consecutive tokens, parse_sliced; the empty verbatim body is the empty slice), and the offset '
           'arithmetic position + match.start() is proved (C13.match_in_slice). Exception: leaves with position -1 (the '
           'text of the group made up for a bare-token argument) are excluded, necessarily so '
           '(C13.search_regex_bare_argument). The engine itself (which spans re.finditer returns) stays trusted and is '
           'explored by the oracle']
TRUSTED = ['hand-written model of CharToLineOffset (lean/TexSoupModel/Pos.lean) and of the reader, tied to the code '
           'by the correspondence run only',
           'correspondence harness (props/c13.py, lib_pos.py, common.canon_expr)',
           'hand-written model of search_regex (lean/TexSoupModel/SearchRegex.lean: iterate the text view, report '
           'position + start and text[start:start+length]), not exercised by a correspondence run of its own; the text '
           'view it iterates is the one of lean/TexSoupModel/Nav.lean (correspondence run of C04)',
           'Python re module (clause iii)']
ASSUMPTIONS = ['NUL/DEL may only be dropped (C19): in a document that contains them a text stands at its recorded offset '
               'if its first character stands there and the rest follows with dropped NUL/DEL skipped',
               'LF line structure (a line break is the single character U+000A)',
               'CPython str/bisect semantics', 'the model driver is the compiled form of the verified definitions',
               'arguments are bracket/brace groups (the quantifier\'s "commands with [..]/{..} arguments"): the group '
               'that the reader invents for a mandatory argument given without braces (\\textbf x; position -1, '
               'plain-str text) is outside the domain, as in C08/C16; such nodes/leaves are skipped and counted',
               'str(node) omits blank space between a command/environment opening and its arguments: the text of a '
               'node is compared with the source modulo source whitespace; its opening is compared exactly']
LEAN_TARGETS = LEAN_TARGETS + ['TexSoupProofs.Properties.TableSpec']
# entries of the generated tables that the property's statement names (they stop compiling when a table edit drops them)
THEOREMS = THEOREMS + ['TexSoup.TableSpec.' + n for n in ['end_of_line_chars']]


# ------------------------------------------------------------------------------------ inputs

def _docs(ctx, tag, n):
    rng = ctx.rng(tag)
    docs = list(lib_nav.FIXED) + gen.corpus()
    docs += [lib_nav.gen_doc(rng) for _ in range(n)]
    docs += [lib_nav.gen_doc(rng, depth=6, width=8) for _ in range(n // 10)]
    # NUL/DEL are dropped at token boundaries and kept inside a text run: the offsets of everything behind one
    # must still be source offsets (seeded change C13-j dropped them inside text runs as well)
    base = [d for d in docs if d]
    for _ in range(n // 5):
        d = rng.choice(base)
        for _ in range(rng.choice((1, 1, 2))):
            k = rng.randint(0, len(d))
            d = d[:k] + rng.choice('\x00\x7f') + d[k:]
        docs.append(d)
    docs += ['see\x00 Figure 7', 'ab\x7fcd 12 \\x{y\x00z} w', '\x00a b', 'a \x7f b\n\x00c d']
    seen, out = set(), []
    for d in docs:
        if d not in seen:
            seen.add(d)
            out.append(d)
    return out


# characters that str.splitlines() / str.isspace() treat as line boundaries or blanks but that do NOT end a line of
# a document with LF line structure (they are ordinary text characters to the tokenizer)
NOT_LINE_BREAKS = '\x0b\x0c\x1c\x1d\x1e\x85\u2028\u2029'


def _line_strings(n):
    out = [''.join(t) for k in range(n + 1) for t in itertools.product('a\n', repeat=k)]
    # LF structure with one of the look-alike characters anywhere in the text
    m = min(n, 6)
    for c in NOT_LINE_BREAKS:
        out += [''.join(t) for k in range(1, m + 1) for t in itertools.product('a\n' + c, repeat=k) if c in t]
    return out


# ------------------------------------------------------------------------------------ correspondence

def _impl_parse0(s):
    return common.impl_parse(s, 0)[0]


def _impl_parse1(s):
    return common.impl_parse(s, 1)[0]


def lookup_orders(n):
    """orders in which ONE converter object is asked for the offsets 0..n-1: ascending, descending, and a fixed
    scrambled order with repetitions (the answer must not depend on what was asked before)"""
    asc = list(range(n))
    scr = [(i * 7 + 3) % n for i in range(n)] + [(i * 5 + 1) % n for i in range(n)] if n else []
    zig = [x for i in range(n) for x in (n - 1 - i, i)]
    return asc, asc[::-1], scr, zig


def _impl_lines(s):
    from TexSoup.utils import CharToLineOffset
    f = CharToLineOffset(s)
    n = len(s) + 3
    first = ['%d %d' % tuple(f(p)) for p in range(n)]
    # the same object, asked again in other orders, must repeat its answers
    for order in lookup_orders(n)[1:]:
        for p in order:
            if '%d %d' % tuple(f(p)) != first[p]:
                first[p] = 'ORDER-DEPENDENT %d' % p
    return first


def _positions_in(tree):
    return tree.count('(c ') + tree.count('(e ') + tree.count('(g ') + tree.count('(m ') + tree.count('(t ')


def correspondence(ctx):
    r = Result()
    r.nontrivial = _util.Tally()
    common.impl()
    docs = _docs(ctx, 'corr-docs', ctx.pick(8000, 100000))
    for tol, fn in ((0, _impl_parse0), (1, _impl_parse1)):
        impl = gen.pmap(fn, docs)
        model = common.model_batch_parallel([common.parse_req(s, tol) for s in docs])
        for s, a, b in zip(docs, impl, model):
            npos = _positions_in(a) if a.startswith('TREE') else 0
            r.count(('parse', tol, s), npos >= 3)
            r.bump('positions_compared_tol%d' % tol, npos)
            if a != b:
                r.fail('parse-mismatch', 'positioned tree differs (tolerance %d)' % tol, input=s, tol=tol,
                       impl=a[:300], model=b[:300])
        r.bump('documents_tol%d' % tol, len(docs))
        r.bump('parsed_tol%d' % tol, sum(1 for a in impl if a.startswith('TREE')))
    # line/column: every string over {a, LF} up to length n at every offset 0..len+2
    n = ctx.pick(8, 13)
    strs = _line_strings(n)
    impl = gen.pmap(_impl_lines, strs)
    reqs = [lib_pos.request(s, p) for s in strs for p in range(len(s) + 3)]
    model = common.model_batch_parallel(reqs)
    i = 0
    for s, ans in zip(strs, impl):
        for p, a in enumerate(ans):
            if a != model[i]:
                r.fail('lines-mismatch', 'offset %d: impl %s model %s' % (p, a, model[i]), input={'s': s, 'p': p})
            i += 1
        r.evaluations += len(ans)
        r.nontrivial.extra += sum(1 for p in range(len(ans)) if '\n' in s[:p])
    r.bump('line_strings', len(strs))
    r.bump('line_cases', len(reqs))
    rng = ctx.rng('corr-lines-random')
    cases = []
    for _ in range(ctx.pick(5000, 50000)):
        k = rng.randint(0, 80)
        s = ''.join(rng.choice('ab \n\n\r \t') for _ in range(k))
        cases.append((s, rng.randint(0, k + 3)))
    model = common.model_batch_parallel([lib_pos.request(s, p) for s, p in cases])
    for (s, p), m in zip(cases, model):
        a = lib_pos.impl_run(s, p)
        r.count(('lines', s, p), '\n' in s[:p])
        if a != m:
            r.fail('lines-mismatch', 'offset %d: impl %s model %s' % (p, a, m), input={'s': s, 'p': p})
    r.sample({'request': common.parse_req('\\a {b}\n$c$'), 'impl': _impl_parse0('\\a {b}\n$c$')})
    r.rule = ('(i) canonical tree of the parse request (carries the recorded position of every command, environment, '
              'group, math region and text token) model vs TexSoup(src), strict and tolerant, on lib_nav.FIXED + '
              'repository corpus + random documents of the documented grammar (lib_nav.gen_doc, two sizes); '
              '(ii) lines request vs CharToLineOffset for EVERY string over {a, LF} up to length %d at every offset '
              '0..len+2, plus random strings up to 80 characters (CR, TAB, blanks); non-trivial = at least 3 '
              'positions in the tree / a line break before the offset' % n)
    r.exhaustive = True
    return r


# ------------------------------------------------------------------------------------ oracle

def _brute(s, p):
    """line and column of offset p by counting"""
    line = col = 0
    for c in s[:p]:
        if c == '\n':
            line, col = line + 1, 0
        else:
            col += 1
    return line, col


IGNORED = '\x00\x7f'
# the verbatim-like environments (the property text of C11, not the code's table)
VERBATIM_LIKE = ('lstlisting', 'verbatim', 'verbatimtab', 'Verbatim', 'listing')


def _align(src, p, t):
    """offsets of the characters of `t` in `src` when `t` stands at p with NUL/DEL characters of the source that `t`
    lacks skipped AFTER its first character (the first character stands at p itself); None if it does not"""
    out = []
    i, n = p, len(src)
    for j, ch in enumerate(t):
        while j > 0 and i < n and src[i] != ch and src[i] in IGNORED:
            i += 1
        if i >= n or src[i] != ch:
            return None
        out.append(i)
        i += 1
    return out


def _stands(src, p, t):
    """`t` stands in `src` at offset p: exactly, or - NUL/DEL may only be dropped - modulo dropped NUL/DEL (_align)"""
    return src.startswith(t, p) or _align(src, p, t) is not None


def _loose(src, p, t):
    """`t` stands in `src` at offset p, source whitespace (and dropped NUL/DEL) that `t` lacks being skipped"""
    i, n = p, len(src)
    for ch in t:
        while i < n and src[i] != ch and (src[i].isspace() or src[i] in IGNORED):
            i += 1
        if i >= n or src[i] != ch:
            return False
        i += 1
    return True


PATTERNS = [('[a-z]+', {}), (r'\d+', {}), (r'\s+', {}), ('.', {}), ('.', {'flags': re.S}), ('Hello', {}),
            ('x', {}), ('y z', {}), (re.compile(r'[A-Za-z]+|\d'), {}), ('[a-z]+', {'flags': re.I})]


def _oracle_doc(src):
    """Clauses (i), (ii) on the document's own offsets, (iii).  Returns (stats, failures)."""
    from TexSoup import data as D
    from TexSoup.utils import Token
    T = common.impl()
    try:
        soup = T.TexSoup(src)
    except Exception:                       # noqa: not a document (C06/C09 are about that)
        return {'unparsed': 1}, []
    st = {'parsed': 1}
    fails = []

    def bump(k, n=1):
        st[k] = st.get(k, 0) + n

    def fail(key, what):
        if all(k != key for k, _ in fails):     # one per key and document
            fails.append((key, what))

    has_ignored = any(c in src for c in IGNORED)
    in_invented = [False]
    in_verbatim = [False]
    lossy = []

    def invented(g):
        """a group made up by the reader for a mandatory argument given without braces"""
        return isinstance(g, D.TexGroup) and g.position == -1 and g._contents and \
            all(type(c) is str for c in g._contents)

    def has_invented(e):
        if isinstance(e, D.TexText) or not isinstance(e, D.TexExpr):
            return False
        return invented(e) or any(has_invented(x) for x in list(e.args) + list(e._contents))

    def check_text(tok, where):
        bump('text_tokens')
        p = getattr(tok, 'position', None)
        if type(tok) is str and where != 'tree':
            return                              # counted where the tree walk meets it
        if type(tok) is str and in_invented[0]:
            bump('bare_arg_skipped')            # text of a brace-less argument: outside the domain
            return
        if not isinstance(tok, Token) or not isinstance(p, int) or isinstance(p, bool):
            fail('text-position', '%s: text %r carries no position (%s)' % (where, str(tok)[:20], type(tok).__name__))
        elif in_verbatim[0] and 0 <= p <= len(src) and not src.startswith(str(tok), p) and \
                _align(src, p, str(tok)) is not None:
            lossy.append((p, _align(src, p, str(tok))))     # joined tokens, NUL/DEL dropped in between (finding F23)
        elif not (0 <= p <= len(src)) or not _stands(src, p, str(tok)):
            fail('text-position', '%s: text %r recorded at %r, source has %r' % (
                where, str(tok)[:20], p, src[max(p, 0):max(p, 0) + len(str(tok))][:20]))

    def check_node(e, where):
        bump('nodes')
        p = e.position
        if invented(e):
            bump('bare_arg_skipped')            # brace-less mandatory argument: outside the domain (C08/C16)
            return
        if not isinstance(p, int) or isinstance(p, bool) or not 0 <= p < len(src):
            fail('node-position', '%s: %s %r recorded at %r' % (where, type(e).__name__, str(e)[:30], p))
            return
        if isinstance(e, D.TexCmd):
            ok = _stands(src, p, '\\' + e.name)
        elif isinstance(e, D.TexNamedEnv):
            ok = _stands(src, p, '\\begin') and _loose(src, p, e.begin)
        else:
            ok = _stands(src, p, e.begin)
        if not ok:
            fail('node-position', '%s: %s %r recorded at %r, source has %r' % (
                where, type(e).__name__, str(e)[:30], p, src[p:p + 12]))
        elif has_ignored:
            # with NUL/DEL in the source the printed text is not the source text (C08/C16 exclude such inputs:
            # `\en<DEL>d{verbatim}` closes a verbatim body and leaves a brace behind); C13 is about the recorded
            # offset, which the opening check above decides
            bump('nodes_full_text_skipped_nul_del')
        elif not has_invented(e):
            bump('nodes_full_text')
            if not _loose(src, p, str(e)):
                fail('node-text', '%s: text of %s %r does not stand at %r (%r)' % (
                    where, type(e).__name__, str(e)[:30], p, src[p:p + 30]))

    def walk(e):
        """every argument group, node and text token of the tree (blank ones too)"""
        for a in e.args:
            if isinstance(a, D.TexExpr):
                check_node(a, 'argument')
                in_invented[0] = invented(a)
                walk(a)
                in_invented[0] = False
        in_verbatim[0] = isinstance(e, D.TexNamedEnv) and e.name in VERBATIM_LIKE and len(e._contents) == 1
        for c in e._contents:
            if isinstance(c, D.TexText):
                check_text(c._text, 'tree')
            elif isinstance(c, D.TexExpr):
                in_verbatim[0] = False
                check_node(c, 'tree')
                walk(c)
            else:
                check_text(c, 'tree')
        in_verbatim[0] = False

    # (i) through the public views, then structurally (argument groups, blank text)
    positions_seen = []
    try:
        for d in soup.descendants:
            q = getattr(d, 'position', None)
            if isinstance(q, int) and not isinstance(q, bool):
                positions_seen.append(q)
            if isinstance(d, D.TexNode):
                if d.position != d.expr.position:
                    fail('node-position', 'TexNode.position %r != expr.position %r' % (d.position, d.expr.position))
                check_node(d.expr, 'descendants')
            else:
                check_text(d, 'descendants')
    except Exception as e:      # noqa
        fail('descendants-raises', type(e).__name__)
    walk(soup.expr)

    # (ii) every offset of the document
    try:
        want = []
        line = col = 0
        for ch in src:
            want.append((line, col))
            line, col = (line + 1, 0) if ch == '\n' else (line, col + 1)
        n = len(src)
        # ascending; then the recorded positions in tree order (what a user converts); then descending
        orders = [range(n), [q for q in positions_seen if 0 <= q < n], range(n - 1, -1, -1) if n <= 400 else ()]
        for oi, order in enumerate(orders):
            for p in order:
                got = soup.char_pos_to_line(p)
                if tuple(got) != want[p]:
                    fail('line-col', 'offset %d: %r, counted %r (lookup order %d)' % (p, got, want[p], oi))
                    break
        bump('offsets', len(src))
    except Exception as e:      # noqa
        fail('line-col', 'char_pos_to_line raised %s' % type(e).__name__)

    # (iii)
    # a text leaf of a brace-less argument is a plain str: search below the nodes that have none
    def searchable(node):
        if not any(type(t) is str for t in node.text):
            return [node]
        bump('bare_arg_skipped')
        return [x for c in node.children for x in searchable(c)]

    for target in searchable(soup):
        for pat, kw in PATTERNS:
            try:
                ms = list(target.search_regex(pat, **kw))
            except Exception as e:  # noqa
                fail('regex-raises', 'search_regex(%r) raised %s: %s' % (
                    getattr(pat, 'pattern', pat), type(e).__name__, e))
                continue
            bump('regex_matches', len(ms))
            for m in ms:
                p = getattr(m, 'position', None)
                if not isinstance(p, int) or p < 0 or not _stands(src, p, str(m)):
                    key = 'regex-offset'
                    # finding F23: the body of a verbatim-like environment is ONE token joined from the tokens of the
                    # body; a NUL/DEL dropped between two of them makes the text shorter than its source span, and
                    # position + match.start() is then too small by the number dropped before the match
                    for b, al in lossy:
                        if isinstance(p, int) and b <= p < b + len(al) and _stands(src, al[p - b], str(m)):
                            key = 'regex-offset-ignored-in-verbatim'
                    fail(key, 'search_regex(%r): match %r reported at %r, source has %r' % (
                        getattr(pat, 'pattern', pat), str(m)[:20], p,
                        src[p:p + len(m)][:20] if isinstance(p, int) else None))
                    break
    return st, fails


def _oracle_lines(s):
    """(ii) exhaustive family: CharToLineOffset and TexSoup(s).char_pos_to_line against counting."""
    from TexSoup.utils import CharToLineOffset
    T = common.impl()
    f = CharToLineOffset(s)
    try:
        g = T.TexSoup(s).char_pos_to_line
    except Exception:           # noqa
        g = None
    for oi, order in enumerate(lookup_orders(len(s))):
        for p in order:
            want = _brute(s, p)
            got = tuple(f(p))
            if got != want:
                return p, 'CharToLineOffset(%r)(%d) = %r, counted %r (lookup order %d)' % (s, p, got, want, oi)
            if g is not None:
                got = tuple(g(p))
                if got != want:
                    return p, 'TexSoup(%r).char_pos_to_line(%d) = %r, counted %r (lookup order %d)' % (s, p, got, want, oi)
    return None


def oracle(ctx, seeds, scale):
    r = Result()
    r.nontrivial = _util.Tally()
    common.impl()
    docs = [s for s in seeds if isinstance(s, str)]
    docs += _docs(ctx, 'oracle-docs', ctx.pick(8000, 100000) * scale)
    res = gen.pmap(_oracle_doc, docs, chunk=50)
    for s, (st, fails) in zip(docs, res):
        r.count(('doc', s), st.get('nodes', 0) + st.get('text_tokens', 0) >= 3)
        for k, v in st.items():
            r.bump(k, v)
        for key, what in fails:
            r.fail(key, what, input=s)
    n = ctx.pick(8, 13)
    strs = _line_strings(n)
    strs += [(x.get('s') or '') for x in seeds if isinstance(x, dict)]
    res = gen.pmap(_oracle_lines, strs)
    for s, x in zip(strs, res):
        r.evaluations += max(len(s), 1)
        r.nontrivial.extra += max(0, len(s) - 1 - s.find('\n')) if '\n' in s else 0
        if x is not None:
            r.fail('line-col', x[1], input={'s': s, 'p': x[0]})
    r.bump('line_strings', len(strs))
    r.bump('line_cases', sum(len(s) for s in strs))
    r.sample({'input': '\\section{A}\n\\textbf{b $c$}', 'verdict': 'holds'})
    r.rule = ('on TexSoup(src) for lib_nav.FIXED + corpus + random documents of the documented grammar: (i) every '
              'command/environment/group/math node of soup.descendants, every argument group and every text token '
              '(blank ones included, found by walking expr.args/_contents): the recorded position p is an offset of '
              'src at which the opening (\\name, \\begin{name}, delimiter) resp. the token text stands exactly, and '
              'the whole text of the node stands there modulo source whitespace.  Outside the domain, skipped and '
              'counted (bare_arg_skipped): the group that the reader makes up for a mandatory argument given without '
              'braces (position -1) and its plain-str text, full-text comparison of nodes containing one, regex '
              'search at nodes with such a leaf (their children are searched instead); (ii) char_pos_to_line(p) == (line, column) counted by hand at '
              'every offset 0..len-1 of the document and EXHAUSTIVELY for every string over {a, LF} up to length %d, '
              'via CharToLineOffset and via TexSoup(s).char_pos_to_line; (iii) for %d patterns (str, precompiled, '
              'with flags) every match m of search_regex: src[m.position:m.position+len(m)] == str(m); a search '
              'that raises is a failure.  A fifth of the random documents carry NUL/DEL characters at random places: '
              'texts and matches are then compared modulo NUL/DEL dropped after their first character, the full-text '
              'clause (which is C01\'s) is skipped for them, and a match inside a verbatim-like body whose joined text '
              'lost a NUL/DEL is finding F23 (key regex-offset-ignored-in-verbatim)' % (n, len(PATTERNS)))
    r.exhaustive = True
    return r


def _replay_input(inp):
    if isinstance(inp, dict):
        s = inp.get('s', '')
        x = _oracle_lines(s)
        return None if x is None else ('line-col', x[1])
    if isinstance(inp, str):
        st, fails = _oracle_doc(inp)
        return fails[0] if fails else None
    return None


def replay_known(ctx, k):
    inp = k.get('input')
    if isinstance(inp, str) and re.fullmatch(r'-|\d+(\.\d+)*', inp):
        inp = common.dec(inp)
    st, fails = _oracle_doc(inp) if isinstance(inp, str) else ({}, [])
    return any(f[0] == k.get('key') for f in fails)


def replay(ctx, payload):
    f = payload.get('failure') or {}
    inp = f.get('input')
    if inp is None:
        return True, 'nothing to replay: ' + '; '.join(payload.get('broken', []))[:400]
    common.impl()
    x = _replay_input(inp)
    return x is None, 'replay %r -> %r' % (inp, x if x else 'holds')
