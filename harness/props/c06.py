"""C06 – Parsing is total: it terminates with a tree or a diagnostic error."""
import time

import common
import gen
import oracles
import parsecorr
from framework import Result

ID = 'C06'
LEAN_TARGETS = ['TexSoupProofs.Properties.C06']
THEOREMS = ['TexSoup.C06.' + n for n in (
    'parse_total', 'parse_no_internal', 'parse_no_fuel', 'tokenize_never_hangs', 'reader_progress', 'reader_progress_all',
    'reader_no_internal', 'reader_fuel_enough', 'assertion_origin', 'reader_assertion_origin', 'type_origin',
    'type_origin\'', 'reader_type_origin', 'eof_origin', 'reader_eof_origin')]
PARTIAL = ['CPython recursion depth and wall-clock time are outside the model: explored (nesting depth <= 40, time bound), '
           'not proved; look-ahead by re-parsing makes alternating command/environment nesting exponential in depth '
           '(observation O1 in DESIGN.md)']
TRUSTED = ['harness/gen_tables.py', 'correspondence harness (parsecorr.py, common.py): result class in both tolerance modes',
           'modelled, not verified: control flow of reader.py, tokens.py']
ASSUMPTIONS = ['CPython exceptions map to the model error vocabulary as in common.classify_exc',
               'the model driver is the compiled form of the verified definitions']
LEAN_TARGETS = LEAN_TARGETS + ['TexSoupProofs.Properties.TableSpec']
# entries of the generated tables that the property's statement names (they stop compiling when a table edit drops them)
THEOREMS = THEOREMS + ['TexSoup.TableSpec.' + n for n in ['comment_ignored_invalid_chars']]

ALPHA = gen.TOKEN_ALPHA + ['\x00', '\x7f']
ALLOWED = ('TREE', 'ERR EOF', 'ERR TYPE', 'ERR ASSERT')
TIME_LIMIT = 5.0


def deep_docs(ctx):
    """nesting depth up to 40 of every nestable construct, homogeneous and mixed"""
    docs = []
    for d in (1, 5, 20, 40):
        docs.append('{' * d + 'x' + '}' * d)
        docs.append('{' * d)
        docs.append('\\x' + '{\\x' * d + '}' * d)
        docs.append('\\begin{a}' * d + 'x' + '\\end{a}' * d)
        docs.append('\\begin{a}' * d)
        docs.append('\\x[' * d + ']' * d)
        docs.append('${' * d + '}$' * d)
        docs.append('\\begin{itemize}\\item ' * d + '\\end{itemize}' * d)
        docs.append('\\(\\x{' * min(d, 20) + '}\\)' * min(d, 20))
    # items inside the brace argument of a command that stands in an item body, and other alternations that are linear
    # on the current code (the look-ahead of read_item reads no argument): depth 40 must come back at once
    for d in (5, 20, 40):
        s = 'x'
        for _ in range(d):
            s = '\\item a \\x{' + s + '}'
        docs.append(s)
        s = 'x'
        for _ in range(d):
            s = '{\\item[' + 'o' + '] \\x{' + s + '} y}'
        docs.append(s)
        s = 'x'
        for _ in range(d):
            s = '$\\x{' + s + '}$'
        docs.append(s)
        s = 'x'
        for _ in range(d):
            s = '\\x[' + '{' + s + '}' + ']'
        docs.append(s)
    # alternating command-argument / environment nesting: the look-ahead re-parses, cost ~ 2.8^(depth/2)
    for d in (2, 6, ctx.pick(10, 13)):
        s = 'x'
        for _ in range(d):
            s = '\\begin{a}\\x{' + s + '}\\end{a}'
        docs.append(s)
    return docs


def correspondence(ctx):
    r = Result()
    common.impl()
    cases = parsecorr.alpha_cases(ctx, ALPHA, ctx.pick(2, 3), ctx.pick(5000, 70000), 3, 12, tols=(0, 1), tag='c06')
    cases += [(d, t, ()) for d in deep_docs(ctx) for t in (0, 1)]
    parsecorr.run_cases(r, cases)
    r.rule = ('result class and tree, both tolerance modes: exhaustive short strings and random strings over the token-kind '
              'alphabet including NUL and DEL, dense environment alphabets, nesting to depth 40; non-trivial = more than two characters')
    return r


def _one(case):
    s, tol = case
    t = time.process_time()             # CPU time: the verdict must not depend on the load of the machine
    try:
        line, soup, exc = common.impl_parse(s, tol)
    except RecursionError:
        return ('recursion', 'RecursionError', 0.0)
    dt = time.process_time() - t
    cls = line.split(' ')[0] if line.startswith('TREE') else line
    if cls == 'ERR HANG':
        return ('no-termination', 'no answer within %d s of CPU time' % common.IMPL_TIME_LIMIT, dt)
    if cls not in ALLOWED:
        return ('internal-error', '%s: %s' % (type(exc).__name__, str(exc)[:80]), dt)
    if dt > TIME_LIMIT:
        return ('slow', '%.1f s' % dt, dt)
    return (None, cls, dt)


def oracle(ctx, seeds, scale):
    r = Result()
    common.impl()
    rg = ctx.rng('oracle')
    strs = [s for s in seeds if isinstance(s, str)]
    strs += list(gen.exhaustive(ALPHA, ctx.pick(2, 3)))
    strs += list(gen.random_strings(rg, ALPHA, ctx.pick(6000, 100000) * scale, 3, 14))
    strs += list(gen.exhaustive(parsecorr.CORE_ALPHA, ctx.pick(4, 5), 3))
    strs += list(gen.exhaustive(gen.CAT_ALPHA, ctx.pick(2, 3)))
    docs = gen.corpus() + [oracles.mini_doc(rg, 4) for _ in range(ctx.pick(200, 3000))]
    for d in docs:
        strs.append(d)
        strs += gen.mutations(rg, d, ctx.pick(4, 12))
    strs += deep_docs(ctx)
    strs += gen.verb_docs() + gen.escape_docs() + gen.definition_docs() + gen.signature_probe_docs() + gen.length_boundary_docs()
    cases = [(s, t) for s in strs for t in (0, 1)]
    res = gen.pmap(_one, cases)
    worst = 0.0
    for (s, t), (key, what, dt) in zip(cases, res):
        r.count((s, t), len(s) > 2)
        worst = max(worst, dt)
        r.bump(what if key is None else key)
        if key is not None:
            r.fail(key, what, input=s, tol=t)
    r.stats['slowest_parse_s'] = round(worst, 2)
    r.sample({'input': '\\begin{a}\\x{', 'tol': 0, 'class': 'ERR TYPE'})
    r.rule = ('result class in {tree, EOFError, TypeError, AssertionError} and CPU time < %.0f s, tolerance 0 and 1: '
              'exhaustive short/random strings over the token-kind alphabet with NUL/DEL, all strings of length <= %d over one '
              'representative per character category, repository and generated documents with prefixes, single deletions, '
              'insertions and transpositions, nesting depth up to 40' % (TIME_LIMIT, ctx.pick(2, 3)))
    return r


def replay_known(ctx, k):
    return _one((common.dec(k['input']), int(k.get('tol', 0))))[0] is not None


def replay(ctx, payload):
    f = payload.get('failure') or {}
    s = f.get('input')
    if not isinstance(s, str):
        return True, 'nothing to replay: ' + '; '.join(payload.get('broken', []))[:600]
    x = _one((s, f.get('tol', 0)))
    return x[0] is None, 'replay %r tol=%s -> %r' % (s, f.get('tol', 0), x)
