"""C10 – Comments are inert."""
import itertools

import common
import gen_doc as G
import lib_doc as L
from framework import Result

ID = 'C10'
LEAN_TARGETS = ['TexSoupProofs.Properties.C10', 'TexSoupProofs.Properties.C10Grammar', 'TexSoupProofs.Properties.AllInputs']
THEOREMS = ['TexSoup.C10.' + n for n in (
    'comment_token', 'escaped_percent_token', 'percent_is_comment_char', 'comment_is_leaf', 'comment_closes_nothing',
    'comments_not_searchable')] + [
    'TexSoup.C10G.payload_keeps_wf', 'TexSoup.C10G.tree_of_substituted', 'TexSoup.C10G.read_substituted', 'TexSoup.C10G.payload_irrelevant', 'TexSoup.C10G.tokOK_comment', 'TexSoup.C10G.parse_substituted', 'TexSoup.C10G.separated_marked', 'TexSoup.C10G.comment_payload_does_not_matter',
    'TexSoup.C10.comment_payload_irrelevant_all', 'TexSoup.C10.verbOKS_of_tree', 'TexSoup.AllInputs.StrictInput.doc']
PARTIAL = []
TRUSTED = ['harness/props/c10.py (contexts, hostile payload alphabet, shape comparison)',
           'harness/gen_doc.py (documents with comments, normal form with blanked comment leaves)',
           'correspondence harness (lib_doc.py, common.py)']
ASSUMPTIONS = ['CPython str semantics', 'the model driver is the compiled form of the verified definitions',
               'a comment ends at the next line break (\\n or \\r) or at the end of input; at the end of input only '
               'at the top level (inside a group the closing delimiter would be part of the comment)',
               'tree shape = normal form of the canonical tree with the text of comment leaves blanked']
LEAN_TARGETS = LEAN_TARGETS + ['TexSoupProofs.Properties.TableSpec']
# entries of the generated tables that the property's statement names (they stop compiling when a table edit drops them)
THEOREMS = THEOREMS + ['TexSoup.TableSpec.' + n for n in ['end_of_line_chars', 'comment_ignored_invalid_chars']]

_CACHE = {}

HOSTILE = ('}', '{', ']', '[', '$', '$$', '\\', '\\\\', '\\begin{x}', '\\end{x}', '\\item', '%', '\\(', '\\)', '\\[',
           '\\]', '\\end{itemize}', '\\end{center}', '\\end{equation}', '\\begin{verbatim}', '\\zq{a}', '\\begin{zq}',
           ' ', 'a', '\\textbf', '\\%', '{a}', '\\left(', '\\end{verbatim}', '\\end{lstlisting}', '\\end{Verbatim}')
# characters that look like line ends to str.splitlines()/isspace() but are ordinary characters of the line: a comment
# runs on over them
LOOKALIKE = ('\x0b', '\x0c', '\x1c', '\x85', '\u2028', '\u2029', '\xa0', 'é')
LIVE = ('note', ' \\zq{a}.', ' {b}.', '', ' $m$.', '\\zq.')        # payloads after an escaped percent: parsed normally
PROBES = ('zq', 'x', 'item', 'textbf', 'begin', 'end', 'verbatim', 'left(', 'itemize', '$', '$$', 'BraceGroup',
          'BracketGroup', 'displaymath', 'math', 'a')

# label, pre, post   (the comment sits between them; the context closes in post)
CONTEXTS = (
    ('top', 'a ', 'b'),
    ('env', '\\begin{center}x ', 'y\\end{center}'),
    ('brace-arg', '\\textit{x ', 'y}z'),
    ('bracket-arg', '\\w[x ', 'y]{r}z'),
    ('group', '{x ', 'y}z'),
    ('item', '\\begin{itemize}\\item a\\item x ', 'y\\item c\\end{itemize}'),
    ('item-last', '\\begin{itemize}\\item x ', '\\end{itemize}'),
    ('dollar', '$x ', 'y$z'),
    ('ddollar', '$$x ', 'y$$z'),
    ('paren-math', '\\(x ', 'y\\)z'),
    ('bracket-math', '\\[x ', 'y\\]z'),
    ('math-env', '\\begin{equation}x ', 'y\\end{equation}z'),
    ('after-command', '\\zz', '{a}[b]'),
    ('between-args', '\\zz{a}', '{b}'),
    ('env-args', '\\begin{tabular}{c ', '}x\\end{tabular}'),
    ('nested', '\\begin{center}{\\textit{$x ', 'y$}}\\end{center}'),
    ('special', '\\newcommand{\\zz}[1]{x ', 'y\\begin{center}}'),
    ('verbatim-after', '\\begin{verbatim}$\\end{verbatim}', 'z'),
)
# contexts in which the comment may run to the end of input
EOF_CONTEXTS = (
    ('eof-top', 'a ', ''), ('eof-empty', '', ''), ('eof-group', '{a}', ''), ('eof-command', '\\x{a}', ''),
    ('eof-bare-command', '\\x', ''), ('eof-math', '$a$', ''), ('eof-env', '\\begin{e}x\\end{e}', ''),
    ('eof-newline', 'a\n', ''),
)
TERMS = ('\n', '\r', '\r\n')


def build(ci, eof, nbs, payload, term):
    label, pre, post = (EOF_CONTEXTS if eof else CONTEXTS)[ci]
    src = pre + '\\' * nbs + '%' + payload + ('' if eof else term) + post
    return src, {'ctx': label, 'ci': ci, 'eof': eof, 'nbs': nbs, 'payload': payload, 'term': '' if eof else term}


def _payloads(ctx):
    one = [(p,) for p in HOSTILE]
    two = list(itertools.product(HOSTILE, repeat=2))
    return [''.join(t) for t in one + two]


def _gen_enum(rng, i, job):
    src, spec = build(*job['items'][i])
    return src, None, spec


def _gen_random(rng, i, job):
    eof = rng.random() < 0.15
    ci = rng.randrange(len(EOF_CONTEXTS if eof else CONTEXTS))
    nbs = rng.choice((0, 0, 0, 2, 4, 1, 3))
    if nbs % 2:
        payload = rng.choice(LIVE)
    else:
        payload = ''.join(rng.choice(HOSTILE) if rng.random() < 0.9 else rng.choice(LOOKALIKE)
                          for _ in range(rng.randint(3, 9)))
    src, spec = build(ci, eof, nbs, payload, rng.choice(TERMS))
    return src, None, spec


def _gen_doc(rng, i, job):
    """A generated document with benign comments and a copy in which every payload is hostile."""
    src, ast = G.document(rng, depth=rng.randint(1, job['depth']), layout='adjacent', twins=0.03, hostile=0.0,
                          width=rng.randint(2, 4), weights={'comment': 30, 'verb': 1})
    mut = ast.clone()
    mut.skip = ast.skip
    n = 0
    for x in G.walk(mut):
        if x.kind == 'comment':
            x.s = ''.join(rng.choice(HOSTILE) for _ in range(rng.randint(1, 6)))
            n += 1
    msrc = G.render(mut)
    return msrc, mut, {'doc': True, 'base': src, 'ncomments': n}


# ----------------------------------------------------------------------------- oracle

def _comment_leaves(soup):
    out = []
    for e, p, w in L.walk_exprs(soup):
        t = L.leaf_token(e)
        if t is not None and str(t).startswith('%'):
            out.append(str(t))
    return out


def _counts(soup):
    return [len(soup.find_all(n)) for n in PROBES]


_BASE = {}


def _baseline(src, skip=()):
    if src not in _BASE:
        if len(_BASE) > 4000:
            _BASE.clear()
        line, soup, exc = common.impl_parse(src, 0, skip)
        _BASE[src] = (line, None if soup is None else (G.normalise(line, blank_comments=True), _counts(soup)))
    return _BASE[src]


def check_case(src, spec, parsed, skip=()):
    line, soup, exc = parsed
    if spec.get('doc'):
        base = spec['base']
        payloads = None
    else:
        label, pre, post = (EOF_CONTEXTS if spec['eof'] else CONTEXTS)[spec['ci']]
        if spec['nbs'] % 2:
            # escaped percent: no comment at all, the rest of the line is live
            if soup is None:
                return [('parse-fails', '%s: %s' % (line, str(exc)[:100]), None)]
            if _comment_leaves(soup):
                return [('escaped-percent', 'a comment leaf %r after an odd number of backslashes'
                         % _comment_leaves(soup)[0][:40], None)]
            if str(soup) != src:
                return [('escaped-percent', 'output %r' % str(soup)[:80], None)]
            want = (pre + spec['payload'] + post).count('\\zq')
            if len(soup.find_all('zq')) != want:
                return [('escaped-percent', 'text after \\%% is not live: %d of %d \\zq found'
                         % (len(soup.find_all('zq')), want), None)]
            if not any('\\%' in str(t) for e, p, w in L.walk_exprs(soup) for t in [L.leaf_token(e)] if t is not None):
                return [('escaped-percent', 'no text leaf holds the escaped percent', None)]
            return None
        base = build(spec['ci'], spec['eof'], spec['nbs'], 'c', spec['term'])[0]
        payloads = ['%' + spec['payload']]
    bline, b = _baseline(base, skip)
    if b is None:
        return [('baseline-fails', 'the benign variant does not parse: %s' % bline, {'baseline': base})]
    if soup is None:
        return [('comment-leak', 'parse fails with this payload (%s: %s) but not with a benign one'
                 % (line, str(exc)[:100]), {'baseline': base})]
    shape = G.normalise(line, blank_comments=True)
    if shape != b[0]:
        k = next((j for j in range(min(len(shape), len(b[0]))) if shape[j] != b[0][j]), 0)
        return [('comment-leak', 'tree shape depends on the payload: ...%s vs benign ...%s'
                 % (shape[max(0, k - 20):k + 60], b[0][max(0, k - 20):k + 60]), {'baseline': base})]
    leaves = _comment_leaves(soup)
    if payloads is not None and leaves != payloads:
        return [('comment-leaf', 'comment leaves %r, expected %r' % (leaves[:3], payloads), None)]
    c = _counts(soup)
    if c != b[1]:
        bad = [PROBES[i] for i in range(len(PROBES)) if c[i] != b[1][i]]
        return [('comment-search', 'find_all(%r) counts %d, with a benign payload %d'
                 % (bad[0], c[PROBES.index(bad[0])], b[1][PROBES.index(bad[0])]), {'baseline': base})]
    return None


def _generated_comments(ast):
    """The leaves that start with a percent sign, in document order: the comments, and raw verbatim bodies
    that happen to start with one."""
    out = []
    for x in G.walk(ast):
        if x.kind == 'comment':
            out.append('%' + x.s)
        elif x.kind == 'env' and x.sub == 'verb' and x.children and x.children[0].s.startswith('%'):
            out.append(x.children[0].s)
    return out


def _oracle(src, ast, extra, parsed):
    skip = ast.skip if ast is not None else ()
    v = check_case(src, extra, parsed, skip)
    if v and extra.get('doc'):
        v = [(k, w, dict(i or {}, comments=_generated_comments(ast)[:5])) for k, w, i in v]
    elif not v and extra.get('doc') and parsed[1] is not None:
        want = _generated_comments(ast)
        if _comment_leaves(parsed[1]) != want:
            v = [('comment-leaf', 'comment leaves %r, generated %r' % (_comment_leaves(parsed[1])[:3], want[:3]), None)]
    return [(k, w, dict(i or {}, spec={kk: vv for kk, vv in extra.items() if kk != 'base'})) for k, w, i in v] if v else None


def _nontrivial(src, ast, extra):
    if extra.get('doc'):
        return extra['ncomments'] > 0
    return len(extra['payload']) > 0


def _finds(src, ast, extra):
    if extra.get('doc'):
        return ['zq', 'item']
    p = extra['payload']
    out = []
    if 'zq' in p:
        out.append('zq')
    if '\\item' in p:
        out.append('item')
    if '{x}' in p:
        out.append('x')
    if '$' in p:
        out.append('$')
    return out[:2]


# ----------------------------------------------------------------------------- jobs

def _enum_items(ctx):
    items = []
    pay = _payloads(ctx)
    for ci in range(len(CONTEXTS)):
        for p in pay:
            items.append((ci, False, 0, p, '\n'))
        for p in HOSTILE:
            for nbs in (2, 4):
                items.append((ci, False, nbs, p, '\n'))
            for t in TERMS[1:]:
                items.append((ci, False, 0, p, t))
        for p in LIVE:
            for nbs in (1, 3):
                for t in TERMS[:2]:
                    items.append((ci, False, nbs, p, t))
        # long payloads: lengths around powers of two (block-wise scanners), ended by a line break
        if ci in (0, 2, 4):
            for n in (254, 255, 256, 257, 510, 511, 512, 767, 1023):
                items.append((ci, False, 0, ('}' * 7 + '{$') * (n // 9) + 'c' * (n % 9), '\n'))
                items.append((ci, False, 2, 'x' * n, '\n'))
        for c in LOOKALIKE:
            for h in ('{', '}', '\\zq{a}', '$', '\\end{center}', '\\item', ']'):
                for nbs in (0, 2):
                    items.append((ci, False, nbs, ' ' + c + ' ' + h, '\n'))
                    items.append((ci, False, nbs, c + h, '\n'))
    for ci in range(len(EOF_CONTEXTS)):
        for p in pay if ctx.thorough else [''.join(t) for t in [(h,) for h in HOSTILE]]:
            for nbs in (0, 2, 4):
                items.append((ci, True, nbs, p, ''))
        for p in LIVE:
            for nbs in (1, 3):
                items.append((ci, True, nbs, p, ''))
    if ctx.thorough:
        three = [''.join(t) for t in itertools.product(HOSTILE[:16], repeat=3)]
        for ci in range(len(CONTEXTS)):
            for p in three:
                items.append((ci, False, 0, p, '\n'))
    return items


def _all_jobs(ctx, model, scale=1):
    items = _enum_items(ctx)
    jobs = []
    per = ctx.pick(750, 2000)
    for lo in range(0, len(items), per):
        jobs.append({'seed': '%s/%d/enum/%d' % (ID, ctx.seed, lo), 'n': min(per, len(items) - lo), 'lo': lo,
                     'items': items[lo:lo + per], 'gen': _gen_enum, 'oracle': _oracle, 'nontrivial': _nontrivial,
                     'finds': _finds, 'model': model, 'tols': (0, 1) if lo % (2 * per) == 0 else (0,)})
    for k, n in enumerate(L.split(ctx.pick(12000, 150000) * scale, ctx.pick(750, 2000))):
        jobs.append({'seed': '%s/%d/rand/%d' % (ID, ctx.seed, k), 'n': n, 'gen': _gen_random, 'oracle': _oracle,
                     'nontrivial': _nontrivial, 'finds': _finds, 'model': model, 'tols': (0, 1)})
    for k, n in enumerate(L.split(ctx.pick(2500, 40000) * scale, ctx.pick(125, 400))):
        jobs.append({'seed': '%s/%d/doc/%d' % (ID, ctx.seed, k), 'n': n, 'gen': _gen_doc, 'oracle': _oracle,
                     'nontrivial': _nontrivial, 'finds': _finds, 'model': model, 'tols': (0, 1),
                     'depth': ctx.pick(5, 10)})
    jobs.sort(key=lambda j: -j['n'] * (6 if j['gen'] is _gen_doc else 1))
    return jobs


def _run(ctx, model=True, scale=1):
    key = (ctx.tier, ctx.seed, model, scale)
    if key not in _CACHE:
        _CACHE[key] = L.run_jobs(L.eval_docs, _all_jobs(ctx, model, scale))
    return _CACHE[key]


def _rule(ctx):
    return ('every payload of up to %d pieces of the hostile alphabet (%d pieces: braces, brackets, dollars, backslashes, '
            '\\begin/\\end/\\item, %%, math switches) in each of %d contexts (top level, environment body, brace and '
            'bracket argument, group, item, the four math kinds, named math environment, after a command name, '
            'between arguments, environment arguments, nested, \\newcommand body, after a verbatim environment), ended '
            'by \\n, \\r or \\r\\n, and in %d end-of-input contexts; 0/2/4 backslashes before the %% (comment) and 1/3 '
            '(escaped percent, live payloads); random longer payloads; generated documents whose comment payloads are '
            'all replaced by hostile ones; non-trivial = non-empty payload'
            % (3 if ctx.thorough else 2, len(HOSTILE), len(CONTEXTS), len(EOF_CONTEXTS)))


def correspondence(ctx):
    r = Result()
    common.impl()
    st = L.merge_jobs(_run(ctx, True), r, None)
    st.into(r)
    r.exhaustive = True
    r.rule = ('`parse` at tolerance 0 (every case) and 1 (random families, half of the enumeration) and `find` of names '
              'that occur only inside the payload, compared textually on: ' + _rule(ctx))
    return r


def oracle(ctx, seeds, scale):
    r = Result()
    common.impl()
    # the inputs on which the correspondence diverged are among the (shared) inputs below, where they are
    # evaluated first-class with their generating record; nothing more can be said about a bare string
    r.stats['diverging_inputs_received'] = len([s for s in seeds if isinstance(s, str)])
    key = (ctx.tier, ctx.seed, True, 1)
    res = list(_CACHE[key]) if key in _CACHE and scale == 1 else list(_run(ctx, False, scale))
    st = L.merge_jobs(res, None, r)
    st.into(r)
    r.exhaustive = True
    r.rule = ('with an even number of backslashes: the document parses iff the benign variant does, the tree shape '
              '(comment text blanked) equals that of the benign variant, the only comment leaf is %payload, and '
              'find_all counts of 16 probe names (commands, environments, math and group kinds) are unchanged; with an '
              'odd number: no comment leaf, exact round trip, the rest of the line is parsed; on: ' + _rule(ctx))
    return r


def replay_known(ctx, k):
    s = common.dec(k['input'])
    base = common.dec(k['baseline']) if k.get('baseline') else None
    if base is None:
        return common.impl_parse(s, 0, ())[1] is None
    a, b = common.impl_parse(s, 0, ()), common.impl_parse(base, 0, ())
    if (a[1] is None) != (b[1] is None):
        return True
    return a[1] is not None and G.normalise(a[0], blank_comments=True) != G.normalise(b[0], blank_comments=True)


def replay(ctx, payload):
    f = payload.get('failure') or {}
    s = f.get('input')
    if not isinstance(s, str):
        return True, 'nothing to replay: ' + '; '.join(payload.get('broken', []))[:400]
    spec = f.get('spec') or {}
    skip = tuple(f.get('skip') or ())
    if 'ci' in spec:
        v = check_case(s, spec, common.impl_parse(s, 0, skip), skip)
    elif f.get('baseline'):
        v = check_case(s, {'doc': True, 'base': f['baseline']}, common.impl_parse(s, 0, skip), skip)
    else:
        v = [] if common.impl_parse(s, 0, skip)[1] is not None else [('parse-fails', '', None)]
    return not v, 'replay %r -> %r' % (s, v)
