"""C09 – Arguments attach by the one-line-break rule with exact contents."""
import common
import gen_doc as G
import lib_doc as L
from framework import Result

ID = 'C09'
LEAN_TARGETS = ['TexSoupProofs.Properties.C09', 'TexSoupProofs.Properties.C09Grammar', 'TexSoupProofs.Properties.AllInputs']
THEOREMS = ['TexSoup.C09.' + n for n in (
    'bracket_needs_no_partner', 'group_closes_only_on_own_delimiter', 'first_argument_is_next_group',
    'arguments_have_exact_contents', 'spacer_dropped_only_before_opener')] + [
    'TexSoup.C09G.command_takes_its_groups', 'TexSoup.C09G.runOK_open', 'TexSoup.C09G.following_brace_group_is_absorbed', 'TexSoup.C09G.following_bracket_group_is_absorbed', 'TexSoup.C09G.tight_bracket_after_braces_is_absorbed',
    'TexSoup.C09.command_args_shape_all', 'TexSoup.AllInputs.StrictInput.doc']
PARTIAL = []
TRUSTED = ['harness/props/c09.py (enumeration of name x group run x separator x context, expected attachment)',
           'harness/gen_doc.py (documents with attaching separators, expected tree)',
           'correspondence harness (lib_doc.py, common.py)']
ASSUMPTIONS = ['CPython str semantics', 'the model driver is the compiled form of the verified definitions',
               'group runs are bracket groups followed by brace groups (a bracket group directly after the brace '
               'groups is read as a further argument: documented brace-bracket-brace order, outside this domain)',
               'attaching separators: blanks with at most one line break; detaching: blank line, punctuation, '
               'comment, \\\\']
LEAN_TARGETS = LEAN_TARGETS + ['TexSoupProofs.Properties.AllInputs2']
THEOREMS = THEOREMS + ['TexSoup.C09.command_args_shape_anywhere']
LEAN_TARGETS = LEAN_TARGETS + ['TexSoupProofs.Properties.TableSpec']
# entries of the generated tables that the property's statement names (they stop compiling when a table edit drops them)
THEOREMS = THEOREMS + ['TexSoup.TableSpec.' + n for n in ['starred_names_are_open', 'ordinary_names_are_open', 'spacer_chars', 'end_of_line_chars']]

_CACHE = {}

ATTACH = G.ATTACH
DETACH = G.DETACH
SEPS_FULL = ATTACH + DETACH
SEPS_RED = ('', ' ', '\n', ' \n\t', '\n\n', '.', '%c\n')
SEPS_RED5 = ('', ' ', '\n', '\n\n', '.')
# outside the fixed-signature table: ordinary names, and the neighbours of the table's names (starred, extended, cut,
# re-cased) and of \item/\begin/\end - all of them take the whole run
NAMES = ('zq', 'zq*', 'Zq', 'q', 'zqlongname', 'includegraphicszq',
         'section*', 'textbf*', 'label*', 'def*', 'in*', 'cup*', 'infty*', 'sections', 'Section', 'textb', 'labelx',
         'inf', 'cups', 'notinx', 'items', 'itemsep', 'endnote', 'begins', 'text', 'verbatim', 'noindent*')

# (body, [its top-level non-text elements])
BRACKET_BODIES = (('a', []), ('', []), ('a{]}b', ['{]}']), ('{[}', ['{[}']), ('\\y{q}', ['\\y{q}']), ('a b', []),
                  ('$]$', ['$]$']), ('[', []), ('o=1, p', []), (' \n', []), ('\\}', []), ('%c\n', []))
BRACE_BODIES = (('a', []), ('', []), (']', []), ('[', []), ('a]b[c', []), ('{x}', ['{x}']),
                ('\\y[o]{q}', ['\\y[o]{q}']), ('[u]', []), ('a\\}b', []), ('$[$', ['$[$']), ('%c\n', []), (' ', []),
                ('\\{]', []), ('{]}{[}', ['{]}', '{[}']))
TAILS = ('', ' t', '.', '\n\nT')

# label, pre, post, part of post inside the same parent, math?, closes-on-]?
CONTEXTS = (
    ('top', '', '', '', False, False),
    ('top-mid', 'A ', ' B\n', ' B\n', False, False),
    ('env', '\\begin{center}\nx ', ' y\n\\end{center}', ' y\n', False, False),
    ('group', '{p ', ' q}', ' q', False, False),
    ('item', '\\begin{itemize}\\item a\\item w ', ' z\\end{itemize}', ' z', False, False),
    ('math-dollar', '$u+', '+v$', '+v', True, False),
    ('math-display', '\\[', '\\]', '', True, False),
    ('math-env', '\\begin{align*}x&', '\\end{align*}', '', True, False),
    ('brace-arg', '\\textit{', '}', '', False, False),
    ('bracket-arg', '\\w[', ']{r}', '', False, True),
)
SHAPES = tuple((k, m) for k in range(4) for m in range(5))


def build(name, ci, groups, seps, tail):
    """groups: [(kind, body, nontext)], seps: one per group.  Returns (source, spec)."""
    label, pre, post, inner_post, _, _ = CONTEXTS[ci]
    j = 0
    while j < len(groups) and seps[j] in ATTACH:
        j += 1
    gs = []
    for kind, body, _ in groups:
        o, c = G.GROUP_DELIMS[kind]
        gs.append(o + body + c)
    run = ''.join(s + g for s, g in zip(seps, gs))
    src = pre + '\\' + name + run + tail + post
    rest = ''.join(s + g for s, g in zip(seps[j:], gs[j:])) + tail + inner_post
    rest_nontext = []
    for (kind, body, nt), g in zip(groups[j:], gs[j:]):
        if kind == 'brace':
            rest_nontext.append(g)
        else:
            rest_nontext += nt
    spec = {'name': name, 'ctx': label, 'attached': [(k, g) for (k, _, _), g in zip(groups[:j], gs[:j])],
            'rest': rest, 'rest_nontext': rest_nontext,
            'out': pre + '\\' + name + ''.join(gs[:j]) + rest + post[len(inner_post):],
            'seps': list(seps), 'shape': [sum(1 for g in groups if g[0] == 'bracket'),
                                          sum(1 for g in groups if g[0] == 'brace')]}
    return src, spec


def _bodies(rng, k, m, ci, seps):
    math, brclose = CONTEXTS[ci][4], CONTEXTS[ci][5]
    out = []
    for i in range(k + m):
        pool = BRACKET_BODIES if i < k else BRACE_BODIES
        while True:
            b = rng.choice(pool)
            if math and '$' in b[0]:
                continue
            break
        out.append(('bracket' if i < k else 'brace', b[0], b[1]))
    return out


def _decode(idx, n, S):
    seps = []
    for _ in range(n):
        seps.append(S[idx % len(S)])
        idx //= len(S)
    return seps


def _gen_product(rng, i, job):
    k, m = job['shape']
    S = job['sepset']
    seps = _decode(job['lo'] + i, k + m, S)
    ci = job['ci']
    if CONTEXTS[ci][5]:
        # inside a bracket argument a detached bracket group would close it: keep the run attached there
        nb = 0
        while nb < k and seps[nb] in ATTACH:
            nb += 1
        if nb < k:
            ci = 0
    groups = _bodies(rng, k, m, ci, seps)
    src, spec = build(rng.choice(NAMES), ci, groups, seps, rng.choice(TAILS))
    return src, None, spec


def _gen_random(rng, i, job):
    k, m = rng.choice(SHAPES)
    seps = [rng.choice(SEPS_FULL) if rng.random() < 0.5 else rng.choice(ATTACH) for _ in range(k + m)]
    ci = rng.randrange(len(CONTEXTS))
    if CONTEXTS[ci][5] and any(s not in ATTACH for s in seps[:k]):
        ci = 0
    name = rng.choice(NAMES) if rng.random() < 0.7 else 'zq' + ''.join(rng.choice(G.LETTERS) for _ in range(rng.randint(1, 5)))
    src, spec = build(name, ci, _bodies(rng, k, m, ci, seps), seps, rng.choice(TAILS))
    return src, None, spec


STRAY = ('[', ']', 'a [ b', '] x [', '[[', ']]', 'a ] b ] c', '[0,1)', '(0,1]', 'x\n[', '{[}', '{]}', '{a}[b', '$a$[b',
         '$[$', '$]$', '\\%[b', '\\\\[2pt', '\\\\[2pt]', '%c\n[b', '\\begin{e}a\\end{e}[b', '\\begin{e}a\\end{e}]',
         '[a]', '[ a ] [', 'a\n\n[\n\nb', '\\[ [ \\]', '\\( ] \\)', '{a}]', '[{a}', ']{a}[')


def _gen_stray(rng, i, job):
    idx = job['lo'] + i
    ci = idx % len(CONTEXTS)
    inner = STRAY[(idx // len(CONTEXTS)) % len(STRAY)]
    label, pre, post, inner_post, math, brclose = CONTEXTS[ci]
    if (brclose and ']' in inner) or (math and ('$' in inner or '\\[' in inner or '\\(' in inner or '\\begin' in inner)):
        ci = 3
        label, pre, post, inner_post, math, brclose = CONTEXTS[ci]
    lead = rng.choice(['', 'k ', '.'])
    src = pre + lead + inner + post
    nbr = 1 if brclose else 0       # bracket groups of the context itself
    return src, None, {'stray': True, 'ctx': label, 'own_bracket_groups': nbr, 'inner': inner}


def _gen_doc(rng, i, job):
    src, ast = G.document(rng, depth=rng.randint(1, job['depth']), layout='spaced', twins=0.04, hostile=0.2,
                          width=rng.randint(2, 4), weights={'cmd': 30, 'mcmd': 30, 'verb': 1, 'comment': 3})
    return src, ast, {'doc': True}


# ----------------------------------------------------------------------------- oracle

def _siblings_after(soup, target):
    from TexSoup.data import TexExpr, TexText
    for e, parent, where in [(soup.expr, None, 'root')] + list(L.walk_exprs(soup)):
        if isinstance(e, TexText) or not isinstance(e, TexExpr):
            continue
        for idx, c in enumerate(e._contents):
            if c is target:
                return e._contents[idx + 1:]
    return None


def check_case(src, spec, parsed):
    from TexSoup.data import TexExpr, TexText, BracketGroup
    line, soup, exc = parsed
    if soup is None:
        return [('parse-fails', '%s: %s' % (line, str(exc)[:120]), None)]
    if spec.get('stray'):
        if str(soup) != src:
            return [('roundtrip', 'output %r' % str(soup)[:80], None)]
        n = sum(1 for e, p, w in L.walk_exprs(soup) if isinstance(e, BracketGroup))
        if n != spec['own_bracket_groups']:
            return [('bracket-not-text', '%d bracket groups in the tree, %d expected' % (n, spec['own_bracket_groups']),
                     None)]
        for e, p, w in L.walk_exprs(soup):
            if isinstance(e, BracketGroup) and w != 'arg':
                return [('bracket-not-text', 'a bracket group outside argument position', None)]
        return None
    node = soup.find(spec['name'])
    if node is None:
        return [('args-attach', 'command %r not found' % spec['name'], None)]
    got = [(type(a).__name__, str(a)) for a in node.args]
    want = [('BracketGroup' if k == 'bracket' else 'BraceGroup', g) for k, g in spec['attached']]
    if got != want:
        return [('args-attach', 'args %r, expected %r' % (got, want), None)]
    if str(node.expr) != '\\' + spec['name'] + ''.join(g for _, g in spec['attached']):
        return [('args-attach', 'command prints as %r' % str(node.expr)[:80], None)]
    after = _siblings_after(soup, node.expr)
    if after is None:
        return [('args-siblings', 'command not found in any contents list', None)]
    rest = ''.join(str(x) for x in after)
    if rest != spec['rest']:
        return [('args-siblings', 'following siblings print as %r, expected %r' % (rest[:80], spec['rest'][:80]), None)]
    nontext = [x for x in after if isinstance(x, TexExpr) and not isinstance(x, TexText)]
    if any(isinstance(x, BracketGroup) for x in nontext):
        return [('bracket-not-text', 'a detached bracket group became a node', None)]
    if [str(x) for x in nontext] != spec['rest_nontext']:
        return [('args-siblings', 'non-text siblings %r, expected %r' % ([str(x) for x in nontext], spec['rest_nontext']),
                 None)]
    if str(soup) != spec['out']:
        return [('args-output', 'document prints as %r, expected %r' % (str(soup)[:100], spec['out'][:100]), None)]
    return None


def _oracle(src, ast, extra, parsed):
    if extra.get('doc'):
        line, soup, exc = parsed
        if soup is None:
            return [('parse-fails', '%s: %s' % (line, str(exc)[:120]), None)]
        want, got = G.expected_canon(ast), G.normalise(common.canon_root(soup))
        if want != got:
            def fails(s, a):
                p = common.impl_parse(s, 0, a.skip)
                return p[1] is None or G.expected_canon(a) != G.normalise(common.canon_root(p[1]))
            small, sast = G.shrink(ast, fails, 200) if L.may_shrink() else (src, ast)
            return [('tree-mismatch', 'tree differs from the generating tree (separators before arguments)',
                     {'input': small, 'skip': list(sast.skip), 'original': src[:300]})]
        return None
    v = check_case(src, extra, parsed)
    return [(k, w, {'spec': extra}) for k, w, _ in v] if v else None


def _nontrivial(src, ast, extra):
    if extra.get('doc'):
        return 'spaced-args' in G.constructs(ast)
    if extra.get('stray'):
        return True
    return any(extra['seps'])


# ----------------------------------------------------------------------------- jobs

def _product_jobs(ctx, shapes, sepset, cis, tag, model, tols, per=3000, oracle=True):
    jobs = []
    for ci in cis:
        for (k, m) in shapes:
            total = len(sepset) ** (k + m)
            lo = 0
            while lo < total:
                n = min(per, total - lo)
                jobs.append({'seed': '%s/%d/%s/%d/%d%d/%d' % (ID, ctx.seed, tag, ci, k, m, lo), 'n': n, 'lo': lo,
                             'gen': _gen_product, 'oracle': _oracle if oracle else None, 'nontrivial': _nontrivial, 'model': model,
                             'tols': tols, 'shape': (k, m), 'sepset': sepset, 'ci': ci})
                lo += n
    return jobs


def _all_jobs(ctx, model, scale=1):
    upto = lambda n: [s for s in SHAPES if s[0] + s[1] <= n]
    allc = list(range(len(CONTEXTS)))
    jobs = []
    if not ctx.thorough:
        jobs += _product_jobs(ctx, upto(2), SEPS_FULL, [0], 'full2', model, (0, 1))
        jobs += _product_jobs(ctx, [s for s in SHAPES if s[0] + s[1] == 3], SEPS_FULL, [0], 'full3', model, (0,))
        jobs += _product_jobs(ctx, upto(3), SEPS_RED, allc[1:], 'red3', model, (0,))
        jobs += _product_jobs(ctx, [s for s in SHAPES if s[0] + s[1] == 4], SEPS_RED, [0], 'red4', model, (0,))
    else:
        jobs += _product_jobs(ctx, upto(6), SEPS_RED, [0], 'red6', model, (0,), per=8000)
        jobs += _product_jobs(ctx, [(3, 4)], SEPS_RED5, [0], 'red7', model, (0,), per=8000)
        jobs += _product_jobs(ctx, upto(3), SEPS_FULL, allc, 'full3', model, (0,), per=8000)
        if model:
            jobs += _product_jobs(ctx, upto(2), SEPS_FULL, allc, 'full2t', model, (1,), per=8000, oracle=False)
        jobs += _product_jobs(ctx, upto(4), SEPS_RED, allc[1:], 'red4', model, (0,), per=8000)
    nrand = ctx.pick(10000, 100000) * scale
    for k, n in enumerate(L.split(nrand, 2500)):
        jobs.append({'seed': '%s/%d/rand/%d' % (ID, ctx.seed, k), 'n': n, 'gen': _gen_random, 'oracle': _oracle,
                     'nontrivial': _nontrivial, 'model': model, 'tols': (0, 1)})
    nstray = len(CONTEXTS) * len(STRAY) * ctx.pick(1, 3)
    jobs.append({'seed': '%s/%d/stray' % (ID, ctx.seed), 'n': nstray, 'lo': 0, 'gen': _gen_stray, 'oracle': _oracle,
                 'nontrivial': _nontrivial, 'model': model, 'tols': (0, 1)})
    for k, n in enumerate(L.split(ctx.pick(2000, 40000) * scale, ctx.pick(125, 400))):
        jobs.append({'seed': '%s/%d/doc/%d' % (ID, ctx.seed, k), 'n': n, 'gen': _gen_doc, 'oracle': _oracle,
                     'nontrivial': _nontrivial, 'model': model, 'tols': (0, 1), 'depth': ctx.pick(5, 9)})
    # long jobs first
    jobs.sort(key=lambda j: -j['n'] * (3 if j['gen'] is _gen_doc else 1))
    return jobs


def _run(ctx, model=True, scale=1):
    key = (ctx.tier, ctx.seed, model, scale)
    if key not in _CACHE:
        _CACHE[key] = L.run_jobs(L.eval_docs, _all_jobs(ctx, model, scale))
    return _CACHE[key]


def _rule(ctx):
    if ctx.thorough:
        prod = ('separator x position product: all 20 shapes (0..3 brackets, 0..4 braces) at top level over 7 separator '
                'classes (3+4 groups: 5 classes), all 20 separators for up to 3 groups in every context, 7 classes for '
                'up to 4 groups in every context')
    else:
        prod = ('separator x position product for up to 3 groups: all 20 separators at top level, 7 separator classes in '
                'each of the other 9 contexts; 4 groups over 7 classes at top level')
    return (prod + '; random runs up to 3+4 groups with any separators, names and contexts (top level, environment, '
            'group, item, $..$, \\[..\\], align*, brace argument, bracket argument); group bodies with nested and '
            'unbalanced foreign delimiters; stray brackets after non-commands in every context; generated documents '
            'with attaching separators before every argument group; non-trivial = some separator is non-empty')


def correspondence(ctx):
    r = Result()
    common.impl()
    st = L.merge_jobs(_run(ctx, True), r, None)
    st.into(r)
    r.exhaustive = True
    r.rule = '`parse` at tolerance 0 and 1 compared textually on: ' + _rule(ctx)
    return r


def oracle(ctx, seeds, scale):
    r = Result()
    common.impl()
    # the inputs on which the correspondence diverged are among the (shared) inputs below, where they are
    # evaluated first-class with their generating record; nothing more can be said about a bare string
    r.stats['diverging_inputs_received'] = len([s for s in seeds if isinstance(s, str)])
    key = (ctx.tier, ctx.seed, True, 1)
    res = list(_CACHE[key]) if key in _CACHE and scale == 1 else list(_run(ctx, False, scale))
    st = L.merge_jobs(res, None, r)
    st.into(r)
    r.exhaustive = True
    r.rule = ('soup.find(name).args == the maximal attached run (kinds and exact str of each group), the command prints '
              'without the separators, the following siblings print as the rest of the source and contain the detached '
              'brace groups as groups and the detached bracket groups as plain text, str(soup) == source minus the '
              'attaching separators; no bracket group outside argument position; on: ' + _rule(ctx))
    return r


def _replay_input(s, skip=()):
    """Without the generating record only the generic part can be replayed: parses, and no bracket group outside
    argument position."""
    from TexSoup.data import BracketGroup
    line, soup, exc = common.impl_parse(s, 0, skip)
    if soup is None:
        return ['parse-fails ' + line]
    return ['bracket-not-text' for e, p, w in L.walk_exprs(soup) if isinstance(e, BracketGroup) and w != 'arg']


def replay_known(ctx, k):
    return bool(_replay_input(common.dec(k['input'])))


def replay(ctx, payload):
    f = payload.get('failure') or {}
    s = f.get('input')
    if not isinstance(s, str):
        return True, 'nothing to replay: ' + '; '.join(payload.get('broken', []))[:400]
    spec = f.get('spec')
    if spec:
        v = check_case(s, spec, common.impl_parse(s, 0, ()))
    else:
        v = _replay_input(s, tuple(f.get('skip') or ()))
    return not v, 'replay %r -> %r' % (s, v)
