"""C19 – Categorising and tokenising partition the input."""
import os
import sys

import common
import gen
from framework import Result

ID = 'C19'
LEAN_TARGETS = ['TexSoupProofs.Properties.C19']
THEOREMS = ['TexSoup.' + n for n in (
    'categorize_spec', 'categorize_length', 'categorize_getElem', 'catTable_keys_nodup', 'catMultiCount_zero',
    'catOf_unique', 'tokenize_total', 'tokenize_partition', 'tokenize_sublist', 'tokenize_keeps',
    'tokenize_lossless', 'token_nonempty', 'token_offsets', 'token_offsets_increasing', 'token_offsets_bounded')]
PARTIAL = []
TRUSTED = ['harness/gen_tables.py (category table, tokenizer order: regenerated from the working tree)',
           'correspondence harness (props/c19.py, common.py)',
           'modelled, not verified: control flow of category.categorize and tokens.*']
ASSUMPTIONS = ['CPython str/enumerate semantics', 'the model driver is the compiled form of the verified definitions']
LEAN_TARGETS = LEAN_TARGETS + ['TexSoupProofs.Properties.TableSpec']
# entries of the generated tables that the property's statement names (they stop compiling when a table edit drops them)
THEOREMS = THEOREMS + ['TexSoup.TableSpec.' + n for n in ['untabled_is_other', 'letter_chars', 'structural_chars', 'comment_ignored_invalid_chars', 'end_of_line_chars', 'spacer_chars']]


def _cat_chunk(rng_):
    lo, hi = rng_
    from TexSoup.category import categorize
    s = ''.join(chr(i) for i in range(lo, hi))
    return common.canon_cat(list(categorize(s)))


def _tok_impl(s):
    return common.impl_tokens(s)[0]


def correspondence(ctx):
    r = Result()
    common.impl()
    # (1) categorize: all 1,114,112 code points, each at its own index (chunks of 4096)
    step = 4096
    limit = sys.maxunicode + 1
    chunks = [(lo, min(lo + step, limit)) for lo in range(0, limit, step)]
    if not ctx.thorough:
        # quick: every table character's neighbourhood, all of the BMP, and a sample of the rest
        rg = ctx.rng('cat')
        chunks = chunks[:16] + rg.sample(chunks[16:], 24)
    impl = gen.pmap(_cat_chunk, chunks, chunk=4)
    reqs = ['cat ' + '.'.join(str(i) for i in range(lo, hi)) for lo, hi in chunks]
    model = common.model_batch_parallel(reqs)
    for (lo, hi), a, b in zip(chunks, impl, model):
        # model positions start at 0 for each request, like the implementation's
        r.count(('cat', lo), True)
        r.evaluations += (hi - lo) - 1
        if a != b:
            r.fail('cat-mismatch', 'categorize differs in code points %d..%d' % (lo, hi), input=[lo, hi])
    r.bump('code_points', sum(hi - lo for lo, hi in chunks))
    # (2) tokenize: exhaustive over one representative per category, random longer strings
    n = ctx.pick(3, 4)
    strs = list(gen.exhaustive(gen.CAT_ALPHA, n))
    rg = ctx.rng('tok')
    strs += list(gen.random_strings(rg, gen.CAT_ALPHA + gen.TOKEN_ALPHA, ctx.pick(4000, 60000), 4, 60))
    # characters beyond the table: one per class CPython's str predicates single out, surrogates (alone, paired, in
    # both orders), astral characters - next to every kind of context
    strs += gen.unicode_strings(ctx.rng('tok/uni'), ctx.pick(4000, 40000))
    strs += gen.codepoint_docs(ctx.rng('tok/cp'), ctx.thorough)       # every code point in context (sampled when quick)
    strs += gen.sizing_spacing_docs() + gen.length_boundary_docs() + gen.escape_docs()
    impl = gen.pmap(_tok_impl, strs)
    model = common.model_batch_parallel(['tok ' + common.enc(s) for s in strs])
    for s, a, b in zip(strs, impl, model):
        r.count(s, len(s) > 1)
        if a != b:
            r.fail('tok-mismatch', 'tokenize differs', input=s, impl=a[:300], model=b[:300])
    r.sample({'input': strs[len(strs) // 2], 'tokens': impl[len(strs) // 2][:200]})
    r.rule = ('categorize on whole code-point ranges (all 1,114,112 in thorough; BMP head + sampled chunks in quick); '
              'tokenize exhaustively on strings of length <= %d over %d category representatives plus random '
              'strings up to 60 symbols; non-trivial = length > 1' % (n, len(gen.CAT_ALPHA)))
    r.exhaustive = ctx.thorough
    return r


def _oracle_one(s):
    """Direct statement of C19 on the implementation. Returns None or (key, what)."""
    from TexSoup.category import categorize
    from TexSoup.tokens import tokenize
    from TexSoup.utils import CC
    try:
        chars = list(categorize(s))
    except Exception as e:
        return ('categorize-raises', type(e).__name__)
    if len(chars) != len(s):
        return ('categorize-length', '%d != %d' % (len(chars), len(s)))
    for i, c in enumerate(chars):
        if str(c) != s[i] or c.position != i or not isinstance(c.category, CC):
            return ('categorize-entry', 'index %d' % i)
    try:
        toks = common.impl_token_list(s)
    except Exception as e:
        return ('tokenize-raises', type(e).__name__)
    kept = ''.join(str(t) for t in toks)
    # only NUL/DEL may be dropped
    j = 0
    for ch in s:
        if j < len(kept) and kept[j] == ch:
            j += 1
        elif ch in '\x00\x7f':
            continue
        else:
            return ('not-a-partition', 'character %r lost or reordered' % ch)
    if j != len(kept):
        return ('not-a-partition', 'extra characters')
    last = 0
    for t in toks:
        if len(t.text) == 0:
            return ('empty-token', 'at %r' % t.position)
        if not s.startswith(t.text, t.position):
            return ('bad-offset', 'token %r at %r' % (t.text[:20], t.position))
        if t.position < last:
            return ('offsets-not-increasing', 'at %r' % t.position)
        last = t.position + len(t.text)
    return None


def oracle(ctx, seeds, scale):
    r = Result()
    common.impl()
    strs = [s for s in seeds if isinstance(s, str)]
    strs += list(gen.exhaustive(gen.CAT_ALPHA, ctx.pick(3, 4)))
    rg = ctx.rng('oracle')
    strs += list(gen.random_strings(rg, gen.CAT_ALPHA + gen.TOKEN_ALPHA, ctx.pick(3000, 40000) * scale, 3, 80))
    strs += [chr(i) for i in range(0, 0x3000)] + [chr(rg.randrange(0x3000, sys.maxunicode + 1)) for _ in range(2000)]
    strs += gen.unicode_strings(ctx.rng('oracle/uni'), ctx.pick(4000, 40000) * scale)
    strs += gen.codepoint_docs(ctx.rng('oracle/cp'), ctx.thorough)
    strs += gen.sizing_spacing_docs() + gen.length_boundary_docs() + gen.escape_docs()
    res = gen.pmap(_oracle_one, strs)
    for s, x in zip(strs, res):
        r.count(s, len(s) > 1)
        if x is not None:
            r.fail(x[0], x[1], input=s)
    r.sample({'input': strs[-1], 'verdict': 'holds'})
    r.rule = 'direct statement of the property on the implementation for the same string families'
    return r


def replay_known(ctx, k):
    return _oracle_one(common.dec(k['input'])) is not None


def replay(ctx, payload):
    f = payload.get('failure') or {}
    s = f.get('input')
    if not isinstance(s, str):
        return True, 'nothing to replay: ' + '; '.join(payload.get('broken', []))[:400]
    x = _oracle_one(s)
    return x is None, 'replay %r -> %r' % (s, x)
