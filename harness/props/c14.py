"""C14 – Renaming, re-stringing and re-argumenting change exactly that part."""
import itertools
import json
import random
import re
import zlib

import common
import lib_edit as L
import oracles
from common import enc, dec
from framework import Result
from props import _util
from props import c05

ID = 'C14'
LEAN_TARGETS = ['TexSoupProofs.Properties.C14', 'TexSoupProofs.Properties.C14Grammar', 'TexSoupProofs.Properties.AllInputs']
THEOREMS = ['TexSoup.C14.' + n for n in (
    'rename_splice_cmd', 'rename_splice_env', 'setString_splice', 'setArgs_splice', 'node_edit_preserves_others',
    'rename_preserves_below', 'rename_search', 'rename_count')] + ['TexSoup.C14G.' + n for n in (
    'rename_keeps_wf', 'renameCmds_keeps_wf', 'renameEnvs_keeps_wf', 'tree_of_renamed', 'rename_reparse',
    'rename_command_reparse', 'rename_environment_reparse', 'rename_reparse_of_source',
    'rename_command_reparse_of_source', 'rename_environment_reparse_of_source')] + [
    'TexSoup.Gram.WFD_rename', 'TexSoup.Gram.treeD_rename', 'TexSoup.Gram.separated_squeeze_rename',
    'TexSoup.NVar.separated', 'TexSoup.applyEdit_rename_eq'] + ['TexSoup.C14G.' + n for n in (
    'set_string_reparse_general', 'set_string_reparse_edit', 'set_string_command_reparse',
    'set_string_environment_reparse', 'set_string_command_reparse_of_source',
    'set_string_environment_reparse_of_source')] + [
    'TexSoup.Gram.WFD_setStr', 'TexSoup.Gram.treeD_setStr', 'TexSoup.Gram.separated_squeeze_setStr',
    'TexSoup.SVar.separated', 'TexSoup.updAt_root_mapSel'] + ['TexSoup.C14G.' + n for n in (
    'set_args_reparse_general', 'set_args_reparse_edit', 'set_args_command_reparse',
    'set_args_environment_reparse', 'interleaved_args_not_read_back')] + ['TexSoup.Gram.treeD_setArgs'] + [
    'TexSoup.C14.rename_command_reparse_all', 'TexSoup.C14.rename_environment_reparse_all',
    'TexSoup.C14.set_string_command_reparse_all', 'TexSoup.C14.set_string_environment_reparse_all',
    'TexSoup.AllInputs.StrictInput.doc', 'TexSoup.AllInputs.strictInput_of_checks', 'TexSoup.C02.parse_sound']
PARTIAL = ['"re-parsing the new text yields a tree that shows the same change": PROVED for renaming a command or an '
           'environment of a document of the grammar (C14G.rename_command_reparse_of_source / '
           'rename_environment_reparse_of_source, both tolerance modes: the text of applyEdit (treeD d) (.rename p new) parses '
           'to a tree of the same shape and text), under decidable side conditions: d is well-formed (Gram.WFD) and its tokens '
           'are a tokenizer output without a bare sizing prefix, environment names are written without blanks, the node is the '
           'only one with its name at its position, old/new are command names with the same role (sameRole: not item, both or '
           'neither end/begin, same signature, both or neither special) and new is no sizing prefix, resp. environment names '
           'with the same role (envRole: new without surrounding blanks, both or neither math environments, neither in the skip '
           'list; old starts with a letter, new can stand as one text token)',
           'the rename and the node.string clauses hold for EVERY strictly parsing representable input, not only for '
           'documents written in the grammar (C14.rename_command_reparse_all / rename_environment_reparse_all / '
           'set_string_command_reparse_all / set_string_environment_reparse_all in Properties/AllInputs.lean, via the '
           'exhaustiveness theorem C02.parse_sound): s parses strictly to es (AllInputs.StrictInput: no NUL/DEL, plain user skip '
           'names, `{name}` groups of one token written plainly after \\begin, no backslash at the very end, Gram.repL es: no '
           'made-up arguments, fixed signatures as declared), no command name is a bare sizing prefix, and the conditions on '
           'the node and the names as above, now stated on es itself; the text of applyEdit es (.rename p new) resp. '
           '(.setString p x) parses in both tolerance modes to a tree of the same shape resp. the same tree up to positions, and '
           'the same text. node.args is not lifted: its hypotheses speak about the re-argumented grammar document',
           'the same clause is PROVED for node.string = s on a single-argument command and on a text-only environment '
           '(C14G.set_string_command_reparse_of_source / set_string_environment_reparse_of_source, both tolerance modes: the '
           'text of applyEdit (treeD d) (.setString p s) parses to a tree that is equal up to positions (bareL: the assigned '
           'string has position -1 in the edited tree and a real offset after re-parsing) and has the same text), for d as '
           'above, the node being the only single-argument command (argument-less one-text environment) with its name at its '
           'position, not \\item, the environment not in the skip list, and goodText s (non-empty, first character not '
           'ignored, no backslash/brace/bracket/$/%, no leading blank run that the tokenizer splits off); the empty string '
           'and a string with a closing brace are shown to re-parse differently',
           'for node.args = [own arguments, reordered/sliced] the clause is PROVED conditionally '
           '(C14G.set_args_command_reparse / set_args_environment_reparse, both tolerance modes, tied to applyEdit .. (.setArgs p '
           '(pick idx args))): the kinds of the new list are of the form [..]^k {..}^l [..]^m {..}^n (environments: '
           '{..}^l [..]^m {..}^n behind \\begin{name}), the re-argumented grammar document is well-formed (Gram.WFD, '
           'decidable: the signature of the name and the tokens that follow admit exactly this run, Gram.runOK) and its squeezed '
           'token list is a tokenizer output (hypotheses, not derived from the source); it is REFUTED for other reorderings '
           '(C14G.interleaved_args_not_read_back: \\x[b][d]{a}{c} with args = [args[2], args[0], args[3], args[1]] prints '
           '\\x{a}[b]{c}[d], which is read as three arguments and the text [d]) and for a slice to the empty list in front of a '
           'letter (exGlue: \\x{a}b -> \\xb); on the implementation the oracle explores the clause (key reparse-differs) only '
           'for lists of the readable form, names without a special role in the reader and fixpoint documents']
# .args = for every strictly parsing representable input (Properties/AllInputs2.lean)
LEAN_TARGETS = LEAN_TARGETS + ['TexSoupProofs.Properties.AllInputs2']
THEOREMS = THEOREMS + ['TexSoup.C14.set_args_command_reparse_all', 'TexSoup.C14.set_args_environment_reparse_all']
TRUSTED = ['hand-written model of the node edits (lean/TexSoupModel/Edit.lean), tied to TexSoup/data.py by the '
           'correspondence run only',
           'correspondence harness (props/c14.py, lib_edit.py): structural paths, node acquisition through .contents by '
           'identity of .expr, canonical trees; permutations/prefixes/slices of the own arguments are sent to the model as '
           're-parsed copies of these arguments',
           'the span computation of the oracle (lib_edit.locate / resolve) = offAtRoot / stringSpan / argsPre of the proofs '
           'by inspection']
ASSUMPTIONS = ['the model driver is the compiled form of the verified definitions',
               'every edit starts from a deep copy of the freshly parsed tree (same canonical tree)',
               '.string is demanded to succeed for a command with exactly one argument and for an environment/group/math '
               'region without argument contents whose only non-blank content is one text; where the implementation '
               'accepts it on other nodes the same locality is demanded, where it refuses the document must be unchanged',
               'new names are plain identifiers (property quantifier); find_all is queried with such names only']

NAMES = ['y', 'q', 'zz', 'x', 'a', 'center', 'textbf', 'item', 'itemize', 'emph']
STRINGS = ['S', ' t ', 'a b', 'x1', '', ' ']
FIXED = c05.FIXED + ['\\a[o]{p}{q}\\a[o]{p}{q}', '\\begin{b}[o]{c \\x}t\\end{b}\\begin{b}[o]{c \\x}t\\end{b}',
                     '\\begin{b}\\begin{b}t\\end{b}\\end{b}', '\\q{\\q{\\q{r}}}', '\\begin{a}{c}\\end{a}',
                     '\\begin{a} \\end{a}$ m$', '\\x{a}{b}{c}{d} \\x{a}{b}{c}{d}',
                     # text-only environments whose stored body has several pieces, one of them non-blank
                     '\\begin{quote}\n\nwords\\end{quote}', '\\begin{a}%c\n\\end{a}\\begin{a}%c\n\\end{a}',
                     '$\n\nw$ {\n\nw}', '\\[\n\nw\\]\\begin{a}{c}\n\nw\\end{a}', '\\begin{b}\n\n\n\nw\\end{b}']


def _crc(*xs):
    return zlib.crc32('\x1f'.join(str(x) for x in xs).encode('utf-8', 'replace'))


_SPECIAL = []


def special_names():
    """Names with a role of their own in the reader/tokenizer (read from the code under test)."""
    if not _SPECIAL:
        from TexSoup import reader, tokens
        s = {'item', 'begin', 'end'} | set(reader.SIGNATURES)
        for attr in ('SPECIAL_COMMANDS', 'SKIP_ENV_NAMES', 'MATH_ENV_NAMES', 'SIZE_PREFIX'):
            s |= set(getattr(tokens, attr, ()))
        _SPECIAL.append(s)
    return _SPECIAL[0]


def ordinary(name):
    return name.isascii() and name.isalpha() and name not in special_names()


def arg_spec(a):
    """Material word that re-creates argument `a` on both sides (None if it does not)."""
    from TexSoup import data as D
    spec = ('n:' + enc(str(a))) if isinstance(a, D.TexCmd) else ('g:' + enc('\\x' + str(a)))
    try:
        m = L.material(spec, as_expr=True)
    except Exception:
        return None
    return spec if type(m) is type(a) and str(m) == str(a) else None


def arg_choices(n, rng, full):
    """Index lists into an argument list of length n: reversal, prefixes, slices, permutations."""
    out = [list(range(n))[::-1]]
    out += [list(range(k)) for k in range(n + 1)]
    out += [list(range(i, j)) for i in range(1, n + 1) for j in range(i, n + 1)]
    perms = list(itertools.permutations(range(n))) if n <= 3 else [rng.sample(range(n), n) for _ in range(4)]
    out += [list(p) for p in perms]
    seen, uniq = set(), []
    for c in out:
        if tuple(c) not in seen:
            seen.add(tuple(c))
            uniq.append(c)
    if not full and len(uniq) > 4:
        uniq = [uniq[0]] + rng.sample(uniq[1:], 3)
    return uniq


def node_edits(base, rng, cap=None, for_model=False):
    """[(op, nontrivial)] on the tree `base`: every command/environment renamed (names from NAMES),
    re-argumented (reversal, prefixes, slices, permutations of its own arguments, foreign
    arguments), every non-text node re-stringed.  for_model: only the vocabulary of the driver."""
    from TexSoup import data as D
    targets, _ = L.enum_tree(base)
    texts, names = {}, {}
    for path, x in targets:
        texts[str(x)] = texts.get(str(x), 0) + 1
        if isinstance(x, (D.TexCmd, D.TexNamedEnv)):
            names[str(x.name)] = names.get(str(x.name), 0) + 1
    full = cap is None
    if not full and len(targets) > cap:
        targets = rng.sample(targets, cap)
    out = []
    for path, x in targets:
        p = L.show_path(path)
        twin = texts[str(x)] >= 2
        if isinstance(x, (D.TexCmd, D.TexNamedEnv)):
            pool = rng.sample(NAMES, 4 if full else 2)
            for nm in pool:
                out.append(('ren %s %s' % (p, enc(nm)), twin or names.get(nm, 0) > (str(x.name) == nm)))
            n = len(x.args)
            specs = [arg_spec(a) for a in x.args]
            for idx in arg_choices(n, rng, full):
                nt = twin or n >= 2
                if for_model:
                    if all(specs[i] is not None for i in idx):
                        out.append(('args %s %s' % (p, ','.join(specs[i] for i in idx) or '_'), nt))
                out.append(('aop %s perm %s' % (p, ','.join(map(str, idx)) or '_'), nt))
            if True:        # the in-place / slice / put-back forms: the model answers them as .setArgs of the list result
                out.append(('aop %s rev' % p, twin or n >= 2))
                out.append(('aop %s rs' % p, twin or n >= 2))
                for i, j in ([(0, k) for k in range(n + 1)] if full else [(0, rng.randint(0, n))]):
                    out.append(('aop %s sl %d %d' % (p, i, j), twin or n >= 2))
                if n >= 2:
                    i = rng.randint(0, n - 1)
                    out.append(('aop %s sl %d %d' % (p, i, rng.randint(i, n)), True))
                # take the list, (edit it in place,) put the same object back
                out.append(('aop %s same' % p, twin or n >= 1))
                out.append(('aop %s srev' % p, twin or n >= 2))
                for i in (range(-n, n) if full else ([rng.randrange(-n, n)] if n else [])):
                    out.append(('aop %s spop %d' % (p, i), True))
                gm = [m for m in L.ARG_MATS if m[0] == 'g']
                out.append(('aop %s sins %d %s' % (p, rng.randint(0, n), rng.choice(gm)), True))
                out.append(('aop %s sapp %s' % (p, rng.choice(gm)), True))
                # kept slices (a slice is a copy): keep = args[lo:hi]; edit the node's list in place; the slice still has
                # the old elements; args = keep - and the converse: editing the kept slice leaves the node alone
                bounds = L.slice_bounds(n)
                inner = ['rev', 'clr', 'pop 0', 'pop -1', 'ins 0 ' + gm[0], 'app ' + gm[1 % len(gm)], 'set 0 ' + gm[0]]
                for lo, hi in (bounds if full else rng.sample(bounds, 4)):
                    for op_in in (inner if full else rng.sample(inner, 2)):
                        out.append(('aop %s ks %s %s %s' % (p, lo, hi, op_in), True))
                    out.append(('aop %s kc %s %s %s' % (p, lo, hi, rng.choice(['pop 0', 'rev'])), True))
                    out.append(('aop %s kca %s %s %s' % (p, lo, hi, rng.choice(['pop 0', 'rev', 'pop -1'])), True))
            k = rng.randint(0, 3)
            out.append(('args %s %s' % (p, ','.join(rng.choice(L.ARG_MATS) for _ in range(k)) or '_'), twin or n >= 1))
        if not isinstance(x, D.TexText):
            for st in (STRINGS if full else rng.sample(STRINGS, 2)):
                out.append(('str %s %s' % (p, enc(st)), twin))
    return out


# ------------------------------------------------------------------------------------ correspondence

def _corr_unit(unit):
    docs, seed, cap = unit
    T = common.impl()
    rng = random.Random(seed)
    docs = c05._unit_docs(docs, rng)
    cases, reqs = [], []
    for doc in docs:
        base = T.TexSoup(doc)
        for op, nt in node_edits(base, rng, cap, for_model=True):
            cases.append((doc, base, op, nt))
            reqs.append(L.edit_req(doc, [op]))
    model = _util.model(reqs)
    n, hashes, fails, kinds = 0, [], [], {'documents': len(docs)}
    for (doc, base, op, nt), m in zip(cases, model):
        a = L.impl_edit(doc, [op], soup=L.clone(base))
        n += 1
        kind = op.split(' ')[0]
        kinds[kind] = kinds.get(kind, 0) + 1
        if a.startswith('EDIT FAIL'):
            kinds['refused_' + kind] = kinds.get('refused_' + kind, 0) + 1
        if nt:
            hashes.append(_crc(doc, op))
        if a != m and len(fails) < 3:
            fails.append({'key': 'model-mismatch-' + kind, 'what': L.explain(doc, [op])[:600],
                          'input': {'doc': doc, 'ops': [op]}})
    return n, hashes, fails, kinds


def correspondence(ctx):
    r = Result()
    common.impl()
    rng = ctx.rng('corr')
    cap = ctx.pick(10, None)
    units = c05._units(_fixed(), rng, cap, per=2) + c05._units(ctx.pick(500, 1500), rng, cap)
    c05._collect(r, _util.pmap(_corr_unit, units))
    op = 'ren b0 ' + enc('q')
    r.sample({'request': L.edit_req(FIXED[0], [op]), 'impl': L.impl_edit(FIXED[0], [op])})
    r.rule = ('edit request (one op; answer = str(soup) after the op or FAIL, plus the canonical final tree) model vs the real '
              'TexNode API on %d hand-written documents + lib_edit.gen_doc documents: %s, node.name = one of %s; '
              'node.args = TexArgs(..) with the reversal, every prefix, every slice and permutations of its own arguments '
              '(as re-parsed copies) and with foreign arguments; the same through the list itself (request aop: '
              'node.args.reverse(), node.args = node.args[::-1] / [i:j] / TexArgs([node.args[i] ..]), and the own list put back '
              'after nothing / reverse / pop(i) / insert(i, group) / append(group) in place), which the model answers as '
              '.setArgs of the result of the operation on a plain list (lean/TexSoupModel/ArgsEdit.lean); node.string = one of %r on %s (refusals must be refused by '
              'the model too); non-trivial = the target has a textual twin, another node already carries the new name, or '
              'the node has at least two arguments'
              % (len(FIXED), 'every command/environment' if cap is None else 'up to %d sampled nodes per document' % cap,
                 '%s of %s' % ('four' if cap is None else 'two', NAMES), STRINGS, 'every non-text node'))
    r.exhaustive = cap is None
    return r


def _fixed():
    T = common.impl()
    out = []
    for d in FIXED:
        try:
            T.TexSoup(d)
            out.append(d)
        except Exception:
            pass
    return out


# ------------------------------------------------------------------------------------ oracle

def _canon(soup):
    return oracles.strip_positions(common.canon_root(soup))


def is_fixpoint(base):
    T = common.impl()
    try:
        return _canon(T.TexSoup(str(base))) == _canon(base)
    except Exception:
        return False


def _plain_text(s):
    return s.strip() != '' and all(ch.isalnum() or ch == ' ' for ch in s) and s.isascii()


def _ids(nodes):
    return [id(n.expr) for n in nodes]


def check_edit(base, before, fixpoint, op):
    """C14 as stated, on the implementation alone. None | 'skip' | 'refused' | (key, what)."""
    from TexSoup import data as D
    T = common.impl()
    soup = L.clone(base)
    P = L.Op(op)
    res = L.resolve(soup, P)
    if res[0] == 'skip':
        return 'skip'
    _, x, _, _ = L.locate(soup, P.path)
    kind = P.kind
    key = {'ren': 'rename-not-local', 'str': 'string-not-local'}.get(kind, 'args-not-local')
    if kind == 'ren':
        old, new = str(x.name), P.name
        f_old, f_new = _ids(soup.find_all(old)), _ids(soup.find_all(new))
    strict = True
    if kind == 'str':
        if res[0] == 'refuse':
            strict = False
        elif not isinstance(x, D.TexCmd):
            strict = not any(L.flat_contents(a) for a in x.args)
    if kind == 'aop' and res[0] == 'refuse':
        strict = False                    # the list operation itself raises (pop from an empty list ..): nothing may change
    eligible = fixpoint and reparse_eligible(P, x)
    chosen = None
    if kind == 'aop' and res[0] == 'splice':
        chosen = [id(a) for a in res[2]['ref']]
    exc = None
    try:
        L.perform(soup, P)
    except RecursionError:
        raise
    except Exception as e:
        exc = e
    after = str(soup)
    what = describe(op)
    if exc is not None:
        if after != before:
            return (key, '%s raised %s but the document changed: %r -> %r' % (
                what, type(exc).__name__, before[:120], after[:120]))
        if strict:
            return (key, '%s raised %s: %s' % (what, type(exc).__name__, str(exc)[:100]))
        return 'refused'
    if res[0] == 'refuse':
        return 'skip'                     # accepted outside the scope of the statement: nothing is demanded
    want = L.ref_apply(before, res[1])
    if after != want:
        return (key, '%s: spans %s of %r should become %r, got %r' % (
            what, [(k, k + n) for k, n, _ in res[1]], before[:160], want[:160], after[:160]))
    if kind == 'aop' and [id(a) for a in soup_args(soup, P.path)] != chosen:
        return (key, '%s: the argument list does not hold the chosen argument objects' % what)
    if kind == 'ren':
        g_old, g_new = _ids(soup.find_all(old)), _ids(soup.find_all(new))
        me = id(x)
        if old == new:
            ok = g_old == f_old
        else:
            ok = me not in f_new and g_new.count(me) == 1 and [i for i in g_new if i != me] == f_new
            if '{' not in old and '[' not in old:      # otherwise find_all(old) is a full-text query, not a name
                ok = ok and f_old.count(me) == 1 and me not in g_old and [i for i in f_old if i != me] == g_old
        if not ok:
            return ('rename-search', '%s: find_all(%r) had %d results and has %d, find_all(%r) had %d and has %d; the '
                    'renamed node must move from the one to the other and nothing else' % (
                        what, old, len(f_old), len(g_old), new, len(f_new), len(g_new)))
        if soup.count(new) != len(g_new) or (g_new and soup.find(new).expr is not soup.find_all(new)[0].expr):
            return ('rename-search', '%s: count/find(%r) disagree with find_all' % (what, new))
    # explored clause: the re-parsed text shows the same change
    if eligible == 'unreadable-run':
        # input class of the recorded finding F21 (kinds of the new list not of the form [*{*[*{*, resp. [*{* after
        # \begin{name}): reported under its own key when the re-parse indeed differs
        try:
            again = _canon(T.TexSoup(after))
        except RecursionError:
            raise
        except Exception as e:
            again = 'raises %s' % type(e).__name__
        if again != _canon(soup):
            return ('reparse-unreadable-args', '%s: %r is not read back as one argument run (%s)' % (
                what, after[:120], again[:160]))
        return None
    if eligible and kind in ('args', 'aop') and isinstance(x, D.TexCmd) and res[0] == 'splice' and len(res[1]) == 1 \
            and res[1][0][2] == '' and res[1][0][1] > 0:
        # all arguments removed: if a letter (or `*`) follows, the printed name runs into it (`\\x{a}b` -> `\\xb`);
        # input class of the recorded finding F21b
        k, n, _ = res[1][0]
        nxt = before[k + n:k + n + 1]
        if nxt and (nxt in LETTERS_STAR):
            try:
                again = _canon(T.TexSoup(after))
            except RecursionError:
                raise
            except Exception as e:
                again = 'raises %s' % type(e).__name__
            if again != _canon(soup):
                return ('reparse-name-glued', '%s: %r - the command name runs into the following text (%s)' % (
                    what, after[:120], again[:160]))
            return None
    if eligible:
        try:
            again = _canon(T.TexSoup(after))
        except RecursionError:
            raise
        except Exception as e:
            again = 'raises %s' % type(e).__name__
        mine = _canon(soup)
        if again != mine:
            return ('reparse-differs', '%s: %r re-parses to %s, the edited tree is %s' % (
                what, after[:120], again[:200], mine[:200]))
        return 'reparsed'
    return None


LETTERS_STAR = 'abcdefghijklmnopqrstuvwxyzABCDEFGHIJKLMNOPQRSTUVWXYZ*'


def soup_args(soup, path):
    return list(L.locate(soup, path)[1].args)


def reparse_eligible(P, x):
    from TexSoup import data as D
    if any(isinstance(a, D.TexCmd) for a in x.args):
        return False
    if P.kind == 'ren':
        return ordinary(P.name) and ordinary(str(x.name))
    if P.kind in ('args', 'aop'):
        if P.kind == 'args':
            new = P.mats
        else:
            try:
                new = L._list_op(P, list(x.args))
            except (IndexError, ValueError):
                return False
        shape = ''.join('o' if isinstance(a, D.BracketGroup) else 'r' if isinstance(a, D.BraceGroup) else '?'
                        for a in new)
        # what read_args reads back: [..]*{..}*[..]*{..}* after a command, [..]*{..}* after \begin{name}
        pattern = r'o*r*\Z' if isinstance(x, D.TexNamedEnv) else r'o*r*o*r*\Z'
        if ordinary(str(x.name)) and re.match(pattern, shape) is None and '?' not in shape:
            return 'unreadable-run'       # recorded finding F21: the printed run is not read back as one argument list
        return ordinary(str(x.name)) and re.match(pattern, shape) is not None
    if P.kind == 'str':
        return _plain_text(P.string)
    return False


def describe(op):
    w = op.split(' ')
    if w[0] == 'ren':
        return 'node.name = %r (node at %s)' % (dec(w[2]), w[1])
    if w[0] == 'str':
        return 'node.string = %r (node at %s)' % (dec(w[2]), w[1])
    if w[0] == 'args':
        return 'node.args = TexArgs(%s) (node at %s)' % (
            [dec(m[2:]) for m in w[2].split(',')] if w[2] != '_' else [], w[1])
    sub = {'rev': 'node.args.reverse()', 'rs': 'node.args = node.args[::-1]',
           'same': 'a = node.args; node.args = a', 'srev': 'a = node.args; a.reverse(); node.args = a'}.get(w[2])
    if w[2] == 'spop':
        sub = 'a = node.args; a.pop(%s); node.args = a' % w[3]
    if w[2] == 'sins':
        sub = 'a = node.args; a.insert(%s, %s); node.args = a' % (w[3], L.mat_show(w[4]))
    if w[2] == 'sapp':
        sub = 'a = node.args; a.append(%s); node.args = a' % L.mat_show(w[3])
    if w[2] in ('ks', 'kc', 'kca'):
        sl = 'node.args[%s:%s]' % ('' if w[3] == '_' else w[3], '' if w[4] == '_' else w[4])
        who = 'node.args' if w[2] == 'ks' else 'keep'
        inner = {'rev': '%s.reverse()', 'clr': '%s.clear()'}.get(w[5], '%s.' + w[5] + '(..)') % who
        if w[5] == 'pop':
            inner = '%s.pop(%s)' % (who, w[6])
        elif w[5] == 'ins':
            inner = '%s.insert(%s, %s)' % (who, w[6], L.mat_show(w[7]))
        elif w[5] == 'app':
            inner = '%s.append(%s)' % (who, L.mat_show(w[6]))
        elif w[5] == 'set':
            inner = '%s[%s] = %s' % (who, w[6], L.mat_show(w[7]))
        sub = 'keep = %s; %s%s' % (sl, inner, '; (keep must hold the old elements;) node.args = keep' if w[2] == 'ks'
                                   else '; node.args = keep' if w[2] == 'kca' else ' (the node keeps its arguments)')
    if w[2] == 'sl':
        sub = 'node.args = node.args[%s:%s]' % (w[3], w[4])
    if w[2] == 'perm':
        sub = 'node.args = TexArgs([node.args[i] for i in [%s]])' % ('' if w[3] == '_' else w[3])
    return '%s (node at %s)' % (sub, w[1])


def _oracle_unit(unit):
    docs, seed, cap = unit
    T = common.impl()
    rng = random.Random(seed)
    docs = c05._unit_docs(docs, rng)
    n, hashes, fails, stats = 0, [], [], {'documents': len(docs)}
    for doc in docs:
        base = T.TexSoup(doc)
        before = str(base)
        fix = is_fixpoint(base)
        stats['fixpoint_documents'] = stats.get('fixpoint_documents', 0) + fix
        for op, nt in node_edits(base, rng, cap):
            x = check_edit(base, before, fix, op)
            n += 1
            kind = op.split(' ')[0]
            if kind == 'aop':
                kind = 'args'
            if x in ('skip', 'refused'):
                stats[x + '_' + kind] = stats.get(x + '_' + kind, 0) + 1
                continue
            stats[kind] = stats.get(kind, 0) + 1
            if x == 'reparsed':
                stats['reparsed_' + kind] = stats.get('reparsed_' + kind, 0) + 1
                x = None
            if nt:
                hashes.append(_crc(doc, op))
                stats['twin_or_shared_name'] = stats.get('twin_or_shared_name', 0) + 1
            if x is not None and len(fails) < 5:
                fails.append({'key': x[0], 'what': x[1], 'input': {'doc': doc, 'ops': [op]}})
    return n, hashes, fails, stats


def oracle(ctx, seeds, scale):
    r = Result()
    common.impl()
    rng = ctx.rng('oracle')
    seed_docs = []
    for s in seeds:
        if isinstance(s, dict) and isinstance(s.get('doc'), str) and s['doc'] not in seed_docs:
            seed_docs.append(s['doc'])
    cap = ctx.pick(8, None)
    units = c05._units(seed_docs[:60], rng, None, per=1)
    fixed = _fixed() + [d for d in c05.documents(rng, 0, corpus_max=ctx.pick(300, 1500)) if d not in FIXED]
    units += c05._units(fixed, rng, cap, per=2)
    units += c05._units(ctx.pick(320, 800) * scale, rng, cap)
    c05._collect_oracle(r, _util.pmap(_oracle_unit, units))
    r.failures.sort(key=lambda f: len(f['input']['doc']))
    r.sample({'doc': '\\begin{a}t\\end{a}', 'edit': "node.name = 'q' (node at b0)", 'expected': '\\begin{q}t\\end{q}',
              'got': _demo()})
    r.rule = ('offsets as in C05 (lengths of the texts of what precedes the node structurally, never .position). '
              'rename of every command/environment to plain identifiers: str(soup) changes exactly at the name span after the '
              'backslash, resp. at the two name spans inside \\begin{..} and \\end{..}; find_all(old) loses exactly that node '
              '(identity of .expr, order kept), find_all(new) gains exactly it, count/find agree. node.string = s: exactly the '
              'inside of the single argument, resp. the body of the text-only environment/group/math region, becomes s (the '
              'whole stored body, hidden blank-only pieces included: bodies like a blank line followed by words, or a comment '
              'followed by the line break, are among the hand-written and the generated documents). '
              'node.args assigned the reversal ([::-1] and .reverse()), prefixes, slices, permutations of its own arguments '
              '(TexArgs slicing) or foreign arguments, or the node\'s own list object put back after nothing / reverse() / '
              'pop(i) / insert(i, group) / append(group) on it in place (a = node.args; ..; node.args = a: the list as it is '
              'after the in-place edit), or a slice kept across an in-place edit (keep = node.args[lo:hi] for every bound shape, '
              'the full-range ones included; reverse/clear/pop/insert/append/slot assignment on node.args; keep must still '
              'hold the old elements; node.args = keep - and pop/reverse on keep must leave the node alone until keep is '
              'assigned; a slice is a copy): exactly the argument span becomes the concatenation of their texts and '
              'the list holds those objects. An edit that raises must leave str(soup) unchanged. Explored clause (see '
              'partial_clauses): TexSoup(str(soup)) and the edited tree have the same canonical tree without positions. '
              'Documents: hand-written, lib_edit.gen_doc, short repository documents; %s; non-trivial = textual twin of the '
              'target, shared new name, or at least two arguments'
              % ('every node' if cap is None else 'up to %d sampled nodes per document' % cap))
    r.exhaustive = cap is None
    return r


def _demo():
    T = common.impl()
    s = T.TexSoup('\\begin{a}t\\end{a}')
    L.node_for(s, L.parse_path('b0')).name = 'q'
    return str(s)


def _replay_input(inp):
    T = common.impl()
    base = T.TexSoup(inp['doc'])
    return check_edit(base, str(base), is_fixpoint(base), inp['ops'][0])


def replay_known(ctx, k):
    try:
        x = _replay_input(json.loads(dec(k['input'])))
    except Exception:
        return False
    return isinstance(x, tuple)


def replay(ctx, payload):
    f = payload.get('failure') or {}
    inp = f.get('input')
    if not isinstance(inp, dict) or 'doc' not in inp:
        d = payload.get('disagreements') or []
        if d and isinstance(d[0].get('input'), dict):
            inp = d[0]['input']
            still = L.disagree(inp['doc'], inp['ops'])
            return not still, 'model/implementation disagreement (%s):\n%s' % (
                'persists' if still else 'gone', L.explain(inp['doc'], inp['ops']))
        return True, 'nothing to replay: ' + '; '.join(payload.get('broken', []))[:600]
    x = _replay_input(inp)
    return not isinstance(x, tuple), 'replay %r %s -> %r' % (inp['doc'], inp['ops'], x)
