"""C16 – Serialised output is a fixed point of the parser."""
import common
import gen
import oracles
import parsecorr
from framework import Result

ID = 'C16'
LEAN_TARGETS = ['TexSoupProofs.Properties.C16', 'TexSoupProofs.Properties.C16Grammar', 'TexSoupProofs.Properties.C02Sound']
THEOREMS = ['TexSoup.C16.' + n for n in ('output_is_input', 'fixpoint_nodrop', 'second_pass_sublist')] + [
    'TexSoup.C16G.serialisation_is_squeezed_text', 'TexSoup.C16G.squeezed_wf', 'TexSoup.C16G.squeezed_same_tree', 'TexSoup.C16G.reparse_fixed_point', 'TexSoup.C16G.noBareSizing_spec', 'TexSoup.C16G.reparse_fixed_point_of_source', 'TexSoup.C16G.reparse_exact',
    'TexSoup.C16.reparse_fixed_point_all', 'TexSoup.C02.parse_sound', 'TexSoup.C02.grammar_exhaustive']
PARTIAL = ['proved for ALL strictly parsing inputs that are representable in the grammar (C16.reparse_fixed_point_all, via the '
           'exhaustiveness theorem C02.parse_sound: a representable strict parse IS the tree of a well-formed document): the '
           'serialised text re-parses, in both tolerance modes, to a tree of the same shape and the same text. Side '
           'conditions: no NUL/DEL; the property\'s own (no bare sizing prefix as a command name; environment names written '
           'plainly after \\begin – finding F4b); representability: no made-up arguments, fixed-signature commands with all '
           'their required brace groups (continuation arguments `\\section{a}[b]` included), `{name}` groups of one token, no backslash at the very end (the former proof gap – an '
           'argument-less command directly followed by a brace group in the body of a math-mode environment – is closed: '
           'Gram.peekCond_of_peek). Outside these (made-up arguments, `\\def` at the end of input, several-token environment names) the squeeze case '
           'is explored by the oracle; the no-drop case is proved for all inputs']
TRUSTED = ['harness/gen_tables.py', 'correspondence harness (parsecorr.py): parse of s and of the serialised text',
           'modelled, not verified: control flow of reader.py, tokens.py, data.py serialisers']
ASSUMPTIONS = ['CPython str semantics', 'the model driver is the compiled form of the verified definitions']
LEAN_TARGETS = LEAN_TARGETS + ['TexSoupProofs.Properties.TableSpec']
# entries of the generated tables that the property's statement names (they stop compiling when a table edit drops them)
THEOREMS = THEOREMS + ['TexSoup.TableSpec.' + n for n in ['fixed_signatures', 'sizing_prefixes_and_delimiters', 'spacer_chars', 'mandatory_argument_commands']]

ALPHA = [a for a in gen.TOKEN_ALPHA if '\x00' not in a and '\x7f' not in a]


def _ser_of(line):
    return common.dec(line.split(' SER ')[1]) if line.startswith('TREE') else None


def correspondence(ctx):
    r = Result()
    common.impl()
    cases = parsecorr.alpha_cases(ctx, ALPHA, ctx.pick(2, 3), ctx.pick(4000, 50000), 3, 12, tols=(0,), tag='c16')
    impl = parsecorr.run_cases(r, cases)
    # second generation: the serialised texts themselves
    second = sorted({_ser_of(l) for l in impl if l.startswith('TREE')} - {None})
    parsecorr.run_cases(r, [(t, 0, ()) for t in second], tag='reparse')
    r.rule = ('parse model vs implementation on strings over the token-kind alphabet AND on the serialised output of every '
              'string that parsed (the inputs of the second pass); non-trivial = more than two characters')
    return r


def check_one(s):
    if '\x00' in s or '\x7f' in s:
        return None
    l0, soup, _ = common.impl_parse(s, 0)
    if soup is None or oracles.excused_bare_args(soup) or oracles.hidden_bare(s) or oracles.size_prefix_detached(s) \
            or oracles.name_not_in_source(s, soup):
        return None
    t = str(soup)
    l1, soup1, exc = common.impl_parse(t, 0)
    key = None
    if soup1 is None:
        key, what = 'reparse-fails', '%r -> %r -> %s' % (s[:60], t[:60], l1)
    elif str(soup1) != t:
        key, what = 'drift', '%r -> %r -> %r' % (s[:50], t[:50], str(soup1)[:50])
    else:
        a = oracles.strip_positions(l0.split(' SER ')[0])
        b = oracles.strip_positions(l1.split(' SER ')[0])
        if a != b:
            key, what = 'shape-changes', '%r: %s vs %s' % (s[:50], a[:100], b[:100])
    if key is None:
        return 'ok'
    s2 = oracles.f4b_repair(s)
    if s2 != s and check_one(s2) in (None, 'ok'):
        return ('env-name-f4b', what)
    return (key, what)


def _check(s):
    try:
        return check_one(s)
    except RecursionError:
        return None


def oracle(ctx, seeds, scale):
    r = Result()
    common.impl()
    rg = ctx.rng('oracle')
    strs = [s for s in seeds if isinstance(s, str)]
    strs += list(gen.exhaustive(ALPHA, ctx.pick(2, 3)))
    strs += list(gen.random_strings(rg, ALPHA, ctx.pick(8000, 120000) * scale, 3, 14))
    strs += list(gen.exhaustive(parsecorr.CORE_ALPHA, ctx.pick(4, 5), 3))
    strs += list(gen.random_strings(rg, parsecorr.ENV_ALPHA, ctx.pick(4000, 50000) * scale, 3, 9))
    # well-formed documents written with arbitrary whitespace between commands and their arguments
    seps = ['', ' ', '  ', '\t', '\n', ' \n ', '\n\t']
    for _ in range(ctx.pick(600, 8000) * scale):
        d = oracles.mini_doc(rg, 3)
        d = d.replace('}{', '}' + rg.choice(seps) + '{').replace(']{', ']' + rg.choice(seps) + '{')
        for nm in ('x', 'yy', 'foo', 'emph', 'ref'):
            d = d.replace('\\' + nm + '{', '\\' + nm + rg.choice(seps) + '{').replace('\\' + nm + '[', '\\' + nm + rg.choice(seps) + '[')
        strs.append(d)
    strs += gen.padded_env_docs() + gen.env_body_start_docs()
    strs += gen.definition_docs() + gen.signature_probe_docs() + gen.escape_docs() + gen.codepoint_docs(rg, False, 500) + [d for d, _ in gen.name_neighbour_docs()]
    docs = gen.corpus()
    strs += docs
    for d in docs[:40]:
        strs += gen.mutations(rg, d, ctx.pick(3, 10))
    res = gen.pmap(_check, strs)
    for s, x in zip(strs, res):
        if x is None:
            r.bump('out_of_scope')
            r.evaluations += 1
            continue
        r.bump('in_scope')
        r.count(s, len(s) > 2)
        if x != 'ok':
            r.fail(x[0], x[1], input=s)
    r.sample({'input': '\\x {a}', 'first_output': '\\x{a}', 'second_output': '\\x{a}', 'verdict': 'fixed point'})
    r.rule = ('t = str(TexSoup(s)) for every in-scope s that parses strictly; TexSoup(t) must succeed, have the same canonical '
              'tree up to positions, and str(TexSoup(t)) == t; inputs: alphabet strings (exhaustive short, random), generated '
              'documents with arbitrary whitespace between commands and arguments, repository documents and mutants')
    return r


def replay_known(ctx, k):
    return _check(common.dec(k['input'])) not in (None, 'ok')


def replay(ctx, payload):
    f = payload.get('failure') or {}
    s = f.get('input')
    if not isinstance(s, str):
        return True, 'nothing to replay: ' + '; '.join(payload.get('broken', []))[:600]
    x = _check(s)
    return x in (None, 'ok'), 'replay %r -> %r' % (s, x)
