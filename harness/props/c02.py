"""C02 – The parse tree mirrors the construct structure of the document."""
import common
import gen_doc as G
import lib_doc as L
from framework import Result

ID = 'C02'
LEAN_TARGETS = ['TexSoupProofs.Properties.C02', 'TexSoupProofs.Properties.C02Strings', 'TexSoupProofs.Properties.C02Sound',
                'TexSoupProofs.Properties.AllInputs']
THEOREMS = ['TexSoup.C02.' + n for n in (
    'tree_mirrors_document', 'parse_complete', 'construct_read_back', 'zero_arg_operator_absorbs_nothing',
    'special_command_reads_args_in_special_mode', 'special_mode_is_inherited', 'begin_end_in_special_are_commands',
    'item_owns_up_to_stop', 'document_parses', 'document_parses_both', 'document_roundtrip', 'cert_sound',
    'grammar_exhaustive', 'reader_sound', 'parse_sound', 'parse_sound_of_checks',
    'strict_parse_is_tolerant_parse', 'grammar_exhaustive_tolerant')] + [
    'TexSoup.Gram.peekCond_of_peek', 'TexSoup.readArg_math_nonMath', 'TexSoup.Gram.WFs_mle']
PARTIAL = ['the Lean grammar (TexSoupModel/Grammar.lean) and the Python document generator (gen_doc.py) are two '
           'descriptions of "documented constructs": that the generator only emits documents of the proved grammar is '
           'not itself proved; the three-way comparison AST / implementation / model in this check ties them, and '
           'every generated document and every corpus document of a run is CERTIFIED individually: the driver '
           'rebuilds a grammar document from its tokens and tree (untrusted search) and evaluates the hypotheses of '
           'theorem C02.cert_sound / C02.document_parses on it with the compiled definitions, so the theorem '
           'demonstrably applies to that input (counts: cert_* statistics and the rule text of the run)',
           'restriction of the proved grammar: environment names are single text tokens (the reader accepts any brace '
           'group after \\begin / \\end and compares strip of its serialised contents); argument runs are described '
           'completely, for open and for fixed signatures, including the continuation argument `\\section{a}[b]` that '
           'read_args takes in its second pass (Gram.runOK, example C02.exSection)',
           'the converse is proved as well (C02.parse_sound / grammar_exhaustive, TexSoupProofs/Sound): every strict parse '
           'whose tree is representable (no made-up arguments, a fixed-signature command has all its required brace groups – '
           'only a command cut off by the end of input is excluded –, one-token `{name}` groups, no '
           'backslash at the very end) is treeD of a well-formed document with exactly the input\'s tokens – every '
           'frame condition of the grammar, including the look-ahead clause for an argument-less command in front of a '
           'brace group in a math-mode environment body (Gram.peekCond_of_peek: derived from the success of that very '
           'look-ahead), is implied by the reader\'s success, so the grammar is not stricter than the parser on '
           'representable inputs; the same holds for the tolerant result whenever the strict read succeeds too '
           '(C02.grammar_exhaustive_tolerant)']
TRUSTED = ['harness/gen_doc.py (grammar of documented constructs, expected tree of a generated document, frame '
           'conditions, normal form of canonical trees: adjacent text leaves merged, positions dropped)',
           'correspondence harness (props/c02.py, lib_doc.py, common.py)']
ASSUMPTIONS = ['CPython str semantics', 'the model driver is the compiled form of the verified definitions',
               'the generating syntax tree is the oracle; a text run may be delivered as several adjacent text '
               'leaves (tokens), a comment is exactly one leaf',
               'excluded on purpose: verbatim inside items/groups/math, `$a$$b$`, blank-padded environment names, '
               '`\\begin[a]`, an environment body starting with (blanks +) an opener, a bracket group directly '
               'after a command\'s brace arguments other than as its argument']
LEAN_TARGETS = LEAN_TARGETS + ['TexSoupProofs.Properties.TableSpec']
# entries of the generated tables that the property's statement names (they stop compiling when a table edit drops them)
THEOREMS = THEOREMS + ['TexSoup.TableSpec.' + n for n in ['letter_chars', 'definition_commands']]

_CACHE = {}


def _gen(rng, i, job):
    d = rng.randint(1, job['depth'])
    layout = 'spaced' if rng.random() < 0.3 else 'adjacent'
    src, ast = G.document(rng, depth=d, layout=layout, twins=0.06, hostile=0.3, width=rng.randint(2, 5))
    return src, ast, None


def _nontrivial(src, ast, extra):
    return len(G.constructs(ast) - {'text', 'escape', 'blank-line'}) >= 2


def tree_mismatch(src, ast, parsed=None):
    """None if the real tree of `src` is the generating tree, else a description."""
    line, soup, exc = parsed or common.impl_parse(src, 0, ast.skip)
    if soup is None:
        return '%s: %s' % (line, str(exc)[:120])
    want = G.expected_canon(ast)
    got = G.normalise(common.canon_root(soup))
    if want == got:
        return None
    k = next((j for j in range(min(len(want), len(got))) if want[j] != got[j]), min(len(want), len(got)))
    return 'trees differ from canonical offset %d: expected ...%s, got ...%s' % (k, want[max(0, k - 30):k + 60],
                                                                                 got[max(0, k - 30):k + 60])


def _oracle(src, ast, extra, parsed):
    what = tree_mismatch(src, ast, parsed)
    if what is None:
        return None
    key = 'parse-fails' if parsed[1] is None else 'tree-mismatch'
    # shrink on the generating tree while the same kind of failure persists
    def fails(s, a):
        p = common.impl_parse(s, 0, a.skip)
        return tree_mismatch(s, a, p) is not None and ((p[1] is None) == (parsed[1] is None))
    small, sast = G.shrink(ast, fails, budget=300) if L.may_shrink() else (src, ast)
    return [(key, tree_mismatch(small, sast) or what,
             {'input': small, 'skip': list(sast.skip), 'original': src[:400], 'expected': G.expected_canon(sast)[:6000]})]


def _jobs(ctx, tag, total, model):
    per = ctx.pick(250, 500)
    return [{'seed': '%s/%d/%s/%d' % (ID, ctx.seed, tag, k), 'n': n, 'gen': _gen, 'oracle': _oracle,
             'nontrivial': _nontrivial, 'model': model, 'cert': model, 'tols': (0,), 'depth': ctx.pick(6, 12)}
            for k, n in enumerate(L.split(total, per))]


def _total(ctx):
    return ctx.pick(26000, 300000)


def _run(ctx, model=True):
    key = (ctx.tier, ctx.seed, model)
    if key not in _CACHE:
        _CACHE[key] = L.run_jobs(L.eval_docs, _jobs(ctx, 'doc', _total(ctx), model))
    return _CACHE[key]


RULE_DOCS = ('documents drawn from the grammar of documented constructs (gen_doc; 70%% adjacent arguments, 30%% with '
             'attaching separators before argument groups; depth <= %d; textual twins; hostile comment payloads); '
             'non-trivial = at least two constructs other than plain text')


def correspondence(ctx):
    r = Result()
    common.impl()
    st = L.merge_jobs(_run(ctx, True), r, None)
    st.into(r)
    # documents of the PROVED grammar (TexSoupModel/Grammar.lean), drawn by the model: the implementation must
    # return treeD d, positions included, in both tolerance modes (theorem C02.document_parses on the code side)
    import lib_gram
    lib_gram.run(ctx, r, ctx.pick(120000, 1500000), ctx.pick(3, 4))
    # certificates: every generated document (in the workers) and the repository corpus are looked up in the proved
    # grammar by the model driver, and the hypotheses of C02.cert_sound / document_parses evaluated on the result
    import gen
    lib_gram.run_corpus(r, gen.corpus())
    r.rule = ('`parse` (tolerance 0, with the document\'s skip_envs) compared textually on ' + RULE_DOCS % ctx.pick(6, 12) +
              '; plus well-formed, self-tokenizing documents drawn from the Lean grammar by rejection sampling, '
              'implementation tree == treeD d for tolerance 0 and 1; ' + lib_gram.cert_sentence(r.stats) +
              '; a document whose certificate hypotheses hold while treeD d differs from the model parse would '
              'contradict theorem C02.document_parses and is a failure (certificate-contradiction)')
    return r


def oracle(ctx, seeds, scale):
    r = Result()
    common.impl()
    res = list(_run(ctx, True) if (ctx.tier, ctx.seed, True) in _CACHE else _run(ctx, False))
    if scale > 1:
        res += L.run_jobs(L.eval_docs, _jobs(ctx, 'more', _total(ctx) * (scale - 1) // 2, False))
    st = L.merge_jobs(res, None, r)
    st.into(r)
    # the documented shape of a document of the proved grammar IS treeD d (Grammar.lean): the implementation's tree is
    # compared with it directly, so a divergence found here is a failing input of the property, not only of the tie
    import lib_gram
    lib_gram.run(ctx, r, ctx.pick(120000, 1500000), ctx.pick(3, 4), key='documented-tree-differs')
    # diverging inputs of the correspondence are among the shared inputs, evaluated with their generating tree
    r.stats['diverging_inputs_received'] = len([s for s in seeds if isinstance(s, str)])
    r.rule = ('normalise(canon_root(TexSoup(src))) == expected_canon(generating tree): every command, environment, '
              'group, math region, item, comment and text run once, in order, with name, argument kinds/order/exact '
              'contents and nesting as written; failures are shrunk on the generating tree; on ' +
              RULE_DOCS % ctx.pick(6, 12))
    return r


def replay_known(ctx, k):
    # a finding is recorded with the source and the expected normal form
    s = common.dec(k['input'])
    exp = common.dec(k['expected']) if k.get('expected') else None
    line, soup, exc = common.impl_parse(s, 0, tuple(common.dec(x) for x in k.get('skip', '').split(',') if x))
    if soup is None:
        return True
    return exp is not None and G.normalise(common.canon_root(soup)) != exp


def replay(ctx, payload):
    f = payload.get('failure') or {}
    s = f.get('input')
    if not isinstance(s, str):
        return True, 'nothing to replay: ' + '; '.join(payload.get('broken', []))[:400]
    if f.get('expected_tree'):
        import lib_gram
        got = lib_gram.impl_tree(s, int(f.get('tol', 0)))
        exp = f['expected_tree']
        ok = got == exp or (len(exp) >= 8000 and got.startswith(exp))
        return ok, 'replay %r tol=%s -> %s (treeD: %s)' % (s, f.get('tol', 0), got[:300], exp[:300])
    skip = tuple(f.get('skip') or ())
    line, soup, exc = common.impl_parse(s, 0, skip)
    if soup is None:
        return False, 'replay %r skip=%r -> %s' % (s, skip, line)
    got = G.normalise(common.canon_root(soup))
    exp = f.get('expected')
    ok = exp is None or got == exp or (len(exp) >= 6000 and got.startswith(exp))
    return ok, 'replay %r skip=%r -> %s (expected %s)' % (s, skip, got[:300], (exp or '?')[:300])
