"""C15 – Any history of edits keeps the tree equal to a reference model."""
import json
import random
import zlib

import common
import lib_edit as L
from common import enc, dec
from framework import Result
from props import _util

ID = 'C15'
LEAN_TARGETS = ['TexSoupProofs.Properties.C15']
THEOREMS = ['TexSoup.C15.' + n for n in (
    'step_refines', 'history_refines', 'edit_preserves_wellformed', 'edits_preserve_wellformed',
    'setString_needs_group_argument', 'args_op_splice', 'list_op_is_setArgs', 'list_op_refines')]
PARTIAL = ['"after every step search results, descendants, parent links and the text view are mutually consistent, inserted '
           'material included, and untargeted nodes are never altered, duplicated or lost": in the proofs this is C05 '
           'edit_preserves_others / C14 node_edit_preserves_others per step plus the fact that the model views are functions '
           'of the one tree value; on the implementation it is explored by the oracle after every step of every history '
           '(keys view-inconsistent, untargeted-changed), not proved',
           'TexArgs operations on a node\'s argument list inside a history (append/extend/insert/pop/remove/reverse/clear/'
           'slice/permutation and the take-edit-put-back forms): on the model side such a step is .setArgs with the result of '
           'the same operation on a plain Python list (lean/TexSoupModel/ArgsEdit.lean ListOp.apply: insert clamps, negative '
           'indices, pop/remove of an absent element refuse; C15.list_op_is_setArgs, list_op_refines, args_op_splice), and '
           'the correspondence compares model and implementation after every such step; that TexArgs itself (shadow list '
           '.all included) refines the list operation is C18, not re-proved here']
TRUSTED = ['hand-written model of the tree edits (lean/TexSoupModel/Edit.lean), tied to TexSoup/data.py by the '
           'correspondence run only',
           'correspondence harness (props/c15.py, lib_edit.py): structural paths, node acquisition through .contents by '
           'identity of .expr, canonical tree after the last step, str(soup) after every step',
           'the reference of the oracle (lib_edit.resolve / ref_apply: a string and one splice per step, computed from the '
           'lengths of the texts that precede the target in the current tree) = resolve / refApply of the proofs by inspection']
ASSUMPTIONS = ['the model driver is the compiled form of the verified definitions',
               'new material is freshly created for every step (a deep copy of a node parsed at the top level of a snippet, a '
               'plain string, or - material kind i: - the very node that navigation gives inside an argument / group / '
               '\\item body of a snippet document parsed for that step, which it shares with that snippet); no expression '
               'object is inserted twice. A step that edits inside material shared with a snippet legitimately changes the '
               'snippet (counted: source_inner_edit); every other step must leave the snippet documents as they were',
               'targets are re-acquired by structural path in the tree as it is after the previous steps; an op whose path '
               'does not exist, whose target is a bare string, or that renames/re-arguments something that is not a '
               'command/environment is not applied (harness vocabulary)',
               'an edit that the API refuses (insertion into / deletion from a plain command, .string of a node that has none, '
               'list errors of TexArgs) is a no-op of the reference; an index beyond the end appends, a negative index counts '
               'from the end and is clamped at the front (list.insert)']

QUERY_EXTRA = ['zzz', 'x', 'item']


def _crc(*xs):
    return zlib.crc32('\x1f'.join(str(x) for x in xs).encode('utf-8', 'replace'))


# ------------------------------------------------------------------------------------ history families

def bfs_extend(doc, prefix, depth, rng=None, sample=None):
    """All histories prefix + w, |prefix + w| <= depth, over lib_edit.alphabet recomputed on the
    tree after every step (the histories of lib_edit.bfs_histories that start with `prefix`).
    `sample`: keep at most that many of the longest ones (drawn with rng)."""
    T = common.impl()
    soup = T.TexSoup(doc)
    for k, op in enumerate(prefix):
        try:
            L.apply_op(soup, op, salt=k)
        except Exception:
            pass
    out = [list(prefix)] if prefix else []
    levels = [[(list(prefix), soup)]]
    for d in range(len(prefix), depth):
        nxt = []
        last = d == depth - 1
        for h, state in levels[-1]:
            ops = L.alphabet(state)
            if last and sample is not None and len(levels[-1]) * len(ops) > sample:
                ops = rng.sample(ops, max(1, sample // max(1, len(levels[-1]))))
            for op in ops:
                h2 = h + [op]
                out.append(h2)
                if not last:
                    s2 = L.clone(state)
                    try:
                        L.apply_op(s2, op, salt=len(h))
                    except Exception:
                        pass
                    nxt.append((h2, s2))
        levels.append(nxt)
    return out


def _first_ops(doc):
    T = common.impl()
    return L.alphabet(T.TexSoup(doc))


def _random_unit_histories(seed, n, max_len, aop_share, docs_any=False):
    rng = random.Random(seed)
    out = []
    for _ in range(n):
        doc = L.gen_doc(rng)
        ln = rng.randint(1, max_len)
        if aop_share:
            out.append((doc, L.gen_history(rng, doc, ln, aop_share, docs_any)))
        else:
            out.append((doc, L.gen_ops(rng, doc, ln, docs_any)))
    return out


def _unit_histories(unit):
    kind = unit[0]
    if kind == 'bfs':
        _, doc, prefix, depth, seed, sample = unit
        return [(doc, h) for h in bfs_extend(doc, prefix, depth, random.Random(seed), sample)]
    if kind == 'random':
        _, seed, n, max_len, aop_share = unit[:5]
        return _random_unit_histories(seed, n, max_len, aop_share, len(unit) > 5 and unit[5])
    if kind == 'transplant':
        _, seed, n, tail = unit
        rng = random.Random(seed)
        out = []
        for _ in range(n):
            doc = L.gen_doc(rng)
            out.append((doc, L.gen_transplant(rng, doc, tail=tail, allow_copy=False)))
        return out
    return [(d, list(o)) for d, o in unit[1]]


def _plan(ctx, rng, oracle=False, scale=1):
    depth = ctx.pick(2, 3)
    units = []
    docs = L.BFS_DOCS if not oracle or ctx.thorough else L.BFS_DOCS[:4]
    for doc in docs:
        for op in _first_ops(doc):
            # depth 3: every history of length <= 2 and a sample of those of length 3
            units.append(('bfs', doc, [op], depth if not oracle else 2, rng.getrandbits(32),
                          ctx.pick(None, 500)))
    n = ctx.pick(1500, 6000) * scale
    max_len = ctx.pick(8, 30)
    per = 25
    for i in range(0, n, per):
        units.append(('random', rng.getrandbits(32), min(per, n - i), max_len, 0.25, oracle))
    nt = ctx.pick(300, 1500) * scale
    for i in range(0, nt, per):
        units.append(('transplant', rng.getrandbits(32), min(per, nt - i), ctx.pick(4, 8)))
    return units, depth, n, max_len


# ------------------------------------------------------------------------------------ correspondence

def _corr_unit(unit):
    cases = _unit_histories(unit)
    model = _util.model([L.edit_req(d, h) for d, h in cases])
    n, hashes, fails, stats = 0, [], [], {unit[0] + '_histories': len(cases)}
    for (doc, h), m in zip(cases, model):
        a = L.impl_edit(doc, h)
        n += 1
        stats['ops'] = stats.get('ops', 0) + len(h)
        stats['refused_steps'] = stats.get('refused_steps', 0) + a.count('FAIL')
        stats['args_list_steps'] = stats.get('args_list_steps', 0) + sum(1 for o in h if o.startswith('aop '))
        _bucket(stats, h)
        if len(h) >= 2:
            hashes.append(_crc(doc, ';'.join(h)))
        if not L.same_answer(a, m, h) and len(fails) < 2:
            fails.append({'key': 'model-mismatch', 'what': 'history of %d ops' % len(h),
                          'input': {'doc': doc, 'ops': h}})
    return n, hashes, fails, stats


def _bucket(stats, h):
    b = 'len_' + ('1' if len(h) <= 1 else '2' if len(h) == 2 else '3-8' if len(h) <= 8 else '9-30')
    stats[b] = stats.get(b, 0) + 1


def _collect(r, results):
    for n, hashes, fails, stats in results:
        r.evaluations += n
        r.nontrivial.update(hashes)
        for k, v in stats.items():
            r.bump(k, v)
        for f in fails:
            if len(r.failures) < 40:
                r.fail(f.pop('key'), f.pop('what'), **f)


def correspondence(ctx):
    r = Result()
    common.impl()
    rng = ctx.rng('corr')
    units, depth, n, max_len = _plan(ctx, rng)
    _collect(r, _util.pmap(_corr_unit, units))
    # shrink the first disagreements (lib_edit.shrink: cut after the first differing step, drop ops greedily)
    for f in r.failures[:4]:
        try:
            d, ops = L.shrink(f['input']['doc'], f['input']['ops'])
            f['input'] = {'doc': d, 'ops': ops}
            f['what'] = L.explain(d, ops)[:700]
        except Exception as e:                       # noqa: keep the unshrunk history
            f['what'] += ' (not shrunk: %s)' % type(e).__name__
    r.failures.sort(key=lambda f: len(f['input']['ops']))
    h = ['del b2', 'ins r 0 s:' + enc('s'), 'ren b1 ' + enc('q')]
    r.sample({'request': L.edit_req(L.BFS_DOCS[0], h), 'impl': L.impl_edit(L.BFS_DOCS[0], h)})
    r.rule = ('edit request (str(soup) or FAIL after every op, canonical tree after the last) model vs the real TexNode API: '
              'ALL histories of length <= %d over lib_edit.alphabet (recomputed on the tree after every step: every non-root '
              'node as target of del / rep (0..2 new items) / ren / args / str, every index 0..len+1 of every container for '
              'ins, app) on the %d documents of lib_edit.BFS_DOCS%s; %d random histories of 1..%d ops (lib_edit.gen_ops: '
              'del, rep, ins, app, ren, str, args with valid targets, ~10%% refused ops; lib_edit.gen_history: 25%% of the '
              'steps are operations on a node\'s argument list itself - append/extend/insert/pop/remove/reverse/clear/slice/'
              'permutation and the own list put back after an in-place edit, negative and out-of-range indices included - '
              'answered by the model as .setArgs of the plain-list result (ArgsEdit.lean), a list operation that raises must '
              'be a refused step on both sides; kept slices (a slice is a copy) likewise; a whole parsed document as new '
              'material occurs in the last step only and then only the serialisations are compared (the model splices its '
              'elements where the implementation nests its root); insertion indices beyond the end and negative ones (resolved once like list.insert: pyInsertIndex); ~12%% of the new nodes are taken '
              'from inside an argument / group / \\item of a snippet) on lib_edit.gen_doc documents; %d transplant histories '
              '(lib_edit.gen_transplant without copies: such a node is appended / inserted / put in place of a node, often '
              'next to a textual twin, and later steps delete / replace it at its new place); the snippet documents must '
              'stay as they were; non-trivial = at least two ops'
              % (2, len(L.BFS_DOCS),
                 '' if depth == 2 else ' plus, for each history of length 2, sampled continuations of length 3 (500 per first op)',
                 n, max_len, ctx.pick(300, 1500)))
    r.exhaustive = True
    return r


# ------------------------------------------------------------------------------------ oracle

def run_history(doc, ops, stats=None):
    """C15 as stated, on the implementation alone: a string plus one splice per step against
    str(soup), then the views and the untargeted nodes. None or (key, what, step)."""
    T = common.impl()
    soup = T.TexSoup(doc)
    ref = str(soup)
    applied = 0
    seen_names = set(QUERY_EXTRA)
    sources = L.Sources()
    for k, op in enumerate(ops):
        try:
            P = L.Op(op, soup, sources)
        except Exception:
            continue
        res = L.resolve(soup, P)
        tag = res[0] + ('_aop' if P.kind == 'aop' else '')
        if stats is not None:
            stats[tag] = stats.get(tag, 0) + 1
        if res[0] == 'skip':
            continue
        before = L.snapshot(soup)
        texts = L.frozen_text(before)
        desync = P.kind == 'aop' and _shadow_desync(L.locate(soup, P.path)[1].args)
        exc = None
        sources.begin(soup, P.kind, P.path)
        try:
            L.perform(soup, P, L.step_variant(k, op))
        except RecursionError:
            raise
        except Exception as e:
            exc = e
        applied += 1
        now = str(soup)
        src_msg = sources.check()
        want = ref if res[0] == 'refuse' else L.ref_apply(ref, res[1])
        if now != want or (exc is not None and res[0] == 'splice'):
            how = ('the reference refuses this edit (%s)' % res[1]) if res[0] == 'refuse' else \
                ('the reference splices %s' % [(a, a + n, new) for a, n, new in res[1]])
            key = 'history-diverges'
            if desync and exc is not None:
                # attributed: the shadow list TexArgs.all no longer holds the objects of the list (pop of a twin
                # removed the other twin from it), so that the next insertion raises after inserting
                key = 'args-shadow-desync'
            return (key, 'step %d (%s)%s: %s; reference %r, str(soup) %r' % (
                k, op_text(op), ' raised %s (%s)' % (type(exc).__name__, str(exc)[:60]) if exc else '', how,
                want[:160], now[:160]), k)
        ref = want
        if src_msg:
            return ('untargeted-changed', 'step %d (%s): %s' % (k, op_text(op), src_msg), k)
        if exc is not None or res[0] == 'refuse':
            if exc is not None:
                after = L.snapshot(soup)
                if len(after) != len(before) or any(
                        pa != pb or ((a is not b) if L._is_expr(b) else (a != b))
                        for (pa, a), (pb, b) in zip(after, before)):
                    return ('untargeted-changed', 'step %d (%s) raised %s but the tree changed' % (
                        k, op_text(op), type(exc).__name__), k)
            continue
        site = res[2]
        msg = L.check_untouched(before, soup, site) or L.check_texts(before, texts, soup, site)
        if msg:
            return ('untargeted-changed', 'step %d (%s): %s' % (k, op_text(op), msg), k)
        seen_names.update(L.tree_names(soup))
        msg = L.check_views(soup, sorted(seen_names), site.get('new', ()), site.get('q'))
        if msg:
            return ('view-inconsistent', 'step %d (%s): %s' % (k, op_text(op), msg), k)
    if stats is not None:
        stats['applied_steps'] = stats.get('applied_steps', 0) + applied
        if sources.excluded:
            stats['source_inner_edit'] = stats.get('source_inner_edit', 0) + sources.excluded
    return None


def _shadow_desync(args):
    """TexArgs keeps a shadow list `.all` (arguments and the whitespace between them): does it
    still hold exactly the argument objects of the list, in order?"""
    from TexSoup import data as D
    try:
        shadow = [a for a in args.all if isinstance(a, (D.TexGroup, D.TexCmd))]
    except Exception:
        return False
    return [id(a) for a in shadow] != [id(a) for a in args]


# histories that are always run (found by the random search, kept so that the result does not depend on the seed)
FIXED_HISTORIES = [
    ('\\x{a}{a}', ['aop b0 pop 1', 'str b0 ' + enc('b'), 'aop b0 app s:' + enc('{z}')]),
    ('\\x{a}{a}', ['aop b0 pop 1', 'del b0.a0:0', 'aop b0 ext s:' + enc('{z}') + ',s:' + enc('[w]')]),
    ('\\x{a}{a}', ['aop b0 pop 0', 'str b0 ' + enc('b'), 'aop b0 app s:' + enc('{z}')]),
    ('\\x{a}{b}', ['aop b0 ins 2 g:' + enc('\\x{a}'), 'del b0.a0:0', 'aop b0 app s:' + enc('{z}')]),
    # an empty string among several pieces (first / middle) with content behind the insertion point
    ('\\begin{a}\\x\\y\\end{a}', ['ins b0 0 s:-,n:' + enc('\\z{1}'), 'ins b0 1 s:' + enc('P') + ',s:-,s:' + enc('Q'), 'del b0.b0']),
    ('\\begin{a}\\x\\y\\w\\end{a}', ['rep b0.b0 s:-,n:' + enc('\\q{2}') + ',s:' + enc('T'), 'del b0.b3', 'rep b0.b1 s:-,s:-,n:' + enc('\\x')]),
    # strings that are LaTeX source are spliced in verbatim, as one text leaf
    ('\\begin{a}\\x\\end{a}\\x', ['app b0 s:' + enc('\\ref {fig}'), 'ins r 1 s:' + enc('\\begin{x}') + ',s:' + enc('\\textbf a'),
                                    'rep b0.b0 s:' + enc('\\[') + ',s:' + enc('{'), 'del b0.b2']),
    # several pieces inserted at an index beyond the end arrive in the given order
    ('\\begin{a}\\x\\y\\end{a}\\x', ['ins b0 12 n:' + enc('\\p{1}') + ',s:' + enc('txt') + ',n:' + enc('\\q{2}'),
                                    'ins r 1000 n:' + enc('\\p{1}') + ',s:' + enc('P'), 'del b0.b4', 'ins b0 99 s:-,n:' + enc('\\x') + ',s:' + enc('z')]),
    # several pieces at a negative index stay together, in order, where list.insert resolves the index to
    ('\\begin{a}\\x\\y\\end{a}\\x', ['ins b0 -1 n:' + enc('\\p{1}') + ',n:' + enc('\\q{2}'),
                                    'ins b0 -2 n:' + enc('\\p{1}') + ',s:' + enc('T') + ',n:' + enc('\\q{2}'),
                                    'ins r -99 s:' + enc('A') + ',s:' + enc('B'), 'ins b2 -8 s:-,n:' + enc('\\x'), 'del b2.b0']),
    # a whole parsed document as one piece: all of its text, blank-only tokens included
    ('\\section{A}\\x tail', ['rep b1 d:' + enc('\\alpha \\beta'), 'ins r 0 s:' + enc('Fig. ') + ',d:' + enc('\\a{1}\n\\b{2}\n'),
                              'app r d:' + enc(' '), 'del b0']),
    # a slice kept across an in-place edit of the node's list, and the converse
    ('\\x{a}[b]{c}\\x{a}[b]{c}', ['aop b0 ks _ _ rev', 'aop b1 ks 0 _ pop 0', 'aop b0 kc _ 99 pop 0', 'aop b1 kca _ 3 rev',
                                   'aop b0 ks _ 3 clr', 'del b1.a0:0']),
    # the own argument list taken, edited in place and put back
    ('\\x{a}[b]{c}\\x{a}[b]{c}', ['aop b0 srev', 'aop b1 same', 'aop b0 spop 1', 'aop b1 sins 1 g:' + enc('\\x{a}'), 'del b1.a1:0']),
]


def op_text(op):
    w = op.split(' ')

    def mats(x):
        return [] if x == '_' else [L.mat_show(m) for m in x.split(',')]
    try:
        if w[0] == 'del':
            return 'delete node at %s' % w[1]
        if w[0] == 'rep':
            return 'replace node at %s with %s' % (w[1], ', '.join(mats(w[2])))
        if w[0] == 'ins':
            return 'insert(%s, %s) into %s' % (w[2], ', '.join(mats(w[3])), w[1])
        if w[0] == 'app':
            return 'append(%s) to %s' % (', '.join(mats(w[2])), w[1])
        if w[0] == 'ren':
            return 'name = %r at %s' % (dec(w[2]), w[1])
        if w[0] == 'str':
            return 'string = %r at %s' % (dec(w[2]), w[1])
        if w[0] == 'args':
            return 'args = TexArgs(%s) at %s' % (', '.join(mats(w[2])), w[1])
        if w[0] == 'aop':
            rest = [(', '.join(mats(x)) if ':' in x else x) for x in w[3:]]
            return 'args.%s(%s) at %s' % (w[2], ', '.join(rest), w[1])
    except Exception:
        pass
    return op


def shrink_history(doc, ops, key):
    """Greedy: cut after the failing step, then drop single ops while the same key fails."""
    x = run_history(doc, ops)
    if not x:
        return ops
    ops = ops[:x[2] + 1]
    changed = True
    while changed:
        changed = False
        for k in range(len(ops) - 1):
            cand = ops[:k] + ops[k + 1:]
            try:
                y = run_history(doc, cand)
            except Exception:
                y = None
            if y and y[0] == key:
                ops, changed = cand[:y[2] + 1], True
                break
    return ops


def _oracle_unit(unit):
    cases = _unit_histories(unit)
    n, hashes, fails, stats = 0, [], [], {unit[0] + '_histories': len(cases)}
    for doc, h in cases:
        x = run_history(doc, h, stats)
        n += 1
        _bucket(stats, h)
        if len(h) >= 2:
            hashes.append(_crc(doc, ';'.join(h)))
        if x is not None and len(fails) < 3:
            fails.append({'key': x[0], 'what': x[1], 'input': {'doc': doc, 'ops': h}})
    return n, hashes, fails, stats


def oracle(ctx, seeds, scale):
    r = Result()
    common.impl()
    rng = ctx.rng('oracle')
    seeded = [(s['doc'], s['ops']) for s in seeds
              if isinstance(s, dict) and isinstance(s.get('doc'), str) and isinstance(s.get('ops'), list)]
    units, depth, n, max_len = _plan(ctx, rng, oracle=True, scale=scale)
    units.insert(0, ('given', [(d, list(h)) for d, h in FIXED_HISTORIES] + seeded[:100]))
    _collect(r, _util.pmap(_oracle_unit, units))
    seen = set()
    for f in r.failures[:6]:
        try:
            ops = shrink_history(f['input']['doc'], f['input']['ops'], f['key'])
            x = run_history(f['input']['doc'], ops)
            if x and x[0] == f['key']:
                f['input'] = {'doc': f['input']['doc'], 'ops': ops}
                f['what'] = x[1]
        except Exception:                           # noqa: keep the unshrunk history
            pass
        seen.add((f['input']['doc'], tuple(f['input']['ops'])))
    r.failures.sort(key=lambda f: (len(f['input']['ops']), len(f['input']['doc'])))
    h = ['del b2', 'ins r 0 s:' + enc('s'), 'ren b1 ' + enc('q')]
    r.sample({'doc': L.BFS_DOCS[0], 'history': [op_text(o) for o in h], 'reference': 's\\q y z',
              'verdict': 'holds' if run_history(L.BFS_DOCS[0], h) is None else 'fails'})
    r.rule = ('reference = the document as a string; before each step the op is resolved on the CURRENT tree into splices '
              '(offset = sum of the lengths of the texts of everything that precedes the target structurally, never '
              '.position; a refused op = no splice), the op is applied through the public TexNode/TexArgs API on a node '
              'reached from the root through .contents, then str(soup) must equal the spliced reference string (which is '
              'never re-synchronised). After every successful step: every expression object occurs once; every untargeted '
              'element is the same object at the same path (siblings behind the edit point shifted by inserted - removed) '
              'with the same text unless it contains the edit point; new material sits at the edit point; descendants holds '
              'every command/environment/group/math node exactly once (identity of .expr) and exactly the text leaves; '
              'contents/children of every node follow the structure with .parent the node they were reached from and every '
              'parent chain ending at the root object; text lists the non-blank text leaves in order; find_all(name)/count '
              'equal the filter of descendants for every name ever seen plus absent ones; inserted nodes are among the '
              'children/descendants of their container and inserted text in its text view. Histories: ALL of length <= 2 over '
              'lib_edit.alphabet on %d tiny documents; %d random histories of 1..%d ops on lib_edit.gen_doc documents '
              '(lib_edit.gen_history: del, rep, ins, app, ren, str, args, 25%% TexArgs operations append/extend/insert/pop/'
              'remove/reverse/clear/slice/permutation and the own list put back after nothing/reverse/pop/insert/append on it '
              'in place, slices kept across an in-place edit (keep = args[lo:hi], every bound shape; edit args; keep holds '
              'the old elements; args = keep) and edits of a kept slice, whole parsed documents as one piece of new material '
              '(all of their text must arrive), several pieces inserted at indices beyond the end (in the given order) and at negative indices (together, in order, '
              'at the place list.insert resolves the index to), ~10%% refused ops; 30%% of the new plain strings are LaTeX source - lib_edit.SRC_STRS: blank between '
              'command and group, bare token after a fixed-signature command, unbalanced fragments, lone backslash, comment - '
              'and must be spliced in verbatim as one text leaf; the empty string occurs among several pieces); %d transplant histories (lib_edit.gen_transplant '
              'without copies: a node taken from inside an argument / group / \\item body of a separately parsed snippet is '
              'appended / inserted / put in place of a node, often next to a textual twin, later steps delete / replace it at '
              'its new place; after every step the snippet document must be what it was, unless the step edits inside the '
              'shared node); non-trivial = at least two ops'
              % (len(L.BFS_DOCS) if ctx.thorough else 4, n, max_len, ctx.pick(300, 1500) * scale))
    r.exhaustive = True
    return r


def replay_known(ctx, k):
    try:
        inp = json.loads(dec(k['input']))
        return run_history(inp['doc'], inp['ops']) is not None
    except Exception:
        return False


def replay(ctx, payload):
    f = payload.get('failure') or {}
    inp = f.get('input')
    if not isinstance(inp, dict) or 'doc' not in inp:
        d = payload.get('disagreements') or []
        if d and isinstance(d[0].get('input'), dict):
            inp = d[0]['input']
            still = L.disagree(inp['doc'], inp['ops'])
            return not still, 'model/implementation disagreement (%s):\n%s' % (
                'persists' if still else 'gone', L.explain(inp['doc'], inp['ops']))
        return True, 'nothing to replay: ' + '; '.join(payload.get('broken', []))[:600]
    x = run_history(inp['doc'], inp['ops'])
    lines = ['document %r' % inp['doc']] + ['  %d. %s' % (i, op_text(o)) for i, o in enumerate(inp['ops'])]
    return x is None, '\n'.join(lines) + '\n-> %r' % (x,)
