"""C01 – Parse -> serialise round trip is lossless on well-formed documents."""
import common
import gen
import gen_doc as G
import lib_doc as L
from framework import Result

ID = 'C01'
LEAN_TARGETS = ['TexSoupProofs.Properties.C01', 'TexSoupProofs.Properties.C02Strings', 'TexSoupProofs.Properties.C13Positions',
                'TexSoupProofs.Properties.C01Grammar', 'TexSoupProofs.Properties.CertSound']
THEOREMS = ['TexSoup.C01.roundtrip', 'TexSoup.C01.roundtrip_tolerant', 'TexSoup.C01.node_text_is_its_tokens',
            'TexSoup.C02.document_parses', 'TexSoup.C02.document_roundtrip', 'TexSoup.C13.node_first_char',
            'TexSoup.C01G.document_roundtrip', 'TexSoup.C01G.source_roundtrip', 'TexSoup.C01G.document_roundtrip_spaced',
            'TexSoup.C02.cert_sound', 'TexSoup.C01G.cert_sound']
PARTIAL = ['the property in its own words is C01G.document_roundtrip: every well-formed document of the Lean grammar with adjacent '
           'argument groups (squeezeD d = d) and plainly written environment names parses, in both modes, to its tree, and '
           'the tree prints as the source (token-level completeness composed with the tokenizer inverse and the '
           'serialisation lemma); that gen_doc.py (the Python description of '
           '"well-formed document") only emits documents of that grammar is not proved but compared on every run, '
           'and every generated / corpus document of a run is certified individually (driver request `cert`: a '
           'grammar document is rebuilt from tokens and tree by an untrusted search and the hypotheses of '
           'C02.cert_sound / C01G.cert_sound are evaluated on it by the compiled definitions; counts in the '
           'cert_* statistics and the rule text); '
           'restriction of the proved grammar: single-token environment names (continuation arguments after a '
           'fixed-signature command, `\\section{a}[b]`, are part of the grammar: Gram.runOK)']
TRUSTED = ['harness/gen_doc.py (grammar of documented constructs, renderer with source spans, frame conditions)',
           'correspondence harness (props/c01.py, lib_doc.py, common.py)']
ASSUMPTIONS = ['CPython str semantics', 'the model driver is the compiled form of the verified definitions',
               'well-formed = derivable from gen_doc\'s grammar with adjacent argument groups; excluded on purpose: '
               'verbatim inside items/groups/math, `$a$$b$`, blank-padded environment names, `\\begin[a]`, an '
               'environment body starting with (blanks +) an opener']
LEAN_TARGETS = LEAN_TARGETS + ['TexSoupProofs.Properties.TableSpec']
# entries of the generated tables that the property's statement names (they stop compiling when a table edit drops them)
THEOREMS = THEOREMS + ['TexSoup.TableSpec.' + n for n in ['builtin_verbatim_names', 'definition_commands']]

_CACHE = {}


# ----------------------------------------------------------------------------- documents

def _gen(rng, i, job):
    d = rng.randint(1, job['depth'])
    src, ast = G.document(rng, depth=d, layout='adjacent', twins=0.06, hostile=0.3, width=rng.randint(2, 5))
    return src, ast, None


def _nontrivial(src, ast, extra):
    return len(G.constructs(ast) - {'text', 'escape', 'blank-line'}) >= 2


# ----------------------------------------------------------------------------- oracle

def check_roundtrip(src, parsed, ast=None, corpus=False):
    """Direct statement of C01 on the implementation.  Returns a list of (key, what, info)."""
    line, soup, exc = parsed
    if soup is None:
        if corpus:
            return [('corpus-unparsed', line, None)]
        return [('parse-fails', '%s: %s' % (line, str(exc)[:160]), None)]
    out = str(soup)
    if out != src:
        if corpus and L.explained_by_dropped_spacers(src, out):
            return [('corpus-spaced-args', 'outside the adjacency clause', None)]
        i = next((k for k in range(min(len(out), len(src))) if out[k] != src[k]), min(len(out), len(src)))
        return [('roundtrip', 'first difference at offset %d: source %r, output %r' % (i, src[i:i + 20], out[i:i + 20]),
                 None)]
    bad = []
    # every element of the tree (own walk over arguments and contents)
    for e, parent, where in L.walk_exprs(soup):
        t = L.leaf_token(e)
        if t is not None:
            pos, s = t.position, str(t)
        elif isinstance(e, str) and not hasattr(e, 'args'):
            continue            # plain str without position: nothing recorded
        else:
            pos, s = e.position, str(e)
        if pos is None or pos < 0 or src[pos:pos + len(s)] != s:
            bad.append(('node-slice', '%s at recorded position %r is not the source slice %r'
                        % (repr(s[:40]), pos, src[pos:pos + len(s)][:40] if isinstance(pos, int) and pos >= 0 else None),
                        None))
            break
    # the same through the public navigation API
    if not bad:
        from TexSoup.data import TexNode
        for d in soup.descendants:
            pos, s = d.position, str(d)
            if pos is None or pos < 0 or src[pos:pos + len(s)] != s:
                bad.append(('node-slice', 'descendant %r at recorded position %r is not its source slice'
                            % (s[:40], pos), None))
                break
    # against the generating tree: the slice a node was parsed from is its rendered span
    if not bad and ast is not None:
        want = G.spans(ast, texts=True)
        got = L.impl_spans(soup, texts=True)
        if want != got:
            k = next((j for j in range(min(len(want), len(got))) if want[j] != got[j]), min(len(want), len(got)))
            bad.append(('node-span', 'element %d: generated span %r, recorded %r'
                        % (k, want[k] if k < len(want) else None, got[k] if k < len(got) else None), None))
    return bad


def _oracle(src, ast, extra, parsed):
    return check_roundtrip(src, parsed, ast)


def _codepoint_one(doc):
    parsed = common.impl_parse(doc, 0, ())
    return parsed[0], check_roundtrip(doc, parsed, None)


def _corpus_one(doc):
    parsed = common.impl_parse(doc, 0, ())
    return parsed[0], check_roundtrip(doc, parsed, None, corpus=True)


# ----------------------------------------------------------------------------- driver entry points

def _jobs(ctx, tag, total, model):
    per = ctx.pick(250, 500)
    return [{'seed': '%s/%d/%s/%d' % (ID, ctx.seed, tag, k), 'n': n, 'gen': _gen, 'oracle': _oracle,
             'nontrivial': _nontrivial, 'model': model, 'cert': model, 'tols': (0,), 'depth': ctx.pick(6, 12)}
            for k, n in enumerate(L.split(total, per))]


def _run(ctx, model=True):
    key = (ctx.tier, ctx.seed, model)
    if key not in _CACHE:
        total = ctx.pick(26000, 200000)
        _CACHE[key] = L.run_jobs(L.eval_docs, _jobs(ctx, 'doc', total, model))
    return _CACHE[key]


RULE_DOCS = ('documents drawn from the grammar of documented constructs (gen_doc: text runs, escaped symbols, comments, '
             'commands with adjacent [..]/{..} arguments, fixed-signature and zero-argument commands, groups, bare '
             'brackets, named environments, lists, four math delimiters and named math environments, verbatim-like '
             'environments incl. user names, \\newcommand-style definitions; depth <= %d, textual twins, hostile '
             'comment payloads); non-trivial = at least two constructs other than plain text')


def correspondence(ctx):
    r = Result()
    common.impl()
    res = _run(ctx, True)
    st = L.merge_jobs(res, r, None)
    st.into(r)
    # the corpus: samples of the repository and literals of its documentation
    docs = gen.corpus()
    impl = [common.impl_parse(d, 0, ())[0] for d in docs]
    model = common.model_batch([common.parse_req(d, 0, ()) for d in docs])
    for d, a, b in zip(docs, impl, model):
        r.count(('corpus', d), True)
        r.bump('corpus:' + L.parse_err_kind(a))
        if a != b:
            r.fail('parse-mismatch', 'model and implementation differ on a corpus document', input=d,
                   impl=a[:300], model=b[:300])
    import lib_gram
    lib_gram.run(ctx, r, ctx.pick(60000, 600000), ctx.pick(3, 4))   # documents of the proved grammar
    # certificates: generated documents are certified in the workers (job flag 'cert'), the corpus here
    lib_gram.run_corpus(r, docs)
    # one well-formed document per code point beyond ASCII (sampled in the quick tier, all of them in the thorough one)
    import parsecorr
    parsecorr.run_cases(r, [(d, 0, ()) for d in gen.codepoint_docs(ctx.rng('cp'), ctx.thorough)], tag='codepoint')
    r.rule = ('`parse` (tolerance 0, with the document\'s skip_envs) compared textually, positions and serialisation '
              'included, on ' + RULE_DOCS % ctx.pick(6, 12) + '; plus the repository corpus; ' +
              lib_gram.cert_sentence(r.stats) + ' – of these %d generated and %d corpus documents also satisfy the '
              'adjacency and plain-name hypotheses of C01G.document_roundtrip; hypotheses true but treeD d != model '
              'parse would contradict theorem C02.document_parses (failure key certificate-contradiction)'
              % (r.stats.get('cert_certified_adjacent_plain', 0), r.stats.get('cert_corpus_certified_adjacent_plain', 0)))
    return r


def oracle(ctx, seeds, scale):
    r = Result()
    common.impl()
    for s in seeds:
        if isinstance(s, str):
            r.count(('seed', s), True)
            for key, what, info in check_roundtrip(s, common.impl_parse(s, 0, ()), None, corpus=True):
                if key == 'roundtrip' or key == 'node-slice':
                    r.fail(key, what, input=s)
    res = list(_run(ctx, True) if (ctx.tier, ctx.seed, True) in _CACHE else _run(ctx, False))
    if scale > 1:
        extra = ctx.pick(26000, 200000) * (scale - 1) // 2
        res += L.run_jobs(L.eval_docs, _jobs(ctx, 'more', extra, False))
    st = L.merge_jobs(res, None, r)
    st.into(r)
    # one well-formed document per code point beyond ASCII: plain text wherever it stands
    cps = gen.codepoint_docs(ctx.rng('cp'), ctx.thorough)
    for d, (line, verdicts) in zip(cps, gen.pmap(_codepoint_one, cps, chunk=2000)):
        r.count(('codepoint', d), True)
        for key, what, info in verdicts:
            r.fail(key, what, input=d)
    r.bump('codepoint_documents', len(cps))
    # corpus: the round trip is required only when the document parses (and its arguments are adjacent)
    docs = gen.corpus()
    unparsed = []
    for d, (line, verdicts) in zip(docs, gen.pmap(_corpus_one, docs)):
        r.count(('corpus', d), True)
        for key, what, info in verdicts:
            if key == 'corpus-unparsed':
                r.bump('corpus_unparsed:' + what)
                unparsed.append(d[:60])
            elif key == 'corpus-spaced-args':
                r.bump('corpus_outside_adjacency_clause')
            else:
                r.fail(key, what, input=d)
        if not verdicts:
            r.bump('corpus_round_trips')
    r.stats['corpus_documents'] = len(docs)
    r.stats['corpus_unparsed_heads'] = unparsed[:12]
    r.rule = ('parse succeeds; str(soup) == source; source[p : p+len(str(x))] == str(x) for every node and text token '
              '(own walk and soup.descendants); recorded spans == spans of the generating tree; on ' +
              RULE_DOCS % ctx.pick(6, 12) + '; corpus documents: round trip and slices whenever they parse')
    return r


def replay_known(ctx, k):
    s = common.dec(k['input'])
    return bool([v for v in check_roundtrip(s, common.impl_parse(s, 0, ()), None, corpus=True)
                 if v[0] in ('roundtrip', 'node-slice')])


def replay(ctx, payload):
    f = payload.get('failure') or {}
    s = f.get('input')
    if not isinstance(s, str):
        return True, 'nothing to replay: ' + '; '.join(payload.get('broken', []))[:400]
    skip = tuple(f.get('skip') or ())
    v = check_roundtrip(s, common.impl_parse(s, 0, skip), None)
    return not v, 'replay %r skip=%r -> %r' % (s, skip, v)
