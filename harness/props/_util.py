"""Helpers shared by the property modules C03/C04/C13/C18/C20."""
import multiprocessing as mp
import os
import subprocess
import time

import common


class Tally(set):
    """Set of case hashes plus a plain counter for cases that are distinct by construction
    (millions of enumerated histories are counted, not stored)."""
    extra = 0

    def __len__(self):
        return set.__len__(self) + self.extra


def model(lines, timeout=900, wait=90):
    """Answers of the model driver (one process).  The binary is relinked by concurrent builds:
    a missing/busy executable is retried for `wait` seconds, then reported as an infrastructure
    problem (common.ModelError -> exit 2), never as a violation."""
    lines = list(lines)
    if not lines:
        return []
    deadline = time.time() + wait
    data = ('\n'.join(lines) + '\n').encode()
    while True:
        try:
            p = subprocess.run([common.DRIVER], input=data, stdout=subprocess.PIPE, stderr=subprocess.PIPE,
                               timeout=timeout)
            if p.returncode == 0:
                out = p.stdout.decode().split('\n')
                if out and out[-1] == '':
                    out.pop()
                if len(out) == len(lines):
                    return out
                err = 'driver answered %d lines for %d requests' % (len(out), len(lines))
            else:
                err = 'driver exit %d: %s' % (p.returncode, p.stderr.decode(errors='replace')[-300:])
        except OSError as e:            # FileNotFoundError / ETXTBSY / EACCES while relinking
            err = 'driver not runnable: %s' % e
        if time.time() > deadline:
            raise common.ModelError(err)
        time.sleep(2)


def pmap(fn, items, jobs=None):
    """Fork-parallel map with chunksize 1 for a moderate number of heavy work units
    (gen.pmap runs fewer than 400 items serially and hands out chunks of 200)."""
    items = list(items)
    jobs = min(jobs or min(16, os.cpu_count() or 1), len(items))
    if jobs <= 1:
        return [fn(x) for x in items]
    with mp.get_context('fork').Pool(jobs) as pool:
        return pool.map(fn, items, chunksize=1)


def chunks(xs, size):
    xs = list(xs)
    return [xs[i:i + size] for i in range(0, len(xs), size)]
