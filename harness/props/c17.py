"""C17 – The result depends only on the source text; parses are isolated."""
import io
import os
import subprocess
import sys

import common
import gen
import oracles
import parsecorr
from framework import Result

ID = 'C17'
LEAN_TARGETS = ['TexSoupProofs.Properties.C17']
THEOREMS = ['TexSoup.C17.' + n for n in ('flatten_chunks', 'chunking_irrelevant', 'table_prefixFree',
                                         'iteration_order_irrelevant', 'deterministic')]
PARTIAL = ['that the implementation agrees with the (functional) model across input forms, hash seeds and interleavings is '
           'translation validation by this check, not a theorem; object-graph disjointness is explored only']
TRUSTED = ['harness/gen_tables.py (the sizing-command table is regenerated; its prefix-freeness is re-proved on every run)',
           'correspondence harness (props/c17.py, hashseed_worker.py)',
           'modelled, not verified: tex.read, the tokenizer loop over PUNCTUATION_COMMANDS']
ASSUMPTIONS = ['fresh interpreters started with PYTHONHASHSEED=k are representative of set iteration orders',
               'the model driver is the compiled form of the verified definitions']


def sizing_inputs():
    from TexSoup.tokens import SIZE_PREFIX, BRACKETS_DELIMITERS
    out = []
    for p in SIZE_PREFIX:
        for d in sorted(BRACKETS_DELIMITERS.union({'|', '.'})):
            out.append('$\\%s%sx$' % (p, d))
            out.append('\\%s%s|x' % (p, d))
    return out


def forms(s, rg):
    """the same characters as different input objects"""
    cuts = sorted({rg.randrange(len(s) + 1) for _ in range(3)}) if s else []
    chunks = [s[a:b] for a, b in zip([0] + cuts, cuts + [len(s)])]
    yield 'list', lambda: list(chunks)
    yield 'tuple', lambda: tuple(chunks)
    yield 'generator', lambda: (c for c in chunks)
    yield 'lines', lambda: s.splitlines(True)
    yield 'file', lambda: io.StringIO(s)
    yield 'chars', lambda: list(s)


def _canon_obj(mk, tol=0):
    T = common.impl()
    try:
        soup = T.TexSoup(mk(), tolerance=tol)
        return 'TREE %s SER %s' % (common.canon_root(soup), common.enc(str(soup)))
    except Exception as e:
        return common.classify_exc(e)


def all_splits(s):
    for i in range(len(s) + 1):
        for j in range(i, len(s) + 1):
            yield [s[:i], s[i:j], s[j:]]


def run_seeds(inputs, seeds):
    """canonical results of `inputs` [(tol, s)] in fresh interpreters, one per hash seed"""
    data = '\n'.join('%d %s' % (t, common.enc(s)) for t, s in inputs) + '\n'
    worker = os.path.join(os.path.dirname(os.path.dirname(os.path.abspath(__file__))), 'hashseed_worker.py')
    procs = []
    for k in seeds:
        env = dict(os.environ, PYTHONHASHSEED=str(k), REPO=common.REPO)
        procs.append((k, subprocess.Popen(['/venv/bin/python', worker], stdin=subprocess.PIPE, stdout=subprocess.PIPE, env=env)))
    out = {}
    for k, p in procs:
        o, _ = p.communicate(data.encode(), timeout=600)
        out[k] = o.decode().split('\n')[:-1]
    return out


def correspondence(ctx):
    r = Result()
    common.impl()
    rg = ctx.rng('corr')
    alpha = [a for a in gen.TOKEN_ALPHA]
    strs = list(gen.exhaustive(alpha, 1)) + list(gen.random_strings(rg, alpha, ctx.pick(600, 6000), 2, 10))
    strs += gen.corpus()[:10] + sizing_inputs()
    strs += edge_char_inputs(ctx.rng('corr/edge'), ctx.pick(300, 3000))
    model = common.model_batch_parallel([common.parse_req(s, 0) for s in strs])
    ref = dict(zip(strs, model))
    # (1) every input form agrees with the model's answer for the characters
    for s in strs:
        for name, mk in forms(s, rg):
            got = _canon_obj(mk)
            r.count((name, s), len(s) > 1)
            r.bump('form:' + name)
            if got != ref[s]:
                r.fail('form-mismatch', 'input as %s differs from the model' % name, input=s, form=name,
                       impl=got[:300], model=ref[s][:300])
    # all split points of short sources
    for s in [x for x in strs if 0 < len(x) <= 8][:ctx.pick(60, 600)]:
        for chunks in all_splits(s):
            got = _canon_obj(lambda: list(chunks))
            r.count(('split', tuple(chunks)), True)
            if got != ref[s]:
                r.fail('chunk-mismatch', 'chunking %r differs from the model' % (chunks,), input=s, impl=got[:300])
    # (2) hash seeds
    inputs = [(0, s) for s in sizing_inputs()] + [(0, s) for s in strs[:200]]
    seeds = list(range(ctx.pick(6, 48)))
    model2 = common.model_batch_parallel([common.parse_req(s, t) for t, s in inputs])
    res = run_seeds(inputs, seeds)
    for k in seeds:
        for (t, s), got, want in zip(inputs, res[k], model2):
            r.count(('seed', k, s), True)
            if got != want:
                r.fail('hashseed-mismatch', 'PYTHONHASHSEED=%d differs from the model' % k, input=s, seed=k,
                       impl=got[:300], model=want[:300])
    r.bump('hash_seeds', len(seeds))
    # (3) histories of parses with different options in ONE interpreter: each answer must be the model's
    # answer for (source, options), whatever was parsed before
    docs = [oracles.mini_doc(rg, 3) for _ in range(ctx.pick(300, 3000))]
    opts = [(), ('a',), ('bb', 'center'), ('tabular',), ('a', 'bb', 'center', 'tabular')]
    cases = []
    for d in docs:
        cases.append((d, rg.randrange(2), rg.choice(opts)))
        cases.append((d, 0, ()))
    import parsecorr as pc
    before = len(r.failures)
    hist = Result()
    for s_, t_, sk_ in cases:          # sequential, same process: earlier options must not leak
        got = common.impl_parse(s_, t_, sk_)[0]
        hist.samples.append(got)
    want = common.model_batch_parallel([common.parse_req(s_, t_, sk_) for s_, t_, sk_ in cases])
    for (s_, t_, sk_), got, w in zip(cases, hist.samples, want):
        r.count(('opts', s_, t_, sk_), True)
        if got != w:
            r.fail('options-history-mismatch', 'parse after parses with other options differs from the model',
                   input=s_, tol=t_, skip=list(sk_), impl=got[:300], model=w[:300])
    r.bump('option_history_parses', len(cases))
    r.rule = ('the model is a function of the characters: every input form (list/tuple/generator/lines/file/characters, all '
              'split points of short sources) and every interpreter hash seed must give the model\'s answer for the joined '
              'characters; sources: token-kind alphabet, repository documents, every sizing-prefix x delimiter combination')
    return r


def object_ids(soup):
    """ids of all mutable objects reachable from a parse result"""
    from TexSoup import data as D
    ids = set()

    def walk(e):
        if type(e) is str:          # immutable (and interned by the interpreter): not state
            return
        ids.add(id(e))
        if isinstance(e, D.TexExpr):
            ids.add(id(e._contents))
            if hasattr(e, 'args'):
                ids.add(id(e.args))
                ids.add(id(e.args.all))
                for a in e.args:
                    walk(a)
            if isinstance(e, D.TexText):
                ids.add(id(e._text))
                return
            for c in e._contents:
                walk(c)
    walk(soup.expr)
    return ids


def edge_char_inputs(rg, n):
    """sources that begin or end with a character an input-handling short cut might treat specially (byte order mark,
    blanks of all kinds, line-separator look-alikes, surrogates, NUL), plus random mixtures: the form in which the
    characters are handed over must not matter for them either"""
    docs = ['\\x{a} b', 'a\n\\begin{a}b\\end{a}\n', '$x$', '% c\nd']
    out = []
    for c in gen.UNI_CHARS + ['\n', '\r', ' ', '\t', '\x00', '\r\n']:
        for d in docs:
            out += [c + d, d + c, c + c + d, c]
    out += gen.unicode_strings(rg, n)[-n:] if n else []
    return out


def iso_doc(rg):
    """documents for the isolation histories: every command of the signature table (argument-less ones included),
    math regions, lists, verbatim, on top of oracles.mini_doc"""
    from TexSoup.reader import SIGNATURES
    sig = sorted(SIGNATURES)
    parts = []
    for _ in range(rg.randint(1, 4)):
        k = rg.randrange(7)
        if k == 0:
            parts.append(oracles.mini_doc(rg, 2))
        elif k == 1:
            n = rg.choice(sig)
            parts.append('\\%s%s ' % (n, rg.choice(['', '{u}', '{u}{v}', '[o]{u}', ' {u}'])))
        elif k == 2:
            n = rg.choice(sig)
            parts.append('$a \\%s b \\%s$ ' % (n, rg.choice(sig)))
        elif k == 3:
            parts.append('\\begin{itemize}\\item p \\%s q\\item[r] s\\end{itemize}' % rg.choice(sig))
        elif k == 4:
            parts.append('\\begin{verbatim}\\x{\\end{verbatim}')
        elif k == 5:
            parts.append('\\[ x \\%s y \\] ' % rg.choice(sig))
        else:
            parts.append('{\\%s w} ' % rg.choice(sig))
    if rg.random() < 0.3:
        # definitions and uses (also before the definition, with another number of groups)
        n = rg.choice(['zz', 'R', 'pair'])
        parts.insert(rg.randrange(len(parts) + 1), rg.choice([
            '\\newcommand{\\%s}[2]{a #1 b} ' % n, '\\newcommand{\\%s}{c} ' % n, '\\renewcommand{\\%s}[1][d]{e} ' % n]))
        parts.insert(rg.randrange(len(parts) + 1), '\\%s%s ' % (n, rg.choice(['', '{u}', '{u}{v}{w}', ' [o]', '[o]{u}'])))
    return ''.join(parts)


def module_state():
    """every module-level container of the package (tables such as SIGNATURES, SKIP_ENV_NAMES, CATEGORY_CODES ...): a
    parse must not write into them - whatever it leaves there is seen by every later parse of the process"""
    import importlib
    out = {}
    for m in ('category', 'tokens', 'reader', 'data', 'utils', 'tex'):
        mod = importlib.import_module('TexSoup.' + m)
        for k, v in vars(mod).items():
            if k.startswith('__') or not isinstance(v, (dict, list, set, frozenset, tuple)):
                continue
            try:
                out[m + '.' + k] = repr(sorted(v, key=repr)) if isinstance(v, (set, frozenset)) else repr(v)
            except Exception:       # noqa
                out[m + '.' + k] = '?'
    return out


def interpreter_state():
    """settings of the interpreter that a parse has no business changing (they outlive the call and change what later
    parses - of deeply nested documents, say - do), and the module-level tables of the package"""
    import gc
    import locale
    import warnings
    return {'module_tables': module_state(), 'recursionlimit': sys.getrecursionlimit(), 'switchinterval': sys.getswitchinterval(), 'gc': gc.isenabled(),
            'gc_threshold': gc.get_threshold(), 'locale': locale.setlocale(locale.LC_ALL), 'warnings': len(warnings.filters),
            'int_max_str_digits': sys.get_int_max_str_digits(), 'trace': sys.gettrace() is not None,
            'profile': sys.getprofile() is not None, 'cwd': os.getcwd(), 'environ': len(os.environ)}


def big_then_deep(_):
    """an earlier parse of a long flat document must not change the outcome of a deeply nested one: B, A, B"""
    T = common.impl()
    deep = '\\textit{' * 300 + 'x' + '}' * 300
    flat = ''.join('\\section{S%d} text {g} \\emph{e}\n' % i for i in range(1500))

    def outcome(src):
        try:
            return 'tree %d' % len(str(T.TexSoup(src)))
        except RecursionError:
            return 'RecursionError'
        except Exception as e:      # noqa
            return type(e).__name__
    sys.setrecursionlimit(1000)          # the interpreter's default (the harness itself runs with a larger limit)
    before = interpreter_state()
    o1 = outcome(deep)
    o2 = outcome(flat)
    o3 = outcome(deep)
    after = interpreter_state()
    if o1 != o3:
        return ('parse-influenced', 'the same deeply nested source gave %s before and %s after parsing a long flat one' % (o1, o3))
    if before != after:
        ch = [k for k in before if before[k] != after[k]]
        return ('interpreter-state', 'parsing changed interpreter settings: %s (%r -> %r)' % (
            ch, [before[k] for k in ch], [after[k] for k in ch]))
    return 'ok'


def interleave(s1, s2, rg):
    """parse/edit interleavings on two documents; returns None or (key, what)"""
    T = common.impl()
    sys.setrecursionlimit(1000)          # the interpreter's default; these documents are small
    state0 = interpreter_state()

    def canon(s):
        return common.impl_parse(s)[0]
    ref1, ref2 = canon(s1), canon(s2)
    if not ref1.startswith('TREE') or not ref2.startswith('TREE'):
        return None
    a = T.TexSoup(s1)
    b = T.TexSoup(s2)
    # a parse with other OPTIONS in between must not influence later default parses either
    try:
        T.TexSoup(s1, skip_envs=('a', 'bb', 'center', 'tabular'), tolerance=1)
    except Exception:
        pass
    a2 = T.TexSoup(s1)
    if object_ids(a) & object_ids(a2):
        return ('shared-state', 'two parses of the same source share mutable objects')
    # edit a in several ways
    from TexSoup.data import TexNode
    nodes = [n for n in a.descendants if isinstance(n, TexNode)]
    rg.shuffle(nodes)
    for n in nodes[:8]:
        op = rg.randrange(7)
        try:
            if op == 4 and hasattr(n.expr, 'args'):
                n.args.append('{S}')
            elif op == 5 and hasattr(n.expr, 'args'):
                n.args.insert(0, '[T]')
            elif op == 6 and hasattr(n.expr, 'args'):
                n.args.extend(['{U}', '{V}'])
            elif op == 0:
                n.delete()
            elif op == 1 and n.expr.__class__.__name__ in ('TexCmd', 'TexNamedEnv'):
                n.name = 'renamed'
            elif op == 2:
                n.replace_with('zzz')
            elif op == 3 and n.args:
                n.args.reverse()
        except Exception:
            pass
    c = T.TexSoup(s2)
    d = T.TexSoup(s1)
    for nm, soup, ref in (('b-after-edits-of-a', b, ref2), ('fresh-parse-of-s2', c, ref2), ('fresh-parse-of-s1', d, ref1),
                          ('second-parse-of-s1', a2, ref1)):
        got = 'TREE %s SER %s' % (common.canon_root(soup), common.enc(str(soup)))
        if got != ref:
            return ('parse-influenced', '%s changed by edits to another tree' % nm)
    state1 = interpreter_state()
    if state1 != state0:
        ch = [k for k in state0 if state0[k] != state1[k]]
        return ('interpreter-state', 'parsing changed interpreter settings: %s' % ch)
    return 'ok'


def _interleave_job(job):
    import random
    s1, s2, sd = job
    try:
        return interleave(s1, s2, random.Random(sd))
    except RecursionError:
        return None


def oracle(ctx, seeds, scale):
    r = Result()
    common.impl()
    rg = ctx.rng('oracle')
    alpha = gen.TOKEN_ALPHA
    strs = [s for s in seeds if isinstance(s, str)]
    strs += list(gen.random_strings(rg, alpha, ctx.pick(800, 8000) * scale, 2, 10)) + sizing_inputs() + gen.corpus()[:12]
    strs += edge_char_inputs(ctx.rng('oracle/edge'), ctx.pick(300, 3000) * scale)
    for s in strs:
        base = common.impl_parse(s)[0]
        for name, mk in forms(s, rg):
            got = _canon_obj(mk)
            r.count((name, s), len(s) > 1)
            if got != base:
                r.fail('form-differs', 'input as %s differs from the same characters as str' % name, input=s, form=name)
    # hash seeds: all answers equal among themselves
    inputs = [(0, s) for s in sizing_inputs()]
    res = run_seeds(inputs, list(range(ctx.pick(6, 48))))
    ks = sorted(res)
    for i, (t, s) in enumerate(inputs):
        vals = {res[k][i] for k in ks}
        r.count(('seeds', s), True)
        if len(vals) != 1:
            r.fail('hashseed-dependent', 'result depends on PYTHONHASHSEED', input=s)
    # interleavings and isolation: every case in a freshly forked child, so that no state left behind by
    # another case (or by this process) can hide an influence
    docs = [oracles.mini_doc(rg, 3) if i % 2 else iso_doc(rg) for i in range(ctx.pick(240, 2400))]
    pairs = [(s1, s2, rg.randrange(1 << 30)) for s1, s2 in zip(docs, docs[1:])]
    pairs += [(s1, s1, rg.randrange(1 << 30)) for s1 in docs[::6]]        # the same source twice
    os.environ['REPO'] = common.REPO
    import multiprocessing as mp
    # 'spawn': fresh interpreters - this process may itself have parsed with other options already
    with mp.get_context('spawn').Pool(min(16, os.cpu_count() or 1), maxtasksperchild=8) as pool:
        results = pool.map(_interleave_job, pairs, chunksize=1)
    with mp.get_context('spawn').Pool(1) as pool:
        x = pool.map(big_then_deep, [0])[0]
    r.count(('big-then-deep',), True)
    if x != 'ok':
        r.fail(x[0], x[1], input='\\textit{ x300 ; 1500 sections ; \\textit{ x300')
    for (s1, s2, _), x in zip(pairs, results):
        r.count(('inter', s1, s2), True)
        if x not in (None, 'ok'):
            r.fail(x[0], x[1], input=s1, other=s2)
    r.sample({'source': '$\\left.|x$', 'forms': ['str', 'list', 'tuple', 'generator', 'lines', 'file', 'chars'], 'hash_seeds': len(ks)})
    r.rule = ('same characters as str/list/tuple/generator/lines/file give identical canonical trees; identical results under '
              '%d interpreter hash seeds for every sizing-command/delimiter combination; parses before/after edits of another '
              'tree are unaffected; two parses of one source share no mutable object (id sets disjoint)' % len(ks))
    return r


def replay_known(ctx, k):
    return False


def replay(ctx, payload):
    f = payload.get('failure') or {}
    s = f.get('input')
    if not isinstance(s, str):
        return True, 'nothing to replay: ' + '; '.join(payload.get('broken', []))[:600]
    res = run_seeds([(0, s)], list(range(16)))
    vals = {v[0] for v in res.values()}
    rg = __import__('random').Random(0)
    base = common.impl_parse(s)[0]
    bad = [n for n, mk in forms(s, rg) if _canon_obj(mk) != base]
    return len(vals) == 1 and not bad, 'replay %r: %d distinct results over 16 hash seeds; differing forms %s' % (s, len(vals), bad)
