"""C05 – Structural edits are local to the targeted node."""
import json
import random
import zlib

import common
import gen
import lib_edit as L
from common import enc, dec
from framework import Result
from props import _util

ID = 'C05'
LEAN_TARGETS = ['TexSoupProofs.Properties.C05']
THEOREMS = ['TexSoup.C05.' + n for n in (
    'delete_splice', 'replace_splice', 'remove_fails', 'insert_splice', 'insert_splice_py', 'insert_beyond', 'append_splice',
    'insert_fails', 'sites', 'edit_preserves_others', 'edit_new_material', 'twins_example',
    'Legacy.delete_not_local')]
PARTIAL = []
TRUSTED = ['hand-written model of the tree edits (lean/TexSoupModel/Edit.lean), tied to TexSoup/data.py by the '
           'correspondence run only',
           'correspondence harness (props/c05.py, lib_edit.py): structural paths, node acquisition through .contents by '
           'identity of .expr, canonical trees',
           'the span computation of the oracle (lib_edit.locate / ins_point: sums of len(str(.)) of what precedes the '
           'target structurally) = offAtRoot / insOffRoot of the proofs by inspection']
ASSUMPTIONS = ['the model driver is the compiled form of the verified definitions',
               'every single edit starts from a deep copy of the freshly parsed tree (copy.deepcopy of soup.expr; same '
               'canonical tree) and its new material is a deep copy of a node parsed at the top level of a snippet, so that '
               'no object occurs twice',
               'transplant histories add the very object that navigation gives: a node taken from inside an argument / brace '
               'group / \\item body of a separately parsed snippet document (shared with that snippet, which must stay as it '
               'was), or a .copy() of a node of the document itself (shared with its old place). A copy is only added where '
               'the library is well-defined: under a parent node that does not already hold the object in one of its own '
               'content lists (the lookup is by identity among the holders of the parent) and not into itself; while an '
               'object occurs twice, steps that edit inside it are not generated (they would change both places; '
               'excluded, counted as aliased_inner_edit if met), and a step that edits inside material shared with a '
               'snippet legitimately changes that snippet (counted as source_inner_edit)',
               'a container is a node whose contents may be edited: every node but a command other than \\item, for which '
               'insert/append raise TypeError (documented) and must leave the document as it is',
               'insertion indices count the elements of the stored content list (whitespace-only text included), '
               'as TexExpr.insert does; an index beyond the end appends, a negative index counts from the end and is clamped '
               'at the front (list.insert); several pieces are the splice l[i:i] = pieces']

FIXED = ['\\x y\\x z',
         '\\begin{itemize}\\item[\\textbf{a}] \\textbf{a} is first\\end{itemize}',
         '\\begin{tabular}{\\w}x & \\w & y\\end{tabular}',
         '\\begin{figure}[\\small]\\small caption\\end{figure} tail',
         'pre \\ref{k} mid \\ref{k} post',
         '\\textbf{\\x}\\x', '{\\x}$\\x$ \\x', '\\sec[o]{p \\x}\\x', '\\def\\foo\\foo',
         '\\begin{a}{c \\x}\\x\\end{a}\\x',
         '\\begin{itemize}\\item[\\x] \\x \\x\\item[\\x] \\x\\end{itemize}',
         '\\begin{itemize}\\item a\\item a\\end{itemize}',
         '\\x{a}{a}{a \\x{a}}', '$$a$$ $$a$$', '\\[\\y\\]\\(\\y\\)\\y',
         '{{g}{g}}{g}', ' y y', '\\begin{a}\\begin{a}t\\end{a}\\end{a}\\begin{a}t\\end{a}',
         'a % c\n\\x % c\n\\x', '\\\\ \\\\ \\$ \\$', '\\newcommand{\\foo}[1]{#1 \\x}\\x',
         '\\begin{equation}x\\end{equation}\\begin{equation}x\\end{equation}',
         '\\begin{verbatim}\\x\\end{verbatim}\\x']

REP_SIZES = (1, 2, 3)
# several pieces with an empty string in first / middle position (an empty piece is stored as an empty text leaf and
# must not move its neighbours)
EMPTY_PIECES = ['s:-,n:' + enc('\\z{1}'), 's:' + enc('P') + ',s:-,s:' + enc('Q'), 's:-,n:' + enc('\\q{2}') + ',s:' + enc('T'),
                'n:' + enc('\\x') + ',s:-,s:-,n:' + enc('\\x')]
TRANSPLANT_DOCS = ['\\section{A \\emph{hi} B}\\begin{quote}text \\emph{hi}\\end{quote}',
                   '\\begin{itemize}\\item a \\x b\\item \\x\\end{itemize}$x \\x$ {\\x}\\x',
                   '\\section{Intro}\\begin{quote}text\\end{quote}', '{{g} \\x}{g}\\[\\x\\]',
                   '\\begin{a}{c \\x}\\x\\end{a}\\x', '\\textbf{\\x}\\x']

KEY = {'del': 'delete-not-local', 'rem': 'remove-not-local', 'rep': 'replace-not-local',
       'ins': 'insert-not-local', 'app': 'insert-not-local'}


def _crc(*xs):
    return zlib.crc32('\x1f'.join(str(x) for x in xs).encode('utf-8', 'replace'))


def documents(rng, n, corpus_max=0):
    """FIXED + n generated documents (+ short repository documents), parseable, distinct."""
    T = common.impl()
    docs = list(FIXED) + [L.gen_doc(rng) for _ in range(n)]
    if corpus_max:
        docs += [d for d in gen.corpus() if len(d) <= corpus_max]
    seen, out = set(), []
    for d in docs:
        if d in seen:
            continue
        seen.add(d)
        try:
            T.TexSoup(d)
        except Exception:
            continue
        out.append(d)
    return out


STR_RULE = ('New plain strings are words/blanks/the empty string and (30% of them, plus per document some of each kind '
            'as single replace/insert/append piece) LaTeX source out of lib_edit.SRC_STRS: commands separated from their '
            'argument group by a blank or a line break, a fixed-signature command with a bare token, unbalanced fragments '
            '(\\begin{x}, \\[, {, }, \\foo{), a lone backslash, a comment; a string is spliced in verbatim as one text '
            'leaf (never parsed). The target itself or its .copy() among its own 2..3 replacement pieces (wrap [x], x!, !x, '
            'x / x, x alone; lib_edit.self_replacements) for targets in every kind of holder: the text of the pieces at the '
            'target\'s place. A whole parsed document as one piece (TexSoup(src) itself, lib_edit.DOC_SRCS: blank-only text '
            'between / before / behind its top-level elements, a single blank), alone and among other pieces, for '
            'replace/insert/append: its full text is spliced in (the model splices its elements where the implementation '
            'nests its root, so only the serialisations are compared for these edits). Three pieces inserted at an index '
            'beyond the end (len+1, len+10, 99, 1000) arrive in the given order; insertion indices are any integers: '
            'negative ones (-1, -2, -len, -len-1, -99; one piece and several) are resolved once as list.insert does and all '
            'pieces are spliced in there, in order (l[i:i] = pieces). Multi-piece replace/insert with an empty string in first / middle position '
            '(EMPTY_PIECES) at the front and in the middle of a container. ')


def transplant_rule(cap):
    return ('Transplant histories (several ops; new material kinds i: = a node taken from inside a separately parsed '
            'snippet, c: = a .copy() of a node of the document itself): on %d hand-written documents, for %s '
            'container(s), each of the %d snippet nodes of lib_edit.INNER_MATS (parsed inside a command argument, a '
            'bracket argument, a brace group, a group in a group, an \\item body) and up to 3 well-defined .copy()s of '
            'nodes of the document are appended (alone / behind a fresh textual twin) or inserted at 0, then that very '
            'node is deleted (node.delete(), parent.remove(node)) or replaced (replace_with, parent.replace) at its new '
            'place; plus random histories on every document (lib_edit.gen_transplant: 0..2 ordinary steps, the adding '
            'step - append mostly, insert, replace, often next to a textual twin -, 1..3 later steps mostly aimed at the '
            'added node). After every step the snippet document the material came from must be unchanged.'
            % (len(TRANSPLANT_DOCS), 'every' if cap is None else 'up to %d sampled' % cap, len(L.INNER_MATS)))


def _mats(rng, size, twin=None):
    out = []
    for _ in range(size):
        if twin is not None and rng.random() < 0.25:
            out.append('n:' + enc(twin))
        elif rng.random() < 0.6:
            out.append('n:' + enc(rng.choice(L.MAT_NODES)))
        else:
            out.append('s:' + enc(L.gen_str(rng)))
    return ','.join(out)


def _standalone(T, x):
    """The text of x if it parses on its own to one element with the same text (then a copy of
    it can serve as new material: a fresh twin of the target)."""
    from TexSoup import data as D
    s = str(x)
    if not s or not isinstance(x, (D.TexCmd, D.TexEnv)):
        return None
    try:
        c = T.TexSoup(s).expr._contents
    except Exception:
        return None
    return s if len(c) == 1 and str(c[0]) == s and type(c[0]) is type(x) else None


def single_edits(base, rng, cap=None):
    """[(kind, op, variant, nontrivial)]: every non-root node as target of delete (two
    spellings) and replace (two spellings, 1..3 new nodes/strings), every index 0..len (and
    len+1) of every container for insert, append.  `cap`: sample that many targets/containers."""
    T = common.impl()
    targets, containers = L.enum_tree(base)
    texts = {}
    for path, x in targets:
        texts[str(x)] = texts.get(str(x), 0) + 1
    if cap is not None and len(targets) > cap:
        targets = rng.sample(targets, cap)
    if cap is not None and len(containers) > cap:
        containers = [containers[0]] + rng.sample(containers[1:], cap - 1)
    out = []
    for path, x in targets:
        p = L.show_path(path)
        twin = texts[str(x)] >= 2
        out.append(('del', 'del ' + p, 1, twin))
        out.append(('rem', 'del ' + p, 0, twin))
        alone = _standalone(T, x)
        sizes = REP_SIZES if cap is None else (rng.choice(REP_SIZES),)
        for size in sizes:
            for variant in (1, 0):
                out.append(('rep', 'rep %s %s' % (p, _mats(rng, size, alone)), variant, twin))
    # plain strings that are LaTeX source (spliced verbatim, never parsed) and empty strings among several pieces
    if targets:
        srcs = L.SRC_STRS if cap is None else rng.sample(L.SRC_STRS, 4)
        tp = [rng.choice(targets) for _ in srcs]
        for st, (path, x) in zip(srcs, tp):
            for variant in (1, 0):
                out.append(('rep', 'rep %s s:%s' % (L.show_path(path), enc(st)), variant, True))
        path, x = rng.choice(targets)
        for m in EMPTY_PIECES:
            for variant in (1, 0):
                out.append(('rep', 'rep %s %s' % (L.show_path(path), m), variant, True))
    # the target itself (or its copy()) among its own replacement pieces: x.replace_with('[', x, ']')
    for path, x in (targets if cap is None else rng.sample(targets, min(4, len(targets)))):
        p = L.show_path(path)
        fam = L.self_replacements(p)
        for m, aliased in (fam if cap is None else fam[:2] + rng.sample(fam[2:], 2)):
            for variant in (1, 0):
                out.append(('rep', 'rep %s %s' % (p, m), variant, True))
    # whole parsed documents handed in as one piece (d:), alone and among other pieces
    if targets:
        dsrc = L.DOC_SRCS if cap is None else rng.sample(L.DOC_SRCS, 3)
        for st in dsrc:
            path, x = rng.choice(targets)
            m = rng.choice(['d:%s', 's:' + enc('Fig. ') + ',d:%s', 'd:%s,n:' + enc('\\x')]) % enc(st)
            for variant in (1, 0):
                out.append(('rep', 'rep %s %s' % (L.show_path(path), m), variant, True))
    good = [c for c in containers if not L.refuses_contents(c[2])]
    if good:
        dsrc = L.DOC_SRCS if cap is None else rng.sample(L.DOC_SRCS, 3)
        for st in dsrc:
            path, ln, x = rng.choice(good)
            out.append(('ins', 'ins %s %d d:%s' % (L.show_path(path), rng.randint(0, ln), enc(st)), 0, True))
            out.append(('app', 'app %s d:%s,s:%s' % (L.show_path(path), enc(st), enc('s')), 0, True))
        # several pieces at an index beyond the end: appended in the given order (list.insert clamps); at a negative
        # index: together, in order, at the place list.insert resolves it to
        for path, ln, x in (good if cap is None else rng.sample(good, min(3, len(good)))):
            for i in ([ln + 1, ln + 10, 99, 1000] + L.neg_indices(ln) if cap is None
                      else [L.past_end(rng, ln), L.neg_index(rng, ln), -1]):
                out.append(('ins', 'ins %s %d n:%s,s:%s,n:%s' % (L.show_path(path), i, enc('\\p{1}'), enc('txt'),
                                                                 enc('\\q{2}')), 0, True))
        srcs = L.SRC_STRS if cap is None else rng.sample(L.SRC_STRS, 4)
        for st in srcs:
            path, ln, x = rng.choice(good)
            out.append(('ins', 'ins %s %d s:%s' % (L.show_path(path), rng.randint(0, ln), enc(st)), 0, True))
            out.append(('app', 'app %s n:%s,s:%s' % (L.show_path(path), enc('\\x'), enc(st)), 0, True))
        path, ln, x = rng.choice(good)
        for m in EMPTY_PIECES:
            out.append(('ins', 'ins %s 0 %s' % (L.show_path(path), m), 0, True))
            out.append(('ins', 'ins %s %d %s' % (L.show_path(path), ln // 2, m), 0, True))
    ctexts = {}
    for path, ln, x in containers:
        ctexts[str(x)] = ctexts.get(str(x), 0) + 1
    for path, ln, x in containers:
        c = L.show_path(path)
        twin = bool(path) and (ctexts[str(x)] >= 2 or texts.get(str(x), 0) >= 2)
        for i in range(ln + 2):
            out.append(('ins', 'ins %s %d %s' % (c, i, _mats(rng, rng.choice(REP_SIZES))), 0,
                        twin or 0 < i <= ln))
        # negative indices (counted from the end, clamped at the front), one piece and several
        for i in (L.neg_indices(ln) if cap is None else [L.neg_index(rng, ln)]):
            for size in ((1, 2, 3) if cap is None else (rng.choice((2, 3)),)):
                out.append(('ins', 'ins %s %d %s' % (c, i, _mats(rng, size)), 0, True))
        out.append(('app', 'app %s %s' % (c, _mats(rng, rng.choice(REP_SIZES))), 0, twin or ln > 0))
    return out


def transplants(doc, rng, cap, exhaustive=False):
    """[(ops, variant)]: histories that add a node taken from inside a snippet (or a .copy() of a
    node of the document) and then delete / replace that node at its new place: the enumerated
    pairs of lib_edit.transplant_pairs (for `exhaustive` documents) and random longer ones
    (lib_edit.gen_transplant)."""
    out = []
    if exhaustive:
        out += L.transplant_pairs(doc, rng, cap)
    for _ in range(4 if exhaustive else 2):
        out.append((L.gen_transplant(rng, doc), None))
    return out


def _is_hist(inp):
    return bool(inp.get('hist')) or len(inp.get('ops', [])) > 1


# ------------------------------------------------------------------------------------ correspondence

def _unit_docs(docs, rng):
    """A unit names its documents, or asks for that many generated ones (made in the worker:
    gen_doc parses every candidate)."""
    if isinstance(docs, int):
        return [L.gen_doc(rng) for _ in range(docs)]
    return docs


def _corr_unit(unit):
    docs, seed, cap = unit[:3]
    exhaustive = len(unit) > 3 and unit[3]
    T = common.impl()
    rng = random.Random(seed)
    docs = _unit_docs(docs, rng)
    cases, reqs, hists = [], [], []
    for doc in docs:
        base = T.TexSoup(doc)
        for kind, op, variant, nt in single_edits(base, rng, cap):
            cases.append((doc, base, kind, op, variant, nt))
            reqs.append(L.edit_req(doc, [op]))
        for ops, variant in transplants(doc, rng, cap, exhaustive):
            hists.append((doc, ops, variant))
    model = _util.model(reqs + [L.edit_req(doc, ops) for doc, ops, _ in hists])
    n, hashes, fails, kinds = 0, [], [], {'documents': len(docs)}
    for (doc, ops, variant), m in zip(hists, model[len(cases):]):
        a = L.impl_edit(doc, ops, variant=variant)
        n += 1
        kinds['transplant'] = kinds.get('transplant', 0) + 1
        hashes.append(_crc(doc, ';'.join(ops), variant))
        if not L.same_answer(a, m, ops) and len(fails) < 3:
            fails.append({'key': 'model-mismatch-transplant', 'what': L.explain(doc, ops)[:700],
                          'input': {'doc': doc, 'ops': ops, 'variant': variant, 'hist': True}})
    for (doc, base, kind, op, variant, nt), m in zip(cases, model):
        a = L.impl_edit(doc, [op], soup=L.clone(base), variant=variant)
        n += 1
        kinds[kind] = kinds.get(kind, 0) + 1
        if nt:
            hashes.append(_crc(doc, op, variant))
        if not L.same_answer(a, m, [op]) and len(fails) < 3:
            fails.append({'key': 'model-mismatch-' + kind,
                          'what': L.explain(doc, [op])[:600],
                          'input': {'doc': doc, 'ops': [op], 'variant': variant}})
    return n, hashes, fails, kinds


def _units(docs, rng, cap, per=6):
    """Work units of `per` documents; `docs` is a list, or a number of documents to generate."""
    if isinstance(docs, int):
        return [(min(per, docs - i), rng.getrandbits(32), cap) for i in range(0, docs, per)]
    return [(docs[i:i + per], rng.getrandbits(32), cap) for i in range(0, len(docs), per)]


def _collect(r, results):
    for n, hashes, fails, kinds in results:
        r.evaluations += n
        r.nontrivial.update(hashes)
        for k, v in kinds.items():
            r.bump(k if k == 'documents' else 'edits_' + k, v)
        for f in fails:
            if len(r.failures) < 50:
                r.fail(f.pop('key'), f.pop('what'), **f)


def correspondence(ctx):
    r = Result()
    common.impl()
    rng = ctx.rng('corr')
    cap = ctx.pick(8, None)
    units = _units(documents(rng, 0), rng, cap, per=2) + _units(ctx.pick(400, 2000), rng, cap)
    units += [u + (True,) for u in _units(TRANSPLANT_DOCS, rng, ctx.pick(4, None), per=1)]
    _collect(r, _util.pmap(_corr_unit, units))
    op = 'del b2'
    r.sample({'request': L.edit_req(FIXED[0], [op]), 'impl': L.impl_edit(FIXED[0], [op])})
    r.rule = ('edit request (one op; answer = str(soup) after the op or FAIL, plus the canonical final tree) model vs the real '
              'TexNode API on %d hand-written twin documents + lib_edit.gen_doc documents (textual twins in bodies and in '
              'arguments): %s non-root node(s) per document as target of node.delete(), parent.remove(node), '
              'node.replace_with(..) and parent.replace(node, ..) with 1..3 new nodes/strings (one of them often a fresh '
              'copy of the target itself), every index 0..len+1 of %s container(s) for insert, append; refused edits '
              '(insertion into a plain command) must be refused by the model too; non-trivial = the target (container) has '
              'a textual twin elsewhere in the document, or the insertion index is interior. '
              % (len(FIXED), 'every' if cap is None else 'up to %d sampled' % cap,
                 'every' if cap is None else 'up to %d sampled' % cap)) + STR_RULE + transplant_rule(ctx.pick(4, None))
    r.exhaustive = cap is None
    return r


# ------------------------------------------------------------------------------------ oracle

def check_edit(base, before, kind, op, variant):
    """C05 as stated, on the implementation alone.  Returns None or (key, what)."""
    soup = L.clone(base)
    P = L.Op(op, soup)
    new_text = P.mat_text()
    if kind in ('ins', 'app'):
        _, c, _, _ = L.locate(soup, P.path)
        k = L.ins_point(soup, P.path, P.index if kind == 'ins' else len(c._contents))
        n = 0
        may_refuse = L.refuses_contents(c)
    else:
        k, x, holder, _ = L.locate(soup, P.path)
        n = len(str(x))
        may_refuse = L.refuses_contents(holder)
        if before[k:k + n] != str(x):
            return ('span-mismatch', 'str(soup)[%d:%d] = %r is not the text of the node %r: serialisation is not the '
                    'concatenation of the parts' % (k, k + n, before[k:k + n], str(x)))
    want = before[:k] + new_text + before[k + n:]
    node = L.node_for(soup, P.path)
    exc = None
    try:
        if kind == 'del':
            node.delete()
        elif kind == 'rem':
            node.parent.remove(node)
        elif kind == 'rep' and variant:
            node.replace_with(*P.mats)
        elif kind == 'rep':
            node.parent.replace(node, *P.mats)
        elif kind == 'ins':
            node.insert(P.index, *P.mats)
        else:
            node.append(*P.mats)
    except RecursionError:
        raise
    except Exception as e:
        exc = e
    after = str(soup)
    if exc is not None:
        if after != before:
            return ('refused-edit-mutated', '%s raised %s but the document changed: %r -> %r' % (
                op_text(kind, op, variant), type(exc).__name__, before[:120], after[:120]))
        if not may_refuse:
            return (KEY[kind], '%s raised %s: %s' % (op_text(kind, op, variant), type(exc).__name__, str(exc)[:120]))
        return 'refused'
    if after != want:
        return (KEY[kind], '%s at offset %d (span %r): expected %r, got %r' % (
            op_text(kind, op, variant), k, before[k:k + n], want[:160], after[:160]))
    return None


def op_text(kind, op, variant):
    w = op.split(' ')
    mats = []
    if kind in ('rep', 'ins', 'app'):
        for m in ([] if w[-1] == '_' else w[-1].split(',')):
            mats.append(L.mat_show(m))
    call = {'del': 'node.delete()', 'rem': 'node.parent.remove(node)',
            'rep': ('node.replace_with(%s)' if variant else 'node.parent.replace(node, %s)') % ', '.join(mats),
            'ins': 'node.insert(%s)' % ', '.join(w[2:3] + mats), 'app': 'node.append(%s)' % ', '.join(mats)}[kind]
    return '%s with node at %s' % (call, w[1])


def run_hist(doc, ops, variant=None, stats=None):
    """A transplant history on the implementation alone (lib_edit.run_transplant): every step must be the
    splice of the targeted place, the snippet documents stay as they were.  None or (key, what, step)."""
    return L.run_transplant(doc, ops, variant, stats)


def shrink_hist(doc, ops, variant, key):
    """Cut after the failing step, then drop single earlier ops while the same key fails."""
    x = run_hist(doc, ops, variant)
    if not x:
        return ops
    if x[2] < len(ops) - 1:
        ops, variant = ops[:x[2] + 1], None
    changed = True
    while changed:
        changed = False
        for k in range(len(ops) - 1):
            cand = ops[:k] + ops[k + 1:]
            try:
                y = run_hist(doc, cand, variant)
            except Exception:
                y = None
            if y and y[0] == key and y[2] == len(cand) - 1:
                ops, changed = cand, True
                break
    return ops


def _oracle_unit(unit):
    docs, seed, cap = unit[:3]
    exhaustive = len(unit) > 3 and unit[3]
    given = unit[4] if len(unit) > 4 else None
    T = common.impl()
    rng = random.Random(seed)
    docs = _unit_docs(docs, rng)
    n, hashes, fails, stats = 0, [], [], {'documents': len(docs)}
    tstats = {}
    for doc in docs:
        hists = transplants(doc, rng, cap, exhaustive) if given is None else given
        for ops, variant in hists:
            x = run_hist(doc, ops, variant, tstats)
            n += 1
            stats['transplant'] = stats.get('transplant', 0) + 1
            hashes.append(_crc(doc, ';'.join(ops), variant))
            if x is not None and len(fails) < 5:
                fails.append({'key': x[0], 'what': x[1],
                              'input': {'doc': doc, 'ops': ops, 'variant': variant, 'hist': True}})
    for k, v in tstats.items():
        stats['transplant_' + k] = stats.get('transplant_' + k, 0) + v
    for doc in docs:
        if given is not None:
            break
        base = T.TexSoup(doc)
        before = str(base)
        for kind, op, variant, nt in single_edits(base, rng, cap):
            x = check_edit(base, before, kind, op, variant)
            n += 1
            stats[kind] = stats.get(kind, 0) + 1
            if x == 'refused':
                stats['refused_' + kind] = stats.get('refused_' + kind, 0) + 1
                continue
            if nt:
                hashes.append(_crc(doc, kind, op, variant))
                stats['twin_or_interior'] = stats.get('twin_or_interior', 0) + 1
            if x is not None and len(fails) < 5:
                fails.append({'key': x[0], 'what': x[1],
                              'input': {'doc': doc, 'ops': [op], 'kind': kind, 'variant': variant}})
    return n, hashes, fails, stats


def _collect_oracle(r, results):
    for n, hashes, fails, stats in results:
        r.evaluations += n
        r.nontrivial.update(hashes)
        for k, v in stats.items():
            r.bump(k, v)
        for f in fails:
            if len(r.failures) < 100:
                r.fail(f.pop('key'), f.pop('what'), **f)


def oracle(ctx, seeds, scale):
    r = Result()
    common.impl()
    rng = ctx.rng('oracle')
    seed_docs = []
    for s in seeds:
        if isinstance(s, dict) and isinstance(s.get('doc'), str) and s['doc'] not in seed_docs:
            seed_docs.append(s['doc'])
    cap = ctx.pick(10, None)
    units = _units(seed_docs[:60], rng, None, per=1)
    for s0 in [x for x in seeds if isinstance(x, dict) and isinstance(x.get('doc'), str) and _is_hist(x)][:40]:
        units.append(([s0['doc']], rng.getrandbits(32), None, False, [(list(s0['ops']), s0.get('variant'))]))
    units += [u + (True,) for u in _units(TRANSPLANT_DOCS, rng, ctx.pick(4, None), per=1)]
    units += _units(documents(rng, 0, corpus_max=ctx.pick(300, 1500)), rng, cap, per=2)
    units += _units(ctx.pick(700, 4000) * scale, rng, cap)
    _collect_oracle(r, _util.pmap(_oracle_unit, units))
    for f in [f for f in r.failures if _is_hist(f['input'])][:6]:
        try:
            inp = f['input']
            ops = shrink_hist(inp['doc'], inp['ops'], inp.get('variant'), f['key'])
            v = inp.get('variant') if len(ops) == len(inp['ops']) else None
            x = run_hist(inp['doc'], ops, v)
            if x and x[0] == f['key']:
                f['input'] = {'doc': inp['doc'], 'ops': ops, 'variant': v, 'hist': True}
                f['what'] = x[1]
        except Exception:                           # noqa: keep the unshrunk history
            pass
    # failures sorted so that the smallest history on the smallest document is reported first
    r.failures.sort(key=lambda f: (len(f['input']['ops']), len(f['input']['doc'])))
    r.sample({'doc': FIXED[0], 'edit': 'node.delete() with node at b2 (the second \\x, span [4:6])',
              'expected': '\\x y z', 'got': _demo()})
    r.rule = ('for every edit: k, n = offset and length of the target in str(soup) BEFORE the edit, from the lengths of the '
              'texts of everything that precedes it structurally (argument lists, \\name, \\begin{name}, delimiters, earlier '
              'siblings; never .position); the edit through the public API on a node reached from the root through '
              '.contents; then str(soup) == before[:k] + text of the new material + before[k+n:] (delete/remove: nothing; '
              'insert at index i / append: n = 0 and k = offset of the i-th stored body element / of the end of the body). '
              'An edit that raises must leave str(soup) as it was, and may raise only for a holder/container that is a '
              'command other than \\item. Documents: hand-written twin documents, lib_edit.gen_doc, short repository '
              'documents; %s; non-trivial = the target (container) has a textual twin elsewhere, or interior index. '
              % ('every target, every index' if cap is None else 'up to %d sampled targets and containers per document' % cap)
              ) + STR_RULE + transplant_rule(ctx.pick(4, None)) + (
              ' Each step of such a history is checked in the same way against the text before the step (offsets from the '
              'CURRENT tree), on the freshly parsed document with the very objects that navigation gives (no deep copies).')
    r.exhaustive = cap is None
    return r


def _demo():
    T = common.impl()
    s = T.TexSoup(FIXED[0])
    L.node_for(s, L.parse_path('b2')).delete()
    return str(s)


def _replay_input(inp):
    T = common.impl()
    if _is_hist(inp):
        x = run_hist(inp['doc'], inp['ops'], inp.get('variant'))
        return None if x is None else x[:2]
    base = T.TexSoup(inp['doc'])
    op = inp['ops'][0]
    kind = inp.get('kind') or op.split(' ')[0]
    return check_edit(base, str(base), kind, op, inp.get('variant', 0))


def replay_known(ctx, k):
    try:
        x = _replay_input(json.loads(dec(k['input'])))
    except Exception:
        return False
    return x not in (None, 'refused')


def replay(ctx, payload):
    f = payload.get('failure') or {}
    inp = f.get('input')
    if not isinstance(inp, dict) or 'doc' not in inp:
        d = payload.get('disagreements') or []
        if d and isinstance(d[0].get('input'), dict):
            inp = d[0]['input']
            still = L.disagree(inp['doc'], inp['ops'])
            return not still, 'model/implementation disagreement (%s):\n%s' % (
                'persists' if still else 'gone', L.explain(inp['doc'], inp['ops']))
        return True, 'nothing to replay: ' + '; '.join(payload.get('broken', []))[:600]
    x = _replay_input(inp)
    return x in (None, 'refused'), 'replay %r %s -> %r' % (inp['doc'], inp['ops'], x)
