"""C03 – Search returns exactly the matching nodes."""
import re

import common
import gen
import lib_nav
from common import enc
from framework import Result

ID = 'C03'
LEAN_TARGETS = ['TexSoupProofs.Properties.C03', 'TexSoupProofs.Properties.C03C04Parsed']
THEOREMS = ['TexSoup.C03.' + n for n in (
    'findAll_spec', 'findAll_root', 'match_plain', 'plainName_necessary', 'occ_spec', 'findAll_name_occ',
    'findAll_name_occ_root', 'findAll_name_order', 'findAll_name_filter', 'find_eq_head', 'count_eq_length',
    'getattr_eq_find', 'findAll_names_union', 'findAll_names_order', 'findAll_absent', "findAll_absent'",
    'findAll_fullexpr', 'findAll_fullexpr_cmd', 'findAll_name_occ_parsed', 'findAll_name_occ_root_parsed',
    'findAll_name_order_parsed', 'findAll_name_order_root_parsed', 'findAll_absent_parsed',
    'findAll_absent_root_parsed')] + ['TexSoup.parse_flatArgs']
PARTIAL = []
TRUSTED = ['hand-written model of find_all/__match__/descendants (lean/TexSoupModel/Nav.lean) and of the reader, tied '
           'to the code by the correspondence run only',
           'correspondence harness (props/c03.py): find request, canonical answer = str of every result at every '
           'search root']
ASSUMPTIONS = ['"by name" = a query that __match__ treats as a name (plainName of the proofs): no `{`, no `[`, and not '
               'one of the bare delimiters ] } \\] \\( \\) which TexEnv.__match__ accepts as closing/opening text; '
               'plainName_necessary shows the condition is exact',
               'documents are freshly parsed; arguments are groups without arguments of their own (Expr.flatArgs)',
               'attribute access is compared with find only for names that are not real attributes of TexNode',
               'the model driver is the compiled form of the verified definitions']

DELIMS = (']', '}', '\\]', '\\(', '\\)')
ABSENT = ['zzz', 'nope', 'Qx']


def plain(n):
    return isinstance(n, str) and '{' not in n and '[' not in n and n not in DELIMS


def _docs(ctx, tag, n):
    rng = ctx.rng(tag)
    docs = list(lib_nav.FIXED) + gen.corpus()
    docs += [lib_nav.gen_doc(rng) for _ in range(n)]
    docs += [lib_nav.gen_doc(rng, depth=6, width=8) for _ in range(n // 10)]
    seen, out = set(), []
    for d in docs:
        if d not in seen:
            seen.add(d)
            out.append(d)
    return out


def _is_expr(x):
    from TexSoup import data as D
    return isinstance(x, D.TexExpr) and not isinstance(x, D.TexText)


def _walk(e, out):
    """Independent enumeration (expr objects only; no descendants/find_all/contents): every command and
    environment that occurs in the contents of an argument group of `e` or in the body of `e`, recursively."""
    for a in e.args:
        for c in getattr(a, '_contents', ()):
            if _is_expr(c):
                out.append(c)
                _walk(c, out)
    for c in e._contents:
        if _is_expr(c):
            out.append(c)
            _walk(c, out)
    return out


def _queries(soup, rng):
    """[(kind, query)] with query a str or a list of str."""
    from TexSoup import data as D
    nodes = _walk(soup.expr, [])
    names = []
    for x in nodes:
        if x.name not in names:
            names.append(x.name)
    qs = [('name', n) for n in names]
    absent = [a for a in ABSENT if a not in names]
    qs += [('absent', a) for a in absent]
    pl = [n for n in names if plain(n)]
    if pl:
        qs.append(('list1', [rng.choice(pl)]))
        qs.append(('list', [rng.choice(pl), rng.choice(pl)]))
        qs.append(('list', [rng.choice(pl), absent[0]] if absent else [pl[0]]))
        if len(pl) > 2:
            qs.append(('list', list(pl)))
    qs.append(('list', absent[:2] or ['zzz']))
    qs.append(('list0', []))            # the union over zero names: nothing
    qs.append(('empty', ''))            # the empty string is an absent name
    full = []
    for x in (rng.sample(nodes, 4) if len(nodes) > 4 else nodes):
        full.append(str(x))
    for x in nodes:
        if isinstance(x, D.TexNamedEnv):
            full += [x.begin, x.end, x.begin + str(x.args)]
        elif isinstance(x, D.TexEnv):
            full += [x.begin, x.end]
    full += ['\\ref{x}', '\\begin{zzz}', '{']
    seen = set()
    for q in full:
        if q not in seen:
            seen.add(q)
            qs.append(('full', q))
    return qs


def _enc_query(q):
    if isinstance(q, list) and not q:
        return ','
    if isinstance(q, list):
        return ','.join(enc(x) for x in q) + (',' if len(q) == 1 else '')
    return enc(q)


def _sers(xs):
    return ','.join(enc(str(x)) for x in xs)


# ------------------------------------------------------------------------------------ correspondence

def _corr_doc(arg):
    """-> [(request, implementation's answer, kind)] for one document"""
    import random
    from TexSoup import data as D
    src, seed = arg
    tol = 0
    res, soup, exc = common.impl_parse(src, 0)
    if soup is None:
        tol = 1
        res, soup, exc = common.impl_parse(src, 1)
    head = 'find %d _ %s ' % (tol, enc(src))
    if soup is None:
        return [(head + enc('a'), res, 'unparsed')]
    rng = random.Random('%s/%s' % (seed, src))
    out = []
    try:
        roots = [soup] + [d for d in soup.descendants if isinstance(d, D.TexNode)]
    except Exception as e:      # noqa
        return [(head + enc('a'), 'DESCENDANTS-RAISED ' + type(e).__name__, 'raised')]
    for kind, q in _queries(soup, rng):
        try:
            ans = 'FIND ' + ' # '.join(_sers(n.find_all(q)) for n in roots)
        except RecursionError:
            raise
        except Exception as e:  # noqa
            ans = 'FIND-RAISED ' + type(e).__name__
        out.append((head + _enc_query(q), ans, kind))
    return out


def correspondence(ctx):
    r = Result()
    common.impl()
    docs = _docs(ctx, 'corr-docs', ctx.pick(8000, 50000))
    res = gen.pmap(_corr_doc, [(s, str(ctx.seed)) for s in docs], chunk=50)
    reqs = [q for per in res for q, _, _ in per]
    model = common.model_batch_parallel(reqs)
    i = 0
    for s, per in zip(docs, res):
        for q, a, kind in per:
            m = model[i]
            i += 1
            hits = len([x for x in a[5:].replace(' # ', ',').split(',') if x]) if a.startswith('FIND ') else 0
            r.count(q, hits > 0)
            r.bump('queries_' + kind)
            r.bump('results', hits)
            if a != m:
                r.fail('find-mismatch-' + kind, 'find_all differs at some search root', input=s,
                       request=q[:200], impl=a[:300], model=m[:300])
    r.bump('documents', len(docs))
    s = '\\begin{e}[ \\b]\n\\it A$B${\\b}\\end{e}'
    r.sample({'request': 'find 0 _ %s %s' % (enc(s), enc('b')), 'impl': _corr_doc((s, '0'))[0][1]})
    r.rule = ('find request (results of find_all, as texts in result order, for the root and for EVERY non-text node '
              'of descendants as search root) model vs TexNode.find_all on lib_nav.FIXED + repository corpus + random '
              'documents of the documented grammar (strict parse; tolerant when the strict one fails); queries per '
              'document: every name occurring in it, three absent names, name lists (singleton, pairs, with an absent '
              'name, all names), full-expression queries (str of up to 4 existing nodes, \\begin{name}, \\end{name}, '
              '\\begin{name}+args, math/group delimiters, \\ref{x}, \\begin{zzz}, {); non-trivial = a query with at '
              'least one result')
    return r


# ------------------------------------------------------------------------------------ oracle

def _oracle_doc(arg):
    """C03 as stated, on the implementation alone.  Returns (stats, failures)."""
    import random
    from TexSoup import data as D
    src, seed = arg
    T = common.impl()
    try:
        soup = T.TexSoup(src)
    except Exception:           # noqa: not a document
        return {'unparsed': 1}, []
    st = {'parsed': 1}
    fails = []

    def bump(k, n=1):
        st[k] = st.get(k, 0) + n

    def fail(key, what):
        if all(k != key for k, _ in fails):
            fails.append((key, what))

    rng = random.Random('%s/%s' % (seed, src))
    qs = _queries(soup, rng)
    try:
        roots = [soup] + [d for d in soup.descendants if isinstance(d, D.TexNode)]
    except Exception as e:      # noqa
        return st, [('search-raises', 'descendants: ' + type(e).__name__)]

    def ids(xs):
        return sorted(id(x) for x in xs)

    def matches_full(x, q):
        return str(x) == q or (isinstance(x, D.TexEnv) and q in (x.name, x.begin + str(x.args), x.begin, x.end))

    for node in roots:
        bump('search_roots')
        below = _walk(node.expr, [])
        where = 'root %r' % str(node)[:24]
        for kind, q in qs:
            if kind == 'empty':
                want = [x for x in below if x.name == '']      # only the command of a trailing lone backslash has it
            elif kind in ('name', 'absent'):
                if not plain(q):
                    bump('skipped_not_a_plain_name')
                    continue
                want = [x for x in below if x.name == q]
            elif kind in ('list', 'list1', 'list0'):
                if not all(plain(n) for n in q):
                    bump('skipped_not_a_plain_name')
                    continue
                want = [x for x in below if x.name in q]
            else:
                if '{' not in q and '[' not in q:
                    bump('skipped_full_query_without_brace')
                    continue
                want = [x for x in below if matches_full(x, q)]
            bump('queries_' + kind)
            try:
                got = node.find_all(q)
                if not all(isinstance(g, D.TexNode) for g in got):
                    fail('find_all-' + kind, '%s: find_all(%r) returns non-nodes' % (where, q))
                    continue
                if ids(g.expr for g in got) != ids(want):
                    gs, ws = set(map(id, (g.expr for g in got))), set(map(id, want))
                    what = 'missing' if ws - gs else ('spurious' if gs - ws else 'repeated')
                    fail('find_all-%s-%s' % (kind, what), '%s: find_all(%r) gives %r, the tree holds %r' % (
                        where, q, [str(g)[:16] for g in got][:6], [str(w)[:16] for w in want][:6]))
                    continue
                bump('results', len(got))
                first = node.find(q)
                if (first is None) != (not got) or (got and first.expr is not got[0].expr):
                    fail('find', '%s: find(%r) = %r, find_all starts with %r' % (
                        where, q, first, str(got[0])[:20] if got else None))
                c = node.count(q)
                if c != len(got):
                    fail('count', '%s: count(%r) = %r, find_all has %d' % (where, q, c, len(got)))
                if isinstance(q, str) and q and kind in ('name', 'absent') and \
                        not hasattr(D.TexNode, q) and q not in vars(node) and not q.startswith('__'):
                    a = getattr(node, q)
                    bump('attribute_accesses')
                    if (a is None) != (first is None) or (a is not None and a.expr is not first.expr):
                        fail('getattr', '%s: node.%s = %r, find gives %r' % (where, q, a, first))
                if kind == 'absent' and got:
                    fail('absent', '%s: absent name %r matched' % (where, q))      # implied; own key
            except RecursionError:
                raise
            except Exception as e:      # noqa
                fail('search-raises', '%s: query %r raised %s: %s' % (where, q, type(e).__name__, str(e)[:60]))
    return st, fails


def oracle(ctx, seeds, scale):
    r = Result()
    common.impl()
    docs = [s for s in seeds if isinstance(s, str)]
    docs += _docs(ctx, 'oracle-docs', ctx.pick(8000, 50000) * scale)
    res = gen.pmap(_oracle_doc, [(s, str(ctx.seed)) for s in docs], chunk=50)
    for s, (st, fails) in zip(docs, res):
        r.count(('doc', s), st.get('results', 0) > 0)
        for k, v in st.items():
            r.bump(k, v)
        for key, what in fails:
            r.fail(key, what, input=s, qseed=str(ctx.seed))
    r.sample({'input': '\\begin{e}[ \\b]\n\\it A$B${\\b}\\end{e}', 'query': 'b', 'verdict': 'holds'})
    r.rule = ('on TexSoup(src), with EVERY node (root and every TexNode of descendants) as search root, against an '
              'independent walk over the expr objects (args[i]._contents and _contents, recursively; no use of '
              'descendants/find_all/contents): find_all(name) for every plain name occurring in the document returns '
              'exactly the commands/environments of that name below the root, as a multiset of .expr identities '
              '(missing / spurious / repeated are separate failures); find == first of find_all or None; count == '
              'len; getattr(node, name) == find(name) for names that are not real TexNode attributes; a list of plain '
              'names == union; an absent name -> [], None, 0; a query with { or [ -> exactly the nodes x with str(x) '
              '== q, or x an environment with q in (begin+args, begin, end, name).  Queries that are neither (a bare '
              'delimiter, a list containing one) are skipped and counted.  Documents: lib_nav.FIXED + corpus + random '
              'documents of the documented grammar; non-trivial = a document in which some query has results')
    return r


def _input(k):
    inp = k.get('input')
    if isinstance(inp, str) and re.fullmatch(r'-|\d+(\.\d+)*', inp):
        inp = common.dec(inp)
    return inp


def replay_known(ctx, k):
    inp = _input(k)
    if not isinstance(inp, str):
        return False
    return any(f[0] == k.get('key') for f in _oracle_doc((inp, k.get('qseed', '0')))[1])


def replay(ctx, payload):
    f = payload.get('failure') or {}
    inp = f.get('input')
    if not isinstance(inp, str):
        return True, 'nothing to replay: ' + '; '.join(payload.get('broken', []))[:400]
    common.impl()
    # the sampled list/full-expression queries depend on the recorded seed; names and absent names do not
    st, fails = _oracle_doc((inp, f.get('qseed', str(ctx.seed))))
    return not fails, 'replay %r -> %r' % (inp, fails[0] if fails else 'holds')
