import TexSoupModel
/-!
# Line-protocol driver for the model (compiled to `tsmodel`)

One request per line, one answer per line. Strings travel as decimal code points joined
by `.` (`-` is the empty string).
-/
open TexSoup

def encStr (s : Str) : String :=
  if s.isEmpty then "-" else ".".intercalate (s.map toString)

def decStr (w : String) : Option Str :=
  if w == "-" then some []
  else (w.splitOn ".").mapM (fun x => x.toNat?)

def showTok (t : Tok) : String := s!"{encStr t.text}@{t.pos}:{Tables.tcName t.cat}"

def gk : GKind → String
  | .bracket => "bracket"
  | .brace => "brace"
def mk : MKind → String
  | .ddollar => "ddollar"
  | .dollar => "dollar"
  | .displaymath => "displaymath"
  | .math => "math"

mutual
partial def showExpr : Expr → String
  | .text s p => s!"(t {p} {encStr s})"
  | .cmd n a b p => s!"(c {encStr n} {p} [{showExprs a}] [{showExprs b}])"
  | .nenv n a b p => s!"(e {encStr n} {p} [{showExprs a}] [{showExprs b}])"
  | .math k b p => s!"(m {mk k} {p} [{showExprs b}])"
  | .group k b p => s!"(g {gk k} {p} [{showExprs b}])"
partial def showExprs (es : List Expr) : String := " ".intercalate (es.map showExpr)
end

def showErr : Err → String
  | .eof => "ERR EOF"
  | .type => "ERR TYPE"
  | .assertion => "ERR ASSERT"
  | .internal => "ERR INTERNAL"
  | .fuel => "ERR FUEL"

def sers (l : List Expr) : String := ",".intercalate (l.map fun e => encStr (ser e))
def viewLine (c k d t : List Expr) : String := s!"C[{sers c}] K[{sers k}] D[{sers d}] T[{sers t}]"

def handle (line : String) : String :=
  match line.splitOn " " with
  | ["cat", w] =>
    match decStr w with
    | some s => " ".intercalate ((categorize s).map fun (c, i, cc) => s!"{c}@{i}:{Tables.ccName cc}")
    | none => "bad-arg"
  | ["tok", w] =>
    match decStr w with
    | some s =>
      match tokenize s with
      | some ts => "TOK " ++ " ".intercalate (ts.map showTok)
      | none => "ERR HANG"
    | none => "bad-arg"
  | ["parse", tol, skips, w] =>
    match decStr w, (if skips == "_" then some [] else (skips.splitOn ",").mapM decStr) with
    | some s, some sk =>
      match parse (tol == "1") sk s with
      | .ok es => s!"TREE [{showExprs es}] SER {encStr (serL es)}"
      | .error e => showErr e
    | _, _ => "bad-arg"
  | ["views", tol, skips, w] =>
    match decStr w, (if skips == "_" then some [] else (skips.splitOn ",").mapM decStr) with
    | some s, some sk =>
      match parse (tol == "1") sk s with
      | .ok es =>
        let root := viewLine (dropBlank es) ((dropBlank es).filter (fun x => !x.isText)) (descRoot es) (textRoot es)
        let nodes := (descRoot es).filter (fun x => !x.isText)
        "VIEWS " ++ " # ".intercalate (root :: nodes.map fun n =>
          viewLine (contentsOf n) (childrenOf n) (descOf n) (textOf n))
      | .error e => showErr e
    | _, _ => "bad-arg"
  | ["nav", tol, skips, w] =>
    match decStr w, (if skips == "_" then some [] else (skips.splitOn ",").mapM decStr) with
    | some s, some sk =>
      match parse (tol == "1") sk s with
      | .ok es => (if flatArgsL es then "NAV " else "NAV-NONFLAT ") ++ navHandle es
      | .error e => showErr e
    | _, _ => "bad-arg"
  | ["find", tol, skips, w, q] =>
    match decStr w, (if skips == "_" then some [] else (skips.splitOn ",").mapM decStr),
          ((q.splitOn ",").filter (fun x => x != "")).mapM decStr with
    | some s, some sk, some qs =>
      match parse (tol == "1") sk s with
      | .ok es =>
        let query := match qs with
          | [one] => if q.endsWith "," then Query.names [one] else Query.name one
          | l => Query.names l
        let nodes := (descRoot es).filter (fun x => !x.isText)
        "FIND " ++ " # ".intercalate ((sers (findAllRoot query es)) :: nodes.map fun n => sers (findAll query n))
      | .error e => showErr e
    | _, _, _ => "bad-arg"
  | "buf" :: args => bufHandle args
  | "args" :: ws => argsHandle ws
  | "lines" :: ws => linesHandle ws
  | "edit" :: ws => editHandle ws
  | ["gram", seed, n, depth] =>
    -- documents of the proved grammar: `src<TAB>[expected trees]`, joined by ` ## `
    match seed.toNat?, n.toNat?, depth.toNat? with
    | some sd, some k, some d =>
      "GRAM " ++ " ## ".intercalate ((TexSoup.GramGen.gramDocs sd k d).map fun (src, es) =>
        s!"{encStr src}\t[{showExprs es}]")
    | _, _, _ => "bad-arg"
  | ["cert", tol, skips, w] =>
    -- certificate: a document of the proved grammar for this source, and the evaluated hypotheses of
    -- C02.cert_sound / C02.document_parses / C01G.document_roundtrip
    match decStr w, (if skips == "_" then some [] else (skips.splitOn ",").mapM decStr) with
    | some s, some sk =>
      match tokenize s with
      | none => "ERR HANG"
      | some ts =>
        let skip := Tables.skipEnvNames ++ sk
        match readTex (parseFuel ts) skip (tol == "1") ts with
        | .error e => showErr e
        | .ok es =>
          match TexSoup.Gram.recognizeE skip ts es with
          | .error why => s!"CERT none {why}"
          | .ok d =>
            let b (x : Bool) : String := if x then "1" else "0"
            let T := TexSoup.Gram.toksD d
            s!"CERT ok wf={b (TexSoup.Gram.WFD skip d)} toks={b (T == ts)} sep={b (TexSoup.Gram.separatedB T)} pos={b (TexSoup.Gram.positionedB 0 T)} tree={b (showExprs (TexSoup.Gram.treeD d) == showExprs es)} plain={b (TexSoup.Gram.envNamesPlainS d)} adj={b (TexSoup.Gram.adjacentS d)} canon={b (TexSoup.Gram.canonD d)}"
    | _, _ => "bad-arg"
  | _ => "bad-op"

partial def loop (h : IO.FS.Stream) (out : IO.FS.Stream) : IO Unit := do
  let line ← h.getLine
  if line.isEmpty then return ()
  out.putStrLn (handle (line.trimAsciiEnd.toString))
  loop h out

def main : IO Unit := do
  let out ← IO.getStdout
  loop (← IO.getStdin) out
  out.flush
