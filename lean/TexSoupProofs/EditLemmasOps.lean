import TexSoupProofs.EditLemmasPaths
/-!
# Edit lemmas, part 3: every structural edit is one list splice at a *site*
-/
namespace TexSoup.Edit

/-! ## Sites: every structural edit (and `setString`) is one list splice in one holder -/

/-- Where a structural edit happens: in the node at `q`, `d` elements at place `st` of the
holder are replaced by `ns`. -/
structure Site where
  q : Path
  st : Step
  d : Nat
  ns : List Expr

/-- The holder and the size of the span that `node.string = s` replaces. -/
def setStringSite : Expr → Option (Step × Nat)
  | .cmd _ [a] _ _ => if a.hasBody then some (.arg 0 0, a.body.length) else none
  | .cmd _ _ _ _ => none
  | .text _ _ => none
  | e => match contentsOf e with
    | [.text _ _] => some (.body 0, e.body.length)
    | _ => none

/-- The site of an edit, if the edit is one that succeeds as a list splice. -/
def siteOf (es : List Expr) : EditOp → Option Site
  | .delete p => match splitLast p with
    | some (q, st) => if parentOK es p && (getAtRoot es p).isSome then some ⟨q, st, 1, []⟩ else none
    | none => none
  | .replace p ns => match splitLast p with
    | some (q, st) => if parentOK es p && (getAtRoot es p).isSome then some ⟨q, st, 1, ns⟩ else none
    | none => none
  | .insert c i ns => match getAtRoot es c with
    | some e => if e.supportsContents then some ⟨c, .body (min i e.body.length), 0, ns⟩ else none
    | none => none
  | .append c ns => match getAtRoot es c with
    | some e => if e.supportsContents then some ⟨c, .body e.body.length, 0, ns⟩ else none
    | none => none
  | .setString p s => if p.isEmpty then none else match getAtRoot es p with
    | some e => match setStringSite e with
      | some (st, d) => some ⟨p, st, d, [.text s (-1)]⟩
      | none => none
    | none => none
  | _ => none

theorem getAtRoot_snoc {es : List Expr} {q : Path} {st : Step} {e : Expr}
    (hq : getAtRoot es q = some e) : getAtRoot es (q ++ [st]) = stepGet e st := by
  unfold getAtRoot at hq ⊢
  rw [getAt_append, hq]; exact getAt_singleton e st

theorem spliceList_all (l ns : List Expr) : spliceList 0 l.length ns l = ns := by
  simp [spliceList]

theorem setStringE_site (s : Str) (e : Expr) :
    match setStringSite e with
    | some (st, d) => setStringE s e = holderSpliceF st d [.text s (-1)] e ∧
        ∃ l, holderList e st = some l ∧ st.idx = 0 ∧ d = l.length
    | none => setStringE s e = none ∨ setStringE s e = some e := by
  cases e with
  | text t p => simp [setStringSite, setStringE]
  | cmd n a b p =>
    match a with
    | [] => simp [setStringSite, setStringE]
    | _ :: _ :: _ => simp [setStringSite, setStringE]
    | [a] =>
      simp only [setStringSite]
      by_cases hb : a.hasBody = true
      · simp only [hb, if_true]
        refine ⟨?_, a.body, by simp [holderList, Expr.args, hb], rfl, rfl⟩
        simp [setStringE, holderSpliceF, editHolder, Expr.args, Expr.setArgs, spliceList_all]
      · simp only [hb, Bool.false_eq_true, if_false]
        right
        cases a <;> simp_all [Expr.hasBody, setStringE, Expr.setBody]
  | nenv n a b p =>
    simp only [setStringSite, setStringE]
    generalize contentsOf (Expr.nenv n a b p) = c
    rcases c with _ | ⟨x, _ | ⟨y, r⟩⟩
    · simp
    · cases x <;> simp [holderList, Expr.hasBody, Expr.body, holderSpliceF, editHolder, spliceList_all, Step.idx]
    · simp
  | math k b p =>
    simp only [setStringSite, setStringE]
    generalize contentsOf (Expr.math k b p) = c
    rcases c with _ | ⟨x, _ | ⟨y, r⟩⟩
    · simp
    · cases x <;> simp [holderList, Expr.hasBody, Expr.body, holderSpliceF, editHolder, spliceList_all, Step.idx]
    · simp
  | group k b p =>
    simp only [setStringSite, setStringE]
    generalize contentsOf (Expr.group k b p) = c
    rcases c with _ | ⟨x, _ | ⟨y, r⟩⟩
    · simp
    · cases x <;> simp [holderList, Expr.hasBody, Expr.body, holderSpliceF, editHolder, spliceList_all, Step.idx]
    · simp

theorem holderOK_holderList {e : Expr} {st : Step} {x : Expr} (hx : stepGet e st = some x) :
    ∃ l, holderList e st = some l ∧ l[st.idx]? = some x ∧ st.idx + 1 ≤ l.length := by
  obtain ⟨l, hl, hlx⟩ := stepGet_holder hx
  exact ⟨l, hl, hlx, (List.getElem?_eq_some_iff.mp hlx).1⟩

/-- What `siteOf` promises. -/
theorem siteOf_spec {es : List Expr} {op : EditOp} {σ : Site} (h : siteOf es op = some σ) :
    ∃ e l, getAtRoot es σ.q = some e ∧ holderList e σ.st = some l ∧ σ.st.idx + σ.d ≤ l.length ∧
      applyEditE (rootWrap es) op = updAt (rootWrap es) σ.q (holderSpliceF σ.st σ.d σ.ns) := by
  cases op with
  | delete p =>
    simp only [siteOf] at h
    split at h
    · rename_i q st hsl
      split at h
      · rename_i hc
        injection h with h; subst h
        simp only [Bool.and_eq_true, parentOK, hsl] at hc
        obtain ⟨hpo, hsome⟩ := hc
        split at hpo
        · rename_i e he
          have hp := splitLast_eq hsl
          subst hp
          rw [getAtRoot_snoc he] at hsome
          obtain ⟨x, hx⟩ := Option.isSome_iff_exists.mp hsome
          obtain ⟨l, hl, _, hd⟩ := holderOK_holderList hx
          refine ⟨e, l, he, hl, hd, ?_⟩
          simp only [applyEditE, hsl]
          exact updAt_congr he (editHolderG_delete hpo)
        · cases hpo
      · cases h
    · cases h
  | replace p ns =>
    simp only [siteOf] at h
    split at h
    · rename_i q st hsl
      split at h
      · rename_i hc
        injection h with h; subst h
        simp only [Bool.and_eq_true, parentOK, hsl] at hc
        obtain ⟨hpo, hsome⟩ := hc
        split at hpo
        · rename_i e he
          have hp := splitLast_eq hsl
          subst hp
          rw [getAtRoot_snoc he] at hsome
          obtain ⟨x, hx⟩ := Option.isSome_iff_exists.mp hsome
          obtain ⟨l, hl, _, hd⟩ := holderOK_holderList hx
          refine ⟨e, l, he, hl, hd, ?_⟩
          simp only [applyEditE, hsl]
          exact updAt_congr he (editHolderG_replace ns hpo)
        · cases hpo
      · cases h
    · cases h
  | insert c i ns =>
    simp only [siteOf] at h
    split at h
    · rename_i e he
      split at h
      · rename_i hsc
        injection h with h; subst h
        refine ⟨e, e.body, he, by simp [holderList, hasBody_of_supportsContents hsc],
          by simp [Step.idx, Nat.min_le_right], ?_⟩
        simp only [applyEditE]
        exact updAt_congr he (insertF_eq i ns hsc)
      · cases h
    · cases h
  | append c ns =>
    simp only [siteOf] at h
    split at h
    · rename_i e he
      split at h
      · rename_i hsc
        injection h with h; subst h
        refine ⟨e, e.body, he, by simp [holderList, hasBody_of_supportsContents hsc],
          by simp [Step.idx], ?_⟩
        simp only [applyEditE]
        exact updAt_congr he (appendF_eq ns hsc)
      · cases h
    · cases h
  | setString p s =>
    simp only [siteOf] at h
    split at h
    · cases h
    · rename_i hp
      split at h
      · rename_i e he
        split at h
        · rename_i st d hs
          injection h with h; subst h
          have := setStringE_site s e
          rw [hs] at this
          obtain ⟨heq, l, hl, hi, hd⟩ := this
          refine ⟨e, l, he, hl, by simp [hi, hd], ?_⟩
          simp only [applyEditE, hp, Bool.false_eq_true, if_false]
          exact updAt_congr he heq
        · cases h
      · cases h
  | rename p n => simp [siteOf] at h
  | setArgs p as => simp [siteOf] at h

/-- The serialisation after an edit that has a site. -/
theorem site_splice {es : List Expr} {op : EditOp} {σ : Site} (h : siteOf es op = some σ) :
    ∃ e l k es', getAtRoot es σ.q = some e ∧ holderList e σ.st = some l ∧
      σ.st.idx + σ.d ≤ l.length ∧ siteOffRoot es σ.q σ.st = some k ∧
      applyEditE (rootWrap es) op = some (rootWrap es') ∧ applyEdit es op = es' ∧
      serL es' = (serL es).take k ++
        (serL σ.ns ++ (serL es).drop (k + (serL ((l.drop σ.st.idx).take σ.d)).length)) := by
  obtain ⟨e, l, he, hl, hd, hop⟩ := siteOf_spec h
  obtain ⟨A, B, hser, hoff, es', hupd, hser'⟩ := root_holderSplice σ.d σ.ns he hl hd
  refine ⟨e, l, A.length, es', he, hl, hd, hoff, hop.trans hupd, ?_, frame_splice hser hser' rfl⟩
  simp [applyEdit, hop, hupd, rootWrap_body]

/-- Untouched nodes after an edit that has a site. -/
theorem site_paths {es : List Expr} {op : EditOp} {σ : Site} (h : siteOf es op = some σ)
    {r : Path} (hr : untouched σ.q σ.st σ.d r = true) :
    getAtRoot (applyEdit es op) (reindex σ.q σ.st σ.d σ.ns.length r) = getAtRoot es r := by
  obtain ⟨e, l, k, es', he, hl, hd, _, hop, happ, _⟩ := site_splice h
  obtain ⟨_, _, _, _, _, hop'⟩ := siteOf_spec h
  rw [happ]
  unfold getAtRoot
  exact getAt_holderSplice he hl hd (hop'.symm.trans hop) hr

/-- The new material after an edit that has a site. -/
theorem site_new {es : List Expr} {op : EditOp} {σ : Site} (h : siteOf es op = some σ)
    (m : Nat) (hm : m < σ.ns.length) :
    getAtRoot (applyEdit es op) (σ.q ++ [σ.st.withIdx (σ.st.idx + m)]) = σ.ns[m]? := by
  obtain ⟨e, l, k, es', he, hl, hd, _, hop, happ, _⟩ := site_splice h
  obtain ⟨_, _, _, _, _, hop'⟩ := siteOf_spec h
  rw [happ]
  unfold getAtRoot
  exact getAt_holderSplice_new he hl hd (hop'.symm.trans hop) m hm

/-! ## Failing edits -/

theorem updAt_fail {q : Path} {f : Expr → Option Expr} : ∀ {e y : Expr},
    getAt e q = some y → f y = none → updAt e q f = none := by
  induction q with
  | nil =>
    intro e y h hf
    simp only [getAt] at h; injection h with h; subst h
    simpa [updAt] using hf
  | cons st q ih =>
    intro e y h hf
    rw [getAt_cons] at h
    split at h
    · rename_i x hx
      rw [updAt_cons, hx]
      simp only [ih h hf]
    · cases h

theorem updAt_eq_none {q : Path} {f : Expr → Option Expr} {e : Expr}
    (h : ∀ y, getAt e q = some y → f y = none) : updAt e q f = none := by
  cases hq : getAt e q with
  | none => exact updAt_none f hq
  | some y => exact updAt_fail hq (h y hq)

theorem editHolder_none_of_stepGet {e : Expr} {st : Step}
    {g : Nat → List Expr → Option (List Expr)}
    (hg : ∀ j l, l[j]? = none → g j l = none) (h : stepGet e st = none) :
    editHolder e st g = none := by
  cases st with
  | body j =>
    simp only [stepGet] at h
    simp [editHolder, hg j e.body h]
  | arg i j =>
    simp only [stepGet] at h
    simp only [editHolder]
    split at h
    · rename_i a ha
      simp [ha, hg j a.body h]
    · rename_i ha
      simp [ha]

theorem deleteAt_none {j : Nat} {l : List Expr} (h : l[j]? = none) : deleteAt j l = none := by
  simp only [deleteAt]
  rw [if_neg]; intro hj; simp [List.getElem?_eq_getElem hj] at h

theorem replaceAt_none (ns : List Expr) {j : Nat} {l : List Expr} (h : l[j]? = none) :
    replaceAt ns j l = none := by
  simp only [replaceAt]
  rw [if_neg]; intro hj; simp [List.getElem?_eq_getElem hj] at h

theorem set_of_getElem? {l : List Expr} {i : Nat} {a : Expr} (h : l[i]? = some a) :
    l.set i a = l := by
  obtain ⟨hi, ha⟩ := List.getElem?_eq_some_iff.mp h
  subst ha
  exact List.set_getElem_self hi

theorem setBody_body (a : Expr) : a.setBody a.body = a := by
  cases a <;> simp [Expr.setBody, Expr.body]

theorem setArgs_args (a : Expr) : a.setArgs a.args = a := by
  cases a <;> simp [Expr.setArgs, Expr.args]

/-- Rewriting a node by itself changes nothing. -/
theorem updAt_id (q : Path) : ∀ (e0 : Expr), (getAt e0 q).isSome →
    updAt e0 q (fun x => some x) = some e0 := by
  induction q with
  | nil => intro e0 _; rfl
  | cons t q ih =>
    intro e0 h0
    rw [getAt_cons] at h0
    rw [updAt_cons]
    split at h0
    · rename_i x hx
      simp only [ih x h0]
      cases t with
      | body j =>
        simp only [stepGet] at hx
        simp only [editHolder]
        rw [set_of_getElem? hx, setBody_body]
      | arg i j =>
        simp only [stepGet] at hx
        simp only [editHolder]
        split at hx
        · rename_i a ha
          simp only [ha]
          rw [set_of_getElem? hx, setBody_body, set_of_getElem? ha, setArgs_args]
        · cases hx
    · cases h0

/-- An op without a site that is not `rename`/`setArgs` leaves the document as it is. -/
theorem siteOf_none {es : List Expr} {op : EditOp} (h : siteOf es op = none)
    (hop : ∀ p n, op ≠ .rename p n) (hop' : ∀ p a, op ≠ .setArgs p a) :
    applyEdit es op = es := by
  have key : applyEditE (rootWrap es) op = none ∨ applyEdit es op = es := by
    cases op with
    | rename p n => exact absurd rfl (hop p n)
    | setArgs p a => exact absurd rfl (hop' p a)
    | delete p =>
      left
      simp only [siteOf] at h
      simp only [applyEditE]
      split at h
      · rename_i q st hsl
        simp only [hsl]
        have hp := splitLast_eq hsl; subst hp
        apply updAt_eq_none
        intro e he
        change getAtRoot es q = some e at he
        simp only [parentOK, hsl, he, getAtRoot_snoc he] at h
        by_cases hok : holderOK e st = true
        · simp only [hok, Bool.true_and, ite_eq_right_iff] at h
          cases hx : stepGet e st with
          | none =>
            simp only [editHolderG, hok, if_true]
            exact editHolder_none_of_stepGet (fun _ _ => deleteAt_none) hx
          | some x => simp [hx] at h
        · simp [editHolderG, hok]
      · rename_i hsl; simp [hsl]
    | replace p ns =>
      left
      simp only [siteOf] at h
      simp only [applyEditE]
      split at h
      · rename_i q st hsl
        simp only [hsl]
        have hp := splitLast_eq hsl; subst hp
        apply updAt_eq_none
        intro e he
        change getAtRoot es q = some e at he
        simp only [parentOK, hsl, he, getAtRoot_snoc he] at h
        by_cases hok : holderOK e st = true
        · simp only [hok, Bool.true_and, ite_eq_right_iff] at h
          cases hx : stepGet e st with
          | none =>
            simp only [editHolderG, hok, if_true]
            exact editHolder_none_of_stepGet (fun _ _ => replaceAt_none ns) hx
          | some x => simp [hx] at h
        · simp [editHolderG, hok]
      · rename_i hsl; simp [hsl]
    | insert c i ns =>
      left
      simp only [siteOf] at h
      simp only [applyEditE]
      apply updAt_eq_none
      intro e he
      change getAtRoot es c = some e at he
      simp only [he] at h
      by_cases hsc : e.supportsContents = true
      · simp [hsc] at h
      · simp [hsc]
    | append c ns =>
      left
      simp only [siteOf] at h
      simp only [applyEditE]
      apply updAt_eq_none
      intro e he
      change getAtRoot es c = some e at he
      simp only [he] at h
      by_cases hsc : e.supportsContents = true
      · simp [hsc] at h
      · simp [hsc]
    | setString p s =>
      simp only [siteOf] at h
      simp only [applyEdit, applyEditE]
      split at h
      · rename_i hp; left; simp [hp]
      · rename_i hp
        simp only [hp, Bool.false_eq_true, if_false]
        cases he : getAtRoot es p with
        | none => left; exact updAt_none _ he
        | some e =>
          simp only [he] at h
          have hs := setStringE_site s e
          split at h
          · cases h
          · rename_i hnone
            rw [hnone] at hs
            rcases hs with hs | hs
            · left; exact updAt_fail he hs
            · right
              -- the degenerate case: the edit rewrites the node by itself
              obtain ⟨st, q, hpq⟩ : ∃ st q, p = st :: q := by
                cases p with
                | nil => simp at hp
                | cons st q => exact ⟨st, q, rfl⟩
              subst hpq
              have hcong := updAt_congr (f := setStringE s) (g := fun x => some x)
                (e := rootWrap es) he hs
              rw [hcong, updAt_id _ _ (by rw [show getAt (rootWrap es) (st :: q) = some e from he]; rfl)]
              rfl
  rcases key with key | key
  · simp [applyEdit, key]
  · exact key

end TexSoup.Edit
