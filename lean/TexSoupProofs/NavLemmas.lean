import TexSoupModel.NavPath
/-!
# Lemmas about the navigation views (`TexSoupModel/Nav.lean`, `TexSoupModel/NavPath.lean`)

* an induction principle that gives the hypothesis for every node one `Step` below;
* the views as one-layer recursions over `contentsOf` (the Python definitions, literally);
* the specification-side enumerations `closure`, `leaves`, `closureP`, `occ`.
-/
namespace TexSoup

/-! ## Induction principles -/

/-- Structural induction with the hypothesis for every argument and every body element. -/
theorem Expr.ind {P : Expr → Prop}
    (h : ∀ e, (∀ a ∈ e.args, P a) → (∀ x ∈ e.body, P x) → P e) (e : Expr) : P e := by
  refine Expr.rec (motive_1 := P) (motive_2 := fun l => ∀ x ∈ l, P x) ?_ ?_ ?_ ?_ ?_ ?_ ?_ e
  · intro s p; exact h _ (by simp [Expr.args]) (by simp [Expr.body])
  · intro n a b p ha hb; exact h _ (by simpa [Expr.args] using ha) (by simpa [Expr.body] using hb)
  · intro n a b p ha hb; exact h _ (by simpa [Expr.args] using ha) (by simpa [Expr.body] using hb)
  · intro k b p hb; exact h _ (by simp [Expr.args]) (by simpa [Expr.body] using hb)
  · intro k b p hb; exact h _ (by simp [Expr.args]) (by simpa [Expr.body] using hb)
  · simp
  · intro x xs hx hxs y hy
    rcases List.mem_cons.1 hy with rfl | hy
    · exact hx
    · exact hxs y hy

theorem nav_stepGet_arg {e : Expr} {i j : Nat} {y : Expr} :
    stepGet e (.arg i j) = some y ↔ ∃ a, e.args[i]? = some a ∧ a.body[j]? = some y := by
  simp only [stepGet]
  cases h : e.args[i]? <;> simp

theorem nav_stepGet_body {e : Expr} {j : Nat} {y : Expr} :
    stepGet e (.body j) = some y ↔ e.body[j]? = some y := by
  simp [stepGet]

/-- Induction with the hypothesis for every node one step below. -/
theorem Expr.stepInd {P : Expr → Prop}
    (h : ∀ e, (∀ st y, stepGet e st = some y → P y) → P e) (e : Expr) : P e := by
  have : P e ∧ ∀ x ∈ e.body, P x := by
    induction e using Expr.ind with
    | h e ha hb =>
      have hb' : ∀ x ∈ e.body, P x := fun x hx => (hb x hx).1
      refine ⟨h e ?_, hb'⟩
      intro st y hy
      cases st with
      | arg i j =>
        obtain ⟨a, h1, h2⟩ := nav_stepGet_arg.1 hy
        exact (ha a (List.mem_of_getElem? h1)).2 y (List.mem_of_getElem? h2)
      | body j => exact hb' y (List.mem_of_getElem? (nav_stepGet_body.1 hy))
  exact this.1

/-! ## `dropBlank`, `contentsOf` -/

@[simp] theorem dropBlank_nil : dropBlank [] = [] := rfl

theorem dropBlank_cons (x : Expr) (l : List Expr) :
    dropBlank (x :: l) = (if x.isBlankText then [] else [x]) ++ dropBlank l := by
  simp only [dropBlank, List.filter_cons]
  cases x.isBlankText <;> simp

theorem dropBlank_append (l m : List Expr) : dropBlank (l ++ m) = dropBlank l ++ dropBlank m := by
  simp [dropBlank]

theorem dropBlank_idem (l : List Expr) : dropBlank (dropBlank l) = dropBlank l := by
  simp [dropBlank]

theorem mem_dropBlank {x : Expr} {l : List Expr} :
    x ∈ dropBlank l ↔ x ∈ l ∧ x.isBlankText = false := by
  simp [dropBlank]

theorem dropBlank_flatMap {α : Type} (l : List α) (f : α → List Expr) :
    dropBlank (l.flatMap f) = l.flatMap (fun a => dropBlank (f a)) := by
  simp [dropBlank, List.filter_flatMap]

theorem isText_of_isBlankText {x : Expr} (h : x.isBlankText = true) : x.isText = true := by
  cases x <;> simp_all [Expr.isBlankText, Expr.isText]

/-- A function that is empty on blank text does not see the whitespace filter. -/
theorem nav_flatMap_dropBlank {β : Type} (f : Expr → List β)
    (hf : ∀ x, x.isBlankText = true → f x = []) (l : List Expr) :
    (dropBlank l).flatMap f = l.flatMap f := by
  induction l with
  | nil => rfl
  | cons x l ih =>
    rw [dropBlank_cons]
    by_cases hx : x.isBlankText = true
    · simp [hx, hf x hx, ih]
    · simp [hx, ih]

theorem flatMap_congr' {α β : Type} {l : List α} {f g : α → List β}
    (h : ∀ a ∈ l, f a = g a) : l.flatMap f = l.flatMap g := by
  induction l with
  | nil => rfl
  | cons a l ih =>
    simp only [List.flatMap_cons]
    rw [h a (by simp), ih (fun b hb => h b (by simp [hb]))]

theorem argsContents_eq (a : List Expr) : argsContents a = a.flatMap contentsOf := by
  induction a with
  | nil => simp [argsContents]
  | cons x xs ih => simp [argsContents, contentsOf, ih]

theorem allOf_eq (e : Expr) : allOf e = argsContents e.args ++ e.body := by
  cases e <;> simp [allOf, Expr.args, Expr.body, argsContents]

theorem dropBlank_contentsOf (e : Expr) : dropBlank (contentsOf e) = contentsOf e := by
  simp [contentsOf, dropBlank_idem]

/-- `contents` = the contents of every argument, then the non-blank part of `_contents`. -/
theorem contentsOf_eq (e : Expr) :
    contentsOf e = e.args.flatMap contentsOf ++ dropBlank e.body := by
  rw [contentsOf, allOf_eq, dropBlank_append, argsContents_eq, dropBlank_flatMap]
  congr 1
  exact flatMap_congr' (fun a _ => dropBlank_contentsOf a)

theorem not_blank_of_mem_contentsOf {e x : Expr} (h : x ∈ contentsOf e) :
    x.isBlankText = false := (mem_dropBlank.1 h).2

/-- Induction with the hypothesis for every element of `contents`. -/
theorem Expr.contentsInd {P : Expr → Prop}
    (h : ∀ e, (∀ x ∈ contentsOf e, P x) → P e) (e : Expr) : P e := by
  have : P e ∧ ∀ x ∈ contentsOf e, P x := by
    induction e using Expr.ind with
    | h e ha hb =>
      have hc : ∀ x ∈ contentsOf e, P x := by
        intro x hx
        rw [contentsOf_eq] at hx
        rcases List.mem_append.1 hx with hx | hx
        · obtain ⟨a, haa, hxa⟩ := List.mem_flatMap.1 hx
          exact (ha a haa).2 x hxa
        · exact (hb x (mem_dropBlank.1 hx).1).1
      exact ⟨h e hc, hc⟩
  exact this.1

/-- One-layer form of a view that recurses through the arguments: if `F` is the
concatenation of `F` over the arguments followed by `g` over the non-blank body, then `F`
is `g` over `contents`. -/
theorem layer_eq {β : Type} (F g : Expr → List β)
    (hF : ∀ e, F e = e.args.flatMap F ++ (dropBlank e.body).flatMap g) (e : Expr) :
    F e = (contentsOf e).flatMap g := by
  induction e using Expr.ind with
  | h e ha _ =>
    rw [hF e, contentsOf_eq, List.flatMap_append, List.flatMap_assoc]
    congr 1
    exact flatMap_congr' ha

/-! ## `descendants` -/

theorem descOf_of_isText {x : Expr} (h : x.isText = true) : descOf x = [] := by
  cases x <;> simp_all [Expr.isText, descOf]

theorem descList_eq (es : List Expr) : descList es = es.flatMap descOf := by
  induction es with
  | nil => simp [descList]
  | cons x xs ih => simp [descList, ih]

theorem descArgs_eq (as : List Expr) : descArgs as = as.flatMap descInner := by
  induction as with
  | nil => simp [descArgs]
  | cons x xs ih => simp [descArgs, ih]

theorem descOf_eq_inner (e : Expr) : descOf e = contentsOf e ++ descInner e := by
  cases e <;> simp [descOf, descInner, contentsOf, allOf]

theorem descInner_eq (e : Expr) : descInner e = (contentsOf e).flatMap descOf := by
  refine layer_eq descInner descOf (fun e => ?_) e
  rw [nav_flatMap_dropBlank descOf (fun x hx => descOf_of_isText (isText_of_isBlankText hx))]
  cases e <;> simp [descInner, Expr.args, Expr.body, descArgs_eq, descList_eq]

/-- `descendants = chain(contents, *[c.descendants for c in contents])` (text contributes
nothing). -/
theorem descOf_eq (e : Expr) : descOf e = contentsOf e ++ (contentsOf e).flatMap descOf := by
  rw [descOf_eq_inner, descInner_eq]

/-- The Python definition, literally:
`descendants = chain(self.contents, *[c.descendants for c in self.children])`. -/
theorem descOf_eq_children (e : Expr) :
    descOf e = contentsOf e ++ (childrenOf e).flatMap descOf := by
  rw [descOf_eq e]
  congr 1
  unfold childrenOf
  generalize contentsOf e = c
  induction c with
  | nil => rfl
  | cons x c ih =>
    by_cases hx : x.isText = true
    · simp [hx, descOf_of_isText hx, ih]
    · simp [hx, ih]

theorem contentsOf_rootWrap (es : List Expr) : contentsOf (rootWrap es) = dropBlank es := by
  simp [rootWrap, contentsOf, allOf, argsContents]

theorem descRoot_eq_wrap (es : List Expr) : descRoot es = descOf (rootWrap es) := by
  simp [rootWrap, descOf, descRoot, descArgs, contentsOf, allOf, argsContents]

theorem descRoot_eq (es : List Expr) :
    descRoot es = dropBlank es ++ (dropBlank es).flatMap descOf := by
  rw [descRoot_eq_wrap, descOf_eq, contentsOf_rootWrap]

/-! ## The transitive closure of `contents` -/

mutual
/-- Pre-order transitive closure of `contents`:
`closure e = (contentsOf e).flatMap (fun x => x :: closure x)` (`closure_eq`). -/
def closure : Expr → List Expr
  | .text _ _ => []
  | .cmd _ a b _ => closureArgs a ++ closureList b
  | .nenv _ a b _ => closureArgs a ++ closureList b
  | .math _ b _ => closureList b
  | .group _ b _ => closureList b
def closureList : List Expr → List Expr
  | [] => []
  | e :: es => (if e.isBlankText then [] else e :: closure e) ++ closureList es
def closureArgs : List Expr → List Expr
  | [] => []
  | a :: as => closure a ++ closureArgs as
end

/-- closure below the root -/
def closureRoot (es : List Expr) : List Expr := closureList es

theorem closureList_eq (es : List Expr) :
    closureList es = (dropBlank es).flatMap (fun x => x :: closure x) := by
  induction es with
  | nil => simp [closureList]
  | cons x xs ih =>
    rw [closureList, dropBlank_cons, ih]
    cases x.isBlankText <;> simp

theorem closureArgs_eq (as : List Expr) : closureArgs as = as.flatMap closure := by
  induction as with
  | nil => simp [closureArgs]
  | cons x xs ih => simp [closureArgs, ih]

/-- `closure` is the pre-order transitive closure of `contentsOf`. -/
theorem closure_eq (e : Expr) : closure e = (contentsOf e).flatMap (fun x => x :: closure x) := by
  refine layer_eq closure _ (fun e => ?_) e
  cases e <;> simp [closure, Expr.args, Expr.body, closureArgs_eq, closureList_eq]

theorem closureRoot_eq (es : List Expr) :
    closureRoot es = (dropBlank es).flatMap (fun x => x :: closure x) := closureList_eq es

theorem closureRoot_eq_wrap (es : List Expr) : closureRoot es = closure (rootWrap es) := by
  simp [closureRoot, rootWrap, closure, closureArgs]

/-- `l ++ l.flatMap f` is a permutation of the interleaving `l.flatMap (a :: g a)`. -/
theorem perm_layer {α β : Type} (t : α → β) (f g : α → List β) (l : List α)
    (h : ∀ a ∈ l, (f a).Perm (g a)) :
    (l.map t ++ l.flatMap f).Perm (l.flatMap (fun a => t a :: g a)) := by
  induction l with
  | nil => simp
  | cons a l ih =>
    simp only [List.map_cons, List.flatMap_cons, List.cons_append]
    refine List.Perm.cons _ ?_
    refine (List.perm_append_comm_assoc _ _ _).trans ?_
    exact List.Perm.append (h a (by simp)) (ih (fun b hb => h b (by simp [hb])))

theorem desc_perm_closure (e : Expr) : (descOf e).Perm (closure e) := by
  induction e using Expr.contentsInd with
  | h e ih =>
    rw [descOf_eq, closure_eq]
    simpa using perm_layer id descOf closure (contentsOf e) ih

theorem descRoot_perm_closure (es : List Expr) : (descRoot es).Perm (closureRoot es) := by
  rw [descRoot_eq_wrap, closureRoot_eq_wrap]
  exact desc_perm_closure _

/-! ## `text` -/

mutual
/-- The text leaves below `e` in serialisation order (arguments, then body), as far as
`contents` reaches them: leaves of the argument contents and of the bodies. -/
def leaves : Expr → List Expr
  | .text _ _ => []
  | .cmd _ a b _ => leavesArgs a ++ leavesList b
  | .nenv _ a b _ => leavesArgs a ++ leavesList b
  | .math _ b _ => leavesList b
  | .group _ b _ => leavesList b
def leavesList : List Expr → List Expr
  | [] => []
  | .text s p :: es => .text s p :: leavesList es
  | e :: es => leaves e ++ leavesList es
def leavesArgs : List Expr → List Expr
  | [] => []
  | a :: as => leaves a ++ leavesArgs as
end

def leavesRoot (es : List Expr) : List Expr := leavesList es

mutual
theorem textOf_eq_filter : ∀ e, textOf e = (leaves e).filter (fun x => !x.isBlankText)
  | .text _ _ => by simp [textOf, leaves]
  | .cmd _ a b _ => by simp [textOf, leaves, textArgs_eq_filter a, textList_eq_filter b]
  | .nenv _ a b _ => by simp [textOf, leaves, textArgs_eq_filter a, textList_eq_filter b]
  | .math _ b _ => by simp [textOf, leaves, textList_eq_filter b]
  | .group _ b _ => by simp [textOf, leaves, textList_eq_filter b]
theorem textList_eq_filter : ∀ es, textList es = (leavesList es).filter (fun x => !x.isBlankText)
  | [] => by simp [textList, leavesList]
  | .text s p :: es => by
    rw [textList, leavesList, textList_eq_filter es, List.filter_cons]
    by_cases h : isBlank s = true <;> simp [Expr.isBlankText, h]
  | .cmd n a b p :: es => by
    simp [textList, leavesList, textList_eq_filter es, textOf_eq_filter (.cmd n a b p)]
  | .nenv n a b p :: es => by
    simp [textList, leavesList, textList_eq_filter es, textOf_eq_filter (.nenv n a b p)]
  | .math k b p :: es => by
    simp [textList, leavesList, textList_eq_filter es, textOf_eq_filter (.math k b p)]
  | .group k b p :: es => by
    simp [textList, leavesList, textList_eq_filter es, textOf_eq_filter (.group k b p)]
theorem textArgs_eq_filter : ∀ as, textArgs as = (leavesArgs as).filter (fun x => !x.isBlankText)
  | [] => by simp [textArgs, leavesArgs]
  | a :: as => by simp [textArgs, leavesArgs, textArgs_eq_filter as, textOf_eq_filter a]
end

theorem textList_eq (es : List Expr) :
    textList es = (dropBlank es).flatMap (fun x => if x.isText then [x] else textOf x) := by
  induction es with
  | nil => simp [textList]
  | cons x xs ih =>
    rw [dropBlank_cons]
    cases x with
    | text s p =>
      by_cases h : isBlank s = true <;> simp [textList, ih, Expr.isBlankText, Expr.isText, h]
    | _ => simp [textList, ih, Expr.isBlankText, Expr.isText]

theorem textArgs_eq (as : List Expr) : textArgs as = as.flatMap textOf := by
  induction as with
  | nil => simp [textArgs]
  | cons x xs ih => simp [textArgs, ih]

/-- `text`: for each element of `contents`, the element itself if it is text, otherwise its
`text` (the Python generator, literally). -/
theorem textOf_eq (e : Expr) :
    textOf e = (contentsOf e).flatMap (fun x => if x.isText then [x] else textOf x) := by
  refine layer_eq textOf _ (fun e => ?_) e
  cases e <;> simp [textOf, Expr.args, Expr.body, textArgs_eq, textList_eq]

theorem textOf_of_isText {x : Expr} (h : x.isText = true) : textOf x = [] := by
  cases x <;> simp_all [Expr.isText, textOf]

theorem closure_of_isText {x : Expr} (h : x.isText = true) : closure x = [] := by
  cases x <;> simp_all [Expr.isText, closure]

/-- `text` is the text part of the pre-order closure of `contents`. -/
theorem textOf_eq_closure_filter (e : Expr) : textOf e = (closure e).filter (·.isText) := by
  induction e using Expr.contentsInd with
  | h e ih =>
    rw [textOf_eq, closure_eq, List.filter_flatMap]
    refine flatMap_congr' (fun x hx => ?_)
    by_cases hxt : x.isText = true
    · simp [hxt, closure_of_isText hxt]
    · simp [hxt, ih x hx]

/-! ## Serialisation -/

theorem serL_eq_flatten (es : List Expr) : serL es = (es.map ser).flatten := by
  induction es with
  | nil => simp [serL]
  | cons x xs ih => simp [serL, ih]

theorem serL_append (l m : List Expr) : serL (l ++ m) = serL l ++ serL m := by
  simp [serL_eq_flatten]

theorem serL_eq_flatMap (es : List Expr) : serL es = es.flatMap ser := by
  rw [serL_eq_flatten, List.flatMap_def]

mutual
/-- The text leaves reached by `contents` appear in the serialisation in the same order:
their concatenation is a subsequence of `str(expr)`. -/
theorem leaves_sublist_ser : ∀ e, ((leaves e).flatMap ser).Sublist (ser e)
  | .text _ _ => by simp [leaves]
  | .cmd n a b _ => by
    simp only [leaves, ser, List.flatMap_append]
    exact List.Sublist.cons _ (List.sublist_append_of_sublist_right
      (List.Sublist.append (leavesArgs_sublist_serL a) (leavesList_sublist_serL b)))
  | .nenv n a b _ => by
    simp only [leaves, ser, List.flatMap_append]
    refine List.sublist_append_of_sublist_right (List.sublist_append_of_sublist_right
      (List.Sublist.cons _ (List.Sublist.append (leavesArgs_sublist_serL a) ?_)))
    exact List.sublist_append_of_sublist_left (leavesList_sublist_serL b)
  | .math k b _ => by
    simp only [leaves, ser]
    exact List.sublist_append_of_sublist_right
      (List.sublist_append_of_sublist_left (leavesList_sublist_serL b))
  | .group k b _ => by
    simp only [leaves, ser]
    exact List.sublist_append_of_sublist_right
      (List.sublist_append_of_sublist_left (leavesList_sublist_serL b))
theorem leavesList_sublist_serL : ∀ es, ((leavesList es).flatMap ser).Sublist (serL es)
  | [] => by simp [leavesList, serL]
  | .text s p :: es => by
    simp only [leavesList, serL, List.flatMap_cons, ser]
    exact List.Sublist.append (List.Sublist.refl _) (leavesList_sublist_serL es)
  | .cmd n a b p :: es => by
    simp only [leavesList, serL, List.flatMap_append]
    exact List.Sublist.append (leaves_sublist_ser (.cmd n a b p)) (leavesList_sublist_serL es)
  | .nenv n a b p :: es => by
    simp only [leavesList, serL, List.flatMap_append]
    exact List.Sublist.append (leaves_sublist_ser (.nenv n a b p)) (leavesList_sublist_serL es)
  | .math k b p :: es => by
    simp only [leavesList, serL, List.flatMap_append]
    exact List.Sublist.append (leaves_sublist_ser (.math k b p)) (leavesList_sublist_serL es)
  | .group k b p :: es => by
    simp only [leavesList, serL, List.flatMap_append]
    exact List.Sublist.append (leaves_sublist_ser (.group k b p)) (leavesList_sublist_serL es)
theorem leavesArgs_sublist_serL : ∀ as, ((leavesArgs as).flatMap ser).Sublist (serL as)
  | [] => by simp [leavesArgs, serL]
  | a :: as => by
    simp only [leavesArgs, serL, List.flatMap_append]
    exact List.Sublist.append (leaves_sublist_ser a) (leavesArgs_sublist_serL as)
end

/-! ## Iteration and indexing -/

/-- `TexNode.__iter__`: `iter(self.contents)` -/
def nodeIter (e : Expr) : List Expr := contentsOf e
/-- `TexNode.__getitem__` for a non-negative index: `list(self.contents)[i]`
(`none` = `IndexError`) -/
def nodeGetItem (e : Expr) (i : Nat) : Option Expr := (contentsOf e)[i]?

end TexSoup
