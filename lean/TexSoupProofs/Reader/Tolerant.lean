import TexSoupProofs.Reader.Basic
/-!
# Core B: whatever strict parsing returns, tolerant parsing returns too
-/
namespace TexSoup

/-- The statement for all reader functions at one fuel. -/
def StrictTolerantAt (f : Nat) : Prop :=
  (∀ skip mode ts r, readExpr f skip false mode ts = .ok r → readExpr f skip true mode ts = .ok r) ∧
  (∀ k pos ts r, readMathEnv f k pos false ts = .ok r → readMathEnv f k pos true ts = .ok r) ∧
  (∀ k ts r, readMathBody f k false ts = .ok r → readMathBody f k true ts = .ok r) ∧
  (∀ name args pos skip mode ts r, readEnv f name args pos skip false mode ts = .ok r →
      readEnv f name args pos skip true mode ts = .ok r) ∧
  (∀ skip mode ts r, readEnvBody f skip false mode ts = .ok r → readEnvBody f skip true mode ts = .ok r) ∧
  (∀ nreq nopt mode ts r, readCommand f nreq nopt false mode ts = .ok r →
      readCommand f nreq nopt true mode ts = .ok r) ∧
  (∀ nreq nopt mode ts r, readArgs f nreq nopt false mode ts = .ok r →
      readArgs f nreq nopt true mode ts = .ok r) ∧
  (∀ n mode ts r, readArgOpt f n false mode ts = .ok r → readArgOpt f n true mode ts = .ok r) ∧
  (∀ n mode ts r, readArgReq f n false mode ts = .ok r → readArgReq f n true mode ts = .ok r) ∧
  (∀ k pos mode ts r, readArg f k pos false mode ts = .ok r → readArg f k pos true mode ts = .ok r) ∧
  (∀ k mode ts r, readArgBody f k false mode ts = .ok r → readArgBody f k true mode ts = .ok r)

theorem strictTolerantAt_zero : StrictTolerantAt 0 := by
  refine ⟨?_, ?_, ?_, ?_, ?_, ?_, ?_, ?_, ?_, ?_, ?_⟩ <;> intros <;>
    simp_all [readExpr, readMathEnv, readMathBody, readEnv, readEnvBody, readCommand,
      readArgs, readArgOpt, readArgReq, readArg, readArgBody]

section
variable (f : Nat) (ih : StrictTolerantAt f)
include ih

theorem st_readExpr : ∀ skip mode ts r, readExpr (f+1) skip false mode ts = .ok r →
    readExpr (f+1) skip true mode ts = .ok r := by
  intro skip mode ts r h
  obtain ⟨hE, hME, hMB, hEnv, hEB, hC, hAs, hAO, hAR, hA, hAB⟩ := ih
  unfold readExpr at h ⊢
  cases ts with
  | nil => simp at h
  | cons c ts =>
    simp only at h ⊢
    cases hk : mkindOfBegin c.cat with
    | some k => rw [hk] at h; exact hME _ _ _ _ h
    | none =>
      rw [hk] at h
      simp only at h ⊢
      by_cases hesc : (c.cat == TC.Escape) = true
      · rw [if_pos hesc] at h ⊢
        obtain ⟨na, ts1, hc, h⟩ := Res.bind_eq_ok.mp h
        rw [hC _ _ _ _ _ hc]
        simp only [Res.bind_ok]
        grind
      · rw [if_neg hesc] at h ⊢
        grind

theorem st_readMathEnv : ∀ k pos ts r, readMathEnv (f+1) k pos false ts = .ok r →
    readMathEnv (f+1) k pos true ts = .ok r := by
  intro k pos ts r h
  obtain ⟨hE, hME, hMB, hEnv, hEB, hC, hAs, hAO, hAR, hA, hAB⟩ := ih
  unfold readMathEnv at h ⊢
  grind [Res.bind_eq_ok]

theorem st_readMathBody : ∀ k ts r, readMathBody (f+1) k false ts = .ok r →
    readMathBody (f+1) k true ts = .ok r := by
  intro k ts r h
  obtain ⟨hE, hME, hMB, hEnv, hEB, hC, hAs, hAO, hAR, hA, hAB⟩ := ih
  unfold readMathBody at h ⊢
  grind [Res.bind_eq_ok]

theorem st_readEnv : ∀ name args pos skip mode ts r,
    readEnv (f+1) name args pos skip false mode ts = .ok r →
    readEnv (f+1) name args pos skip true mode ts = .ok r := by
  intro name args pos skip mode ts r h
  obtain ⟨hE, hME, hMB, hEnv, hEB, hC, hAs, hAO, hAR, hA, hAB⟩ := ih
  unfold readEnv at h ⊢
  obtain ⟨be, ts1, hb, h⟩ := Res.bind_eq_ok.mp h
  rw [hEB _ _ _ _ hb]
  simp only [Res.bind_ok]
  by_cases herr : envError name be.2 = true
  · simp [herr] at h
  · simp only [herr] at h ⊢
    cases ts1 with
    | nil => simp at h
    | cons t0 r0 =>
      simp only at h ⊢
      obtain ⟨na, ts2, ha, h⟩ := Res.bind_eq_ok.mp h
      rw [hC _ _ _ _ _ ha]
      exact h

theorem st_readEnvBody : ∀ skip mode ts r, readEnvBody (f+1) skip false mode ts = .ok r →
    readEnvBody (f+1) skip true mode ts = .ok r := by
  intro skip mode ts r h
  obtain ⟨hE, hME, hMB, hEnv, hEB, hC, hAs, hAO, hAR, hA, hAB⟩ := ih
  unfold readEnvBody at h ⊢
  cases ts with
  | nil => exact h
  | cons t r' =>
    simp only at h ⊢
    by_cases hesc : (t.cat == TC.Escape) = true
    · rw [if_pos hesc] at h ⊢
      obtain ⟨na, ts', hc, h⟩ := Res.bind_eq_ok.mp h
      rw [hC _ _ _ _ _ hc]; simp only [Res.bind_ok]
      by_cases hend : (na.1.text == sEnd) = true
      · rw [if_pos hend] at h ⊢; exact h
      · rw [if_neg hend] at h ⊢
        obtain ⟨e, ts1, he, h⟩ := Res.bind_eq_ok.mp h
        rw [hE _ _ _ _ he]; simp only [Res.bind_ok]
        obtain ⟨be, ts2, hb, h⟩ := Res.bind_eq_ok.mp h
        rw [hEB _ _ _ _ hb]; simp only [Res.bind_ok]; exact h
    · rw [if_neg hesc] at h ⊢
      obtain ⟨e, ts1, he, h⟩ := Res.bind_eq_ok.mp h
      rw [hE _ _ _ _ he]; simp only [Res.bind_ok]
      obtain ⟨be, ts2, hb, h⟩ := Res.bind_eq_ok.mp h
      rw [hEB _ _ _ _ hb]; simp only [Res.bind_ok]; exact h

theorem st_readCommand : ∀ nreq nopt mode ts r, readCommand (f+1) nreq nopt false mode ts = .ok r →
    readCommand (f+1) nreq nopt true mode ts = .ok r := by
  intro nreq nopt mode ts r h
  obtain ⟨hE, hME, hMB, hEnv, hEB, hC, hAs, hAO, hAR, hA, hAB⟩ := ih
  unfold readCommand at h ⊢
  grind [Res.bind_eq_ok]

theorem st_readArgs : ∀ nreq nopt mode ts r, readArgs (f+1) nreq nopt false mode ts = .ok r →
    readArgs (f+1) nreq nopt true mode ts = .ok r := by
  intro nreq nopt mode ts r h
  obtain ⟨hE, hME, hMB, hEnv, hEB, hC, hAs, hAO, hAR, hA, hAB⟩ := ih
  unfold readArgs at h ⊢
  by_cases h0 : (nreq == 0 && nopt == 0) = true
  · rw [if_pos h0] at h ⊢; exact h
  · rw [if_neg h0] at h ⊢
    obtain ⟨an1, ts1, h1, h⟩ := Res.bind_eq_ok.mp h
    rw [hAO _ _ _ _ h1]; simp only [Res.bind_ok]
    obtain ⟨an2, ts2, h2, h⟩ := Res.bind_eq_ok.mp h
    rw [hAR _ _ _ _ h2]; simp only [Res.bind_ok]
    obtain ⟨an3, ts3, h3, h⟩ := Res.bind_eq_ok.mp h
    have h3' : (if nextIs TC.BracketBegin ts2 = true then readArgOpt f an1.2 true mode ts2
        else Except.ok (([], an1.2), ts2)) = Except.ok (an3, ts3) := by
      by_cases hb : nextIs TC.BracketBegin ts2 = true
      · rw [if_pos hb] at h3 ⊢; exact hAO _ _ _ _ h3
      · rw [if_neg hb] at h3 ⊢; exact h3
    rw [h3']; simp only [Res.bind_ok]
    obtain ⟨an4, ts4, h4, h⟩ := Res.bind_eq_ok.mp h
    have h4' : (if nextIs TC.GroupBegin ts3 = true then readArgReq f an2.2 true mode ts3
        else Except.ok (([], an2.2), ts3)) = Except.ok (an4, ts4) := by
      by_cases hb : nextIs TC.GroupBegin ts3 = true
      · rw [if_pos hb] at h4 ⊢; exact hAR _ _ _ _ h4
      · rw [if_neg hb] at h4 ⊢; exact h4
    rw [h4']; simp only [Res.bind_ok]; exact h

theorem st_readArgOpt : ∀ n mode ts r, readArgOpt (f+1) n false mode ts = .ok r →
    readArgOpt (f+1) n true mode ts = .ok r := by
  intro n mode ts r h
  obtain ⟨hE, hME, hMB, hEnv, hEB, hC, hAs, hAO, hAR, hA, hAB⟩ := ih
  unfold readArgOpt at h ⊢
  by_cases h0 : (n == 0) = true
  · rw [if_pos h0] at h ⊢; exact h
  · rw [if_neg h0] at h ⊢
    cases hs : (readSpacer ts).2 with
    | nil => rw [hs] at h; exact h
    | cons o r' =>
      rw [hs] at h
      simp only at h ⊢
      by_cases hb : (o.cat == TC.BracketBegin) = true
      · rw [if_pos hb] at h ⊢
        obtain ⟨g, ts1, hg, h⟩ := Res.bind_eq_ok.mp h
        rw [hA _ _ _ _ _ hg]; simp only [Res.bind_ok]
        obtain ⟨gn, ts2, hn, h⟩ := Res.bind_eq_ok.mp h
        rw [hAO _ _ _ _ hn]; simp only [Res.bind_ok]; exact h
      · rw [if_neg hb] at h ⊢; exact h

theorem st_readArgReq : ∀ n mode ts r, readArgReq (f+1) n false mode ts = .ok r →
    readArgReq (f+1) n true mode ts = .ok r := by
  intro n mode ts r h
  obtain ⟨hE, hME, hMB, hEnv, hEB, hC, hAs, hAO, hAR, hA, hAB⟩ := ih
  unfold readArgReq at h ⊢
  by_cases h0 : (n == 0) = true
  · rw [if_pos h0] at h ⊢; exact h
  · rw [if_neg h0] at h ⊢
    cases hs : (readSpacer ts).2 with
    | nil => rw [hs] at h; exact h
    | cons o r' =>
      rw [hs] at h
      simp only at h ⊢
      by_cases hb : (o.cat == TC.GroupBegin) = true
      · rw [if_pos hb] at h ⊢
        obtain ⟨g, ts1, hg, h⟩ := Res.bind_eq_ok.mp h
        rw [hA _ _ _ _ _ hg]; simp only [Res.bind_ok]
        obtain ⟨gn, ts2, hn, h⟩ := Res.bind_eq_ok.mp h
        rw [hAR _ _ _ _ hn]; simp only [Res.bind_ok]; exact h
      · rw [if_neg hb] at h ⊢
        by_cases hpos : n > 0
        · rw [if_pos hpos] at h ⊢
          by_cases hesc : (o.cat == TC.Escape) = true
          · rw [if_pos hesc] at h ⊢
            obtain ⟨na, ts1, hc, h⟩ := Res.bind_eq_ok.mp h
            rw [hC _ _ _ _ _ hc]; simp only [Res.bind_ok]
            obtain ⟨gn, ts2, hn, h⟩ := Res.bind_eq_ok.mp h
            rw [hAR _ _ _ _ hn]; simp only [Res.bind_ok]; exact h
          · rw [if_neg hesc] at h ⊢
            obtain ⟨gn, ts2, hn, h⟩ := Res.bind_eq_ok.mp h
            rw [hAR _ _ _ _ hn]; simp only [Res.bind_ok]; exact h
        · rw [if_neg hpos] at h ⊢; exact h

theorem st_readArg : ∀ k pos mode ts r, readArg (f+1) k pos false mode ts = .ok r →
    readArg (f+1) k pos true mode ts = .ok r := by
  intro k pos mode ts r h
  obtain ⟨hE, hME, hMB, hEnv, hEB, hC, hAs, hAO, hAR, hA, hAB⟩ := ih
  unfold readArg at h ⊢
  grind [Res.bind_eq_ok]

theorem st_readArgBody : ∀ k mode ts r, readArgBody (f+1) k false mode ts = .ok r →
    readArgBody (f+1) k true mode ts = .ok r := by
  intro k mode ts r h
  obtain ⟨hE, hME, hMB, hEnv, hEB, hC, hAs, hAO, hAR, hA, hAB⟩ := ih
  unfold readArgBody at h ⊢
  grind [Res.bind_eq_ok]

end

theorem strictTolerantAt (f : Nat) : StrictTolerantAt f := by
  induction f with
  | zero => exact strictTolerantAt_zero
  | succ f ih =>
    exact ⟨st_readExpr f ih, st_readMathEnv f ih, st_readMathBody f ih, st_readEnv f ih,
      st_readEnvBody f ih, st_readCommand f ih, st_readArgs f ih,
      st_readArgOpt f ih, st_readArgReq f ih, st_readArg f ih, st_readArgBody f ih⟩

end TexSoup
