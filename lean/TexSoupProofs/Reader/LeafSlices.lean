import TexSoupProofs.Reader.Progress
import TexSoupModel.Nav
/-!
# Every text leaf is a run of consecutive tokens, recorded at the first of them

`Sliced all e`: every text leaf `.text t p` of `e` (through arguments and bodies) with `0 ≤ p`
is the concatenation of a block of consecutive tokens of `all`, and `p` is the recorded
position of the token of `all` that stands where the block starts:

    all = pre ++ (body ++ post),  t = flat body,  body ++ post = c :: _,  c.pos = p

* a leaf read by `read_expr` is one token (`body = [c]`),
* the text child of a verbatim-like environment (`read_skip_env`) is the run of tokens up to
  `\end{name}`; if that run is empty, `t = ''` and `p` is the position of the `\` of `\end`
  (`body = []`, `post = \ :: …`) - the statement covers this case as it is.

Leaves with position `-1` (the text of the group made up for a bare-token argument) are
exempt. The hypothesis is that the input `ts` of the reader is a suffix of `all` (`Suf all ts`),
which every reader hands on to the next (`Progress.lean`).

With contiguous token offsets (`Positioned`, true of the tokenizer's output on a string
without NUL/DEL) this gives: a leaf's text is the slice of the source at its position
(`SliceAt.slice`).
-/
namespace TexSoup

/-- the first token of `l` is recorded at `p` -/
def FirstPos (p : Int) (l : List Tok) : Prop := ∃ c r, l = c :: r ∧ (c.pos : Int) = p

/-- `t` is a block of consecutive tokens of `all`, `p` the position of the token at which the
block starts (nothing is claimed for `p = -1`). -/
def SliceAt (all : List Tok) (p : Int) (t : Str) : Prop :=
  0 ≤ p → ∃ pre body post, all = pre ++ (body ++ post) ∧ t = flat body ∧ FirstPos p (body ++ post)

mutual
/-- Every text leaf of the tree with a non-negative position is a block of consecutive tokens
of `all` recorded at its first token. -/
def Sliced (all : List Tok) : Expr → Prop
  | .text t p => SliceAt all p t
  | .cmd _ a b _ => SlicedL all a ∧ SlicedL all b
  | .nenv _ a b _ => SlicedL all a ∧ SlicedL all b
  | .math _ b _ => SlicedL all b
  | .group _ b _ => SlicedL all b
def SlicedL (all : List Tok) : List Expr → Prop
  | [] => True
  | e :: es => Sliced all e ∧ SlicedL all es
end

theorem SlicedL_cons {all : List Tok} {e : Expr} {es : List Expr} :
    SlicedL all (e :: es) ↔ Sliced all e ∧ SlicedL all es := by
  simp only [SlicedL]

theorem SlicedL_nil {all : List Tok} : SlicedL all [] := by
  simp only [SlicedL]

theorem SlicedL_append {all : List Tok} {a b : List Expr} (ha : SlicedL all a)
    (hb : SlicedL all b) : SlicedL all (a ++ b) := by
  induction a with
  | nil => exact hb
  | cons e es ih =>
    obtain ⟨h1, h2⟩ := SlicedL_cons.1 ha
    exact SlicedL_cons.2 ⟨h1, ih h2⟩

theorem SlicedL_mem {all : List Tok} {es : List Expr} (h : SlicedL all es) {e : Expr} (he : e ∈ es) :
    Sliced all e := by
  induction es with
  | nil => cases he
  | cons x xs ih =>
    obtain ⟨h1, h2⟩ := SlicedL_cons.1 h
    rcases List.mem_cons.1 he with rfl | he
    · exact h1
    · exact ih h2 he

theorem SliceAt.neg {all : List Tok} {t : Str} : SliceAt all (-1) t := fun h => absurd h (by decide)

/-- one token -/
theorem SliceAt.of_tok {all : List Tok} {c : Tok} {rest : List Tok} (h : Suf all (c :: rest)) :
    SliceAt all c.pos c.text := by
  obtain ⟨pre, hp⟩ := h
  exact fun _ => ⟨pre, [c], rest, hp, by simp [flat], c, rest, rfl, rfl⟩

/-! ### the views `text` -/

mutual
/-- The leaves of `node.text` are leaves of the tree. -/
theorem Sliced.of_textOf {all : List Tok} : ∀ e, Sliced all e → ∀ x ∈ textOf e,
    ∃ t q, x = .text t q ∧ SliceAt all q t
  | .text _ _, _, x, hx => by simp [TexSoup.textOf] at hx
  | .cmd _ a b _, h, x, hx => by
    simp only [Sliced] at h
    simp only [TexSoup.textOf, List.mem_append] at hx
    rcases hx with hx | hx
    · exact SlicedL.of_textArgs a h.1 x hx
    · exact SlicedL.of_textList b h.2 x hx
  | .nenv _ a b _, h, x, hx => by
    simp only [Sliced] at h
    simp only [TexSoup.textOf, List.mem_append] at hx
    rcases hx with hx | hx
    · exact SlicedL.of_textArgs a h.1 x hx
    · exact SlicedL.of_textList b h.2 x hx
  | .math _ b _, h, x, hx => by
    simp only [Sliced] at h
    simp only [TexSoup.textOf] at hx
    exact SlicedL.of_textList b h x hx
  | .group _ b _, h, x, hx => by
    simp only [Sliced] at h
    simp only [TexSoup.textOf] at hx
    exact SlicedL.of_textList b h x hx
theorem SlicedL.of_textList {all : List Tok} : ∀ es, SlicedL all es → ∀ x ∈ textList es,
    ∃ t q, x = .text t q ∧ SliceAt all q t
  | [], _, x, hx => by simp [TexSoup.textList] at hx
  | .text s p :: es, h, x, hx => by
    obtain ⟨h1, h2⟩ := SlicedL_cons.1 h
    simp only [TexSoup.textList, List.mem_append] at hx
    rcases hx with hx | hx
    · by_cases hb : isBlank s = true
      · simp [hb] at hx
      · simp only [hb, Bool.false_eq_true, if_false, List.mem_singleton] at hx
        subst hx
        simp only [Sliced] at h1
        exact ⟨s, p, rfl, h1⟩
    · exact SlicedL.of_textList es h2 x hx
  | .cmd n a b p :: es, h, x, hx => by
    obtain ⟨h1, h2⟩ := SlicedL_cons.1 h
    simp only [TexSoup.textList, List.mem_append] at hx
    rcases hx with hx | hx
    · exact Sliced.of_textOf (.cmd n a b p) h1 x hx
    · exact SlicedL.of_textList es h2 x hx
  | .nenv n a b p :: es, h, x, hx => by
    obtain ⟨h1, h2⟩ := SlicedL_cons.1 h
    simp only [TexSoup.textList, List.mem_append] at hx
    rcases hx with hx | hx
    · exact Sliced.of_textOf (.nenv n a b p) h1 x hx
    · exact SlicedL.of_textList es h2 x hx
  | .math k b p :: es, h, x, hx => by
    obtain ⟨h1, h2⟩ := SlicedL_cons.1 h
    simp only [TexSoup.textList, List.mem_append] at hx
    rcases hx with hx | hx
    · exact Sliced.of_textOf (.math k b p) h1 x hx
    · exact SlicedL.of_textList es h2 x hx
  | .group k b p :: es, h, x, hx => by
    obtain ⟨h1, h2⟩ := SlicedL_cons.1 h
    simp only [TexSoup.textList, List.mem_append] at hx
    rcases hx with hx | hx
    · exact Sliced.of_textOf (.group k b p) h1 x hx
    · exact SlicedL.of_textList es h2 x hx
theorem SlicedL.of_textArgs {all : List Tok} : ∀ as, SlicedL all as → ∀ x ∈ textArgs as,
    ∃ t q, x = .text t q ∧ SliceAt all q t
  | [], _, x, hx => by simp [TexSoup.textArgs] at hx
  | a :: as, h, x, hx => by
    obtain ⟨h1, h2⟩ := SlicedL_cons.1 h
    simp only [TexSoup.textArgs, List.mem_append] at hx
    rcases hx with hx | hx
    · exact Sliced.of_textOf a h1 x hx
    · exact SlicedL.of_textArgs as h2 x hx
end

/-! ### contiguous offsets -/

/-- The recorded positions are the running offsets starting at `p` (as `Positioned` of
`TokLemmas/InverseOK.lean`; repeated here to keep this file independent of the tokenizer
proofs). -/
def Running : Nat → List Tok → Prop
  | _, [] => True
  | p, t :: r => t.pos = p ∧ Running (p + t.text.length) r

theorem flat_append' (a b : List Tok) : flat (a ++ b) = flat a ++ flat b := by
  induction a with
  | nil => rfl
  | cons t r ih => simp [flat, ih]

theorem Running.append {p : Nat} {a b : List Tok} (h : Running p (a ++ b)) :
    Running (p + (flat a).length) b := by
  induction a generalizing p with
  | nil => simpa [flat] using h
  | cons t r ih =>
    obtain ⟨_, h2⟩ := h
    have := ih h2
    simpa [flat, Nat.add_assoc] using this

/-- With running offsets, a leaf's text is the slice of the whole text at its position. -/
theorem SliceAt.slice {all : List Tok} {p : Int} {t : Str} (h : SliceAt all p t) (h0 : 0 ≤ p)
    (hr : Running 0 all) : t = ((flat all).drop p.toNat).take t.length := by
  obtain ⟨pre, body, post, hall, ht, c, r, hc, hp⟩ := h h0
  subst hall
  have h1 := hr.append
  rw [hc] at h1
  have hpos : p.toNat = (flat pre).length := by
    have := h1.1
    omega
  rw [hpos, flat_append', flat_append', List.drop_left, ht, List.take_left]

/-! ## The invariant -/

/-- `read_skip_env`: the text child is the run of tokens before the end marker. -/
theorem readSkipEnv_sliced {all : List Tok} {name : Str} {args : List Expr} {pos : Int}
    {ts : List Tok} {e : Expr} {rest : List Tok}
    (h : readSkipEnv name args pos ts = .ok (e, rest)) (hsuf : Suf all ts)
    (ha : SlicedL all args) : Sliced all e := by
  unfold readSkipEnv at h
  cases hb : skipBody (endMarker name) ts with
  | mk b r =>
    rw [hb] at h
    simp only at h
    have hsplit := skipBody_split _ _ _ _ hb
    by_cases hs : bufStartsWith (endMarker name) r = true
    · rw [if_pos hs] at h
      simp only [Except.ok.injEq, Prod.mk.injEq] at h
      obtain ⟨rfl, _⟩ := h
      simp only [Sliced, SlicedL, and_true]
      refine ⟨ha, ?_⟩
      cases ts with
      | nil => exact SliceAt.neg
      | cons t r' =>
        simp only
        obtain ⟨pre, hp⟩ := hsuf
        exact fun _ => ⟨pre, b, r, by rw [hp, hsplit], rfl, t, r', hsplit.symm, rfl⟩
    · rw [if_neg hs] at h; cases h

/-- The invariant for every reader function at fuel `f`. -/
def SliceInv (all : List Tok) (f : Nat) : Prop :=
  (∀ skip tol mode ts e rest, readExpr f skip tol mode ts = .ok (e, rest) → Suf all ts →
      Sliced all e) ∧
  (∀ ts es rest, readItem f ts = .ok (es, rest) → Suf all ts → SlicedL all es) ∧
  (∀ k pos tol ts e rest, readMathEnv f k pos tol ts = .ok (e, rest) → Suf all ts →
      Sliced all e) ∧
  (∀ k tol ts es rest, readMathBody f k tol ts = .ok (es, rest) → Suf all ts → SlicedL all es) ∧
  (∀ name args pos skip tol mode ts e rest,
      readEnv f name args pos skip tol mode ts = .ok (e, rest) → Suf all ts →
      SlicedL all args → Sliced all e) ∧
  (∀ skip tol mode ts be rest, readEnvBody f skip tol mode ts = .ok (be, rest) → Suf all ts →
      SlicedL all be.1) ∧
  (∀ nreq nopt tol mode ts na rest, readCommand f nreq nopt tol mode ts = .ok (na, rest) →
      Suf all ts → SlicedL all na.2) ∧
  (∀ nreq nopt tol mode ts args rest, readArgs f nreq nopt tol mode ts = .ok (args, rest) →
      Suf all ts → SlicedL all args) ∧
  (∀ n tol mode ts gn rest, readArgOpt f n tol mode ts = .ok (gn, rest) → Suf all ts →
      SlicedL all gn.1) ∧
  (∀ n tol mode ts gn rest, readArgReq f n tol mode ts = .ok (gn, rest) → Suf all ts →
      SlicedL all gn.1) ∧
  (∀ k pos tol mode ts e rest, readArg f k pos tol mode ts = .ok (e, rest) → Suf all ts →
      Sliced all e) ∧
  (∀ k tol mode ts es rest, readArgBody f k tol mode ts = .ok (es, rest) → Suf all ts →
      SlicedL all es)

theorem sliceInv_zero (all : List Tok) : SliceInv all 0 := by
  refine ⟨?_, ?_, ?_, ?_, ?_, ?_, ?_, ?_, ?_, ?_, ?_, ?_⟩ <;> intros <;>
    simp_all [readExpr, readItem, readMathEnv, readMathBody, readEnv, readEnvBody, readCommand,
      readArgs, readArgOpt, readArgReq, readArg, readArgBody]

theorem Suf.tail' {all : List Tok} {t : Tok} {r : List Tok} (h : Suf all (t :: r)) : Suf all r :=
  h.trans Suf.tail

section
variable (all : List Tok) (f : Nat) (ih : SliceInv all f)
include ih

theorem sl_readExpr : ∀ skip tol mode ts e rest, readExpr (f+1) skip tol mode ts = .ok (e, rest) →
    Suf all ts → Sliced all e := by
  intro skip tol mode ts e rest h hsuf
  obtain ⟨lE, lI, lME, lMB, lEnv, lEB, lC, lAs, lAO, lAR, lA, lAB⟩ := ih
  unfold readExpr at h
  cases ts with
  | nil => cases h
  | cons c ts =>
    simp only at h
    cases hk : mkindOfBegin c.cat with
    | some k =>
      rw [hk] at h
      simp only at h
      exact lME _ _ _ _ _ _ h hsuf.tail'
    | none =>
      rw [hk] at h
      simp only at h
      by_cases hesc : (c.cat == TC.Escape) = true
      · rw [if_pos hesc] at h
        obtain ⟨na, ts1, hcm, h⟩ := Res.bind_eq_ok.mp h
        have hargs : SlicedL all na.2 := lC _ _ _ _ _ _ _ hcm hsuf.tail'
        have hsuf1 : Suf all ts1 := hsuf.tail'.trans (readCommand_suf hcm)
        by_cases hitem : (na.1.text == sItem) = true
        · rw [if_pos hitem] at h
          by_cases hm : (mode == Mode.math) = true
          · rw [if_pos hm] at h; cases h
          · rw [if_neg hm] at h
            obtain ⟨body, ts2, hi, h⟩ := Res.bind_eq_ok.mp h
            simp only [Except.ok.injEq, Prod.mk.injEq] at h
            obtain ⟨rfl, _⟩ := h
            simp only [Sliced]
            exact ⟨hargs, lI _ _ _ hi hsuf1⟩
        · rw [if_neg hitem] at h
          by_cases hb : (na.1.text == sBegin && mode != Mode.special) = true
          · rw [if_pos hb] at h
            cases hna : na.2 with
            | nil => rw [hna] at h; cases h
            | cons a0 as =>
              rw [hna] at h hargs
              simp only at h
              have has : SlicedL all as := (SlicedL_cons.1 hargs).2
              by_cases hs : memStr (strip a0.string) skip = true
              · rw [if_pos hs] at h
                exact readSkipEnv_sliced h hsuf1 has
              · rw [if_neg hs] at h
                exact lEnv _ _ _ _ _ _ _ _ _ h hsuf1 has
          · rw [if_neg hb] at h
            simp only [Except.ok.injEq, Prod.mk.injEq] at h
            obtain ⟨rfl, _⟩ := h
            simp only [Sliced]
            exact ⟨hargs, SlicedL_nil⟩
      · rw [if_neg hesc] at h
        by_cases hg : (c.cat == TC.GroupBegin) = true
        · rw [if_pos hg] at h
          exact lA _ _ _ _ _ _ _ h hsuf.tail'
        · rw [if_neg hg] at h
          simp only [Except.ok.injEq, Prod.mk.injEq] at h
          obtain ⟨rfl, _⟩ := h
          simp only [Sliced]
          exact SliceAt.of_tok hsuf

theorem sl_readItem : ∀ ts es rest, readItem (f+1) ts = .ok (es, rest) → Suf all ts →
    SlicedL all es := by
  intro ts es rest h hsuf
  obtain ⟨lE, lI, lME, lMB, lEnv, lEB, lC, lAs, lAO, lAR, lA, lAB⟩ := ih
  unfold readItem at h
  have step : ∀ t r, Suf all (t :: r) → ((readExpr f [] false .nonMath (t :: r)).bind fun e ts1 =>
        (readItem f ts1).bind fun es ts2 => .ok (e :: es, ts2)) = .ok (es, rest) →
      SlicedL all es := by
    intro t r hsuf h
    obtain ⟨e, ts1, he, h⟩ := Res.bind_eq_ok.mp h
    obtain ⟨es', ts2, hb, h⟩ := Res.bind_eq_ok.mp h
    simp only [Except.ok.injEq, Prod.mk.injEq] at h
    obtain ⟨rfl, _⟩ := h
    exact SlicedL_cons.2 ⟨lE _ _ _ _ _ _ he hsuf,
      lI _ _ _ hb (hsuf.trans (readExpr_ssuf he).suf)⟩
  cases ts with
  | nil =>
    simp only [Except.ok.injEq, Prod.mk.injEq] at h
    obtain ⟨rfl, _⟩ := h
    exact SlicedL_nil
  | cons t r =>
    simp only at h
    by_cases hesc : (t.cat == TC.Escape) = true
    · rw [if_pos hesc] at h
      obtain ⟨na, ts', hc, h⟩ := Res.bind_eq_ok.mp h
      by_cases hend : (na.1.text == sEnd || na.1.text == sItem) = true
      · rw [if_pos hend] at h
        simp only [Except.ok.injEq, Prod.mk.injEq] at h
        obtain ⟨rfl, _⟩ := h
        exact SlicedL_nil
      · rw [if_neg hend] at h
        exact step t r hsuf h
    · rw [if_neg hesc] at h
      by_cases hge : (t.cat == TC.GroupEnd) = true
      · rw [if_pos hge] at h
        simp only [Except.ok.injEq, Prod.mk.injEq] at h
        obtain ⟨rfl, _⟩ := h
        exact SlicedL_nil
      · rw [if_neg hge] at h
        exact step t r hsuf h

theorem sl_readMathEnv : ∀ k pos tol ts e rest, readMathEnv (f+1) k pos tol ts = .ok (e, rest) →
    Suf all ts → Sliced all e := by
  intro k pos tol ts e rest h hsuf
  obtain ⟨lE, lI, lME, lMB, lEnv, lEB, lC, lAs, lAO, lAR, lA, lAB⟩ := ih
  unfold readMathEnv at h
  obtain ⟨body, ts1, hb, h⟩ := Res.bind_eq_ok.mp h
  cases ts1 with
  | nil => cases h
  | cons t r =>
    simp only at h
    by_cases hend : (t.cat == k.tokEnd) = true
    · rw [if_pos hend] at h
      simp only [Except.ok.injEq, Prod.mk.injEq] at h
      obtain ⟨rfl, _⟩ := h
      simp only [Sliced]
      exact lMB _ _ _ _ _ hb hsuf
    · rw [if_neg hend] at h; cases h

theorem sl_readMathBody : ∀ k tol ts es rest, readMathBody (f+1) k tol ts = .ok (es, rest) →
    Suf all ts → SlicedL all es := by
  intro k tol ts es rest h hsuf
  obtain ⟨lE, lI, lME, lMB, lEnv, lEB, lC, lAs, lAO, lAR, lA, lAB⟩ := ih
  unfold readMathBody at h
  cases ts with
  | nil =>
    simp only [Except.ok.injEq, Prod.mk.injEq] at h
    obtain ⟨rfl, _⟩ := h
    exact SlicedL_nil
  | cons t r =>
    simp only at h
    by_cases hend : (t.cat == k.tokEnd) = true
    · rw [if_pos hend] at h
      simp only [Except.ok.injEq, Prod.mk.injEq] at h
      obtain ⟨rfl, _⟩ := h
      exact SlicedL_nil
    · rw [if_neg hend] at h
      obtain ⟨e, ts1, he, h⟩ := Res.bind_eq_ok.mp h
      obtain ⟨es', ts2, hb, h⟩ := Res.bind_eq_ok.mp h
      simp only [Except.ok.injEq, Prod.mk.injEq] at h
      obtain ⟨rfl, _⟩ := h
      exact SlicedL_cons.2 ⟨lE _ _ _ _ _ _ he hsuf,
        lMB _ _ _ _ _ hb (hsuf.trans (readExpr_ssuf he).suf)⟩

theorem sl_readEnv : ∀ name args pos skip tol mode ts e rest,
    readEnv (f+1) name args pos skip tol mode ts = .ok (e, rest) → Suf all ts →
    SlicedL all args → Sliced all e := by
  intro name args pos skip tol mode ts e rest h hsuf ha
  obtain ⟨lE, lI, lME, lMB, lEnv, lEB, lC, lAs, lAO, lAR, lA, lAB⟩ := ih
  unfold readEnv at h
  obtain ⟨be, ts1, hb, h⟩ := Res.bind_eq_ok.mp h
  have hbody : SlicedL all be.1 := lEB _ _ _ _ _ _ hb hsuf
  by_cases herr : envError name be.2 = true
  · rw [if_pos herr] at h
    by_cases ht : tol = true
    · rw [if_pos ht] at h
      simp only [Except.ok.injEq, Prod.mk.injEq] at h
      obtain ⟨rfl, _⟩ := h
      simp only [Sliced]
      exact ⟨ha, hbody⟩
    · rw [if_neg ht] at h; cases h
  · rw [if_neg herr] at h
    cases ts1 with
    | nil => cases h
    | cons t1 r1 =>
      simp only at h
      obtain ⟨na, ts2, hc, h⟩ := Res.bind_eq_ok.mp h
      simp only [Except.ok.injEq, Prod.mk.injEq] at h
      obtain ⟨rfl, _⟩ := h
      simp only [Sliced]
      exact ⟨ha, hbody⟩

theorem sl_readEnvBody : ∀ skip tol mode ts be rest,
    readEnvBody (f+1) skip tol mode ts = .ok (be, rest) → Suf all ts → SlicedL all be.1 := by
  intro skip tol mode ts be rest h hsuf
  obtain ⟨lE, lI, lME, lMB, lEnv, lEB, lC, lAs, lAO, lAR, lA, lAB⟩ := ih
  unfold readEnvBody at h
  have step : ∀ t r, Suf all (t :: r) → ((readExpr f skip tol mode (t :: r)).bind fun e ts1 =>
        (readEnvBody f skip tol mode ts1).bind fun be ts2 => .ok ((e :: be.1, be.2), ts2))
        = .ok (be, rest) → SlicedL all be.1 := by
    intro t r hsuf h
    obtain ⟨e, ts1, he, h⟩ := Res.bind_eq_ok.mp h
    obtain ⟨be', ts2, hb, h⟩ := Res.bind_eq_ok.mp h
    simp only [Except.ok.injEq, Prod.mk.injEq] at h
    obtain ⟨rfl, _⟩ := h
    exact SlicedL_cons.2 ⟨lE _ _ _ _ _ _ he hsuf,
      lEB _ _ _ _ _ _ hb (hsuf.trans (readExpr_ssuf he).suf)⟩
  cases ts with
  | nil =>
    simp only [Except.ok.injEq, Prod.mk.injEq] at h
    obtain ⟨rfl, _⟩ := h
    exact SlicedL_nil
  | cons t r =>
    simp only at h
    by_cases hesc : (t.cat == TC.Escape) = true
    · rw [if_pos hesc] at h
      obtain ⟨na, ts', hc, h⟩ := Res.bind_eq_ok.mp h
      by_cases hend : (na.1.text == sEnd) = true
      · rw [if_pos hend] at h
        simp only [Except.ok.injEq, Prod.mk.injEq] at h
        obtain ⟨rfl, _⟩ := h
        exact SlicedL_nil
      · rw [if_neg hend] at h
        exact step t r hsuf h
    · rw [if_neg hesc] at h
      exact step t r hsuf h

theorem sl_readCommand : ∀ nreq nopt tol mode ts na rest,
    readCommand (f+1) nreq nopt tol mode ts = .ok (na, rest) → Suf all ts →
    SlicedL all na.2 := by
  intro nreq nopt tol mode ts na rest h hsuf
  obtain ⟨lE, lI, lME, lMB, lEnv, lEB, lC, lAs, lAO, lAR, lA, lAB⟩ := ih
  unfold readCommand at h
  cases ts with
  | nil =>
    simp only at h
    obtain ⟨args', ts2, ha, h⟩ := Res.bind_eq_ok.mp h
    simp only [Except.ok.injEq, Prod.mk.injEq] at h
    obtain ⟨rfl, _⟩ := h
    exact lAs _ _ _ _ _ _ _ ha hsuf
  | cons n r =>
    simp only at h
    obtain ⟨args', ts2, ha, h⟩ := Res.bind_eq_ok.mp h
    simp only [Except.ok.injEq, Prod.mk.injEq] at h
    obtain ⟨rfl, _⟩ := h
    exact lAs _ _ _ _ _ _ _ ha hsuf.tail'

theorem sl_readArgs : ∀ nreq nopt tol mode ts args rest,
    readArgs (f+1) nreq nopt tol mode ts = .ok (args, rest) → Suf all ts → SlicedL all args := by
  intro nreq nopt tol mode ts args rest h hsuf
  obtain ⟨lE, lI, lME, lMB, lEnv, lEB, lC, lAs, lAO, lAR, lA, lAB⟩ := ih
  unfold readArgs at h
  by_cases h0 : (nreq == 0 && nopt == 0) = true
  · rw [if_pos h0] at h
    simp only [Except.ok.injEq, Prod.mk.injEq] at h
    obtain ⟨rfl, _⟩ := h
    exact SlicedL_nil
  · rw [if_neg h0] at h
    obtain ⟨an1, ts1, h1, h⟩ := Res.bind_eq_ok.mp h
    obtain ⟨an2, ts2, h2, h⟩ := Res.bind_eq_ok.mp h
    obtain ⟨an3, ts3, h3, h⟩ := Res.bind_eq_ok.mp h
    obtain ⟨an4, ts4, h4, h⟩ := Res.bind_eq_ok.mp h
    simp only [Except.ok.injEq, Prod.mk.injEq] at h
    obtain ⟨rfl, _⟩ := h
    have hsuf1 : Suf all ts1 := hsuf.trans (readArgOpt_suf h1)
    have hsuf2 : Suf all ts2 := hsuf1.trans (readArgReq_suf h2)
    have s1 := lAO _ _ _ _ _ _ h1 hsuf
    have s2 := lAR _ _ _ _ _ _ h2 hsuf1
    have s3 : SlicedL all an3.1 ∧ Suf all ts3 := by
      by_cases hb : nextIs TC.BracketBegin ts2 = true
      · rw [if_pos hb] at h3
        exact ⟨lAO _ _ _ _ _ _ h3 hsuf2, hsuf2.trans (readArgOpt_suf h3)⟩
      · rw [if_neg hb] at h3
        simp only [Except.ok.injEq, Prod.mk.injEq] at h3
        obtain ⟨rfl, rfl⟩ := h3
        exact ⟨SlicedL_nil, hsuf2⟩
    have s4 : SlicedL all an4.1 := by
      by_cases hb : nextIs TC.GroupBegin ts3 = true
      · rw [if_pos hb] at h4; exact lAR _ _ _ _ _ _ h4 s3.2
      · rw [if_neg hb] at h4
        simp only [Except.ok.injEq, Prod.mk.injEq] at h4
        obtain ⟨rfl, _⟩ := h4
        exact SlicedL_nil
    exact SlicedL_append s1 (SlicedL_append s2 (SlicedL_append s3.1 s4))

theorem sl_readArgOpt : ∀ n tol mode ts gn rest, readArgOpt (f+1) n tol mode ts = .ok (gn, rest) →
    Suf all ts → SlicedL all gn.1 := by
  intro n tol mode ts gn rest h hsuf
  obtain ⟨lE, lI, lME, lMB, lEnv, lEB, lC, lAs, lAO, lAR, lA, lAB⟩ := ih
  unfold readArgOpt at h
  by_cases h0 : (n == 0) = true
  · rw [if_pos h0] at h
    simp only [Except.ok.injEq, Prod.mk.injEq] at h
    obtain ⟨rfl, _⟩ := h
    exact SlicedL_nil
  · rw [if_neg h0] at h
    cases hs : (readSpacer ts).2 with
    | nil =>
      rw [hs] at h
      simp only [Except.ok.injEq, Prod.mk.injEq] at h
      obtain ⟨rfl, _⟩ := h
      exact SlicedL_nil
    | cons o r =>
      rw [hs] at h
      simp only at h
      have hsufr : Suf all r := hsuf.trans (Suf.afterSpacer hs).suf
      by_cases hb : (o.cat == TC.BracketBegin) = true
      · rw [if_pos hb] at h
        obtain ⟨g, ts1, hg, h⟩ := Res.bind_eq_ok.mp h
        obtain ⟨gn', ts2, hn, h⟩ := Res.bind_eq_ok.mp h
        simp only [Except.ok.injEq, Prod.mk.injEq] at h
        obtain ⟨rfl, _⟩ := h
        exact SlicedL_cons.2 ⟨lA _ _ _ _ _ _ _ hg hsufr,
          lAO _ _ _ _ _ _ hn (hsufr.trans (readArg_suf hg))⟩
      · rw [if_neg hb] at h
        simp only [Except.ok.injEq, Prod.mk.injEq] at h
        obtain ⟨rfl, _⟩ := h
        exact SlicedL_nil

theorem sl_readArgReq : ∀ n tol mode ts gn rest, readArgReq (f+1) n tol mode ts = .ok (gn, rest) →
    Suf all ts → SlicedL all gn.1 := by
  intro n tol mode ts gn rest h hsuf
  obtain ⟨lE, lI, lME, lMB, lEnv, lEB, lC, lAs, lAO, lAR, lA, lAB⟩ := ih
  unfold readArgReq at h
  by_cases h0 : (n == 0) = true
  · rw [if_pos h0] at h
    simp only [Except.ok.injEq, Prod.mk.injEq] at h
    obtain ⟨rfl, _⟩ := h
    exact SlicedL_nil
  · rw [if_neg h0] at h
    cases hs : (readSpacer ts).2 with
    | nil =>
      rw [hs] at h
      simp only [Except.ok.injEq, Prod.mk.injEq] at h
      obtain ⟨rfl, _⟩ := h
      exact SlicedL_nil
    | cons o r =>
      rw [hs] at h
      simp only at h
      have hsufr : Suf all r := hsuf.trans (Suf.afterSpacer hs).suf
      by_cases hb : (o.cat == TC.GroupBegin) = true
      · rw [if_pos hb] at h
        obtain ⟨g, ts1, hg, h⟩ := Res.bind_eq_ok.mp h
        obtain ⟨gn', ts2, hn, h⟩ := Res.bind_eq_ok.mp h
        simp only [Except.ok.injEq, Prod.mk.injEq] at h
        obtain ⟨rfl, _⟩ := h
        exact SlicedL_cons.2 ⟨lA _ _ _ _ _ _ _ hg hsufr,
          lAR _ _ _ _ _ _ hn (hsufr.trans (readArg_suf hg))⟩
      · rw [if_neg hb] at h
        by_cases hpos : n > 0
        · rw [if_pos hpos] at h
          by_cases hesc : (o.cat == TC.Escape) = true
          · rw [if_pos hesc] at h
            obtain ⟨na, ts1, hc, h⟩ := Res.bind_eq_ok.mp h
            obtain ⟨gn', ts2, hn, h⟩ := Res.bind_eq_ok.mp h
            simp only [Except.ok.injEq, Prod.mk.injEq] at h
            obtain ⟨rfl, _⟩ := h
            refine SlicedL_cons.2 ⟨?_, lAR _ _ _ _ _ _ hn (hsufr.trans (readCommand_suf hc))⟩
            simp only [Sliced]
            exact ⟨SlicedL_nil, SlicedL_nil⟩
          · rw [if_neg hesc] at h
            obtain ⟨gn', ts2, hn, h⟩ := Res.bind_eq_ok.mp h
            simp only [Except.ok.injEq, Prod.mk.injEq] at h
            obtain ⟨rfl, _⟩ := h
            refine SlicedL_cons.2 ⟨?_, lAR _ _ _ _ _ _ hn hsufr⟩
            simp only [Sliced, SlicedL, and_true]
            exact SliceAt.neg
        · rw [if_neg hpos] at h
          simp only [Except.ok.injEq, Prod.mk.injEq] at h
          obtain ⟨rfl, _⟩ := h
          exact SlicedL_nil

theorem sl_readArg : ∀ k pos tol mode ts e rest, readArg (f+1) k pos tol mode ts = .ok (e, rest) →
    Suf all ts → Sliced all e := by
  intro k pos tol mode ts e rest h hsuf
  obtain ⟨lE, lI, lME, lMB, lEnv, lEB, lC, lAs, lAO, lAR, lA, lAB⟩ := ih
  unfold readArg at h
  obtain ⟨body, ts1, hb, h⟩ := Res.bind_eq_ok.mp h
  simp only [Except.ok.injEq, Prod.mk.injEq] at h
  obtain ⟨rfl, _⟩ := h
  simp only [Sliced]
  exact lAB _ _ _ _ _ _ hb hsuf

theorem sl_readArgBody : ∀ k tol mode ts es rest, readArgBody (f+1) k tol mode ts = .ok (es, rest) →
    Suf all ts → SlicedL all es := by
  intro k tol mode ts es rest h hsuf
  obtain ⟨lE, lI, lME, lMB, lEnv, lEB, lC, lAs, lAO, lAR, lA, lAB⟩ := ih
  unfold readArgBody at h
  cases ts with
  | nil =>
    simp only at h
    by_cases ht : tol = true
    · rw [if_pos ht] at h
      simp only [Except.ok.injEq, Prod.mk.injEq] at h
      obtain ⟨rfl, _⟩ := h
      exact SlicedL_nil
    · rw [if_neg ht] at h; cases h
  | cons t r =>
    simp only at h
    by_cases hend : (t.cat == k.tokEnd) = true
    · rw [if_pos hend] at h
      simp only [Except.ok.injEq, Prod.mk.injEq] at h
      obtain ⟨rfl, _⟩ := h
      exact SlicedL_nil
    · rw [if_neg hend] at h
      obtain ⟨e, ts1, he, h⟩ := Res.bind_eq_ok.mp h
      obtain ⟨es', ts2, hb, h⟩ := Res.bind_eq_ok.mp h
      simp only [Except.ok.injEq, Prod.mk.injEq] at h
      obtain ⟨rfl, _⟩ := h
      exact SlicedL_cons.2 ⟨lE _ _ _ _ _ _ he hsuf,
        lAB _ _ _ _ _ _ hb (hsuf.trans (readExpr_ssuf he).suf)⟩

end

/-- The invariant holds at every fuel. -/
theorem sliceInv (all : List Tok) (f : Nat) : SliceInv all f := by
  induction f with
  | zero => exact sliceInv_zero all
  | succ f ih =>
    exact ⟨sl_readExpr all f ih, sl_readItem all f ih, sl_readMathEnv all f ih,
      sl_readMathBody all f ih, sl_readEnv all f ih, sl_readEnvBody all f ih,
      sl_readCommand all f ih, sl_readArgs all f ih, sl_readArgOpt all f ih,
      sl_readArgReq all f ih, sl_readArg all f ih, sl_readArgBody all f ih⟩

theorem readExpr_sliced {all : List Tok} {f skip tol mode ts e rest}
    (h : readExpr f skip tol mode ts = .ok (e, rest)) (hsuf : Suf all ts) : Sliced all e :=
  (sliceInv all f).1 _ _ _ _ _ _ h hsuf

theorem readTex_sliced {all : List Tok} :
    ∀ f skip tol ts es, readTex f skip tol ts = .ok es → Suf all ts → SlicedL all es := by
  intro f
  induction f with
  | zero => intro skip tol ts es h; simp [readTex] at h
  | succ f ih =>
    intro skip tol ts es h hsuf
    unfold readTex at h
    cases ts with
    | nil =>
      simp only [Except.ok.injEq] at h
      subst h; exact SlicedL_nil
    | cons t r =>
      simp only at h
      cases he : readExpr f skip tol .nonMath (t :: r) with
      | error e => rw [he] at h; cases h
      | ok v =>
        obtain ⟨e, ts1⟩ := v
        rw [he] at h
        simp only at h
        cases hr : readTex f skip tol ts1 with
        | error e' => rw [hr] at h; cases h
        | ok es' =>
          rw [hr] at h
          simp only [Except.ok.injEq] at h
          subst h
          exact SlicedL_cons.2 ⟨readExpr_sliced he hsuf,
            ih _ _ _ _ hr (hsuf.trans (readExpr_ssuf he).suf)⟩

/-- Every text leaf of a parsed document is a block of consecutive tokens of its token list. -/
theorem parse_sliced {tol : Bool} {skip : List Str} {s : Str} {ts : List Tok} {es : List Expr}
    (ht : tokenize s = some ts) (h : parse tol skip s = .ok es) : SlicedL ts es := by
  unfold parse at h
  rw [ht] at h
  exact readTex_sliced _ _ _ _ _ h (Suf.refl ts)

end TexSoup
