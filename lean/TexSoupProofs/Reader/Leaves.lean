import TexSoupProofs.Reader.ConsHelpers
/-!
# Reader-level facts behind C09, C11, C12: plain tokens are leaves, verbatim bodies are opaque
-/
namespace TexSoup

/-- A token that `read_expr` turns into a text leaf: not an escape, not `{`, not a math opener. -/
def isLeafTok (c : Tok) : Bool :=
  (mkindOfBegin c.cat).isNone && c.cat != .Escape && c.cat != .GroupBegin

def leafOf (c : Tok) : Expr := .text c.text c.pos

/-- `[`, `]`, `(`, `)`-bearing text, `}` …: anything that is not an escape, `{` or a math opener
is an ordinary text leaf wherever an expression is read – it needs no partner. (C09, C12) -/
theorem readExpr_leaf (f : Nat) (skip : List Str) (tol : Bool) (mode : Mode) (c : Tok)
    (ts : List Tok) (h : isLeafTok c = true) :
    readExpr (f + 1) skip tol mode (c :: ts) = .ok (leafOf c, ts) := by
  unfold isLeafTok at h
  simp only [Bool.and_eq_true, Option.isNone_iff_eq_none, bne_iff_ne, ne_eq] at h
  obtain ⟨⟨h1, h2⟩, h3⟩ := h
  unfold readExpr
  simp only [h1]
  rw [if_neg (by simpa using h2), if_neg (by simpa using h3)]
  rfl

/-- Square brackets are leaves. -/
theorem bracket_is_leaf (c : Tok) (h : c.cat = .BracketBegin ∨ c.cat = .BracketEnd) :
    isLeafTok c = true := by
  unfold isLeafTok
  rcases h with h | h <;> rw [h] <;> rfl

/-- A math body made of leaf tokens none of which closes the region: every token becomes a
text leaf, in order, and the loop stops at the closer. -/
theorem readMathBody_leaves (k : MKind) (tol : Bool) : ∀ (b : List Tok) (x : Nat) (c : Tok)
    (rest : List Tok), (∀ t ∈ b, isLeafTok t = true ∧ (t.cat == k.tokEnd) = false) →
    (c.cat == k.tokEnd) = true →
    readMathBody (b.length + 1 + x) k tol (b ++ c :: rest) = .ok (b.map leafOf, c :: rest) := by
  intro b
  induction b with
  | nil =>
    intro x c rest _ hc
    simp only [List.length_nil, List.nil_append, List.map_nil]
    rw [show 0 + 1 + x = x + 1 by omega]
    unfold readMathBody
    simp only [hc, if_true]
  | cons t b ih =>
    intro x c rest hb hc
    have ht := hb t List.mem_cons_self
    simp only [List.length_cons, List.cons_append, List.map_cons]
    rw [show b.length + 1 + 1 + x = (b.length + 1 + x) + 1 by omega]
    unfold readMathBody
    simp only [ht.2, Bool.false_eq_true, if_false]
    rw [show b.length + 1 + x = (b.length + x) + 1 by omega, readExpr_leaf _ _ _ _ _ _ ht.1]
    simp only [Res.bind_ok]
    rw [show b.length + x + 1 = b.length + 1 + x by omega,
      ih x c rest (fun t' h' => hb t' (List.mem_cons_of_mem _ h')) hc]
    simp only [Res.bind_ok]

/-- C12 (reader level): an opening math token, leaf tokens – unbalanced brackets included –
and the matching closing token give exactly one math node of that kind with exactly those
leaves; nothing inside has to balance. -/
theorem math_region_of_leaves (skip : List Str) (tol : Bool) (mode : Mode) (k : MKind) (o c : Tok)
    (b rest : List Tok) (x : Nat) (ho : mkindOfBegin o.cat = some k)
    (hb : ∀ t ∈ b, isLeafTok t = true ∧ (t.cat == k.tokEnd) = false) (hc : (c.cat == k.tokEnd) = true) :
    readExpr (b.length + 3 + x) skip tol mode (o :: (b ++ c :: rest)) =
      .ok (.math k (b.map leafOf) o.pos, rest) := by
  rw [show b.length + 3 + x = (b.length + 2 + x) + 1 by omega]
  unfold readExpr
  simp only [ho]
  rw [show b.length + 2 + x = (b.length + 1 + x) + 1 by omega]
  unfold readMathEnv
  rw [readMathBody_leaves k tol b x c rest hb hc]
  simp only [Res.bind_ok, hc, if_true]

/-- The same for groups: a body of leaf tokens, none of the group's own closing kind. In
particular a `]` inside braces does not end the brace group and a `[` does not start one. (C09) -/
theorem readArgBody_leaves (k : GKind) (tol : Bool) (mode : Mode) : ∀ (b : List Tok) (x : Nat) (c : Tok)
    (rest : List Tok), (∀ t ∈ b, isLeafTok t = true ∧ (t.cat == k.tokEnd) = false) →
    (c.cat == k.tokEnd) = true →
    readArgBody (b.length + 1 + x) k tol mode (b ++ c :: rest) = .ok (b.map leafOf, rest) := by
  intro b
  induction b with
  | nil =>
    intro x c rest _ hc
    simp only [List.length_nil, List.nil_append, List.map_nil]
    rw [show 0 + 1 + x = x + 1 by omega]
    unfold readArgBody
    simp only [hc, if_true]
  | cons t b ih =>
    intro x c rest hb hc
    have ht := hb t List.mem_cons_self
    simp only [List.length_cons, List.cons_append, List.map_cons]
    rw [show b.length + 1 + 1 + x = (b.length + 1 + x) + 1 by omega]
    unfold readArgBody
    simp only [ht.2, Bool.false_eq_true, if_false]
    rw [show b.length + 1 + x = (b.length + x) + 1 by omega, readExpr_leaf _ _ _ _ _ _ ht.1]
    simp only [Res.bind_ok]
    rw [show b.length + x + 1 = b.length + 1 + x by omega,
      ih x c rest (fun t' h' => hb t' (List.mem_cons_of_mem _ h')) hc]
    simp only [Res.bind_ok]

theorem group_of_leaves (k : GKind) (pos : Int) (tol : Bool) (mode : Mode) (b : List Tok) (c : Tok)
    (rest : List Tok) (x : Nat) (hb : ∀ t ∈ b, isLeafTok t = true ∧ (t.cat == k.tokEnd) = false)
    (hc : (c.cat == k.tokEnd) = true) :
    readArg (b.length + 2 + x) k pos tol mode (b ++ c :: rest) = .ok (.group k (b.map leafOf) pos, rest) := by
  rw [show b.length + 2 + x = (b.length + 1 + x) + 1 by omega]
  unfold readArg
  rw [readArgBody_leaves k tol mode b x c rest hb hc]
  simp only [Res.bind_ok]

/-! ### verbatim-like environments (C11) -/

/-- `forward_until` stops exactly at the first token boundary at which the end marker starts. -/
theorem skipBody_spec (m : Str) : ∀ (body rest : List Tok),
    (∀ pre suf, body = pre ++ suf → suf ≠ [] → bufStartsWith m (suf ++ rest) = false) →
    (rest = [] ∨ bufStartsWith m rest = true) → skipBody m (body ++ rest) = (body, rest) := by
  intro body
  induction body with
  | nil =>
    intro rest _ hr
    simp only [List.nil_append]
    cases rest with
    | nil => rfl
    | cons t r =>
      rcases hr with hr | hr
      · cases hr
      · unfold skipBody; rw [if_pos hr]
  | cons t b ih =>
    intro rest hno hr
    have h1 := hno [] (t :: b) rfl (by simp)
    simp only [List.cons_append] at h1 ⊢
    unfold skipBody
    rw [if_neg (by simpa using h1)]
    rw [ih rest (fun pre suf hb hs => hno (t :: pre) suf (by rw [hb]; rfl) hs) hr]

/-- C11 (reader level): whatever tokens the body consists of – unbalanced delimiters, math
switches, `\begin`/`\end` of other environments – the environment is read as a single
uninterpreted text up to the first token boundary where `\end{name}` starts, the five tokens
spelling it are consumed, and no error is possible. The name enters only through the marker,
so a user-supplied name behaves like a built-in one. -/
theorem skip_env_opaque (name : Str) (args : List Expr) (pos : Int) (body e5 rest : List Tok)
    (hno : ∀ pre suf, body = pre ++ suf → suf ≠ [] →
      bufStartsWith (endMarker name) (suf ++ (e5 ++ rest)) = false)
    (h5 : e5.length = 5) (hend : bufStartsWith (endMarker name) (e5 ++ rest) = true) :
    readSkipEnv name args pos (body ++ (e5 ++ rest)) =
      .ok (.nenv name args [.text (flat body) (match body ++ (e5 ++ rest) with
        | t :: _ => (t.pos : Int)
        | [] => -1)] pos, rest) := by
  unfold readSkipEnv
  rw [skipBody_spec (endMarker name) body (e5 ++ rest) hno (.inr hend)]
  simp only [hend, if_true]
  congr 2
  rw [List.drop_append, show 5 - e5.length = 0 by omega, List.drop_zero, List.drop_eq_nil_of_le (by omega)]
  rfl

/-- … and if the marker never shows up the result is the unclosed-environment error, never
an internal one. -/
theorem skip_env_unclosed (name : Str) (args : List Expr) (pos : Int) (ts : List Tok)
    (hno : ∀ pre suf, ts = pre ++ suf → suf ≠ [] → bufStartsWith (endMarker name) suf = false) :
    readSkipEnv name args pos ts = .error .eof := by
  unfold readSkipEnv
  have := skipBody_spec (endMarker name) ts [] (by simpa using hno) (.inl rfl)
  simp only [List.append_nil] at this
  rw [this]
  have hnil : bufStartsWith (endMarker name) [] = false := by
    simp only [bufStartsWith, List.take_nil, flat, endMarker, strEnd, List.cons_append, isPrefix]
  simp only [hnil, Bool.false_eq_true, if_false]

end TexSoup
