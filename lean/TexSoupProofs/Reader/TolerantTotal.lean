import TexSoupProofs.Reader.Balance
import TexSoupProofs.Reader.FuelEnough
/-!
# Tolerant parsing cannot fail outside math, lists, verbatim and name-less `\begin`

In tolerant mode `readArgBody` and `readEnv` close what is open at the end of the buffer, so the
only diagnostic errors left are: `EOFError` from math regions and verbatim-like environments,
`AssertionError` from `\begin` without argument and `\item` in math mode, `TypeError` from the
(always strict) contents of `\item`. Under `TolHyp` none of them can be reached: every reader
function reached in tolerant mode either succeeds or returns `Err.fuel`/`Err.internal`, and
those two never come out of `parse` (`parse_no_fuel`, `parse_no_internal`).
-/
namespace TexSoup

/-- No math opener, no `\item`, every `\begin` is followed by `{name}` with a single-token name
that is not a verbatim-like environment of `skip0`. -/
structure TolHyp (skip0 : List Str) (ts : List Tok) : Prop where
  math : ∀ t ∈ ts, mkindOfBegin t.cat = none
  noItem : NoItem ts
  named : BeginNamed skip0 ts

theorem TolHyp.suf {skip0 : List Str} {ts rest : List Tok} (h : TolHyp skip0 ts)
    (hs : Suf ts rest) : TolHyp skip0 rest where
  math := by
    obtain ⟨c, rfl⟩ := hs
    exact fun t ht => h.math t (List.mem_append_right c ht)
  noItem := h.noItem.suf hs
  named := h.named.suf hs

theorem TolHyp.tail {skip0 : List Str} {t : Tok} {ts : List Tok} (h : TolHyp skip0 (t :: ts)) :
    TolHyp skip0 ts := h.suf Suf.tail

/-- Boolean check of `TolHyp`. -/
def tolHypB (skip0 : List Str) (ts : List Tok) : Bool :=
  ts.all (fun t => (mkindOfBegin t.cat).isNone) && escNextB (fun s => s != sItem) ts &&
    escAfterB (beginNamedB skip0) ts

theorem tolHypB_sound {skip0 : List Str} {ts : List Tok} (h : tolHypB skip0 ts = true) :
    TolHyp skip0 ts := by
  simp only [tolHypB, Bool.and_eq_true, List.all_eq_true, Option.isNone_iff_eq_none] at h
  exact ⟨h.1.1, (escNextB_sound _ _ h.1.2).mono (fun s hs => by simpa using hs),
    escAfterB_sound _ _ h.2⟩

/-- `EnvHyp`/`WellNamed` give the `\begin` part of `TolHyp`. -/
theorem TolHyp.of_wellNamed {skip0 : List Str} {ts : List Tok}
    (hm : ∀ t ∈ ts, mkindOfBegin t.cat = none) (hi : NoItem ts) (hw : WellNamed skip0 ts) :
    TolHyp skip0 ts := ⟨hm, hi, hw.beginNamed⟩

theorem err_is_internal {α : Type} {e : Err}
    (h : (Except.error Err.internal : Except Err α) = .error e) : e = .fuel ∨ e = .internal := by
  simp only [Except.error.injEq] at h
  exact .inr h.symm

theorem err_is_fuel {α : Type} {e : Err}
    (h : (Except.error Err.fuel : Except Err α) = .error e) : e = .fuel ∨ e = .internal := by
  simp only [Except.error.injEq] at h
  exact .inl h.symm

/-- Under `TolHyp`, a tolerant reader function can only fail with `Err.fuel` or `Err.internal`.
(`readItem`, `readMathEnv`, `readMathBody` are never reached.) -/
def TolOkAt (skip0 : List Str) (f : Nat) : Prop :=
  (∀ skip mode ts e, readExpr f skip true mode ts = .error e → TolHyp skip0 ts →
      (∀ x, memStr x skip = true → memStr x skip0 = true) → e = .fuel ∨ e = .internal) ∧
  (∀ name args pos skip mode ts e, readEnv f name args pos skip true mode ts = .error e →
      TolHyp skip0 ts → (∀ x, memStr x skip = true → memStr x skip0 = true) →
      e = .fuel ∨ e = .internal) ∧
  (∀ skip mode ts e, readEnvBody f skip true mode ts = .error e → TolHyp skip0 ts →
      (∀ x, memStr x skip = true → memStr x skip0 = true) → e = .fuel ∨ e = .internal) ∧
  (∀ nreq nopt mode ts e, readCommand f nreq nopt true mode ts = .error e → TolHyp skip0 ts →
      e = .fuel ∨ e = .internal) ∧
  (∀ nreq nopt mode ts e, readArgs f nreq nopt true mode ts = .error e → TolHyp skip0 ts →
      e = .fuel ∨ e = .internal) ∧
  (∀ n mode ts e, readArgOpt f n true mode ts = .error e → TolHyp skip0 ts →
      e = .fuel ∨ e = .internal) ∧
  (∀ n mode ts e, readArgReq f n true mode ts = .error e → TolHyp skip0 ts →
      e = .fuel ∨ e = .internal) ∧
  (∀ k pos mode ts e, readArg f k pos true mode ts = .error e → TolHyp skip0 ts →
      e = .fuel ∨ e = .internal) ∧
  (∀ k mode ts e, readArgBody f k true mode ts = .error e → TolHyp skip0 ts →
      e = .fuel ∨ e = .internal)

theorem tolOkAt_zero (skip0 : List Str) : TolOkAt skip0 0 := by
  refine ⟨?_, ?_, ?_, ?_, ?_, ?_, ?_, ?_, ?_⟩
  · intro _ _ _ _ h _ _; unfold readExpr at h; exact err_is_fuel h
  · intro _ _ _ _ _ _ _ h _ _; unfold readEnv at h; exact err_is_fuel h
  · intro _ _ _ _ h _ _; unfold readEnvBody at h; exact err_is_fuel h
  · intro _ _ _ _ _ h _; unfold readCommand at h; exact err_is_fuel h
  · intro _ _ _ _ _ h _; unfold readArgs at h; exact err_is_fuel h
  · intro _ _ _ _ h _; unfold readArgOpt at h; exact err_is_fuel h
  · intro _ _ _ _ h _; unfold readArgReq at h; exact err_is_fuel h
  · intro _ _ _ _ _ h _; unfold readArg at h; exact err_is_fuel h
  · intro _ _ _ _ h _; unfold readArgBody at h; exact err_is_fuel h

section
variable (skip0 : List Str) (f : Nat) (ih : TolOkAt skip0 f)
include ih

theorem to_readExpr : ∀ skip mode ts e, readExpr (f+1) skip true mode ts = .error e →
    TolHyp skip0 ts → (∀ x, memStr x skip = true → memStr x skip0 = true) →
    e = .fuel ∨ e = .internal := by
  intro skip mode ts e h hy hsk
  obtain ⟨tE, tEnv, tEB, tC, tAs, tAO, tAR, tA, tAB⟩ := ih
  unfold readExpr at h
  cases ts with
  | nil => exact err_is_internal h
  | cons c ts =>
    simp only at h
    cases hk : mkindOfBegin c.cat with
    | some k =>
      have := hy.math c (by simp)
      rw [hk] at this; cases this
    | none =>
      rw [hk] at h
      simp only at h
      by_cases hesc : (c.cat == TC.Escape) = true
      · rw [if_pos hesc] at h
        have hcE : c.cat = TC.Escape := by simpa using hesc
        rcases Res.bind_eq_error.mp h with h | ⟨⟨n, args⟩, ts1, hc, h⟩
        · exact tC _ _ _ _ _ h hy.tail
        · have hP : n.text ≠ sItem := hy.noItem.name hesc (by decide) hc
          have y1 := hy.tail.suf (readCommand_suf hc)
          simp only at h
          rw [if_neg (by intro hi; exact hP (by simpa using hi))] at h
          by_cases hb : (n.text == sBegin && mode != Mode.special) = true
          · rw [if_pos hb] at h
            have hn : n.text = sBegin := by
              simp only [Bool.and_eq_true, beq_iff_eq] at hb; exact hb.1
            obtain ⟨a0, as, rfl, hmem⟩ := begin_args hy.named hcE hc hn
            simp only at h
            rw [if_neg (by rw [memStr_false_of_sub hsk hmem]; decide)] at h
            exact tEnv _ _ _ _ _ _ _ h y1 hsk
          · rw [if_neg hb] at h; cases h
      · rw [if_neg hesc] at h
        by_cases hg : (c.cat == TC.GroupBegin) = true
        · rw [if_pos hg] at h
          exact tA _ _ _ _ _ h hy.tail
        · rw [if_neg hg] at h; cases h

theorem to_readEnv : ∀ name args pos skip mode ts e,
    readEnv (f+1) name args pos skip true mode ts = .error e → TolHyp skip0 ts →
    (∀ x, memStr x skip = true → memStr x skip0 = true) → e = .fuel ∨ e = .internal := by
  intro name args pos skip mode ts e h hy hsk
  obtain ⟨tE, tEnv, tEB, tC, tAs, tAO, tAR, tA, tAB⟩ := ih
  unfold readEnv at h
  rcases Res.bind_eq_error.mp h with h | ⟨be, ts1, hb, h⟩
  · exact tEB _ _ _ _ h hy hsk
  · have y1 : TolHyp skip0 ts1 := hy.suf (readEnvBody_suf hb)
    by_cases herr : envError name be.2 = true
    · rw [if_pos herr, if_pos rfl] at h; cases h
    · rw [if_neg herr] at h
      cases ts1 with
      | nil => exact err_is_internal h
      | cons t1 r1 =>
        simp only at h
        rcases Res.bind_eq_error.mp h with h | ⟨x, ts2, ha, h⟩
        · exact tC _ _ _ _ _ h y1.tail
        · cases h

theorem to_readEnvBody : ∀ skip mode ts e, readEnvBody (f+1) skip true mode ts = .error e →
    TolHyp skip0 ts → (∀ x, memStr x skip = true → memStr x skip0 = true) →
    e = .fuel ∨ e = .internal := by
  intro skip mode ts e h hy hsk
  obtain ⟨tE, tEnv, tEB, tC, tAs, tAO, tAR, tA, tAB⟩ := ih
  unfold readEnvBody at h
  have step : ∀ t r, TolHyp skip0 (t :: r) →
      ((readExpr f skip true mode (t :: r)).bind fun e ts1 =>
        (readEnvBody f skip true mode ts1).bind fun be ts2 => .ok ((e :: be.1, be.2), ts2))
        = .error e → e = .fuel ∨ e = .internal := by
    intro t r hy h
    rcases Res.bind_eq_error.mp h with h | ⟨x, ts1, he, h⟩
    · exact tE _ _ _ _ h hy hsk
    · rcases Res.bind_eq_error.mp h with h | ⟨be, ts2, hb, h⟩
      · exact tEB _ _ _ _ h (hy.suf (readExpr_ssuf he).suf) hsk
      · cases h
  cases ts with
  | nil => cases h
  | cons t r =>
    simp only at h
    by_cases hesc : (t.cat == TC.Escape) = true
    · rw [if_pos hesc] at h
      rcases Res.bind_eq_error.mp h with h | ⟨na, ts', hc, h⟩
      · exact tC _ _ _ _ _ h hy.tail
      · by_cases hend : (na.1.text == sEnd) = true
        · rw [if_pos hend] at h; cases h
        · rw [if_neg hend] at h
          exact step t r hy h
    · rw [if_neg hesc] at h
      exact step t r hy h

theorem to_readCommand : ∀ nreq nopt mode ts e, readCommand (f+1) nreq nopt true mode ts = .error e →
    TolHyp skip0 ts → e = .fuel ∨ e = .internal := by
  intro nreq nopt mode ts e h hy
  obtain ⟨tE, tEnv, tEB, tC, tAs, tAO, tAR, tA, tAB⟩ := ih
  unfold readCommand at h
  cases ts with
  | nil =>
    simp only at h
    rcases Res.bind_eq_error.mp h with h | ⟨args, ts2, ha, h⟩
    · exact tAs _ _ _ _ _ h hy
    · cases h
  | cons n r =>
    simp only at h
    rcases Res.bind_eq_error.mp h with h | ⟨args, ts2, ha, h⟩
    · exact tAs _ _ _ _ _ h hy.tail
    · cases h

theorem to_readArgs : ∀ nreq nopt mode ts e, readArgs (f+1) nreq nopt true mode ts = .error e →
    TolHyp skip0 ts → e = .fuel ∨ e = .internal := by
  intro nreq nopt mode ts e h hy
  obtain ⟨tE, tEnv, tEB, tC, tAs, tAO, tAR, tA, tAB⟩ := ih
  unfold readArgs at h
  by_cases h0 : (nreq == 0 && nopt == 0) = true
  · rw [if_pos h0] at h; cases h
  · rw [if_neg h0] at h
    rcases Res.bind_eq_error.mp h with h | ⟨an1, ts1, h1, h⟩
    · exact tAO _ _ _ _ h hy
    have y1 := hy.suf (readArgOpt_suf h1)
    rcases Res.bind_eq_error.mp h with h | ⟨an2, ts2, h2, h⟩
    · exact tAR _ _ _ _ h y1
    have y2 := y1.suf (readArgReq_suf h2)
    rcases Res.bind_eq_error.mp h with h | ⟨an3, ts3, h3, h⟩
    · by_cases hb : nextIs TC.BracketBegin ts2 = true
      · rw [if_pos hb] at h; exact tAO _ _ _ _ h y2
      · rw [if_neg hb] at h; cases h
    have y3 : TolHyp skip0 ts3 := by
      by_cases hb : nextIs TC.BracketBegin ts2 = true
      · rw [if_pos hb] at h3; exact y2.suf (readArgOpt_suf h3)
      · rw [if_neg hb] at h3
        simp only [Except.ok.injEq, Prod.mk.injEq] at h3
        obtain ⟨_, rfl⟩ := h3
        exact y2
    rcases Res.bind_eq_error.mp h with h | ⟨an4, ts4, h4, h⟩
    · by_cases hb : nextIs TC.GroupBegin ts3 = true
      · rw [if_pos hb] at h; exact tAR _ _ _ _ h y3
      · rw [if_neg hb] at h; cases h
    cases h

theorem to_readArgOpt : ∀ n mode ts e, readArgOpt (f+1) n true mode ts = .error e →
    TolHyp skip0 ts → e = .fuel ∨ e = .internal := by
  intro n mode ts e h hy
  obtain ⟨tE, tEnv, tEB, tC, tAs, tAO, tAR, tA, tAB⟩ := ih
  unfold readArgOpt at h
  by_cases h0 : (n == 0) = true
  · rw [if_pos h0] at h; cases h
  · rw [if_neg h0] at h
    cases hs : (readSpacer ts).2 with
    | nil => rw [hs] at h; cases h
    | cons o r =>
      rw [hs] at h
      simp only at h
      have y0 := hy.suf (Suf.afterSpacer hs).suf
      by_cases hb : (o.cat == TC.BracketBegin) = true
      · rw [if_pos hb] at h
        rcases Res.bind_eq_error.mp h with h | ⟨g, ts1, hg, h⟩
        · exact tA _ _ _ _ _ h y0
        rcases Res.bind_eq_error.mp h with h | ⟨gn, ts2, hn, h⟩
        · exact tAO _ _ _ _ h (y0.suf (readArg_suf hg))
        cases h
      · rw [if_neg hb] at h; cases h

theorem to_readArgReq : ∀ n mode ts e, readArgReq (f+1) n true mode ts = .error e →
    TolHyp skip0 ts → e = .fuel ∨ e = .internal := by
  intro n mode ts e h hy
  obtain ⟨tE, tEnv, tEB, tC, tAs, tAO, tAR, tA, tAB⟩ := ih
  unfold readArgReq at h
  by_cases h0 : (n == 0) = true
  · rw [if_pos h0] at h; cases h
  · rw [if_neg h0] at h
    cases hs : (readSpacer ts).2 with
    | nil => rw [hs] at h; cases h
    | cons o r =>
      rw [hs] at h
      simp only at h
      have y0 := hy.suf (Suf.afterSpacer hs).suf
      by_cases hb : (o.cat == TC.GroupBegin) = true
      · rw [if_pos hb] at h
        rcases Res.bind_eq_error.mp h with h | ⟨g, ts1, hg, h⟩
        · exact tA _ _ _ _ _ h y0
        rcases Res.bind_eq_error.mp h with h | ⟨gn, ts2, hn, h⟩
        · exact tAR _ _ _ _ h (y0.suf (readArg_suf hg))
        cases h
      · rw [if_neg hb] at h
        by_cases hpos : n > 0
        · rw [if_pos hpos] at h
          by_cases hesc : (o.cat == TC.Escape) = true
          · rw [if_pos hesc] at h
            rcases Res.bind_eq_error.mp h with h | ⟨na, ts1, hc, h⟩
            · exact tC _ _ _ _ _ h y0
            rcases Res.bind_eq_error.mp h with h | ⟨gn, ts2, hn, h⟩
            · exact tAR _ _ _ _ h (y0.suf (readCommand_suf hc))
            cases h
          · rw [if_neg hesc] at h
            rcases Res.bind_eq_error.mp h with h | ⟨gn, ts2, hn, h⟩
            · exact tAR _ _ _ _ h y0
            cases h
        · rw [if_neg hpos] at h; cases h

theorem to_readArg : ∀ k pos mode ts e, readArg (f+1) k pos true mode ts = .error e →
    TolHyp skip0 ts → e = .fuel ∨ e = .internal := by
  intro k pos mode ts e h hy
  obtain ⟨tE, tEnv, tEB, tC, tAs, tAO, tAR, tA, tAB⟩ := ih
  unfold readArg at h
  rcases Res.bind_eq_error.mp h with h | ⟨body, ts1, hb, h⟩
  · exact tAB _ _ _ _ h hy
  · cases h

theorem to_readArgBody : ∀ k mode ts e, readArgBody (f+1) k true mode ts = .error e →
    TolHyp skip0 ts → e = .fuel ∨ e = .internal := by
  intro k mode ts e h hy
  obtain ⟨tE, tEnv, tEB, tC, tAs, tAO, tAR, tA, tAB⟩ := ih
  unfold readArgBody at h
  cases ts with
  | nil =>
    simp only at h
    rw [if_pos trivial] at h; cases h
  | cons t r =>
    simp only at h
    by_cases hend : (t.cat == k.tokEnd) = true
    · rw [if_pos hend] at h; cases h
    · rw [if_neg hend] at h
      rcases Res.bind_eq_error.mp h with h | ⟨x, ts1, he, h⟩
      · exact tE _ _ _ _ h hy noSkip
      rcases Res.bind_eq_error.mp h with h | ⟨es, ts2, hb, h⟩
      · exact tAB _ _ _ _ h (hy.suf (readExpr_ssuf he).suf)
      cases h

end

theorem tolOkAt (skip0 : List Str) (f : Nat) : TolOkAt skip0 f := by
  induction f with
  | zero => exact tolOkAt_zero skip0
  | succ f ih =>
    exact ⟨to_readExpr skip0 f ih, to_readEnv skip0 f ih, to_readEnvBody skip0 f ih,
      to_readCommand skip0 f ih, to_readArgs skip0 f ih, to_readArgOpt skip0 f ih,
      to_readArgReq skip0 f ih, to_readArg skip0 f ih, to_readArgBody skip0 f ih⟩

/-- Tolerant `read_tex` under `TolHyp` fails at most with `Err.fuel`/`Err.internal`. -/
theorem readTex_tolerant_ok (skip0 : List Str) : ∀ f ts e, readTex f skip0 true ts = .error e →
    TolHyp skip0 ts → e = .fuel ∨ e = .internal := by
  intro f
  induction f with
  | zero => intro ts e h _; unfold readTex at h; exact err_is_fuel h
  | succ f ih =>
    intro ts e h hy
    unfold readTex at h
    cases ts with
    | nil => cases h
    | cons t r =>
      simp only at h
      cases hx : readExpr f skip0 true .nonMath (t :: r) with
      | error e' =>
        rw [hx] at h
        simp only [Except.error.injEq] at h
        subst h
        exact (tolOkAt skip0 f).1 _ _ _ _ hx hy (fun _ h => h)
      | ok v =>
        obtain ⟨x, ts1⟩ := v
        rw [hx] at h
        simp only at h
        cases hr : readTex f skip0 true ts1 with
        | error e' =>
          rw [hr] at h
          simp only [Except.error.injEq] at h
          subst h
          exact ih _ _ hr (hy.suf (readExpr_ssuf hx).suf)
        | ok es' => rw [hr] at h; cases h

/-- Tolerant parsing succeeds on every token list satisfying `TolHyp`. -/
theorem parse_tolerant_succeeds (skip : List Str) (s : Str) (ts : List Tok)
    (ht : tokenize s = some ts) (hy : TolHyp (Tables.skipEnvNames ++ skip) ts) :
    ∃ es, parse true skip s = .ok es := by
  cases h : parse true skip s with
  | ok es => exact ⟨es, rfl⟩
  | error e =>
    have h' := h
    unfold parse at h'
    rw [ht] at h'
    rcases readTex_tolerant_ok _ _ _ _ h' hy with rfl | rfl
    · exact absurd h (parse_no_fuel true skip s)
    · exact absurd h (parse_no_internal true skip s)

end TexSoup
