import TexSoupProofs.Reader.Cons
import TexSoupModel.NavPath
/-!
# Parsed trees have flat argument lists

Every element of every argument list, anywhere in a tree the reader returns, is what `TexArgs`
holds after parsing: a group (`BraceGroup`/`BracketGroup`) or a bare command `TexCmd(name)`
without arguments and without contents (`read_arg_required` on `\cmd` as mandatory argument).
This is `argShaped` below; it implies `Expr.flatArgs` (`TexSoupModel/NavPath.lean`), the side
condition of the navigation theorems C03/C04, which is thereby discharged for every parsed
document (`parse_flatArgs`).

The proof is the 12-function induction on the fuel, in the style of `Progress.lean`.
-/
namespace TexSoup

/-- What an argument list holds after parsing: a group, or a bare command. -/
def isArgNode : Expr → Bool
  | .group _ _ _ => true
  | .cmd _ [] [] _ => true
  | _ => false

mutual
/-- Every element of every argument list in the tree is a group or a bare command. -/
def argShaped : Expr → Bool
  | .text _ _ => true
  | .cmd _ a b _ => argShapedA a && argShapedL b
  | .nenv _ a b _ => argShapedA a && argShapedL b
  | .math _ b _ => argShapedL b
  | .group _ b _ => argShapedL b
/-- content lists -/
def argShapedL : List Expr → Bool
  | [] => true
  | e :: es => argShaped e && argShapedL es
/-- argument lists: each element is an argument node, and is itself `argShaped` -/
def argShapedA : List Expr → Bool
  | [] => true
  | a :: as => (isArgNode a && argShaped a) && argShapedA as
end

theorem argShapedA_append (a b : List Expr) :
    argShapedA (a ++ b) = (argShapedA a && argShapedA b) := by
  induction a with
  | nil => simp [argShapedA]
  | cons e es ih => simp [argShapedA, ih, Bool.and_assoc]

theorem argShapedL_append (a b : List Expr) :
    argShapedL (a ++ b) = (argShapedL a && argShapedL b) := by
  induction a with
  | nil => simp [argShapedL]
  | cons e es ih => simp [argShapedL, ih, Bool.and_assoc]

theorem argShapedA_cons {a : Expr} {as : List Expr} :
    argShapedA (a :: as) = true ↔ isArgNode a = true ∧ argShaped a = true ∧ argShapedA as = true := by
  simp only [argShapedA, Bool.and_eq_true, and_assoc]

theorem argShapedL_cons {e : Expr} {es : List Expr} :
    argShapedL (e :: es) = true ↔ argShaped e = true ∧ argShapedL es = true := by
  simp only [argShapedL, Bool.and_eq_true]

theorem argShapedL_mem {l : List Expr} (h : argShapedL l = true) {x : Expr} (hx : x ∈ l) :
    argShaped x = true := by
  induction l with
  | nil => cases hx
  | cons e es ih =>
    obtain ⟨h1, h2⟩ := argShapedL_cons.1 h
    rcases List.mem_cons.1 hx with rfl | hx
    · exact h1
    · exact ih h2 hx

theorem argShapedA_mem {l : List Expr} (h : argShapedA l = true) {a : Expr} (ha : a ∈ l) :
    isArgNode a = true ∧ argShaped a = true := by
  induction l with
  | nil => cases ha
  | cons e es ih =>
    obtain ⟨h1, h2, h3⟩ := argShapedA_cons.1 h
    rcases List.mem_cons.1 ha with rfl | ha
    · exact ⟨h1, h2⟩
    · exact ih h3 ha

/-- An argument node is exactly a group or a bare command. -/
theorem isArgNode_iff {a : Expr} :
    isArgNode a = true ↔ (∃ k b p, a = .group k b p) ∨ (∃ n p, a = .cmd n [] [] p) := by
  constructor
  · intro h
    cases a with
    | text s p => simp [isArgNode] at h
    | cmd n as b p =>
      cases as with
      | nil =>
        cases b with
        | nil => exact .inr ⟨n, p, rfl⟩
        | cons x xs => simp [isArgNode] at h
      | cons x xs => simp [isArgNode] at h
    | nenv n as b p => simp [isArgNode] at h
    | math k b p => simp [isArgNode] at h
    | group k b p => exact .inl ⟨k, b, p, rfl⟩
  · rintro (⟨k, b, p, rfl⟩ | ⟨n, p, rfl⟩) <;> rfl

/-- An argument node has no arguments of its own. -/
theorem isArgNode_args {a : Expr} (h : isArgNode a = true) : a.args = [] := by
  rcases isArgNode_iff.1 h with ⟨k, b, p, rfl⟩ | ⟨n, p, rfl⟩ <;> rfl

mutual
/-- `argShaped` implies the side condition `Expr.flatArgs` of the navigation theorems. -/
theorem argShaped_flatArgs : ∀ e, argShaped e = true → e.flatArgs = true
  | .text _ _, _ => rfl
  | .cmd _ a b _, h => by
    simp only [argShaped, Bool.and_eq_true] at h
    simp only [Expr.flatArgs, Bool.and_eq_true]
    exact ⟨argShapedA_flatArgsA a h.1, argShapedL_flatArgsL b h.2⟩
  | .nenv _ a b _, h => by
    simp only [argShaped, Bool.and_eq_true] at h
    simp only [Expr.flatArgs, Bool.and_eq_true]
    exact ⟨argShapedA_flatArgsA a h.1, argShapedL_flatArgsL b h.2⟩
  | .math _ b _, h => by
    simp only [argShaped] at h
    simp only [Expr.flatArgs]
    exact argShapedL_flatArgsL b h
  | .group _ b _, h => by
    simp only [argShaped] at h
    simp only [Expr.flatArgs]
    exact argShapedL_flatArgsL b h
theorem argShapedL_flatArgsL : ∀ es, argShapedL es = true → flatArgsL es = true
  | [], _ => rfl
  | e :: es, h => by
    simp only [argShapedL, Bool.and_eq_true] at h
    simp only [flatArgsL, Bool.and_eq_true]
    exact ⟨argShaped_flatArgs e h.1, argShapedL_flatArgsL es h.2⟩
theorem argShapedA_flatArgsA : ∀ as, argShapedA as = true → flatArgsA as = true
  | [], _ => rfl
  | a :: as, h => by
    simp only [argShapedA, Bool.and_eq_true] at h
    simp only [flatArgsA, Bool.and_eq_true, List.isEmpty_iff]
    exact ⟨⟨isArgNode_args h.1.1, argShaped_flatArgs a h.1.2⟩, argShapedA_flatArgsA as h.2⟩
end

/-! ## The invariant -/

/-- The shape invariant for every reader function at fuel `f`. -/
def ShapeAt (f : Nat) : Prop :=
  (∀ skip tol mode ts e rest, readExpr f skip tol mode ts = .ok (e, rest) → argShaped e = true) ∧
  (∀ ts es rest, readItem f ts = .ok (es, rest) → argShapedL es = true) ∧
  (∀ k pos tol ts e rest, readMathEnv f k pos tol ts = .ok (e, rest) → argShaped e = true) ∧
  (∀ k tol ts es rest, readMathBody f k tol ts = .ok (es, rest) → argShapedL es = true) ∧
  (∀ name args pos skip tol mode ts e rest,
      readEnv f name args pos skip tol mode ts = .ok (e, rest) → argShapedA args = true →
      argShaped e = true) ∧
  (∀ skip tol mode ts be rest, readEnvBody f skip tol mode ts = .ok (be, rest) →
      argShapedL be.1 = true ∧ ∀ ea, be.2 = some ea → argShapedA ea = true) ∧
  (∀ nreq nopt tol mode ts na rest, readCommand f nreq nopt tol mode ts = .ok (na, rest) →
      argShapedA na.2 = true) ∧
  (∀ nreq nopt tol mode ts args rest, readArgs f nreq nopt tol mode ts = .ok (args, rest) →
      argShapedA args = true) ∧
  (∀ n tol mode ts gn rest, readArgOpt f n tol mode ts = .ok (gn, rest) →
      argShapedA gn.1 = true) ∧
  (∀ n tol mode ts gn rest, readArgReq f n tol mode ts = .ok (gn, rest) →
      argShapedA gn.1 = true) ∧
  (∀ k pos tol mode ts e rest, readArg f k pos tol mode ts = .ok (e, rest) →
      isArgNode e = true ∧ argShaped e = true) ∧
  (∀ k tol mode ts es rest, readArgBody f k tol mode ts = .ok (es, rest) → argShapedL es = true)

theorem shapeAt_zero : ShapeAt 0 := by
  refine ⟨?_, ?_, ?_, ?_, ?_, ?_, ?_, ?_, ?_, ?_, ?_, ?_⟩ <;> intros <;>
    simp_all [readExpr, readItem, readMathEnv, readMathBody, readEnv, readEnvBody, readCommand,
      readArgs, readArgOpt, readArgReq, readArg, readArgBody]

/-- `read_skip_env` keeps the given arguments and adds one text child. -/
theorem readSkipEnv_argShaped {name : Str} {args : List Expr} {pos : Int} {ts : List Tok}
    {e : Expr} {rest : List Tok} (h : readSkipEnv name args pos ts = .ok (e, rest))
    (ha : argShapedA args = true) : argShaped e = true := by
  obtain ⟨body, bpos, rfl⟩ := readSkipEnv_shape h
  simp only [argShaped, argShapedL, Bool.and_eq_true, and_true]
  exact ha

section
variable (f : Nat) (ih : ShapeAt f)
include ih

theorem sh_readExpr : ∀ skip tol mode ts e rest, readExpr (f+1) skip tol mode ts = .ok (e, rest) →
    argShaped e = true := by
  intro skip tol mode ts e rest h
  obtain ⟨sE, sI, sME, sMB, sEnv, sEB, sC, sAs, sAO, sAR, sA, sAB⟩ := ih
  unfold readExpr at h
  cases ts with
  | nil => cases h
  | cons c ts =>
    simp only at h
    cases hk : mkindOfBegin c.cat with
    | some k =>
      rw [hk] at h
      simp only at h
      exact sME _ _ _ _ _ _ h
    | none =>
      rw [hk] at h
      simp only at h
      by_cases hesc : (c.cat == TC.Escape) = true
      · rw [if_pos hesc] at h
        obtain ⟨na, ts1, hc, h⟩ := Res.bind_eq_ok.mp h
        have hargs : argShapedA na.2 = true := sC _ _ _ _ _ _ _ hc
        by_cases hitem : (na.1.text == sItem) = true
        · rw [if_pos hitem] at h
          by_cases hm : (mode == Mode.math) = true
          · rw [if_pos hm] at h; cases h
          · rw [if_neg hm] at h
            obtain ⟨body, ts2, hi, h⟩ := Res.bind_eq_ok.mp h
            simp only [Except.ok.injEq, Prod.mk.injEq] at h
            obtain ⟨rfl, _⟩ := h
            simp only [argShaped, Bool.and_eq_true]
            exact ⟨hargs, sI _ _ _ hi⟩
        · rw [if_neg hitem] at h
          by_cases hb : (na.1.text == sBegin && mode != Mode.special) = true
          · rw [if_pos hb] at h
            cases hna : na.2 with
            | nil => rw [hna] at h; cases h
            | cons a0 as =>
              rw [hna] at h hargs
              simp only at h
              have has : argShapedA as = true := (argShapedA_cons.1 hargs).2.2
              by_cases hs : memStr (strip a0.string) skip = true
              · rw [if_pos hs] at h
                exact readSkipEnv_argShaped h has
              · rw [if_neg hs] at h
                exact sEnv _ _ _ _ _ _ _ _ _ h has
          · rw [if_neg hb] at h
            simp only [Except.ok.injEq, Prod.mk.injEq] at h
            obtain ⟨rfl, _⟩ := h
            simp only [argShaped, argShapedL, Bool.and_true]
            exact hargs
      · rw [if_neg hesc] at h
        by_cases hg : (c.cat == TC.GroupBegin) = true
        · rw [if_pos hg] at h
          exact (sA _ _ _ _ _ _ _ h).2
        · rw [if_neg hg] at h
          simp only [Except.ok.injEq, Prod.mk.injEq] at h
          obtain ⟨rfl, _⟩ := h
          rfl

theorem sh_readItem : ∀ ts es rest, readItem (f+1) ts = .ok (es, rest) → argShapedL es = true := by
  intro ts es rest h
  obtain ⟨sE, sI, sME, sMB, sEnv, sEB, sC, sAs, sAO, sAR, sA, sAB⟩ := ih
  unfold readItem at h
  have step : ∀ t r, ((readExpr f [] false .nonMath (t :: r)).bind fun e ts1 =>
        (readItem f ts1).bind fun es ts2 => .ok (e :: es, ts2)) = .ok (es, rest) →
      argShapedL es = true := by
    intro t r h
    obtain ⟨e, ts1, he, h⟩ := Res.bind_eq_ok.mp h
    obtain ⟨es', ts2, hb, h⟩ := Res.bind_eq_ok.mp h
    simp only [Except.ok.injEq, Prod.mk.injEq] at h
    obtain ⟨rfl, _⟩ := h
    exact argShapedL_cons.2 ⟨sE _ _ _ _ _ _ he, sI _ _ _ hb⟩
  cases ts with
  | nil =>
    simp only [Except.ok.injEq, Prod.mk.injEq] at h
    obtain ⟨rfl, _⟩ := h
    rfl
  | cons t r =>
    simp only at h
    by_cases hesc : (t.cat == TC.Escape) = true
    · rw [if_pos hesc] at h
      obtain ⟨na, ts', hc, h⟩ := Res.bind_eq_ok.mp h
      by_cases hend : (na.1.text == sEnd || na.1.text == sItem) = true
      · rw [if_pos hend] at h
        simp only [Except.ok.injEq, Prod.mk.injEq] at h
        obtain ⟨rfl, _⟩ := h
        rfl
      · rw [if_neg hend] at h
        exact step t r h
    · rw [if_neg hesc] at h
      by_cases hge : (t.cat == TC.GroupEnd) = true
      · rw [if_pos hge] at h
        simp only [Except.ok.injEq, Prod.mk.injEq] at h
        obtain ⟨rfl, _⟩ := h
        rfl
      · rw [if_neg hge] at h
        exact step t r h

theorem sh_readMathEnv : ∀ k pos tol ts e rest, readMathEnv (f+1) k pos tol ts = .ok (e, rest) →
    argShaped e = true := by
  intro k pos tol ts e rest h
  obtain ⟨sE, sI, sME, sMB, sEnv, sEB, sC, sAs, sAO, sAR, sA, sAB⟩ := ih
  unfold readMathEnv at h
  obtain ⟨body, ts1, hb, h⟩ := Res.bind_eq_ok.mp h
  cases ts1 with
  | nil => cases h
  | cons t r =>
    simp only at h
    by_cases hend : (t.cat == k.tokEnd) = true
    · rw [if_pos hend] at h
      simp only [Except.ok.injEq, Prod.mk.injEq] at h
      obtain ⟨rfl, _⟩ := h
      simp only [argShaped]
      exact sMB _ _ _ _ _ hb
    · rw [if_neg hend] at h; cases h

theorem sh_readMathBody : ∀ k tol ts es rest, readMathBody (f+1) k tol ts = .ok (es, rest) →
    argShapedL es = true := by
  intro k tol ts es rest h
  obtain ⟨sE, sI, sME, sMB, sEnv, sEB, sC, sAs, sAO, sAR, sA, sAB⟩ := ih
  unfold readMathBody at h
  cases ts with
  | nil =>
    simp only [Except.ok.injEq, Prod.mk.injEq] at h
    obtain ⟨rfl, _⟩ := h
    rfl
  | cons t r =>
    simp only at h
    by_cases hend : (t.cat == k.tokEnd) = true
    · rw [if_pos hend] at h
      simp only [Except.ok.injEq, Prod.mk.injEq] at h
      obtain ⟨rfl, _⟩ := h
      rfl
    · rw [if_neg hend] at h
      obtain ⟨e, ts1, he, h⟩ := Res.bind_eq_ok.mp h
      obtain ⟨es', ts2, hb, h⟩ := Res.bind_eq_ok.mp h
      simp only [Except.ok.injEq, Prod.mk.injEq] at h
      obtain ⟨rfl, _⟩ := h
      exact argShapedL_cons.2 ⟨sE _ _ _ _ _ _ he, sMB _ _ _ _ _ hb⟩

theorem sh_readEnv : ∀ name args pos skip tol mode ts e rest,
    readEnv (f+1) name args pos skip tol mode ts = .ok (e, rest) → argShapedA args = true →
    argShaped e = true := by
  intro name args pos skip tol mode ts e rest h ha
  obtain ⟨sE, sI, sME, sMB, sEnv, sEB, sC, sAs, sAO, sAR, sA, sAB⟩ := ih
  unfold readEnv at h
  obtain ⟨be, ts1, hb, h⟩ := Res.bind_eq_ok.mp h
  have hbody : argShapedL be.1 = true := (sEB _ _ _ _ _ _ hb).1
  by_cases herr : envError name be.2 = true
  · rw [if_pos herr] at h
    by_cases ht : tol = true
    · rw [if_pos ht] at h
      simp only [Except.ok.injEq, Prod.mk.injEq] at h
      obtain ⟨rfl, _⟩ := h
      simp only [argShaped, Bool.and_eq_true]
      exact ⟨ha, hbody⟩
    · rw [if_neg ht] at h; cases h
  · rw [if_neg herr] at h
    cases ts1 with
    | nil => cases h
    | cons t1 r1 =>
      simp only at h
      obtain ⟨na, ts2, hc, h⟩ := Res.bind_eq_ok.mp h
      simp only [Except.ok.injEq, Prod.mk.injEq] at h
      obtain ⟨rfl, _⟩ := h
      simp only [argShaped, Bool.and_eq_true]
      exact ⟨ha, hbody⟩

theorem sh_readEnvBody : ∀ skip tol mode ts be rest,
    readEnvBody (f+1) skip tol mode ts = .ok (be, rest) →
    argShapedL be.1 = true ∧ ∀ ea, be.2 = some ea → argShapedA ea = true := by
  intro skip tol mode ts be rest h
  obtain ⟨sE, sI, sME, sMB, sEnv, sEB, sC, sAs, sAO, sAR, sA, sAB⟩ := ih
  unfold readEnvBody at h
  have step : ∀ t r, ((readExpr f skip tol mode (t :: r)).bind fun e ts1 =>
        (readEnvBody f skip tol mode ts1).bind fun be ts2 => .ok ((e :: be.1, be.2), ts2))
        = .ok (be, rest) →
      argShapedL be.1 = true ∧ ∀ ea, be.2 = some ea → argShapedA ea = true := by
    intro t r h
    obtain ⟨e, ts1, he, h⟩ := Res.bind_eq_ok.mp h
    obtain ⟨be', ts2, hb, h⟩ := Res.bind_eq_ok.mp h
    simp only [Except.ok.injEq, Prod.mk.injEq] at h
    obtain ⟨rfl, _⟩ := h
    obtain ⟨h1, h2⟩ := sEB _ _ _ _ _ _ hb
    exact ⟨argShapedL_cons.2 ⟨sE _ _ _ _ _ _ he, h1⟩, h2⟩
  cases ts with
  | nil =>
    simp only [Except.ok.injEq, Prod.mk.injEq] at h
    obtain ⟨rfl, _⟩ := h
    exact ⟨rfl, fun ea hea => by cases hea⟩
  | cons t r =>
    simp only at h
    by_cases hesc : (t.cat == TC.Escape) = true
    · rw [if_pos hesc] at h
      obtain ⟨na, ts', hc, h⟩ := Res.bind_eq_ok.mp h
      by_cases hend : (na.1.text == sEnd) = true
      · rw [if_pos hend] at h
        simp only [Except.ok.injEq, Prod.mk.injEq] at h
        obtain ⟨rfl, _⟩ := h
        refine ⟨rfl, fun ea hea => ?_⟩
        simp only [Option.some.injEq] at hea
        subst hea
        exact sC _ _ _ _ _ _ _ hc
      · rw [if_neg hend] at h
        exact step t r h
    · rw [if_neg hesc] at h
      exact step t r h

theorem sh_readCommand : ∀ nreq nopt tol mode ts na rest,
    readCommand (f+1) nreq nopt tol mode ts = .ok (na, rest) → argShapedA na.2 = true := by
  intro nreq nopt tol mode ts na rest h
  obtain ⟨sE, sI, sME, sMB, sEnv, sEB, sC, sAs, sAO, sAR, sA, sAB⟩ := ih
  unfold readCommand at h
  cases ts with
  | nil =>
    simp only at h
    obtain ⟨args', ts2, ha, h⟩ := Res.bind_eq_ok.mp h
    simp only [Except.ok.injEq, Prod.mk.injEq] at h
    obtain ⟨rfl, _⟩ := h
    exact sAs _ _ _ _ _ _ _ ha
  | cons n r =>
    simp only at h
    obtain ⟨args', ts2, ha, h⟩ := Res.bind_eq_ok.mp h
    simp only [Except.ok.injEq, Prod.mk.injEq] at h
    obtain ⟨rfl, _⟩ := h
    exact sAs _ _ _ _ _ _ _ ha

theorem sh_readArgs : ∀ nreq nopt tol mode ts args rest,
    readArgs (f+1) nreq nopt tol mode ts = .ok (args, rest) → argShapedA args = true := by
  intro nreq nopt tol mode ts args rest h
  obtain ⟨sE, sI, sME, sMB, sEnv, sEB, sC, sAs, sAO, sAR, sA, sAB⟩ := ih
  unfold readArgs at h
  by_cases h0 : (nreq == 0 && nopt == 0) = true
  · rw [if_pos h0] at h
    simp only [Except.ok.injEq, Prod.mk.injEq] at h
    obtain ⟨rfl, _⟩ := h
    rfl
  · rw [if_neg h0] at h
    obtain ⟨an1, ts1, h1, h⟩ := Res.bind_eq_ok.mp h
    obtain ⟨an2, ts2, h2, h⟩ := Res.bind_eq_ok.mp h
    obtain ⟨an3, ts3, h3, h⟩ := Res.bind_eq_ok.mp h
    obtain ⟨an4, ts4, h4, h⟩ := Res.bind_eq_ok.mp h
    simp only [Except.ok.injEq, Prod.mk.injEq] at h
    obtain ⟨rfl, _⟩ := h
    have s1 := sAO _ _ _ _ _ _ h1
    have s2 := sAR _ _ _ _ _ _ h2
    have s3 : argShapedA an3.1 = true := by
      by_cases hb : nextIs TC.BracketBegin ts2 = true
      · rw [if_pos hb] at h3; exact sAO _ _ _ _ _ _ h3
      · rw [if_neg hb] at h3
        simp only [Except.ok.injEq, Prod.mk.injEq] at h3
        obtain ⟨rfl, _⟩ := h3
        rfl
    have s4 : argShapedA an4.1 = true := by
      by_cases hb : nextIs TC.GroupBegin ts3 = true
      · rw [if_pos hb] at h4; exact sAR _ _ _ _ _ _ h4
      · rw [if_neg hb] at h4
        simp only [Except.ok.injEq, Prod.mk.injEq] at h4
        obtain ⟨rfl, _⟩ := h4
        rfl
    rw [argShapedA_append, argShapedA_append, argShapedA_append, s1, s2, s3, s4]
    rfl

theorem sh_readArgOpt : ∀ n tol mode ts gn rest, readArgOpt (f+1) n tol mode ts = .ok (gn, rest) →
    argShapedA gn.1 = true := by
  intro n tol mode ts gn rest h
  obtain ⟨sE, sI, sME, sMB, sEnv, sEB, sC, sAs, sAO, sAR, sA, sAB⟩ := ih
  unfold readArgOpt at h
  by_cases h0 : (n == 0) = true
  · rw [if_pos h0] at h
    simp only [Except.ok.injEq, Prod.mk.injEq] at h
    obtain ⟨rfl, _⟩ := h
    rfl
  · rw [if_neg h0] at h
    cases hs : (readSpacer ts).2 with
    | nil =>
      rw [hs] at h
      simp only [Except.ok.injEq, Prod.mk.injEq] at h
      obtain ⟨rfl, _⟩ := h
      rfl
    | cons o r =>
      rw [hs] at h
      simp only at h
      by_cases hb : (o.cat == TC.BracketBegin) = true
      · rw [if_pos hb] at h
        obtain ⟨g, ts1, hg, h⟩ := Res.bind_eq_ok.mp h
        obtain ⟨gn', ts2, hn, h⟩ := Res.bind_eq_ok.mp h
        simp only [Except.ok.injEq, Prod.mk.injEq] at h
        obtain ⟨rfl, _⟩ := h
        obtain ⟨g1, g2⟩ := sA _ _ _ _ _ _ _ hg
        exact argShapedA_cons.2 ⟨g1, g2, sAO _ _ _ _ _ _ hn⟩
      · rw [if_neg hb] at h
        simp only [Except.ok.injEq, Prod.mk.injEq] at h
        obtain ⟨rfl, _⟩ := h
        rfl

theorem sh_readArgReq : ∀ n tol mode ts gn rest, readArgReq (f+1) n tol mode ts = .ok (gn, rest) →
    argShapedA gn.1 = true := by
  intro n tol mode ts gn rest h
  obtain ⟨sE, sI, sME, sMB, sEnv, sEB, sC, sAs, sAO, sAR, sA, sAB⟩ := ih
  unfold readArgReq at h
  by_cases h0 : (n == 0) = true
  · rw [if_pos h0] at h
    simp only [Except.ok.injEq, Prod.mk.injEq] at h
    obtain ⟨rfl, _⟩ := h
    rfl
  · rw [if_neg h0] at h
    cases hs : (readSpacer ts).2 with
    | nil =>
      rw [hs] at h
      simp only [Except.ok.injEq, Prod.mk.injEq] at h
      obtain ⟨rfl, _⟩ := h
      rfl
    | cons o r =>
      rw [hs] at h
      simp only at h
      by_cases hb : (o.cat == TC.GroupBegin) = true
      · rw [if_pos hb] at h
        obtain ⟨g, ts1, hg, h⟩ := Res.bind_eq_ok.mp h
        obtain ⟨gn', ts2, hn, h⟩ := Res.bind_eq_ok.mp h
        simp only [Except.ok.injEq, Prod.mk.injEq] at h
        obtain ⟨rfl, _⟩ := h
        obtain ⟨g1, g2⟩ := sA _ _ _ _ _ _ _ hg
        exact argShapedA_cons.2 ⟨g1, g2, sAR _ _ _ _ _ _ hn⟩
      · rw [if_neg hb] at h
        by_cases hpos : n > 0
        · rw [if_pos hpos] at h
          by_cases hesc : (o.cat == TC.Escape) = true
          · rw [if_pos hesc] at h
            obtain ⟨na, ts1, hc, h⟩ := Res.bind_eq_ok.mp h
            obtain ⟨gn', ts2, hn, h⟩ := Res.bind_eq_ok.mp h
            simp only [Except.ok.injEq, Prod.mk.injEq] at h
            obtain ⟨rfl, _⟩ := h
            exact argShapedA_cons.2 ⟨rfl, rfl, sAR _ _ _ _ _ _ hn⟩
          · rw [if_neg hesc] at h
            obtain ⟨gn', ts2, hn, h⟩ := Res.bind_eq_ok.mp h
            simp only [Except.ok.injEq, Prod.mk.injEq] at h
            obtain ⟨rfl, _⟩ := h
            exact argShapedA_cons.2 ⟨rfl, rfl, sAR _ _ _ _ _ _ hn⟩
        · rw [if_neg hpos] at h
          simp only [Except.ok.injEq, Prod.mk.injEq] at h
          obtain ⟨rfl, _⟩ := h
          rfl

theorem sh_readArg : ∀ k pos tol mode ts e rest, readArg (f+1) k pos tol mode ts = .ok (e, rest) →
    isArgNode e = true ∧ argShaped e = true := by
  intro k pos tol mode ts e rest h
  obtain ⟨sE, sI, sME, sMB, sEnv, sEB, sC, sAs, sAO, sAR, sA, sAB⟩ := ih
  unfold readArg at h
  obtain ⟨body, ts1, hb, h⟩ := Res.bind_eq_ok.mp h
  simp only [Except.ok.injEq, Prod.mk.injEq] at h
  obtain ⟨rfl, _⟩ := h
  refine ⟨rfl, ?_⟩
  simp only [argShaped]
  exact sAB _ _ _ _ _ _ hb

theorem sh_readArgBody : ∀ k tol mode ts es rest, readArgBody (f+1) k tol mode ts = .ok (es, rest) →
    argShapedL es = true := by
  intro k tol mode ts es rest h
  obtain ⟨sE, sI, sME, sMB, sEnv, sEB, sC, sAs, sAO, sAR, sA, sAB⟩ := ih
  unfold readArgBody at h
  cases ts with
  | nil =>
    simp only at h
    by_cases ht : tol = true
    · rw [if_pos ht] at h
      simp only [Except.ok.injEq, Prod.mk.injEq] at h
      obtain ⟨rfl, _⟩ := h
      rfl
    · rw [if_neg ht] at h; cases h
  | cons t r =>
    simp only at h
    by_cases hend : (t.cat == k.tokEnd) = true
    · rw [if_pos hend] at h
      simp only [Except.ok.injEq, Prod.mk.injEq] at h
      obtain ⟨rfl, _⟩ := h
      rfl
    · rw [if_neg hend] at h
      obtain ⟨e, ts1, he, h⟩ := Res.bind_eq_ok.mp h
      obtain ⟨es', ts2, hb, h⟩ := Res.bind_eq_ok.mp h
      simp only [Except.ok.injEq, Prod.mk.injEq] at h
      obtain ⟨rfl, _⟩ := h
      exact argShapedL_cons.2 ⟨sE _ _ _ _ _ _ he, sAB _ _ _ _ _ _ hb⟩

end

/-- The shape invariant holds at every fuel. -/
theorem shapeAt (f : Nat) : ShapeAt f := by
  induction f with
  | zero => exact shapeAt_zero
  | succ f ih =>
    exact ⟨sh_readExpr f ih, sh_readItem f ih, sh_readMathEnv f ih, sh_readMathBody f ih,
      sh_readEnv f ih, sh_readEnvBody f ih, sh_readCommand f ih, sh_readArgs f ih,
      sh_readArgOpt f ih, sh_readArgReq f ih, sh_readArg f ih, sh_readArgBody f ih⟩

/-! ## The individual facts -/

theorem readExpr_argShaped {f skip tol mode ts e rest}
    (h : readExpr f skip tol mode ts = .ok (e, rest)) : argShaped e = true :=
  (shapeAt f).1 _ _ _ _ _ _ h
theorem readItem_argShaped {f ts es rest} (h : readItem f ts = .ok (es, rest)) :
    argShapedL es = true :=
  (shapeAt f).2.1 _ _ _ h
theorem readMathEnv_argShaped {f k pos tol ts e rest}
    (h : readMathEnv f k pos tol ts = .ok (e, rest)) : argShaped e = true :=
  (shapeAt f).2.2.1 _ _ _ _ _ _ h
theorem readMathBody_argShaped {f k tol ts es rest}
    (h : readMathBody f k tol ts = .ok (es, rest)) : argShapedL es = true :=
  (shapeAt f).2.2.2.1 _ _ _ _ _ h
theorem readEnv_argShaped {f name args pos skip tol mode ts e rest}
    (h : readEnv f name args pos skip tol mode ts = .ok (e, rest))
    (ha : argShapedA args = true) : argShaped e = true :=
  (shapeAt f).2.2.2.2.1 _ _ _ _ _ _ _ _ _ h ha
theorem readEnvBody_argShaped {f skip tol mode ts be rest}
    (h : readEnvBody f skip tol mode ts = .ok (be, rest)) :
    argShapedL be.1 = true ∧ ∀ ea, be.2 = some ea → argShapedA ea = true :=
  (shapeAt f).2.2.2.2.2.1 _ _ _ _ _ _ h
/-- `read_command` returns only groups and bare commands as arguments. -/
theorem readCommand_argShaped {f nreq nopt tol mode ts na rest}
    (h : readCommand f nreq nopt tol mode ts = .ok (na, rest)) : argShapedA na.2 = true :=
  (shapeAt f).2.2.2.2.2.2.1 _ _ _ _ _ _ _ h
/-- `read_args` returns only groups and bare commands. -/
theorem readArgs_argShaped {f nreq nopt tol mode ts args rest}
    (h : readArgs f nreq nopt tol mode ts = .ok (args, rest)) : argShapedA args = true :=
  (shapeAt f).2.2.2.2.2.2.2.1 _ _ _ _ _ _ _ h
theorem readArgOpt_argShaped {f n tol mode ts gn rest}
    (h : readArgOpt f n tol mode ts = .ok (gn, rest)) : argShapedA gn.1 = true :=
  (shapeAt f).2.2.2.2.2.2.2.2.1 _ _ _ _ _ _ h
theorem readArgReq_argShaped {f n tol mode ts gn rest}
    (h : readArgReq f n tol mode ts = .ok (gn, rest)) : argShapedA gn.1 = true :=
  (shapeAt f).2.2.2.2.2.2.2.2.2.1 _ _ _ _ _ _ h
theorem readArg_argShaped {f k pos tol mode ts e rest}
    (h : readArg f k pos tol mode ts = .ok (e, rest)) : isArgNode e = true ∧ argShaped e = true :=
  (shapeAt f).2.2.2.2.2.2.2.2.2.2.1 _ _ _ _ _ _ _ h
theorem readArgBody_argShaped {f k tol mode ts es rest}
    (h : readArgBody f k tol mode ts = .ok (es, rest)) : argShapedL es = true :=
  (shapeAt f).2.2.2.2.2.2.2.2.2.2.2 _ _ _ _ _ _ h

/-- Every argument `read_args` returns is a group or a bare command (spelled out). -/
theorem readArgs_mem {f nreq nopt tol mode ts args rest}
    (h : readArgs f nreq nopt tol mode ts = .ok (args, rest)) {a : Expr} (ha : a ∈ args) :
    (∃ k b p, a = .group k b p) ∨ (∃ n p, a = .cmd n [] [] p) :=
  isArgNode_iff.1 (argShapedA_mem (readArgs_argShaped h) ha).1

/-! ## `read_tex` and `parse` -/

theorem readTex_argShaped : ∀ f skip tol ts es, readTex f skip tol ts = .ok es →
    argShapedL es = true := by
  intro f
  induction f with
  | zero => intro skip tol ts es h; simp [readTex] at h
  | succ f ih =>
    intro skip tol ts es h
    unfold readTex at h
    cases ts with
    | nil =>
      simp only [Except.ok.injEq] at h
      subst h; rfl
    | cons t r =>
      simp only at h
      cases he : readExpr f skip tol .nonMath (t :: r) with
      | error e => rw [he] at h; cases h
      | ok v =>
        obtain ⟨e, ts1⟩ := v
        rw [he] at h
        simp only at h
        cases hr : readTex f skip tol ts1 with
        | error e' => rw [hr] at h; cases h
        | ok es' =>
          rw [hr] at h
          simp only [Except.ok.injEq] at h
          subst h
          exact argShapedL_cons.2 ⟨readExpr_argShaped he, ih _ _ _ _ hr⟩

/-- Every argument anywhere in a parsed document is a group or a bare command. -/
theorem parse_argShaped {tol : Bool} {skip : List Str} {s : Str} {es : List Expr}
    (h : parse tol skip s = .ok es) : argShapedL es = true := by
  unfold parse at h
  cases ht : tokenize s with
  | none => rw [ht] at h; cases h
  | some ts =>
    rw [ht] at h
    exact readTex_argShaped _ _ _ _ _ h

/-- The side condition of the navigation theorems holds for every parsed document. -/
theorem parse_flatArgs {tol : Bool} {skip : List Str} {s : Str} {es : List Expr}
    (h : parse tol skip s = .ok es) : flatArgsL es = true :=
  argShapedL_flatArgsL es (parse_argShaped h)

end TexSoup
