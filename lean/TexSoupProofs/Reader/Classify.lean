import TexSoupProofs.Reader.Progress
/-!
# Where the three diagnostic errors come from

* `Err.assertion` is produced only by `readExpr`, for `\item` in math mode and for `\begin`
  without an argument (outside special mode).
* `Err.type` is produced only by `readArgBody` on an exhausted buffer in strict mode; in
  tolerant mode the only strict readers are those called from `readItem`.
* `Err.eof` is produced only by `readMathEnv`, `readEnv` and `readSkipEnv`, which `readExpr`
  calls only for a math-opening token and after `\begin`.

Each statement is an induction on the fuel over a hypothesis on the token list that is closed
under taking suffixes.
-/
namespace TexSoup

/-- Every token directly after an `Escape` token has a text satisfying `P`. -/
def EscNext (P : Str → Prop) (ts : List Tok) : Prop :=
  ∀ pre esc n r, ts = pre ++ esc :: n :: r → esc.cat = TC.Escape → P n.text

theorem EscNext.suf {P : Str → Prop} {ts rest : List Tok} (h : EscNext P ts) (hs : Suf ts rest) :
    EscNext P rest := by
  obtain ⟨c, rfl⟩ := hs
  intro pre esc n r he
  exact h (c ++ pre) esc n r (by rw [he, List.append_assoc])

theorem EscNext.tail {P : Str → Prop} {t : Tok} {ts : List Tok} (h : EscNext P (t :: ts)) :
    EscNext P ts := h.suf Suf.tail

theorem EscNext.mono {P Q : Str → Prop} {ts : List Tok} (hPQ : ∀ s, P s → Q s)
    (h : EscNext P ts) : EscNext Q ts :=
  fun pre esc n r he hc => hPQ _ (h pre esc n r he hc)

/-- Boolean check of `EscNext`. -/
def escNextB (p : Str → Bool) : List Tok → Bool
  | [] => true
  | esc :: r =>
    (match r with
      | n :: _ => !(esc.cat == TC.Escape) || p n.text
      | [] => true) && escNextB p r

theorem escNextB_sound (p : Str → Bool) : ∀ ts, escNextB p ts = true →
    EscNext (fun s => p s = true) ts := by
  intro ts
  induction ts with
  | nil => intro _ pre esc n r he; simp at he
  | cons t ts ih =>
    intro h pre esc n r he hc
    simp only [escNextB, Bool.and_eq_true] at h
    cases pre with
    | nil =>
      simp only [List.nil_append, List.cons.injEq] at he
      obtain ⟨rfl, rfl⟩ := he
      have h1 := h.1
      simp only [hc, beq_self_eq_true, Bool.not_true, Bool.false_or] at h1
      exact h1
    | cons u pre =>
      simp only [List.cons_append, List.cons.injEq] at he
      exact ih h.2 pre esc n r he.2 hc

/-- The name token returned by `read_command` is the first token of its input (or the made-up
empty token when the buffer is exhausted). -/
theorem readCommand_head {f : Nat} {nreq nopt : Int} {tol : Bool} {mode : Mode} {ts : List Tok}
    {na : Tok × List Expr} {rest : List Tok}
    (h : readCommand f nreq nopt tol mode ts = .ok (na, rest)) :
    (∃ r, ts = na.1 :: r) ∨ (ts = [] ∧ na.1.text = []) := by
  cases f with
  | zero => simp [readCommand] at h
  | succ g =>
    unfold readCommand at h
    cases ts with
    | nil =>
      simp only at h
      obtain ⟨args, ts2, _, h⟩ := Res.bind_eq_ok.mp h
      simp only [Except.ok.injEq, Prod.mk.injEq] at h
      obtain ⟨rfl, _⟩ := h
      exact .inr ⟨rfl, rfl⟩
    | cons n r =>
      simp only at h
      obtain ⟨args, ts2, _, h⟩ := Res.bind_eq_ok.mp h
      simp only [Except.ok.injEq, Prod.mk.injEq] at h
      obtain ⟨rfl, _⟩ := h
      exact .inl ⟨r, rfl⟩

/-- the text of the token that `read_expr` takes for the command name satisfies `P` -/
theorem EscNext.name {P : Str → Prop} {c : Tok} {ts : List Tok} {f : Nat} {nreq nopt : Int}
    {tol : Bool} {mode : Mode} {na : Tok × List Expr} {rest : List Tok}
    (hy : EscNext P (c :: ts)) (hesc : (c.cat == TC.Escape) = true) (hnil : P [])
    (hc : readCommand f nreq nopt tol mode ts = .ok (na, rest)) : P na.1.text := by
  rcases readCommand_head hc with ⟨r, rfl⟩ | ⟨_, hn⟩
  · exact hy [] c na.1 r rfl (by simpa using hesc)
  · rw [hn]; exact hnil

/-- A suffix-closed property that rules out an error of `read_expr` rules it out for
`read_tex`. -/
theorem readTex_error_free {e : Err} {tol : Bool} (P : List Tok → Prop)
    (hsuf : ∀ ts rest, P ts → Suf ts rest → P rest)
    (hE : ∀ f skip ts, P ts → readExpr f skip tol .nonMath ts ≠ .error e) (he : e ≠ .fuel) :
    ∀ f skip ts, P ts → readTex f skip tol ts ≠ .error e := by
  intro f
  induction f with
  | zero =>
    intro skip ts _ h
    simp only [readTex, Except.error.injEq] at h
    exact he h.symm
  | succ f ih =>
    intro skip ts hy h
    unfold readTex at h
    cases ts with
    | nil => cases h
    | cons t r =>
      simp only at h
      cases hx : readExpr f skip tol .nonMath (t :: r) with
      | error e' =>
        rw [hx] at h
        simp only [Except.error.injEq] at h
        subst h
        exact hE _ _ _ hy hx
      | ok v =>
        obtain ⟨x, ts1⟩ := v
        rw [hx] at h
        simp only at h
        cases hr : readTex f skip tol ts1 with
        | error e' =>
          rw [hr] at h
          simp only [Except.error.injEq] at h
          subst h
          exact ih _ _ (hsuf _ _ hy (readExpr_ssuf hx).suf) hr
        | ok es' => rw [hr] at h; cases h

/-! ## 1. `Err.assertion` -/

/-- No `Escape` token is directly followed by a token spelling `item` or `begin`. -/
abbrev NoItemBegin (ts : List Tok) : Prop := EscNext (fun s => s ≠ sItem ∧ s ≠ sBegin) ts

/-- Without `\item` and `\begin`, no reader function returns `Err.assertion`. -/
def AssertFreeAt (f : Nat) : Prop :=
  (∀ skip tol mode ts, NoItemBegin ts → readExpr f skip tol mode ts ≠ .error .assertion) ∧
  (∀ ts, NoItemBegin ts → readItem f ts ≠ .error .assertion) ∧
  (∀ k pos tol ts, NoItemBegin ts → readMathEnv f k pos tol ts ≠ .error .assertion) ∧
  (∀ k tol ts, NoItemBegin ts → readMathBody f k tol ts ≠ .error .assertion) ∧
  (∀ name args pos skip tol mode ts, NoItemBegin ts →
      readEnv f name args pos skip tol mode ts ≠ .error .assertion) ∧
  (∀ skip tol mode ts, NoItemBegin ts → readEnvBody f skip tol mode ts ≠ .error .assertion) ∧
  (∀ nreq nopt tol mode ts, NoItemBegin ts →
      readCommand f nreq nopt tol mode ts ≠ .error .assertion) ∧
  (∀ nreq nopt tol mode ts, NoItemBegin ts →
      readArgs f nreq nopt tol mode ts ≠ .error .assertion) ∧
  (∀ n tol mode ts, NoItemBegin ts → readArgOpt f n tol mode ts ≠ .error .assertion) ∧
  (∀ n tol mode ts, NoItemBegin ts → readArgReq f n tol mode ts ≠ .error .assertion) ∧
  (∀ k pos tol mode ts, NoItemBegin ts → readArg f k pos tol mode ts ≠ .error .assertion) ∧
  (∀ k tol mode ts, NoItemBegin ts → readArgBody f k tol mode ts ≠ .error .assertion)

theorem assertFreeAt_zero : AssertFreeAt 0 := by
  refine ⟨?_, ?_, ?_, ?_, ?_, ?_, ?_, ?_, ?_, ?_, ?_, ?_⟩ <;> intros <;>
    simp [readExpr, readItem, readMathEnv, readMathBody, readEnv, readEnvBody, readCommand,
      readArgs, readArgOpt, readArgReq, readArg, readArgBody]

section
variable (f : Nat) (ih : AssertFreeAt f)
include ih

theorem af_readExpr : ∀ skip tol mode ts, NoItemBegin ts →
    readExpr (f+1) skip tol mode ts ≠ .error .assertion := by
  intro skip tol mode ts hy h
  obtain ⟨aE, aI, aME, aMB, aEnv, aEB, aC, aAs, aAO, aAR, aA, aAB⟩ := ih
  unfold readExpr at h
  cases ts with
  | nil => cases h
  | cons c ts =>
    simp only at h
    cases hk : mkindOfBegin c.cat with
    | some k =>
      rw [hk] at h
      simp only at h
      exact aME _ _ _ _ hy.tail h
    | none =>
      rw [hk] at h
      simp only at h
      by_cases hesc : (c.cat == TC.Escape) = true
      · rw [if_pos hesc] at h
        rcases Res.bind_eq_error.mp h with h | ⟨na, ts1, hc, h⟩
        · exact aC _ _ _ _ _ hy.tail h
        · have hP := hy.name hesc ⟨by decide, by decide⟩ hc
          rw [if_neg (by intro hi; exact hP.1 (by simpa using hi))] at h
          rw [if_neg (by
            intro hb
            simp only [Bool.and_eq_true, beq_iff_eq] at hb
            exact hP.2 hb.1)] at h
          cases h
      · rw [if_neg hesc] at h
        by_cases hg : (c.cat == TC.GroupBegin) = true
        · rw [if_pos hg] at h
          exact aA _ _ _ _ _ hy.tail h
        · rw [if_neg hg] at h; cases h

theorem af_readItem : ∀ ts, NoItemBegin ts → readItem (f+1) ts ≠ .error .assertion := by
  intro ts hy h
  obtain ⟨aE, aI, aME, aMB, aEnv, aEB, aC, aAs, aAO, aAR, aA, aAB⟩ := ih
  unfold readItem at h
  have step : ∀ t r, NoItemBegin (t :: r) →
      ((readExpr f [] false .nonMath (t :: r)).bind fun e ts1 =>
        (readItem f ts1).bind fun es ts2 => .ok (e :: es, ts2)) ≠ .error .assertion := by
    intro t r hy h
    rcases Res.bind_eq_error.mp h with h | ⟨e, ts1, he, h⟩
    · exact aE _ _ _ _ hy h
    · rcases Res.bind_eq_error.mp h with h | ⟨es, ts2, hb, h⟩
      · exact aI _ (hy.suf (readExpr_ssuf he).suf) h
      · cases h
  cases ts with
  | nil => cases h
  | cons t r =>
    simp only at h
    by_cases hesc : (t.cat == TC.Escape) = true
    · rw [if_pos hesc] at h
      rcases Res.bind_eq_error.mp h with h | ⟨na, ts', hc, h⟩
      · exact aC _ _ _ _ _ hy.tail h
      · by_cases hend : (na.1.text == sEnd || na.1.text == sItem) = true
        · rw [if_pos hend] at h; cases h
        · rw [if_neg hend] at h
          exact step t r hy h
    · rw [if_neg hesc] at h
      by_cases hge : (t.cat == TC.GroupEnd) = true
      · rw [if_pos hge] at h; cases h
      · rw [if_neg hge] at h
        exact step t r hy h

theorem af_readMathEnv : ∀ k pos tol ts, NoItemBegin ts →
    readMathEnv (f+1) k pos tol ts ≠ .error .assertion := by
  intro k pos tol ts hy h
  obtain ⟨aE, aI, aME, aMB, aEnv, aEB, aC, aAs, aAO, aAR, aA, aAB⟩ := ih
  unfold readMathEnv at h
  rcases Res.bind_eq_error.mp h with h | ⟨body, ts1, hb, h⟩
  · exact aMB _ _ _ hy h
  · cases ts1 with
    | nil => cases h
    | cons t r =>
      simp only at h
      by_cases hend : (t.cat == k.tokEnd) = true
      · rw [if_pos hend] at h; cases h
      · rw [if_neg hend] at h; cases h

theorem af_readMathBody : ∀ k tol ts, NoItemBegin ts →
    readMathBody (f+1) k tol ts ≠ .error .assertion := by
  intro k tol ts hy h
  obtain ⟨aE, aI, aME, aMB, aEnv, aEB, aC, aAs, aAO, aAR, aA, aAB⟩ := ih
  unfold readMathBody at h
  cases ts with
  | nil => cases h
  | cons t r =>
    simp only at h
    by_cases hend : (t.cat == k.tokEnd) = true
    · rw [if_pos hend] at h; cases h
    · rw [if_neg hend] at h
      rcases Res.bind_eq_error.mp h with h | ⟨e, ts1, he, h⟩
      · exact aE _ _ _ _ hy h
      · rcases Res.bind_eq_error.mp h with h | ⟨es, ts2, hb, h⟩
        · exact aMB _ _ _ (hy.suf (readExpr_ssuf he).suf) h
        · cases h

theorem af_readEnv : ∀ name args pos skip tol mode ts, NoItemBegin ts →
    readEnv (f+1) name args pos skip tol mode ts ≠ .error .assertion := by
  intro name args pos skip tol mode ts hy h
  obtain ⟨aE, aI, aME, aMB, aEnv, aEB, aC, aAs, aAO, aAR, aA, aAB⟩ := ih
  unfold readEnv at h
  rcases Res.bind_eq_error.mp h with h | ⟨be, ts1, hb, h⟩
  · exact aEB _ _ _ _ hy h
  · have s1 := readEnvBody_suf hb
    by_cases herr : envError name be.2 = true
    · rw [if_pos herr] at h
      by_cases ht : tol = true
      · rw [if_pos ht] at h; cases h
      · rw [if_neg ht] at h; cases h
    · rw [if_neg herr] at h
      cases ts1 with
      | nil => cases h
      | cons t1 r1 =>
        simp only at h
        have s2 : Suf ts r1 := s1.trans Suf.tail
        rcases Res.bind_eq_error.mp h with h | ⟨x, ts2, ha, h⟩
        · exact aC _ _ _ _ _ (hy.suf s2) h
        · cases h

theorem af_readEnvBody : ∀ skip tol mode ts, NoItemBegin ts →
    readEnvBody (f+1) skip tol mode ts ≠ .error .assertion := by
  intro skip tol mode ts hy h
  obtain ⟨aE, aI, aME, aMB, aEnv, aEB, aC, aAs, aAO, aAR, aA, aAB⟩ := ih
  unfold readEnvBody at h
  have step : ∀ t r, NoItemBegin (t :: r) →
      ((readExpr f skip tol mode (t :: r)).bind fun e ts1 =>
        (readEnvBody f skip tol mode ts1).bind fun be ts2 => .ok ((e :: be.1, be.2), ts2))
        ≠ .error .assertion := by
    intro t r hy h
    rcases Res.bind_eq_error.mp h with h | ⟨e, ts1, he, h⟩
    · exact aE _ _ _ _ hy h
    · rcases Res.bind_eq_error.mp h with h | ⟨be, ts2, hb, h⟩
      · exact aEB _ _ _ _ (hy.suf (readExpr_ssuf he).suf) h
      · cases h
  cases ts with
  | nil => cases h
  | cons t r =>
    simp only at h
    by_cases hesc : (t.cat == TC.Escape) = true
    · rw [if_pos hesc] at h
      rcases Res.bind_eq_error.mp h with h | ⟨na, ts', hc, h⟩
      · exact aC _ _ _ _ _ hy.tail h
      · by_cases hend : (na.1.text == sEnd) = true
        · rw [if_pos hend] at h; cases h
        · rw [if_neg hend] at h
          exact step t r hy h
    · rw [if_neg hesc] at h
      exact step t r hy h

theorem af_readCommand : ∀ nreq nopt tol mode ts, NoItemBegin ts →
    readCommand (f+1) nreq nopt tol mode ts ≠ .error .assertion := by
  intro nreq nopt tol mode ts hy h
  obtain ⟨aE, aI, aME, aMB, aEnv, aEB, aC, aAs, aAO, aAR, aA, aAB⟩ := ih
  unfold readCommand at h
  cases ts with
  | nil =>
    simp only at h
    rcases Res.bind_eq_error.mp h with h | ⟨args, ts2, ha, h⟩
    · exact aAs _ _ _ _ _ hy h
    · cases h
  | cons n r =>
    simp only at h
    rcases Res.bind_eq_error.mp h with h | ⟨args, ts2, ha, h⟩
    · exact aAs _ _ _ _ _ hy.tail h
    · cases h

theorem af_readArgs : ∀ nreq nopt tol mode ts, NoItemBegin ts →
    readArgs (f+1) nreq nopt tol mode ts ≠ .error .assertion := by
  intro nreq nopt tol mode ts hy h
  obtain ⟨aE, aI, aME, aMB, aEnv, aEB, aC, aAs, aAO, aAR, aA, aAB⟩ := ih
  unfold readArgs at h
  by_cases h0 : (nreq == 0 && nopt == 0) = true
  · rw [if_pos h0] at h; cases h
  · rw [if_neg h0] at h
    rcases Res.bind_eq_error.mp h with h | ⟨an1, ts1, h1, h⟩
    · exact aAO _ _ _ _ hy h
    have y1 := hy.suf (readArgOpt_suf h1)
    rcases Res.bind_eq_error.mp h with h | ⟨an2, ts2, h2, h⟩
    · exact aAR _ _ _ _ y1 h
    have y2 := y1.suf (readArgReq_suf h2)
    rcases Res.bind_eq_error.mp h with h | ⟨an3, ts3, h3, h⟩
    · by_cases hb : nextIs TC.BracketBegin ts2 = true
      · rw [if_pos hb] at h; exact aAO _ _ _ _ y2 h
      · rw [if_neg hb] at h; cases h
    have y3 : NoItemBegin ts3 := by
      by_cases hb : nextIs TC.BracketBegin ts2 = true
      · rw [if_pos hb] at h3; exact y2.suf (readArgOpt_suf h3)
      · rw [if_neg hb] at h3
        simp only [Except.ok.injEq, Prod.mk.injEq] at h3
        obtain ⟨_, rfl⟩ := h3
        exact y2
    rcases Res.bind_eq_error.mp h with h | ⟨an4, ts4, h4, h⟩
    · by_cases hb : nextIs TC.GroupBegin ts3 = true
      · rw [if_pos hb] at h; exact aAR _ _ _ _ y3 h
      · rw [if_neg hb] at h; cases h
    cases h

theorem af_readArgOpt : ∀ n tol mode ts, NoItemBegin ts →
    readArgOpt (f+1) n tol mode ts ≠ .error .assertion := by
  intro n tol mode ts hy h
  obtain ⟨aE, aI, aME, aMB, aEnv, aEB, aC, aAs, aAO, aAR, aA, aAB⟩ := ih
  unfold readArgOpt at h
  by_cases h0 : (n == 0) = true
  · rw [if_pos h0] at h; cases h
  · rw [if_neg h0] at h
    cases hs : (readSpacer ts).2 with
    | nil => rw [hs] at h; cases h
    | cons o r =>
      rw [hs] at h
      simp only at h
      have y0 := hy.suf (Suf.afterSpacer hs).suf
      by_cases hb : (o.cat == TC.BracketBegin) = true
      · rw [if_pos hb] at h
        rcases Res.bind_eq_error.mp h with h | ⟨g, ts1, hg, h⟩
        · exact aA _ _ _ _ _ y0 h
        rcases Res.bind_eq_error.mp h with h | ⟨gn, ts2, hn, h⟩
        · exact aAO _ _ _ _ (y0.suf (readArg_suf hg)) h
        cases h
      · rw [if_neg hb] at h; cases h

theorem af_readArgReq : ∀ n tol mode ts, NoItemBegin ts →
    readArgReq (f+1) n tol mode ts ≠ .error .assertion := by
  intro n tol mode ts hy h
  obtain ⟨aE, aI, aME, aMB, aEnv, aEB, aC, aAs, aAO, aAR, aA, aAB⟩ := ih
  unfold readArgReq at h
  by_cases h0 : (n == 0) = true
  · rw [if_pos h0] at h; cases h
  · rw [if_neg h0] at h
    cases hs : (readSpacer ts).2 with
    | nil => rw [hs] at h; cases h
    | cons o r =>
      rw [hs] at h
      simp only at h
      have y0 := hy.suf (Suf.afterSpacer hs).suf
      by_cases hb : (o.cat == TC.GroupBegin) = true
      · rw [if_pos hb] at h
        rcases Res.bind_eq_error.mp h with h | ⟨g, ts1, hg, h⟩
        · exact aA _ _ _ _ _ y0 h
        rcases Res.bind_eq_error.mp h with h | ⟨gn, ts2, hn, h⟩
        · exact aAR _ _ _ _ (y0.suf (readArg_suf hg)) h
        cases h
      · rw [if_neg hb] at h
        by_cases hpos : n > 0
        · rw [if_pos hpos] at h
          by_cases hesc : (o.cat == TC.Escape) = true
          · rw [if_pos hesc] at h
            rcases Res.bind_eq_error.mp h with h | ⟨na, ts1, hc, h⟩
            · exact aC _ _ _ _ _ y0 h
            rcases Res.bind_eq_error.mp h with h | ⟨gn, ts2, hn, h⟩
            · exact aAR _ _ _ _ (y0.suf (readCommand_suf hc)) h
            cases h
          · rw [if_neg hesc] at h
            rcases Res.bind_eq_error.mp h with h | ⟨gn, ts2, hn, h⟩
            · exact aAR _ _ _ _ y0 h
            cases h
        · rw [if_neg hpos] at h; cases h

theorem af_readArg : ∀ k pos tol mode ts, NoItemBegin ts →
    readArg (f+1) k pos tol mode ts ≠ .error .assertion := by
  intro k pos tol mode ts hy h
  obtain ⟨aE, aI, aME, aMB, aEnv, aEB, aC, aAs, aAO, aAR, aA, aAB⟩ := ih
  unfold readArg at h
  rcases Res.bind_eq_error.mp h with h | ⟨body, ts1, hb, h⟩
  · exact aAB _ _ _ _ hy h
  · cases h

theorem af_readArgBody : ∀ k tol mode ts, NoItemBegin ts →
    readArgBody (f+1) k tol mode ts ≠ .error .assertion := by
  intro k tol mode ts hy h
  obtain ⟨aE, aI, aME, aMB, aEnv, aEB, aC, aAs, aAO, aAR, aA, aAB⟩ := ih
  unfold readArgBody at h
  cases ts with
  | nil =>
    simp only at h
    by_cases ht : tol = true
    · rw [if_pos ht] at h; cases h
    · rw [if_neg ht] at h; cases h
  | cons t r =>
    simp only at h
    by_cases hend : (t.cat == k.tokEnd) = true
    · rw [if_pos hend] at h; cases h
    · rw [if_neg hend] at h
      rcases Res.bind_eq_error.mp h with h | ⟨e, ts1, he, h⟩
      · exact aE _ _ _ _ hy h
      rcases Res.bind_eq_error.mp h with h | ⟨es, ts2, hb, h⟩
      · exact aAB _ _ _ _ (hy.suf (readExpr_ssuf he).suf) h
      cases h

end

theorem assertFreeAt (f : Nat) : AssertFreeAt f := by
  induction f with
  | zero => exact assertFreeAt_zero
  | succ f ih =>
    exact ⟨af_readExpr f ih, af_readItem f ih, af_readMathEnv f ih, af_readMathBody f ih,
      af_readEnv f ih, af_readEnvBody f ih, af_readCommand f ih, af_readArgs f ih,
      af_readArgOpt f ih, af_readArgReq f ih, af_readArg f ih, af_readArgBody f ih⟩

theorem readTex_assert_free (f : Nat) (skip : List Str) (tol : Bool) (ts : List Tok)
    (hy : NoItemBegin ts) : readTex f skip tol ts ≠ .error .assertion :=
  readTex_error_free NoItemBegin (fun _ _ h hs => h.suf hs)
    (fun f skip ts h => (assertFreeAt f).1 skip tol .nonMath ts h) (by decide) f skip ts hy

/-! ## 2. `Err.type` in tolerant mode -/

/-- No `Escape` token is directly followed by a token spelling `item`. -/
abbrev NoItem (ts : List Tok) : Prop := EscNext (fun s => s ≠ sItem) ts

/-- In tolerant mode and without `\item`, no reader function returns `Err.type`.
(`readItem` is always strict and is not part of the bundle: it is never called.) -/
def TypeFreeAt (f : Nat) : Prop :=
  (∀ skip mode ts, NoItem ts → readExpr f skip true mode ts ≠ .error .type) ∧
  (∀ k pos ts, NoItem ts → readMathEnv f k pos true ts ≠ .error .type) ∧
  (∀ k ts, NoItem ts → readMathBody f k true ts ≠ .error .type) ∧
  (∀ name args pos skip mode ts, NoItem ts →
      readEnv f name args pos skip true mode ts ≠ .error .type) ∧
  (∀ skip mode ts, NoItem ts → readEnvBody f skip true mode ts ≠ .error .type) ∧
  (∀ nreq nopt mode ts, NoItem ts → readCommand f nreq nopt true mode ts ≠ .error .type) ∧
  (∀ nreq nopt mode ts, NoItem ts → readArgs f nreq nopt true mode ts ≠ .error .type) ∧
  (∀ n mode ts, NoItem ts → readArgOpt f n true mode ts ≠ .error .type) ∧
  (∀ n mode ts, NoItem ts → readArgReq f n true mode ts ≠ .error .type) ∧
  (∀ k pos mode ts, NoItem ts → readArg f k pos true mode ts ≠ .error .type) ∧
  (∀ k mode ts, NoItem ts → readArgBody f k true mode ts ≠ .error .type)

theorem typeFreeAt_zero : TypeFreeAt 0 := by
  refine ⟨?_, ?_, ?_, ?_, ?_, ?_, ?_, ?_, ?_, ?_, ?_⟩ <;> intros <;>
    simp [readExpr, readMathEnv, readMathBody, readEnv, readEnvBody, readCommand,
      readArgs, readArgOpt, readArgReq, readArg, readArgBody]

section
variable (f : Nat) (ih : TypeFreeAt f)
include ih

theorem tf_readExpr : ∀ skip mode ts, NoItem ts →
    readExpr (f+1) skip true mode ts ≠ .error .type := by
  intro skip mode ts hy h
  obtain ⟨tE, tME, tMB, tEnv, tEB, tC, tAs, tAO, tAR, tA, tAB⟩ := ih
  unfold readExpr at h
  cases ts with
  | nil => cases h
  | cons c ts =>
    simp only at h
    cases hk : mkindOfBegin c.cat with
    | some k =>
      rw [hk] at h
      simp only at h
      exact tME _ _ _ hy.tail h
    | none =>
      rw [hk] at h
      simp only at h
      by_cases hesc : (c.cat == TC.Escape) = true
      · rw [if_pos hesc] at h
        rcases Res.bind_eq_error.mp h with h | ⟨na, ts1, hc, h⟩
        · exact tC _ _ _ _ hy.tail h
        · have hP : na.1.text ≠ sItem := hy.name hesc (by decide) hc
          have y1 := hy.tail.suf (readCommand_suf hc)
          rw [if_neg (by intro hi; exact hP (by simpa using hi))] at h
          by_cases hb : (na.1.text == sBegin && mode != Mode.special) = true
          · rw [if_pos hb] at h
            cases hargs : na.2 with
            | nil => rw [hargs] at h; cases h
            | cons a0 as =>
              rw [hargs] at h
              simp only at h
              by_cases hs : memStr (strip a0.string) skip = true
              · rw [if_pos hs] at h
                cases readSkipEnv_error h
              · rw [if_neg hs] at h
                exact tEnv _ _ _ _ _ _ y1 h
          · rw [if_neg hb] at h; cases h
      · rw [if_neg hesc] at h
        by_cases hg : (c.cat == TC.GroupBegin) = true
        · rw [if_pos hg] at h
          exact tA _ _ _ _ hy.tail h
        · rw [if_neg hg] at h; cases h

theorem tf_readMathEnv : ∀ k pos ts, NoItem ts →
    readMathEnv (f+1) k pos true ts ≠ .error .type := by
  intro k pos ts hy h
  obtain ⟨tE, tME, tMB, tEnv, tEB, tC, tAs, tAO, tAR, tA, tAB⟩ := ih
  unfold readMathEnv at h
  rcases Res.bind_eq_error.mp h with h | ⟨body, ts1, hb, h⟩
  · exact tMB _ _ hy h
  · cases ts1 with
    | nil => cases h
    | cons t r =>
      simp only at h
      by_cases hend : (t.cat == k.tokEnd) = true
      · rw [if_pos hend] at h; cases h
      · rw [if_neg hend] at h; cases h

theorem tf_readMathBody : ∀ k ts, NoItem ts → readMathBody (f+1) k true ts ≠ .error .type := by
  intro k ts hy h
  obtain ⟨tE, tME, tMB, tEnv, tEB, tC, tAs, tAO, tAR, tA, tAB⟩ := ih
  unfold readMathBody at h
  cases ts with
  | nil => cases h
  | cons t r =>
    simp only at h
    by_cases hend : (t.cat == k.tokEnd) = true
    · rw [if_pos hend] at h; cases h
    · rw [if_neg hend] at h
      rcases Res.bind_eq_error.mp h with h | ⟨e, ts1, he, h⟩
      · exact tE _ _ _ hy h
      · rcases Res.bind_eq_error.mp h with h | ⟨es, ts2, hb, h⟩
        · exact tMB _ _ (hy.suf (readExpr_ssuf he).suf) h
        · cases h

theorem tf_readEnv : ∀ name args pos skip mode ts, NoItem ts →
    readEnv (f+1) name args pos skip true mode ts ≠ .error .type := by
  intro name args pos skip mode ts hy h
  obtain ⟨tE, tME, tMB, tEnv, tEB, tC, tAs, tAO, tAR, tA, tAB⟩ := ih
  unfold readEnv at h
  rcases Res.bind_eq_error.mp h with h | ⟨be, ts1, hb, h⟩
  · exact tEB _ _ _ hy h
  · have s1 := readEnvBody_suf hb
    by_cases herr : envError name be.2 = true
    · rw [if_pos herr] at h
      rw [if_pos rfl] at h; cases h
    · rw [if_neg herr] at h
      cases ts1 with
      | nil => cases h
      | cons t1 r1 =>
        simp only at h
        have s2 : Suf ts r1 := s1.trans Suf.tail
        rcases Res.bind_eq_error.mp h with h | ⟨x, ts2, ha, h⟩
        · exact tC _ _ _ _ (hy.suf s2) h
        · cases h

theorem tf_readEnvBody : ∀ skip mode ts, NoItem ts →
    readEnvBody (f+1) skip true mode ts ≠ .error .type := by
  intro skip mode ts hy h
  obtain ⟨tE, tME, tMB, tEnv, tEB, tC, tAs, tAO, tAR, tA, tAB⟩ := ih
  unfold readEnvBody at h
  have step : ∀ t r, NoItem (t :: r) →
      ((readExpr f skip true mode (t :: r)).bind fun e ts1 =>
        (readEnvBody f skip true mode ts1).bind fun be ts2 => .ok ((e :: be.1, be.2), ts2))
        ≠ .error .type := by
    intro t r hy h
    rcases Res.bind_eq_error.mp h with h | ⟨e, ts1, he, h⟩
    · exact tE _ _ _ hy h
    · rcases Res.bind_eq_error.mp h with h | ⟨be, ts2, hb, h⟩
      · exact tEB _ _ _ (hy.suf (readExpr_ssuf he).suf) h
      · cases h
  cases ts with
  | nil => cases h
  | cons t r =>
    simp only at h
    by_cases hesc : (t.cat == TC.Escape) = true
    · rw [if_pos hesc] at h
      rcases Res.bind_eq_error.mp h with h | ⟨na, ts', hc, h⟩
      · exact tC _ _ _ _ hy.tail h
      · by_cases hend : (na.1.text == sEnd) = true
        · rw [if_pos hend] at h; cases h
        · rw [if_neg hend] at h
          exact step t r hy h
    · rw [if_neg hesc] at h
      exact step t r hy h

theorem tf_readCommand : ∀ nreq nopt mode ts, NoItem ts →
    readCommand (f+1) nreq nopt true mode ts ≠ .error .type := by
  intro nreq nopt mode ts hy h
  obtain ⟨tE, tME, tMB, tEnv, tEB, tC, tAs, tAO, tAR, tA, tAB⟩ := ih
  unfold readCommand at h
  cases ts with
  | nil =>
    simp only at h
    rcases Res.bind_eq_error.mp h with h | ⟨args, ts2, ha, h⟩
    · exact tAs _ _ _ _ hy h
    · cases h
  | cons n r =>
    simp only at h
    rcases Res.bind_eq_error.mp h with h | ⟨args, ts2, ha, h⟩
    · exact tAs _ _ _ _ hy.tail h
    · cases h

theorem tf_readArgs : ∀ nreq nopt mode ts, NoItem ts →
    readArgs (f+1) nreq nopt true mode ts ≠ .error .type := by
  intro nreq nopt mode ts hy h
  obtain ⟨tE, tME, tMB, tEnv, tEB, tC, tAs, tAO, tAR, tA, tAB⟩ := ih
  unfold readArgs at h
  by_cases h0 : (nreq == 0 && nopt == 0) = true
  · rw [if_pos h0] at h; cases h
  · rw [if_neg h0] at h
    rcases Res.bind_eq_error.mp h with h | ⟨an1, ts1, h1, h⟩
    · exact tAO _ _ _ hy h
    have y1 := hy.suf (readArgOpt_suf h1)
    rcases Res.bind_eq_error.mp h with h | ⟨an2, ts2, h2, h⟩
    · exact tAR _ _ _ y1 h
    have y2 := y1.suf (readArgReq_suf h2)
    rcases Res.bind_eq_error.mp h with h | ⟨an3, ts3, h3, h⟩
    · by_cases hb : nextIs TC.BracketBegin ts2 = true
      · rw [if_pos hb] at h; exact tAO _ _ _ y2 h
      · rw [if_neg hb] at h; cases h
    have y3 : NoItem ts3 := by
      by_cases hb : nextIs TC.BracketBegin ts2 = true
      · rw [if_pos hb] at h3; exact y2.suf (readArgOpt_suf h3)
      · rw [if_neg hb] at h3
        simp only [Except.ok.injEq, Prod.mk.injEq] at h3
        obtain ⟨_, rfl⟩ := h3
        exact y2
    rcases Res.bind_eq_error.mp h with h | ⟨an4, ts4, h4, h⟩
    · by_cases hb : nextIs TC.GroupBegin ts3 = true
      · rw [if_pos hb] at h; exact tAR _ _ _ y3 h
      · rw [if_neg hb] at h; cases h
    cases h

theorem tf_readArgOpt : ∀ n mode ts, NoItem ts → readArgOpt (f+1) n true mode ts ≠ .error .type := by
  intro n mode ts hy h
  obtain ⟨tE, tME, tMB, tEnv, tEB, tC, tAs, tAO, tAR, tA, tAB⟩ := ih
  unfold readArgOpt at h
  by_cases h0 : (n == 0) = true
  · rw [if_pos h0] at h; cases h
  · rw [if_neg h0] at h
    cases hs : (readSpacer ts).2 with
    | nil => rw [hs] at h; cases h
    | cons o r =>
      rw [hs] at h
      simp only at h
      have y0 := hy.suf (Suf.afterSpacer hs).suf
      by_cases hb : (o.cat == TC.BracketBegin) = true
      · rw [if_pos hb] at h
        rcases Res.bind_eq_error.mp h with h | ⟨g, ts1, hg, h⟩
        · exact tA _ _ _ _ y0 h
        rcases Res.bind_eq_error.mp h with h | ⟨gn, ts2, hn, h⟩
        · exact tAO _ _ _ (y0.suf (readArg_suf hg)) h
        cases h
      · rw [if_neg hb] at h; cases h

theorem tf_readArgReq : ∀ n mode ts, NoItem ts → readArgReq (f+1) n true mode ts ≠ .error .type := by
  intro n mode ts hy h
  obtain ⟨tE, tME, tMB, tEnv, tEB, tC, tAs, tAO, tAR, tA, tAB⟩ := ih
  unfold readArgReq at h
  by_cases h0 : (n == 0) = true
  · rw [if_pos h0] at h; cases h
  · rw [if_neg h0] at h
    cases hs : (readSpacer ts).2 with
    | nil => rw [hs] at h; cases h
    | cons o r =>
      rw [hs] at h
      simp only at h
      have y0 := hy.suf (Suf.afterSpacer hs).suf
      by_cases hb : (o.cat == TC.GroupBegin) = true
      · rw [if_pos hb] at h
        rcases Res.bind_eq_error.mp h with h | ⟨g, ts1, hg, h⟩
        · exact tA _ _ _ _ y0 h
        rcases Res.bind_eq_error.mp h with h | ⟨gn, ts2, hn, h⟩
        · exact tAR _ _ _ (y0.suf (readArg_suf hg)) h
        cases h
      · rw [if_neg hb] at h
        by_cases hpos : n > 0
        · rw [if_pos hpos] at h
          by_cases hesc : (o.cat == TC.Escape) = true
          · rw [if_pos hesc] at h
            rcases Res.bind_eq_error.mp h with h | ⟨na, ts1, hc, h⟩
            · exact tC _ _ _ _ y0 h
            rcases Res.bind_eq_error.mp h with h | ⟨gn, ts2, hn, h⟩
            · exact tAR _ _ _ (y0.suf (readCommand_suf hc)) h
            cases h
          · rw [if_neg hesc] at h
            rcases Res.bind_eq_error.mp h with h | ⟨gn, ts2, hn, h⟩
            · exact tAR _ _ _ y0 h
            cases h
        · rw [if_neg hpos] at h; cases h

theorem tf_readArg : ∀ k pos mode ts, NoItem ts → readArg (f+1) k pos true mode ts ≠ .error .type := by
  intro k pos mode ts hy h
  obtain ⟨tE, tME, tMB, tEnv, tEB, tC, tAs, tAO, tAR, tA, tAB⟩ := ih
  unfold readArg at h
  rcases Res.bind_eq_error.mp h with h | ⟨body, ts1, hb, h⟩
  · exact tAB _ _ _ hy h
  · cases h

theorem tf_readArgBody : ∀ k mode ts, NoItem ts → readArgBody (f+1) k true mode ts ≠ .error .type := by
  intro k mode ts hy h
  obtain ⟨tE, tME, tMB, tEnv, tEB, tC, tAs, tAO, tAR, tA, tAB⟩ := ih
  unfold readArgBody at h
  cases ts with
  | nil =>
    simp only at h
    rw [if_pos trivial] at h; cases h
  | cons t r =>
    simp only at h
    by_cases hend : (t.cat == k.tokEnd) = true
    · rw [if_pos hend] at h; cases h
    · rw [if_neg hend] at h
      rcases Res.bind_eq_error.mp h with h | ⟨e, ts1, he, h⟩
      · exact tE _ _ _ hy h
      rcases Res.bind_eq_error.mp h with h | ⟨es, ts2, hb, h⟩
      · exact tAB _ _ _ (hy.suf (readExpr_ssuf he).suf) h
      cases h

end

theorem typeFreeAt (f : Nat) : TypeFreeAt f := by
  induction f with
  | zero => exact typeFreeAt_zero
  | succ f ih =>
    exact ⟨tf_readExpr f ih, tf_readMathEnv f ih, tf_readMathBody f ih,
      tf_readEnv f ih, tf_readEnvBody f ih, tf_readCommand f ih, tf_readArgs f ih,
      tf_readArgOpt f ih, tf_readArgReq f ih, tf_readArg f ih, tf_readArgBody f ih⟩

theorem readTex_type_free (f : Nat) (skip : List Str) (ts : List Tok)
    (hy : NoItem ts) : readTex f skip true ts ≠ .error .type :=
  readTex_error_free NoItem (fun _ _ h hs => h.suf hs)
    (fun f skip ts h => (typeFreeAt f).1 skip .nonMath ts h) (by decide) f skip ts hy

/-! ## 3. `Err.eof` -/

/-- No token opens a math region and no `Escape` token is directly followed by `begin`. -/
structure NoEofSource (ts : List Tok) : Prop where
  math : ∀ t ∈ ts, mkindOfBegin t.cat = none
  noBegin : EscNext (fun s => s ≠ sBegin) ts

theorem NoEofSource.suf {ts rest : List Tok} (h : NoEofSource ts) (hs : Suf ts rest) :
    NoEofSource rest where
  math := by
    obtain ⟨c, rfl⟩ := hs
    exact fun t ht => h.math t (List.mem_append_right c ht)
  noBegin := h.noBegin.suf hs

theorem NoEofSource.tail {t : Tok} {ts : List Tok} (h : NoEofSource (t :: ts)) :
    NoEofSource ts := h.suf Suf.tail

/-- Without math openers and `\begin`, none of the readers that can then be reached returns
`Err.eof`. (`readMathEnv`, `readMathBody`, `readEnv`, `readEnvBody` are not reached.) -/
def EofFreeAt (f : Nat) : Prop :=
  (∀ skip tol mode ts, NoEofSource ts → readExpr f skip tol mode ts ≠ .error .eof) ∧
  (∀ ts, NoEofSource ts → readItem f ts ≠ .error .eof) ∧
  (∀ nreq nopt tol mode ts, NoEofSource ts → readCommand f nreq nopt tol mode ts ≠ .error .eof) ∧
  (∀ nreq nopt tol mode ts, NoEofSource ts → readArgs f nreq nopt tol mode ts ≠ .error .eof) ∧
  (∀ n tol mode ts, NoEofSource ts → readArgOpt f n tol mode ts ≠ .error .eof) ∧
  (∀ n tol mode ts, NoEofSource ts → readArgReq f n tol mode ts ≠ .error .eof) ∧
  (∀ k pos tol mode ts, NoEofSource ts → readArg f k pos tol mode ts ≠ .error .eof) ∧
  (∀ k tol mode ts, NoEofSource ts → readArgBody f k tol mode ts ≠ .error .eof)

theorem eofFreeAt_zero : EofFreeAt 0 := by
  refine ⟨?_, ?_, ?_, ?_, ?_, ?_, ?_, ?_⟩ <;> intros <;>
    simp [readExpr, readItem, readCommand, readArgs, readArgOpt, readArgReq, readArg, readArgBody]

section
variable (f : Nat) (ih : EofFreeAt f)
include ih

theorem ef_readExpr : ∀ skip tol mode ts, NoEofSource ts →
    readExpr (f+1) skip tol mode ts ≠ .error .eof := by
  intro skip tol mode ts hy h
  obtain ⟨oE, oI, oC, oAs, oAO, oAR, oA, oAB⟩ := ih
  unfold readExpr at h
  cases ts with
  | nil => cases h
  | cons c ts =>
    simp only at h
    cases hk : mkindOfBegin c.cat with
    | some k =>
      have := hy.math c (by simp)
      rw [hk] at this; cases this
    | none =>
      rw [hk] at h
      simp only at h
      by_cases hesc : (c.cat == TC.Escape) = true
      · rw [if_pos hesc] at h
        rcases Res.bind_eq_error.mp h with h | ⟨na, ts1, hc, h⟩
        · exact oC _ _ _ _ _ hy.tail h
        · have hP : na.1.text ≠ sBegin := hy.noBegin.name hesc (by decide) hc
          have y1 := hy.tail.suf (readCommand_suf hc)
          by_cases hitem : (na.1.text == sItem) = true
          · rw [if_pos hitem] at h
            by_cases hm : (mode == Mode.math) = true
            · rw [if_pos hm] at h; cases h
            · rw [if_neg hm] at h
              rcases Res.bind_eq_error.mp h with h | ⟨body, ts2, hi, h⟩
              · exact oI _ y1 h
              · cases h
          · rw [if_neg hitem] at h
            rw [if_neg (by
              intro hb
              simp only [Bool.and_eq_true, beq_iff_eq] at hb
              exact hP hb.1)] at h
            cases h
      · rw [if_neg hesc] at h
        by_cases hg : (c.cat == TC.GroupBegin) = true
        · rw [if_pos hg] at h
          exact oA _ _ _ _ _ hy.tail h
        · rw [if_neg hg] at h; cases h

theorem ef_readItem : ∀ ts, NoEofSource ts → readItem (f+1) ts ≠ .error .eof := by
  intro ts hy h
  obtain ⟨oE, oI, oC, oAs, oAO, oAR, oA, oAB⟩ := ih
  unfold readItem at h
  have step : ∀ t r, NoEofSource (t :: r) →
      ((readExpr f [] false .nonMath (t :: r)).bind fun e ts1 =>
        (readItem f ts1).bind fun es ts2 => .ok (e :: es, ts2)) ≠ .error .eof := by
    intro t r hy h
    rcases Res.bind_eq_error.mp h with h | ⟨e, ts1, he, h⟩
    · exact oE _ _ _ _ hy h
    · rcases Res.bind_eq_error.mp h with h | ⟨es, ts2, hb, h⟩
      · exact oI _ (hy.suf (readExpr_ssuf he).suf) h
      · cases h
  cases ts with
  | nil => cases h
  | cons t r =>
    simp only at h
    by_cases hesc : (t.cat == TC.Escape) = true
    · rw [if_pos hesc] at h
      rcases Res.bind_eq_error.mp h with h | ⟨na, ts', hc, h⟩
      · exact oC _ _ _ _ _ hy.tail h
      · by_cases hend : (na.1.text == sEnd || na.1.text == sItem) = true
        · rw [if_pos hend] at h; cases h
        · rw [if_neg hend] at h
          exact step t r hy h
    · rw [if_neg hesc] at h
      by_cases hge : (t.cat == TC.GroupEnd) = true
      · rw [if_pos hge] at h; cases h
      · rw [if_neg hge] at h
        exact step t r hy h

theorem ef_readCommand : ∀ nreq nopt tol mode ts, NoEofSource ts →
    readCommand (f+1) nreq nopt tol mode ts ≠ .error .eof := by
  intro nreq nopt tol mode ts hy h
  obtain ⟨oE, oI, oC, oAs, oAO, oAR, oA, oAB⟩ := ih
  unfold readCommand at h
  cases ts with
  | nil =>
    simp only at h
    rcases Res.bind_eq_error.mp h with h | ⟨args, ts2, ha, h⟩
    · exact oAs _ _ _ _ _ hy h
    · cases h
  | cons n r =>
    simp only at h
    rcases Res.bind_eq_error.mp h with h | ⟨args, ts2, ha, h⟩
    · exact oAs _ _ _ _ _ hy.tail h
    · cases h

theorem ef_readArgs : ∀ nreq nopt tol mode ts, NoEofSource ts →
    readArgs (f+1) nreq nopt tol mode ts ≠ .error .eof := by
  intro nreq nopt tol mode ts hy h
  obtain ⟨oE, oI, oC, oAs, oAO, oAR, oA, oAB⟩ := ih
  unfold readArgs at h
  by_cases h0 : (nreq == 0 && nopt == 0) = true
  · rw [if_pos h0] at h; cases h
  · rw [if_neg h0] at h
    rcases Res.bind_eq_error.mp h with h | ⟨an1, ts1, h1, h⟩
    · exact oAO _ _ _ _ hy h
    have y1 := hy.suf (readArgOpt_suf h1)
    rcases Res.bind_eq_error.mp h with h | ⟨an2, ts2, h2, h⟩
    · exact oAR _ _ _ _ y1 h
    have y2 := y1.suf (readArgReq_suf h2)
    rcases Res.bind_eq_error.mp h with h | ⟨an3, ts3, h3, h⟩
    · by_cases hb : nextIs TC.BracketBegin ts2 = true
      · rw [if_pos hb] at h; exact oAO _ _ _ _ y2 h
      · rw [if_neg hb] at h; cases h
    have y3 : NoEofSource ts3 := by
      by_cases hb : nextIs TC.BracketBegin ts2 = true
      · rw [if_pos hb] at h3; exact y2.suf (readArgOpt_suf h3)
      · rw [if_neg hb] at h3
        simp only [Except.ok.injEq, Prod.mk.injEq] at h3
        obtain ⟨_, rfl⟩ := h3
        exact y2
    rcases Res.bind_eq_error.mp h with h | ⟨an4, ts4, h4, h⟩
    · by_cases hb : nextIs TC.GroupBegin ts3 = true
      · rw [if_pos hb] at h; exact oAR _ _ _ _ y3 h
      · rw [if_neg hb] at h; cases h
    cases h

theorem ef_readArgOpt : ∀ n tol mode ts, NoEofSource ts →
    readArgOpt (f+1) n tol mode ts ≠ .error .eof := by
  intro n tol mode ts hy h
  obtain ⟨oE, oI, oC, oAs, oAO, oAR, oA, oAB⟩ := ih
  unfold readArgOpt at h
  by_cases h0 : (n == 0) = true
  · rw [if_pos h0] at h; cases h
  · rw [if_neg h0] at h
    cases hs : (readSpacer ts).2 with
    | nil => rw [hs] at h; cases h
    | cons o r =>
      rw [hs] at h
      simp only at h
      have y0 := hy.suf (Suf.afterSpacer hs).suf
      by_cases hb : (o.cat == TC.BracketBegin) = true
      · rw [if_pos hb] at h
        rcases Res.bind_eq_error.mp h with h | ⟨g, ts1, hg, h⟩
        · exact oA _ _ _ _ _ y0 h
        rcases Res.bind_eq_error.mp h with h | ⟨gn, ts2, hn, h⟩
        · exact oAO _ _ _ _ (y0.suf (readArg_suf hg)) h
        cases h
      · rw [if_neg hb] at h; cases h

theorem ef_readArgReq : ∀ n tol mode ts, NoEofSource ts →
    readArgReq (f+1) n tol mode ts ≠ .error .eof := by
  intro n tol mode ts hy h
  obtain ⟨oE, oI, oC, oAs, oAO, oAR, oA, oAB⟩ := ih
  unfold readArgReq at h
  by_cases h0 : (n == 0) = true
  · rw [if_pos h0] at h; cases h
  · rw [if_neg h0] at h
    cases hs : (readSpacer ts).2 with
    | nil => rw [hs] at h; cases h
    | cons o r =>
      rw [hs] at h
      simp only at h
      have y0 := hy.suf (Suf.afterSpacer hs).suf
      by_cases hb : (o.cat == TC.GroupBegin) = true
      · rw [if_pos hb] at h
        rcases Res.bind_eq_error.mp h with h | ⟨g, ts1, hg, h⟩
        · exact oA _ _ _ _ _ y0 h
        rcases Res.bind_eq_error.mp h with h | ⟨gn, ts2, hn, h⟩
        · exact oAR _ _ _ _ (y0.suf (readArg_suf hg)) h
        cases h
      · rw [if_neg hb] at h
        by_cases hpos : n > 0
        · rw [if_pos hpos] at h
          by_cases hesc : (o.cat == TC.Escape) = true
          · rw [if_pos hesc] at h
            rcases Res.bind_eq_error.mp h with h | ⟨na, ts1, hc, h⟩
            · exact oC _ _ _ _ _ y0 h
            rcases Res.bind_eq_error.mp h with h | ⟨gn, ts2, hn, h⟩
            · exact oAR _ _ _ _ (y0.suf (readCommand_suf hc)) h
            cases h
          · rw [if_neg hesc] at h
            rcases Res.bind_eq_error.mp h with h | ⟨gn, ts2, hn, h⟩
            · exact oAR _ _ _ _ y0 h
            cases h
        · rw [if_neg hpos] at h; cases h

theorem ef_readArg : ∀ k pos tol mode ts, NoEofSource ts →
    readArg (f+1) k pos tol mode ts ≠ .error .eof := by
  intro k pos tol mode ts hy h
  obtain ⟨oE, oI, oC, oAs, oAO, oAR, oA, oAB⟩ := ih
  unfold readArg at h
  rcases Res.bind_eq_error.mp h with h | ⟨body, ts1, hb, h⟩
  · exact oAB _ _ _ _ hy h
  · cases h

theorem ef_readArgBody : ∀ k tol mode ts, NoEofSource ts →
    readArgBody (f+1) k tol mode ts ≠ .error .eof := by
  intro k tol mode ts hy h
  obtain ⟨oE, oI, oC, oAs, oAO, oAR, oA, oAB⟩ := ih
  unfold readArgBody at h
  cases ts with
  | nil =>
    simp only at h
    by_cases ht : tol = true
    · rw [if_pos ht] at h; cases h
    · rw [if_neg ht] at h; cases h
  | cons t r =>
    simp only at h
    by_cases hend : (t.cat == k.tokEnd) = true
    · rw [if_pos hend] at h; cases h
    · rw [if_neg hend] at h
      rcases Res.bind_eq_error.mp h with h | ⟨e, ts1, he, h⟩
      · exact oE _ _ _ _ hy h
      rcases Res.bind_eq_error.mp h with h | ⟨es, ts2, hb, h⟩
      · exact oAB _ _ _ _ (hy.suf (readExpr_ssuf he).suf) h
      cases h

end

theorem eofFreeAt (f : Nat) : EofFreeAt f := by
  induction f with
  | zero => exact eofFreeAt_zero
  | succ f ih =>
    exact ⟨ef_readExpr f ih, ef_readItem f ih, ef_readCommand f ih, ef_readArgs f ih,
      ef_readArgOpt f ih, ef_readArgReq f ih, ef_readArg f ih, ef_readArgBody f ih⟩

theorem readTex_eof_free (f : Nat) (skip : List Str) (tol : Bool) (ts : List Tok)
    (hy : NoEofSource ts) : readTex f skip tol ts ≠ .error .eof :=
  readTex_error_free NoEofSource (fun _ _ h hs => h.suf hs)
    (fun f skip ts h => (eofFreeAt f).1 skip tol .nonMath ts h) (by decide) f skip ts hy

/-! ## 4. The same at the level of `parse` -/

theorem EscNext.of_forall {P : Str → Prop} {ts : List Tok} (h : ∀ t ∈ ts, P t.text) :
    EscNext P ts := by
  intro pre esc n r he _
  exact h n (by rw [he]; simp)

theorem parse_assertion_origin (tol : Bool) (skip : List Str) (s : Str) (ts : List Tok)
    (ht : tokenize s = some ts) (hy : NoItemBegin ts) : parse tol skip s ≠ .error .assertion := by
  intro h
  unfold parse at h
  rw [ht] at h
  exact readTex_assert_free _ _ _ _ hy h

theorem parse_type_origin (skip : List Str) (s : Str) (ts : List Tok)
    (ht : tokenize s = some ts) (hy : NoItem ts) : parse true skip s ≠ .error .type := by
  intro h
  unfold parse at h
  rw [ht] at h
  exact readTex_type_free _ _ _ hy h

theorem parse_eof_origin (tol : Bool) (skip : List Str) (s : Str) (ts : List Tok)
    (ht : tokenize s = some ts) (hy : NoEofSource ts) : parse tol skip s ≠ .error .eof := by
  intro h
  unfold parse at h
  rw [ht] at h
  exact readTex_eof_free _ _ _ _ hy h

end TexSoup
