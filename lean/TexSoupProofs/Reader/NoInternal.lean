import TexSoupProofs.Reader.Cons
import TexSoupProofs.Reader.Progress
/-!
# The model never produces `Err.internal`

`Err.internal` stands for every Python exception other than `EOFError`, `TypeError` and
`AssertionError` (`StopIteration`, `KeyError`, `IndexError`, ...). The model returns it in three
places: `readExpr` on an empty buffer, and in `readEnv` when the `\end` that the loop of
`read_env` has peeked at is to be consumed from an empty buffer. Neither is reachable.
-/
namespace TexSoup

/-- When the loop of `read_env` reports the arguments of a peeked `\end`, the remainder it
returns starts with that `\end`, and the arguments are what `read_args` reads after it. -/
theorem readEnvBody_some : ∀ f skip tol mode ts es eargs rest,
    readEnvBody f skip tol mode ts = .ok ((es, some eargs), rest) →
    ∃ esc n r g rest', rest = esc :: n :: r ∧ esc.cat = .Escape ∧ n.text = sEnd ∧
      readCommand g 1 0 tol mode (n :: r) = .ok ((n, eargs), rest') := by
  intro f
  induction f with
  | zero => intro skip tol mode ts es eargs rest h; simp [readEnvBody] at h
  | succ f ih =>
    intro skip tol mode ts es eargs rest h
    unfold readEnvBody at h
    have step : ∀ t r, ((readExpr f skip tol mode (t :: r)).bind fun e ts1 =>
          (readEnvBody f skip tol mode ts1).bind fun be ts2 => .ok ((e :: be.1, be.2), ts2))
          = .ok ((es, some eargs), rest) →
        ∃ esc n r g rest', rest = esc :: n :: r ∧ esc.cat = .Escape ∧ n.text = sEnd ∧
          readCommand g 1 0 tol mode (n :: r) = .ok ((n, eargs), rest') := by
      intro t r h
      obtain ⟨e, ts1, he, h⟩ := Res.bind_eq_ok.mp h
      obtain ⟨⟨bes, bea⟩, ts2, hb, h⟩ := Res.bind_eq_ok.mp h
      simp only [Except.ok.injEq, Prod.mk.injEq] at h
      obtain ⟨⟨_, rfl⟩, rfl⟩ := h
      exact ih _ _ _ _ _ _ _ hb
    cases ts with
    | nil =>
      simp only [Except.ok.injEq, Prod.mk.injEq] at h
      obtain ⟨⟨_, h'⟩, _⟩ := h
      cases h'
    | cons t r =>
      simp only at h
      by_cases hesc : (t.cat == TC.Escape) = true
      · rw [if_pos hesc] at h
        obtain ⟨⟨n, nargs⟩, ts', hc, h⟩ := Res.bind_eq_ok.mp h
        by_cases hend : (n.text == sEnd) = true
        · rw [if_pos hend] at h
          simp only [Except.ok.injEq, Prod.mk.injEq, Option.some.injEq] at h
          obtain ⟨⟨_, rfl⟩, rfl⟩ := h
          have hn : n.text = sEnd := by simpa using hend
          obtain ⟨r', _, rfl, _⟩ := readCommand_end hc hn
          exact ⟨t, n, r', f, ts', rfl, by simpa using hesc, hn, hc⟩
        · rw [if_neg hend] at h
          exact step t r h
      · rw [if_neg hesc] at h
        exact step t r h

/-- No reader function returns `Err.internal` at fuel `f` (`readExpr`: on a non-empty buffer). -/
def NoInternalAt (f : Nat) : Prop :=
  (∀ skip tol mode ts, ts ≠ [] → readExpr f skip tol mode ts ≠ .error .internal) ∧
  (∀ ts, readItem f ts ≠ .error .internal) ∧
  (∀ k pos tol ts, readMathEnv f k pos tol ts ≠ .error .internal) ∧
  (∀ k tol ts, readMathBody f k tol ts ≠ .error .internal) ∧
  (∀ name args pos skip tol mode ts, readEnv f name args pos skip tol mode ts ≠ .error .internal) ∧
  (∀ skip tol mode ts, readEnvBody f skip tol mode ts ≠ .error .internal) ∧
  (∀ nreq nopt tol mode ts, readCommand f nreq nopt tol mode ts ≠ .error .internal) ∧
  (∀ nreq nopt tol mode ts, readArgs f nreq nopt tol mode ts ≠ .error .internal) ∧
  (∀ n tol mode ts, readArgOpt f n tol mode ts ≠ .error .internal) ∧
  (∀ n tol mode ts, readArgReq f n tol mode ts ≠ .error .internal) ∧
  (∀ k pos tol mode ts, readArg f k pos tol mode ts ≠ .error .internal) ∧
  (∀ k tol mode ts, readArgBody f k tol mode ts ≠ .error .internal)

theorem noInternalAt_zero : NoInternalAt 0 := by
  refine ⟨?_, ?_, ?_, ?_, ?_, ?_, ?_, ?_, ?_, ?_, ?_, ?_⟩ <;> intros <;>
    simp [readExpr, readItem, readMathEnv, readMathBody, readEnv, readEnvBody, readCommand,
      readArgs, readArgOpt, readArgReq, readArg, readArgBody]

section
variable (f : Nat) (ih : NoInternalAt f)
include ih

theorem ni_readExpr : ∀ skip tol mode ts, ts ≠ [] →
    readExpr (f+1) skip tol mode ts ≠ .error .internal := by
  intro skip tol mode ts hne h
  obtain ⟨nE, nI, nME, nMB, nEnv, nEB, nC, nAs, nAO, nAR, nA, nAB⟩ := ih
  unfold readExpr at h
  cases ts with
  | nil => exact hne rfl
  | cons c ts =>
    simp only at h
    cases hk : mkindOfBegin c.cat with
    | some k =>
      rw [hk] at h
      simp only at h
      exact nME _ _ _ _ h
    | none =>
      rw [hk] at h
      simp only at h
      by_cases hesc : (c.cat == TC.Escape) = true
      · rw [if_pos hesc] at h
        rcases Res.bind_eq_error.mp h with h | ⟨na, ts1, hc, h⟩
        · exact nC _ _ _ _ _ h
        · by_cases hitem : (na.1.text == sItem) = true
          · rw [if_pos hitem] at h
            by_cases hm : (mode == Mode.math) = true
            · rw [if_pos hm] at h; cases h
            · rw [if_neg hm] at h
              rcases Res.bind_eq_error.mp h with h | ⟨body, ts2, hi, h⟩
              · exact nI _ h
              · cases h
          · rw [if_neg hitem] at h
            by_cases hb : (na.1.text == sBegin && mode != Mode.special) = true
            · rw [if_pos hb] at h
              cases hargs : na.2 with
              | nil => rw [hargs] at h; cases h
              | cons a0 as =>
                rw [hargs] at h
                simp only at h
                by_cases hs : memStr (strip a0.string) skip = true
                · rw [if_pos hs] at h
                  cases readSkipEnv_error h
                · rw [if_neg hs] at h
                  exact nEnv _ _ _ _ _ _ _ h
            · rw [if_neg hb] at h; cases h
      · rw [if_neg hesc] at h
        by_cases hg : (c.cat == TC.GroupBegin) = true
        · rw [if_pos hg] at h
          exact nA _ _ _ _ _ h
        · rw [if_neg hg] at h; cases h

theorem ni_readItem : ∀ ts, readItem (f+1) ts ≠ .error .internal := by
  intro ts h
  obtain ⟨nE, nI, nME, nMB, nEnv, nEB, nC, nAs, nAO, nAR, nA, nAB⟩ := ih
  unfold readItem at h
  have step : ∀ t r, ((readExpr f [] false .nonMath (t :: r)).bind fun e ts1 =>
        (readItem f ts1).bind fun es ts2 => .ok (e :: es, ts2)) ≠ .error .internal := by
    intro t r h
    rcases Res.bind_eq_error.mp h with h | ⟨e, ts1, he, h⟩
    · exact nE _ _ _ _ (List.cons_ne_nil _ _) h
    · rcases Res.bind_eq_error.mp h with h | ⟨es, ts2, hb, h⟩
      · exact nI _ h
      · cases h
  cases ts with
  | nil => cases h
  | cons t r =>
    simp only at h
    by_cases hesc : (t.cat == TC.Escape) = true
    · rw [if_pos hesc] at h
      rcases Res.bind_eq_error.mp h with h | ⟨na, ts', hc, h⟩
      · exact nC _ _ _ _ _ h
      · by_cases hend : (na.1.text == sEnd || na.1.text == sItem) = true
        · rw [if_pos hend] at h; cases h
        · rw [if_neg hend] at h
          exact step t r h
    · rw [if_neg hesc] at h
      by_cases hge : (t.cat == TC.GroupEnd) = true
      · rw [if_pos hge] at h; cases h
      · rw [if_neg hge] at h
        exact step t r h

theorem ni_readMathEnv : ∀ k pos tol ts, readMathEnv (f+1) k pos tol ts ≠ .error .internal := by
  intro k pos tol ts h
  obtain ⟨nE, nI, nME, nMB, nEnv, nEB, nC, nAs, nAO, nAR, nA, nAB⟩ := ih
  unfold readMathEnv at h
  rcases Res.bind_eq_error.mp h with h | ⟨body, ts1, hb, h⟩
  · exact nMB _ _ _ h
  · cases ts1 with
    | nil => cases h
    | cons t r =>
      simp only at h
      by_cases hend : (t.cat == k.tokEnd) = true
      · rw [if_pos hend] at h; cases h
      · rw [if_neg hend] at h; cases h

theorem ni_readMathBody : ∀ k tol ts, readMathBody (f+1) k tol ts ≠ .error .internal := by
  intro k tol ts h
  obtain ⟨nE, nI, nME, nMB, nEnv, nEB, nC, nAs, nAO, nAR, nA, nAB⟩ := ih
  unfold readMathBody at h
  cases ts with
  | nil => cases h
  | cons t r =>
    simp only at h
    by_cases hend : (t.cat == k.tokEnd) = true
    · rw [if_pos hend] at h; cases h
    · rw [if_neg hend] at h
      rcases Res.bind_eq_error.mp h with h | ⟨e, ts1, he, h⟩
      · exact nE _ _ _ _ (List.cons_ne_nil _ _) h
      · rcases Res.bind_eq_error.mp h with h | ⟨es, ts2, hb, h⟩
        · exact nMB _ _ _ h
        · cases h

theorem ni_readEnv : ∀ name args pos skip tol mode ts,
    readEnv (f+1) name args pos skip tol mode ts ≠ .error .internal := by
  intro name args pos skip tol mode ts h
  obtain ⟨nE, nI, nME, nMB, nEnv, nEB, nC, nAs, nAO, nAR, nA, nAB⟩ := ih
  unfold readEnv at h
  rcases Res.bind_eq_error.mp h with h | ⟨⟨body, ea⟩, ts1, hb, h⟩
  · exact nEB _ _ _ _ h
  · simp only at h
    by_cases herr : envError name ea = true
    · rw [if_pos herr] at h
      by_cases ht : tol = true
      · rw [if_pos ht] at h; cases h
      · rw [if_neg ht] at h; cases h
    · rw [if_neg herr] at h
      -- the loop stopped at a peeked `\end`, so the remainder starts with it
      obtain ⟨a0, as', rfl, _⟩ := envError_false (by simpa using herr)
      obtain ⟨esc, n, r, g, rest', rfl, _, _, _⟩ := readEnvBody_some _ _ _ _ _ _ _ _ hb
      simp only at h
      rcases Res.bind_eq_error.mp h with h | ⟨x, ts2, ha, h⟩
      · exact nC _ _ _ _ _ h
      · cases h

theorem ni_readEnvBody : ∀ skip tol mode ts, readEnvBody (f+1) skip tol mode ts ≠ .error .internal := by
  intro skip tol mode ts h
  obtain ⟨nE, nI, nME, nMB, nEnv, nEB, nC, nAs, nAO, nAR, nA, nAB⟩ := ih
  unfold readEnvBody at h
  have step : ∀ t r, ((readExpr f skip tol mode (t :: r)).bind fun e ts1 =>
        (readEnvBody f skip tol mode ts1).bind fun be ts2 => .ok ((e :: be.1, be.2), ts2))
        ≠ .error .internal := by
    intro t r h
    rcases Res.bind_eq_error.mp h with h | ⟨e, ts1, he, h⟩
    · exact nE _ _ _ _ (List.cons_ne_nil _ _) h
    · rcases Res.bind_eq_error.mp h with h | ⟨be, ts2, hb, h⟩
      · exact nEB _ _ _ _ h
      · cases h
  cases ts with
  | nil => cases h
  | cons t r =>
    simp only at h
    by_cases hesc : (t.cat == TC.Escape) = true
    · rw [if_pos hesc] at h
      rcases Res.bind_eq_error.mp h with h | ⟨na, ts', hc, h⟩
      · exact nC _ _ _ _ _ h
      · by_cases hend : (na.1.text == sEnd) = true
        · rw [if_pos hend] at h; cases h
        · rw [if_neg hend] at h
          exact step t r h
    · rw [if_neg hesc] at h
      exact step t r h

theorem ni_readCommand : ∀ nreq nopt tol mode ts,
    readCommand (f+1) nreq nopt tol mode ts ≠ .error .internal := by
  intro nreq nopt tol mode ts h
  obtain ⟨nE, nI, nME, nMB, nEnv, nEB, nC, nAs, nAO, nAR, nA, nAB⟩ := ih
  unfold readCommand at h
  cases ts with
  | nil =>
    simp only at h
    rcases Res.bind_eq_error.mp h with h | ⟨args, ts2, ha, h⟩
    · exact nAs _ _ _ _ _ h
    · cases h
  | cons n r =>
    simp only at h
    rcases Res.bind_eq_error.mp h with h | ⟨args, ts2, ha, h⟩
    · exact nAs _ _ _ _ _ h
    · cases h

theorem ni_readArgs : ∀ nreq nopt tol mode ts,
    readArgs (f+1) nreq nopt tol mode ts ≠ .error .internal := by
  intro nreq nopt tol mode ts h
  obtain ⟨nE, nI, nME, nMB, nEnv, nEB, nC, nAs, nAO, nAR, nA, nAB⟩ := ih
  unfold readArgs at h
  by_cases h0 : (nreq == 0 && nopt == 0) = true
  · rw [if_pos h0] at h; cases h
  · rw [if_neg h0] at h
    rcases Res.bind_eq_error.mp h with h | ⟨an1, ts1, h1, h⟩
    · exact nAO _ _ _ _ h
    rcases Res.bind_eq_error.mp h with h | ⟨an2, ts2, h2, h⟩
    · exact nAR _ _ _ _ h
    rcases Res.bind_eq_error.mp h with h | ⟨an3, ts3, h3, h⟩
    · by_cases hb : nextIs TC.BracketBegin ts2 = true
      · rw [if_pos hb] at h; exact nAO _ _ _ _ h
      · rw [if_neg hb] at h; cases h
    rcases Res.bind_eq_error.mp h with h | ⟨an4, ts4, h4, h⟩
    · by_cases hb : nextIs TC.GroupBegin ts3 = true
      · rw [if_pos hb] at h; exact nAR _ _ _ _ h
      · rw [if_neg hb] at h; cases h
    cases h

theorem ni_readArgOpt : ∀ n tol mode ts, readArgOpt (f+1) n tol mode ts ≠ .error .internal := by
  intro n tol mode ts h
  obtain ⟨nE, nI, nME, nMB, nEnv, nEB, nC, nAs, nAO, nAR, nA, nAB⟩ := ih
  unfold readArgOpt at h
  by_cases h0 : (n == 0) = true
  · rw [if_pos h0] at h; cases h
  · rw [if_neg h0] at h
    cases hs : (readSpacer ts).2 with
    | nil => rw [hs] at h; cases h
    | cons o r =>
      rw [hs] at h
      simp only at h
      by_cases hb : (o.cat == TC.BracketBegin) = true
      · rw [if_pos hb] at h
        rcases Res.bind_eq_error.mp h with h | ⟨g, ts1, hg, h⟩
        · exact nA _ _ _ _ _ h
        rcases Res.bind_eq_error.mp h with h | ⟨gn, ts2, hn, h⟩
        · exact nAO _ _ _ _ h
        cases h
      · rw [if_neg hb] at h; cases h

theorem ni_readArgReq : ∀ n tol mode ts, readArgReq (f+1) n tol mode ts ≠ .error .internal := by
  intro n tol mode ts h
  obtain ⟨nE, nI, nME, nMB, nEnv, nEB, nC, nAs, nAO, nAR, nA, nAB⟩ := ih
  unfold readArgReq at h
  by_cases h0 : (n == 0) = true
  · rw [if_pos h0] at h; cases h
  · rw [if_neg h0] at h
    cases hs : (readSpacer ts).2 with
    | nil => rw [hs] at h; cases h
    | cons o r =>
      rw [hs] at h
      simp only at h
      by_cases hb : (o.cat == TC.GroupBegin) = true
      · rw [if_pos hb] at h
        rcases Res.bind_eq_error.mp h with h | ⟨g, ts1, hg, h⟩
        · exact nA _ _ _ _ _ h
        rcases Res.bind_eq_error.mp h with h | ⟨gn, ts2, hn, h⟩
        · exact nAR _ _ _ _ h
        cases h
      · rw [if_neg hb] at h
        by_cases hpos : n > 0
        · rw [if_pos hpos] at h
          by_cases hesc : (o.cat == TC.Escape) = true
          · rw [if_pos hesc] at h
            rcases Res.bind_eq_error.mp h with h | ⟨na, ts1, hc, h⟩
            · exact nC _ _ _ _ _ h
            rcases Res.bind_eq_error.mp h with h | ⟨gn, ts2, hn, h⟩
            · exact nAR _ _ _ _ h
            cases h
          · rw [if_neg hesc] at h
            rcases Res.bind_eq_error.mp h with h | ⟨gn, ts2, hn, h⟩
            · exact nAR _ _ _ _ h
            cases h
        · rw [if_neg hpos] at h; cases h

theorem ni_readArg : ∀ k pos tol mode ts, readArg (f+1) k pos tol mode ts ≠ .error .internal := by
  intro k pos tol mode ts h
  obtain ⟨nE, nI, nME, nMB, nEnv, nEB, nC, nAs, nAO, nAR, nA, nAB⟩ := ih
  unfold readArg at h
  rcases Res.bind_eq_error.mp h with h | ⟨body, ts1, hb, h⟩
  · exact nAB _ _ _ _ h
  · cases h

theorem ni_readArgBody : ∀ k tol mode ts, readArgBody (f+1) k tol mode ts ≠ .error .internal := by
  intro k tol mode ts h
  obtain ⟨nE, nI, nME, nMB, nEnv, nEB, nC, nAs, nAO, nAR, nA, nAB⟩ := ih
  unfold readArgBody at h
  cases ts with
  | nil =>
    simp only at h
    by_cases ht : tol = true
    · rw [if_pos ht] at h; cases h
    · rw [if_neg ht] at h; cases h
  | cons t r =>
    simp only at h
    by_cases hend : (t.cat == k.tokEnd) = true
    · rw [if_pos hend] at h; cases h
    · rw [if_neg hend] at h
      rcases Res.bind_eq_error.mp h with h | ⟨e, ts1, he, h⟩
      · exact nE _ _ _ _ (List.cons_ne_nil _ _) h
      rcases Res.bind_eq_error.mp h with h | ⟨es, ts2, hb, h⟩
      · exact nAB _ _ _ _ h
      cases h

end

/-- No reader function ever returns `Err.internal`. -/
theorem noInternalAt (f : Nat) : NoInternalAt f := by
  induction f with
  | zero => exact noInternalAt_zero
  | succ f ih =>
    exact ⟨ni_readExpr f ih, ni_readItem f ih, ni_readMathEnv f ih, ni_readMathBody f ih,
      ni_readEnv f ih, ni_readEnvBody f ih, ni_readCommand f ih, ni_readArgs f ih,
      ni_readArgOpt f ih, ni_readArgReq f ih, ni_readArg f ih, ni_readArgBody f ih⟩

/-- `read_tex` never returns `Err.internal`. -/
theorem readTex_no_internal : ∀ f skip tol ts, readTex f skip tol ts ≠ .error .internal := by
  intro f
  induction f with
  | zero => intro skip tol ts h; simp [readTex] at h
  | succ f ih =>
    intro skip tol ts h
    unfold readTex at h
    cases ts with
    | nil => cases h
    | cons t r =>
      simp only at h
      cases he : readExpr f skip tol .nonMath (t :: r) with
      | error e =>
        rw [he] at h
        simp only [Except.error.injEq] at h
        subst h
        exact (noInternalAt f).1 _ _ _ _ (List.cons_ne_nil _ _) he
      | ok v =>
        obtain ⟨e, ts1⟩ := v
        rw [he] at h
        simp only at h
        cases hr : readTex f skip tol ts1 with
        | error e' =>
          rw [hr] at h
          simp only [Except.error.injEq] at h
          subst h
          exact ih _ _ _ hr
        | ok es' => rw [hr] at h; cases h

/-- `parse` never leaks an internal exception. -/
theorem parse_no_internal (tol : Bool) (skip : List Str) (s : Str) :
    parse tol skip s ≠ .error .internal := by
  intro h
  unfold parse at h
  cases ht : tokenize s with
  | none => rw [ht] at h; cases h
  | some ts =>
    rw [ht] at h
    exact readTex_no_internal _ _ _ _ h

end TexSoup
