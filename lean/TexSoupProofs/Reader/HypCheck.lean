import TexSoupProofs.Reader.ConsTop
/-!
# Decidable sufficient conditions for the hypothesis bundle `Hyp`, and consequences of `Del`
-/
namespace TexSoup

/-- every escape is followed (if at all) by a token that is its own `strip()` -/
def escOKB : List Tok → Bool
  | esc :: n :: r => (esc.cat != .Escape || strip n.text == n.text) && escOKB (n :: r)
  | _ => true

theorem escOKB_sound : ∀ ts, escOKB ts = true → ∀ pre esc n r, ts = pre ++ esc :: n :: r →
    esc.cat = .Escape → strip n.text = n.text := by
  intro ts
  induction ts with
  | nil => intro _ pre esc n r h; cases pre <;> simp at h
  | cons t r ih =>
    intro hb pre esc n r' h hesc
    cases r with
    | nil =>
      cases pre with
      | nil => simp at h
      | cons p pre' => cases pre' <;> simp at h
    | cons t2 r2 =>
      simp only [escOKB, Bool.and_eq_true, Bool.or_eq_true, bne_iff_ne, beq_iff_eq] at hb
      cases pre with
      | nil =>
        simp only [List.nil_append, List.cons.injEq] at h
        obtain ⟨rfl, rfl, rfl⟩ := h
        rcases hb.1 with h1 | h1
        · exact absurd hesc h1
        · exact h1
      | cons p pre' =>
        simp only [List.cons_append, List.cons.injEq] at h
        exact ih hb.2 pre' esc n r' h.2 hesc

/-- no token named `begin`/`end` directly after an escape (then `envPlain` is vacuous) -/
def noEnvB : List Tok → Bool
  | esc :: n :: r => (esc.cat != .Escape || (n.text != sBegin && n.text != sEnd)) && noEnvB (n :: r)
  | _ => true

theorem noEnvB_sound : ∀ ts, noEnvB ts = true → ∀ pre esc n r, ts = pre ++ esc :: n :: r →
    esc.cat = .Escape → ¬ (n.text = sBegin ∨ n.text = sEnd) := by
  intro ts
  induction ts with
  | nil => intro _ pre esc n r h; cases pre <;> simp at h
  | cons t r ih =>
    intro hb pre esc n r' h hesc
    cases r with
    | nil =>
      cases pre with
      | nil => simp at h
      | cons p pre' => cases pre' <;> simp at h
    | cons t2 r2 =>
      simp only [noEnvB, Bool.and_eq_true, Bool.or_eq_true, bne_iff_ne] at hb
      cases pre with
      | nil =>
        simp only [List.nil_append, List.cons.injEq] at h
        obtain ⟨rfl, rfl, rfl⟩ := h
        rcases hb.1 with h1 | h1
        · exact absurd hesc h1
        · rintro (h2 | h2)
          · exact h1.1 h2
          · exact h1.2 h2
      | cons p pre' =>
        simp only [List.cons_append, List.cons.injEq] at h
        exact ih hb.2 pre' esc n r' h.2 hesc

/-- no suffix spells an end marker of a skipped environment unless by five tokens -/
def skipPlainB (skip0 : List Str) : List Tok → Bool
  | [] => true
  | t :: r => skip0.all (fun name =>
      !bufStartsWith (endMarker name) (t :: r) || flat ((t :: r).take 5) == endMarker name)
      && skipPlainB skip0 r

theorem memStr_mem {x : Str} {l : List Str} (h : memStr x l = true) : x ∈ l := by
  induction l with
  | nil => simp [memStr] at h
  | cons a l ih =>
    simp only [memStr, Bool.or_eq_true, beq_iff_eq] at h
    rcases h with rfl | h
    · exact List.mem_cons_self
    · exact List.mem_cons_of_mem _ (ih h)

theorem bufStartsWith_nil_false (name : Str) : bufStartsWith (endMarker name) [] = false := by
  simp only [bufStartsWith, List.take_nil, TexSoup.flat, endMarker, strEnd, List.cons_append, isPrefix]

theorem skipPlainB_sound (skip0 : List Str) : ∀ ts, skipPlainB skip0 ts = true →
    ∀ name, memStr name skip0 = true → ∀ pre rest, ts = pre ++ rest →
      bufStartsWith (endMarker name) rest = true → flat (rest.take 5) = endMarker name := by
  intro ts
  induction ts with
  | nil =>
    intro _ name _ pre rest h hs
    have : rest = [] := by
      cases pre with
      | nil => exact h.symm
      | cons p pre' => cases h
    subst this
    rw [bufStartsWith_nil_false] at hs; cases hs
  | cons t r ih =>
    intro hb name hn pre rest h hs
    simp only [skipPlainB, Bool.and_eq_true, List.all_eq_true, Bool.or_eq_true,
      Bool.not_eq_true', beq_iff_eq] at hb
    cases pre with
    | nil =>
      simp only [List.nil_append] at h
      subst h
      rcases hb.1 name (memStr_mem hn) with h1 | h1
      · rw [h1] at hs; cases hs
      · exact h1
    | cons p pre' =>
      simp only [List.cons_append, List.cons.injEq] at h
      exact ih hb.2 name hn pre' rest h.2 hs

/-- A decidable sufficient condition for `Hyp` on a concrete token list without environments. -/
theorem Hyp.ofChecks {skip0 : List Str} {ts : List Tok} (h1 : ts.all shapedB = true)
    (h2 : escOKB ts = true) (h3 : noEnvB ts = true) (h4 : skipPlainB skip0 ts = true) :
    Hyp skip0 ts where
  shaped := fun t ht => List.all_eq_true.mp h1 t ht
  escOK := escOKB_sound ts h2
  envPlain := fun pre esc n r he hesc hn => absurd hn (noEnvB_sound ts h3 pre esc n r he hesc)
  skipPlain := skipPlainB_sound skip0 ts h4

/-! ### what a strict `Del` derivation says about characters -/

theorem Del.strict_sublist {a : List Tok} {x : Str} (h : Del false a x) : x.Sublist (TexSoup.flat a) := by
  induction h with
  | nil => exact List.Sublist.refl _
  | keep t _ ih => simpa [TexSoup.flat] using List.Sublist.append (List.Sublist.refl t.text) ih
  | drop t o _ _ _ ih =>
    simp only [TexSoup.flat] at ih ⊢
    exact ih.trans (List.sublist_append_right _ _)
  | ins s ht _ _ _ => cases ht

/-- No spacer before an opener anywhere: then nothing at all is removed. -/
def noSpacerBeforeOpener : List Tok → Bool
  | t :: o :: r => !(t.cat == .MergedSpacer && isOpener o) && noSpacerBeforeOpener (o :: r)
  | _ => true

theorem Del.strict_exact {a : List Tok} {x : Str} (h : Del false a x)
    (hn : noSpacerBeforeOpener a = true) : x = TexSoup.flat a := by
  induction h with
  | nil => rfl
  | @keep t ts out _ ih =>
    have : noSpacerBeforeOpener ts = true := by
      cases ts with
      | nil => rfl
      | cons o r => simp only [noSpacerBeforeOpener, Bool.and_eq_true] at hn; exact hn.2
    simp [TexSoup.flat, ih this]
  | drop t o hs ho _ _ =>
    simp only [noSpacerBeforeOpener, Bool.and_eq_true, Bool.not_eq_true', Bool.and_eq_false_iff] at hn
    rcases hn.1 with h1 | h1
    · simp [hs] at h1
    · rw [ho] at h1; cases h1
  | ins s ht _ _ _ => cases ht

end TexSoup
