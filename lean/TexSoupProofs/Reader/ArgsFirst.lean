import TexSoupProofs.Reader.ConsHelpers
/-!
# The first argument read by `read_args` with an open signature is the group right after
the optional spacer
-/
namespace TexSoup

theorem nextIs_readSpacer {c : TC} {r : List Tok} (hc : c ≠ .MergedSpacer)
    (h : nextIs c r = true) : ∃ o r3, (readSpacer r).2 = o :: r3 ∧ o.cat = c := by
  cases r with
  | nil => simp [nextIs] at h
  | cons t r' =>
    simp only [nextIs, beq_iff_eq] at h
    refine ⟨t, r', ?_, h⟩
    simp only [readSpacer]
    rw [if_neg]
    simp [h, hc]

theorem readArgOpt_first {g : Nat} {tol : Bool} {mode : Mode} {r : List Tok}
    {gs : List Expr} {n' : Int} {ts1 : List Tok}
    (h : readArgOpt g (-1) tol mode r = .ok ((gs, n'), ts1)) :
    (gs = [] ∧ ts1 = r ∧ n' = -1 ∧ ∀ o r3, (readSpacer r).2 = o :: r3 → o.cat ≠ .BracketBegin) ∨
    (∃ o r3 g' ts' a gs', (readSpacer r).2 = o :: r3 ∧ gkindOfBegin o.cat = some .bracket ∧
        readArg g' .bracket o.pos tol mode r3 = .ok (a, ts') ∧ gs = a :: gs') := by
  cases g with
  | zero => simp [readArgOpt] at h
  | succ g1 =>
    unfold readArgOpt at h
    rw [if_neg (by decide)] at h
    cases hs : (readSpacer r).2 with
    | nil =>
      rw [hs] at h
      simp only [Except.ok.injEq, Prod.mk.injEq] at h
      obtain ⟨⟨rfl, rfl⟩, rfl⟩ := h
      exact .inl ⟨rfl, rfl, rfl, by intro o r3 h'; cases h'⟩
    | cons o r3 =>
      rw [hs] at h
      simp only at h
      by_cases hb : (o.cat == TC.BracketBegin) = true
      · rw [if_pos hb] at h
        obtain ⟨a, ts', ha, h⟩ := Res.bind_eq_ok.mp h
        obtain ⟨gn, ts2, _, h⟩ := Res.bind_eq_ok.mp h
        simp only [Except.ok.injEq, Prod.mk.injEq] at h
        obtain ⟨⟨rfl, rfl⟩, rfl⟩ := h
        refine .inr ⟨o, r3, g1, ts', a, gn.1, rfl, ?_, ha, rfl⟩
        have : o.cat = TC.BracketBegin := by simpa using hb
        rw [this]; rfl
      · rw [if_neg hb] at h
        simp only [Except.ok.injEq, Prod.mk.injEq] at h
        obtain ⟨⟨rfl, rfl⟩, rfl⟩ := h
        refine .inl ⟨rfl, rfl, rfl, ?_⟩
        intro o' r3' h' hc
        simp only [List.cons.injEq] at h'
        obtain ⟨rfl, rfl⟩ := h'
        exact hb (by simpa using hc)

theorem readArgReq_first {g : Nat} {tol : Bool} {mode : Mode} {r : List Tok}
    {gs : List Expr} {n' : Int} {ts1 : List Tok}
    (h : readArgReq g (-1) tol mode r = .ok ((gs, n'), ts1)) :
    (gs = [] ∧ ts1 = r ∧ n' = -1 ∧ ∀ o r3, (readSpacer r).2 = o :: r3 → o.cat ≠ .GroupBegin) ∨
    (∃ o r3 g' ts' a gs', (readSpacer r).2 = o :: r3 ∧ gkindOfBegin o.cat = some .brace ∧
        readArg g' .brace o.pos tol mode r3 = .ok (a, ts') ∧ gs = a :: gs') := by
  cases g with
  | zero => simp [readArgReq] at h
  | succ g1 =>
    unfold readArgReq at h
    rw [if_neg (by decide)] at h
    cases hs : (readSpacer r).2 with
    | nil =>
      rw [hs] at h
      simp only [Except.ok.injEq, Prod.mk.injEq] at h
      obtain ⟨⟨rfl, rfl⟩, rfl⟩ := h
      exact .inl ⟨rfl, rfl, rfl, by intro o r3 h'; cases h'⟩
    | cons o r3 =>
      rw [hs] at h
      simp only at h
      by_cases hb : (o.cat == TC.GroupBegin) = true
      · rw [if_pos hb] at h
        obtain ⟨a, ts', ha, h⟩ := Res.bind_eq_ok.mp h
        obtain ⟨gn, ts2, _, h⟩ := Res.bind_eq_ok.mp h
        simp only [Except.ok.injEq, Prod.mk.injEq] at h
        obtain ⟨⟨rfl, rfl⟩, rfl⟩ := h
        refine .inr ⟨o, r3, g1, ts', a, gn.1, rfl, ?_, ha, rfl⟩
        have : o.cat = TC.GroupBegin := by simpa using hb
        rw [this]; rfl
      · rw [if_neg hb] at h
        rw [if_neg (by decide)] at h
        simp only [Except.ok.injEq, Prod.mk.injEq] at h
        obtain ⟨⟨rfl, rfl⟩, rfl⟩ := h
        refine .inl ⟨rfl, rfl, rfl, ?_⟩
        intro o' r3' h' hc
        simp only [List.cons.injEq] at h'
        obtain ⟨rfl, rfl⟩ := h'
        exact hb (by simpa using hc)

/-- If `read_args` with the open signature `(-1, -1)` returns at least one argument, the first
one is the group that `read_arg` reads right after the optional spacer. -/
theorem readArgs_first {g : Nat} {tol : Bool} {mode : Mode} {r : List Tok} {a0 : Expr}
    {as : List Expr} {rest : List Tok}
    (h : readArgs g (-1) (-1) tol mode r = .ok (a0 :: as, rest)) :
    ∃ o r3 k g' ts', (readSpacer r).2 = o :: r3 ∧ gkindOfBegin o.cat = some k ∧
      readArg g' k o.pos tol mode r3 = .ok (a0, ts') := by
  cases g with
  | zero => simp [readArgs] at h
  | succ g1 =>
    unfold readArgs at h
    rw [if_neg (by decide)] at h
    obtain ⟨an1, ts1, h1, h⟩ := Res.bind_eq_ok.mp h
    obtain ⟨an2, ts2, h2, h⟩ := Res.bind_eq_ok.mp h
    obtain ⟨an3, ts3, h3, h⟩ := Res.bind_eq_ok.mp h
    obtain ⟨an4, ts4, h4, h⟩ := Res.bind_eq_ok.mp h
    simp only [Except.ok.injEq, Prod.mk.injEq] at h
    obtain ⟨hargs, _⟩ := h
    obtain ⟨gs1, n1⟩ := an1
    rcases readArgOpt_first h1 with ⟨rfl, hts1, rfl, hno1⟩ | ⟨o, r3, g', ts', a, gs', hs, hk, ha, rfl⟩
    · obtain ⟨gs2, n2⟩ := an2
      subst hts1
      rcases readArgReq_first h2 with ⟨rfl, hts2, rfl, hno2⟩ | ⟨o, r3, g', ts', a, gs', hs, hk, ha, rfl⟩
      · -- nothing read by the first two phases: the last two read nothing either
        subst hts2
        have hb : nextIs TC.BracketBegin ts2 = false := by
          cases hn : nextIs TC.BracketBegin ts2 with
          | false => rfl
          | true =>
            obtain ⟨o, r3, hs, hc⟩ := nextIs_readSpacer (by decide) hn
            exact absurd hc (hno1 o r3 hs)
        rw [hb] at h3
        simp only [Bool.false_eq_true, if_false, Except.ok.injEq, Prod.mk.injEq] at h3
        obtain ⟨rfl, rfl⟩ := h3
        have hg : nextIs TC.GroupBegin ts2 = false := by
          cases hn : nextIs TC.GroupBegin ts2 with
          | false => rfl
          | true =>
            obtain ⟨o, r3, hs, hc⟩ := nextIs_readSpacer (by decide) hn
            exact absurd hc (hno2 o r3 hs)
        rw [hg] at h4
        simp only [Bool.false_eq_true, if_false, Except.ok.injEq, Prod.mk.injEq] at h4
        obtain ⟨rfl, rfl⟩ := h4
        simp at hargs
      · simp only [List.nil_append, List.cons_append, List.cons.injEq] at hargs
        obtain ⟨rfl, _⟩ := hargs
        exact ⟨o, r3, .brace, g', ts', hs, hk, ha⟩
    · simp only [List.cons_append, List.cons.injEq] at hargs
      obtain ⟨rfl, _⟩ := hargs
      exact ⟨o, r3, .bracket, g', ts', hs, hk, ha⟩

end TexSoup
