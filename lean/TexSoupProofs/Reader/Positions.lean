import TexSoupProofs.Reader.Progress
import TexSoupProofs.TokLemmas.Basic
/-!
# Every node's recorded position is the position of the first token it was read from

`Located all e`: for every node `x` of `e` (through arguments and bodies) with `0 ≤ x.pos`
there is a token `t ∈ all` with `t.pos = x.pos` whose text is a prefix of `str(x)`:

* a command or a named environment starts with its escape token `\`,
* a group or a math region with its opening delimiter,
* a text leaf read by `read_expr` *is* its token (`readExpr_text`); the single text child of
  a verbatim-like environment (`read_skip_env`) is the concatenation of several tokens and
  carries the position of the first one - or, if the environment is empty, the position of
  the `\` of `\end{name}` with the text `''`. For that one leaf the prefix statement is
  false, so text leaves are allowed to be empty (`TextAt`).

Nodes with position `-1` (the made-up brace group of a bare-token argument and the text in
it) are exempt.

Hypotheses: the tokens of the input are in `all` (`Sub`), and delimiter tokens of `all` carry
their delimiter text (`shapedB`, theorem `tokens_shaped`). No hypothesis on the token after an
escape is needed: the statement for a command only looks at the `\`.
-/
namespace TexSoup

/-! ## Statement -/

/-- A token of `all` is recorded at offset `p`, and `s` starts with its text
(nothing is claimed for `p = -1`). -/
def TokAt (all : List Tok) (p : Int) (s : Str) : Prop :=
  0 ≤ p → ∃ t ∈ all, (t.pos : Int) = p ∧ isPrefix t.text s = true

/-- The same for a text leaf, which may be empty (empty verbatim-like environment). -/
def TextAt (all : List Tok) (p : Int) (s : Str) : Prop :=
  0 ≤ p → ∃ t ∈ all, (t.pos : Int) = p ∧ (s = [] ∨ isPrefix t.text s = true)

mutual
/-- Every node of the tree with a non-negative position starts with the token of `all`
recorded at that position. -/
def Located (all : List Tok) : Expr → Prop
  | .text s p => TextAt all p s
  | .cmd n a b p => TokAt all p (ser (.cmd n a b p)) ∧ LocatedL all a ∧ LocatedL all b
  | .nenv n a b p => TokAt all p (ser (.nenv n a b p)) ∧ LocatedL all a ∧ LocatedL all b
  | .math k b p => TokAt all p (ser (.math k b p)) ∧ LocatedL all b
  | .group k b p => TokAt all p (ser (.group k b p)) ∧ LocatedL all b
def LocatedL (all : List Tok) : List Expr → Prop
  | [] => True
  | e :: es => Located all e ∧ LocatedL all es
end

mutual
/-- All nodes of a tree, the root node first, through arguments and bodies. -/
def subExprs : Expr → List Expr
  | .text s p => [.text s p]
  | .cmd n a b p => .cmd n a b p :: (subExprsL a ++ subExprsL b)
  | .nenv n a b p => .nenv n a b p :: (subExprsL a ++ subExprsL b)
  | .math k b p => .math k b p :: subExprsL b
  | .group k b p => .group k b p :: subExprsL b
def subExprsL : List Expr → List Expr
  | [] => []
  | e :: es => subExprs e ++ subExprsL es
end

/-- What `Located` says about one node. -/
def NodeAt (all : List Tok) (x : Expr) : Prop :=
  0 ≤ x.pos → ∃ t ∈ all, (t.pos : Int) = x.pos ∧ (ser x = [] ∨ isPrefix t.text (ser x) = true)

theorem TokAt.nodeAt {all : List Tok} {x : Expr} (h : TokAt all x.pos (ser x)) : NodeAt all x := by
  intro h0
  obtain ⟨t, ht, hp, hpre⟩ := h h0
  exact ⟨t, ht, hp, .inr hpre⟩

mutual
/-- `Located` node by node. -/
theorem Located.nodes {all : List Tok} : ∀ e, Located all e → ∀ x ∈ subExprs e, NodeAt all x
  | .text s p, h, x, hx => by
    simp only [subExprs, List.mem_singleton] at hx
    subst hx
    simp only [Located] at h
    exact h
  | .cmd n a b p, h, x, hx => by
    simp only [Located] at h
    simp only [subExprs, List.mem_cons, List.mem_append] at hx
    rcases hx with rfl | hx | hx
    · exact TokAt.nodeAt h.1
    · exact LocatedL.nodes a h.2.1 x hx
    · exact LocatedL.nodes b h.2.2 x hx
  | .nenv n a b p, h, x, hx => by
    simp only [Located] at h
    simp only [subExprs, List.mem_cons, List.mem_append] at hx
    rcases hx with rfl | hx | hx
    · exact TokAt.nodeAt h.1
    · exact LocatedL.nodes a h.2.1 x hx
    · exact LocatedL.nodes b h.2.2 x hx
  | .math k b p, h, x, hx => by
    simp only [Located] at h
    simp only [subExprs, List.mem_cons] at hx
    rcases hx with rfl | hx
    · exact TokAt.nodeAt h.1
    · exact LocatedL.nodes b h.2 x hx
  | .group k b p, h, x, hx => by
    simp only [Located] at h
    simp only [subExprs, List.mem_cons] at hx
    rcases hx with rfl | hx
    · exact TokAt.nodeAt h.1
    · exact LocatedL.nodes b h.2 x hx
theorem LocatedL.nodes {all : List Tok} : ∀ es, LocatedL all es → ∀ x ∈ subExprsL es, NodeAt all x
  | [], _, x, hx => by simp [subExprsL] at hx
  | e :: es, h, x, hx => by
    simp only [LocatedL] at h
    simp only [subExprsL, List.mem_append] at hx
    rcases hx with hx | hx
    · exact Located.nodes e h.1 x hx
    · exact LocatedL.nodes es h.2 x hx
end

/-- Only a text leaf can be empty. -/
theorem ser_eq_nil {x : Expr} (h : ser x = []) : ∃ p, x = .text [] p := by
  cases x with
  | text s p => simp only [ser] at h; subst h; exact ⟨p, rfl⟩
  | cmd n a b p => simp [ser] at h
  | nenv n a b p => simp [ser, strBegin] at h
  | math k b p => cases k <;> simp [ser, MKind.open] at h
  | group k b p => cases k <;> simp [ser, GKind.open] at h

theorem LocatedL_cons {all : List Tok} {e : Expr} {es : List Expr} :
    LocatedL all (e :: es) ↔ Located all e ∧ LocatedL all es := by
  simp only [LocatedL]

theorem LocatedL_nil {all : List Tok} : LocatedL all [] := by
  simp only [LocatedL]

theorem LocatedL_append {all : List Tok} {a b : List Expr} (ha : LocatedL all a)
    (hb : LocatedL all b) : LocatedL all (a ++ b) := by
  induction a with
  | nil => exact hb
  | cons e es ih =>
    obtain ⟨h1, h2⟩ := LocatedL_cons.1 ha
    exact LocatedL_cons.2 ⟨h1, ih h2⟩

/-! ## Helpers -/

theorem isPrefix_append_self (a b : Str) : isPrefix a (a ++ b) = true :=
  isPrefix_iff.2 ⟨b, rfl⟩

theorem isPrefix_self (a : Str) : isPrefix a a = true :=
  isPrefix_iff.2 ⟨[], by simp⟩

theorem isPrefix_single_cons (c : Ch) (l : Str) : isPrefix [c] (c :: l) = true := by
  simp [isPrefix]

/-- nothing is claimed at position `-1` -/
theorem TokAt.neg {all : List Tok} {s : Str} : TokAt all (-1) s := fun h => absurd h (by decide)
theorem TextAt.neg {all : List Tok} {s : Str} : TextAt all (-1) s := fun h => absurd h (by decide)

theorem TokAt.of_tok {all : List Tok} {c : Tok} {s : Str} (hc : c ∈ all)
    (h : isPrefix c.text s = true) : TokAt all c.pos s := fun _ => ⟨c, hc, rfl, h⟩

/-- the tokens of `ts` are among `all` -/
def Sub (ts all : List Tok) : Prop := ∀ t ∈ ts, t ∈ all

theorem Sub.refl (ts : List Tok) : Sub ts ts := fun _ h => h

theorem Sub.of_suf {ts rest all : List Tok} (h : Suf ts rest) (hs : Sub ts all) : Sub rest all := by
  obtain ⟨c, rfl⟩ := h
  exact fun t ht => hs t (List.mem_append_right c ht)

theorem Sub.tail {t : Tok} {ts all : List Tok} (hs : Sub (t :: ts) all) : Sub ts all :=
  fun x hx => hs x (List.mem_cons_of_mem t hx)

theorem Sub.head {t : Tok} {ts all : List Tok} (hs : Sub (t :: ts) all) : t ∈ all :=
  hs t (List.mem_cons_self ..)

theorem Sub.afterSpacer {ts all : List Tok} {o : Tok} {r : List Tok} (hs : Sub ts all)
    (h : (readSpacer ts).2 = o :: r) : Sub (o :: r) all := by
  have := readSpacer_suf ts
  rw [h] at this
  exact Sub.of_suf this hs

/-- the escape token opens a command -/
theorem tokAt_cmd {all : List Tok} {c : Tok} (hc : c ∈ all) (hsh : shapedB c = true)
    (hesc : (c.cat == TC.Escape) = true) (n : Str) (a b : List Expr) :
    TokAt all c.pos (ser (.cmd n a b c.pos)) := by
  refine TokAt.of_tok hc ?_
  rw [text_of_escape hsh hesc]
  simp only [ser]
  exact isPrefix_single_cons _ _

/-- the escape token opens a named environment -/
theorem tokAt_nenv {all : List Tok} {c : Tok} (hc : c ∈ all) (hsh : shapedB c = true)
    (hesc : (c.cat == TC.Escape) = true) (n : Str) (a b : List Expr) :
    TokAt all c.pos (ser (.nenv n a b c.pos)) := by
  refine TokAt.of_tok hc ?_
  rw [text_of_escape hsh hesc]
  simp only [ser, strBegin, List.cons_append]
  exact isPrefix_single_cons _ _

/-- the opening delimiter opens a group -/
theorem tokAt_group {all : List Tok} {c : Tok} {k : GKind} (hc : c ∈ all) (hsh : shapedB c = true)
    (hk : gkindOfBegin c.cat = some k) (b : List Expr) :
    TokAt all c.pos (ser (.group k b c.pos)) := by
  refine TokAt.of_tok hc ?_
  rw [text_of_gkindBegin hsh hk]
  simp only [ser]
  exact isPrefix_append_self _ _

/-- the opening delimiter opens a math region -/
theorem tokAt_math {all : List Tok} {c : Tok} {k : MKind} (hc : c ∈ all) (hsh : shapedB c = true)
    (hk : mkindOfBegin c.cat = some k) (b : List Expr) :
    TokAt all c.pos (ser (.math k b c.pos)) := by
  refine TokAt.of_tok hc ?_
  rw [text_of_mkindBegin hsh hk]
  simp only [ser]
  exact isPrefix_append_self _ _

theorem gkind_of_groupBegin {c : Tok} (h : (c.cat == TC.GroupBegin) = true) :
    gkindOfBegin c.cat = some .brace := by
  have : c.cat = TC.GroupBegin := by simpa using h
  rw [this]; rfl

theorem gkind_of_bracketBegin {c : Tok} (h : (c.cat == TC.BracketBegin) = true) :
    gkindOfBegin c.cat = some .bracket := by
  have : c.cat = TC.BracketBegin := by simpa using h
  rw [this]; rfl

/-- The body of a verbatim-like environment is empty or starts with the first token. -/
theorem skipBody_head (m : Str) (t : Tok) (r b rest : List Tok)
    (h : skipBody m (t :: r) = (b, rest)) : flat b = [] ∨ isPrefix t.text (flat b) = true := by
  unfold skipBody at h
  by_cases hs : bufStartsWith m (t :: r) = true
  · rw [if_pos hs] at h
    simp only [Prod.mk.injEq] at h
    obtain ⟨rfl, _⟩ := h
    exact .inl rfl
  · rw [if_neg hs] at h
    cases hb : skipBody m r with
    | mk b' rest' =>
      rw [hb] at h
      simp only [Prod.mk.injEq] at h
      obtain ⟨rfl, _⟩ := h
      exact .inr (isPrefix_append_self _ _)

/-- `read_skip_env`: one text child, recorded at the first token after the opening. -/
theorem readSkipEnv_located {all : List Tok} {name : Str} {args : List Expr} {pos : Int}
    {ts : List Tok} {e : Expr} {rest : List Tok}
    (h : readSkipEnv name args pos ts = .ok (e, rest)) (hsub : Sub ts all) :
    ∃ body bpos, e = .nenv name args [.text body bpos] pos ∧ TextAt all bpos body := by
  unfold readSkipEnv at h
  cases hb : skipBody (endMarker name) ts with
  | mk b r =>
    rw [hb] at h
    simp only at h
    by_cases hs : bufStartsWith (endMarker name) r = true
    · rw [if_pos hs] at h
      simp only [Except.ok.injEq, Prod.mk.injEq] at h
      obtain ⟨rfl, _⟩ := h
      refine ⟨_, _, rfl, ?_⟩
      cases ts with
      | nil => exact TextAt.neg
      | cons t r' =>
        simp only
        exact fun _ => ⟨t, hsub.head, rfl, skipBody_head _ _ _ _ _ hb⟩
    · rw [if_neg hs] at h; cases h

/-- A text leaf returned by `read_expr` is exactly its token: text and position. -/
theorem readExpr_text {f : Nat} {skip : List Str} {tol : Bool} {mode : Mode} {ts : List Tok}
    {s : Str} {p : Int} {rest : List Tok}
    (h : readExpr f skip tol mode ts = .ok (.text s p, rest)) :
    ∃ c, ts = c :: rest ∧ s = c.text ∧ p = (c.pos : Int) := by
  cases f with
  | zero => simp [readExpr] at h
  | succ f =>
    unfold readExpr at h
    cases ts with
    | nil => cases h
    | cons c ts =>
      simp only at h
      cases hk : mkindOfBegin c.cat with
      | some k =>
        rw [hk] at h
        simp only at h
        cases f with
        | zero => simp [readMathEnv] at h
        | succ g =>
          unfold readMathEnv at h
          obtain ⟨body, ts1, hb, h⟩ := Res.bind_eq_ok.mp h
          cases ts1 with
          | nil => cases h
          | cons t r =>
            simp only at h
            by_cases hend : (t.cat == k.tokEnd) = true
            · rw [if_pos hend] at h
              simp only [Except.ok.injEq, Prod.mk.injEq, reduceCtorEq, false_and] at h
            · rw [if_neg hend] at h; cases h
      | none =>
        rw [hk] at h
        simp only at h
        by_cases hesc : (c.cat == TC.Escape) = true
        · rw [if_pos hesc] at h
          obtain ⟨na, ts1, hc, h⟩ := Res.bind_eq_ok.mp h
          by_cases hitem : (na.1.text == sItem) = true
          · rw [if_pos hitem] at h
            by_cases hm : (mode == Mode.math) = true
            · rw [if_pos hm] at h; cases h
            · rw [if_neg hm] at h
              obtain ⟨body, ts2, hi, h⟩ := Res.bind_eq_ok.mp h
              simp only [Except.ok.injEq, Prod.mk.injEq, reduceCtorEq, false_and] at h
          · rw [if_neg hitem] at h
            by_cases hb : (na.1.text == sBegin && mode != Mode.special) = true
            · rw [if_pos hb] at h
              cases hna : na.2 with
              | nil => rw [hna] at h; cases h
              | cons a0 as =>
                rw [hna] at h
                simp only at h
                by_cases hs : memStr (strip a0.string) skip = true
                · rw [if_pos hs] at h
                  obtain ⟨body, bpos, he, _⟩ := readSkipEnv_located (all := ts1) h (Sub.refl _)
                  cases he
                · rw [if_neg hs] at h
                  cases f with
                  | zero => simp [readEnv] at h
                  | succ g =>
                    unfold readEnv at h
                    obtain ⟨be, ts2, hb2, h⟩ := Res.bind_eq_ok.mp h
                    by_cases herr : envError (strip a0.string) be.2 = true
                    · rw [if_pos herr] at h
                      by_cases ht : tol = true
                      · rw [if_pos ht] at h
                        simp only [Except.ok.injEq, Prod.mk.injEq, reduceCtorEq, false_and] at h
                      · rw [if_neg ht] at h; cases h
                    · rw [if_neg herr] at h
                      cases ts2 with
                      | nil => cases h
                      | cons t1 r1 =>
                        simp only at h
                        obtain ⟨na', ts3, hc3, h⟩ := Res.bind_eq_ok.mp h
                        simp only [Except.ok.injEq, Prod.mk.injEq, reduceCtorEq, false_and] at h
            · rw [if_neg hb] at h
              simp only [Except.ok.injEq, Prod.mk.injEq, reduceCtorEq, false_and] at h
        · rw [if_neg hesc] at h
          by_cases hg : (c.cat == TC.GroupBegin) = true
          · rw [if_pos hg] at h
            cases f with
            | zero => simp [readArg] at h
            | succ g =>
              unfold readArg at h
              obtain ⟨body, ts1, hb, h⟩ := Res.bind_eq_ok.mp h
              simp only [Except.ok.injEq, Prod.mk.injEq, reduceCtorEq, false_and] at h
          · rw [if_neg hg] at h
            simp only [Except.ok.injEq, Prod.mk.injEq, Expr.text.injEq] at h
            obtain ⟨⟨rfl, rfl⟩, rfl⟩ := h
            exact ⟨c, rfl, rfl, rfl⟩

/-! ## The invariant -/

/-- The position invariant for every reader function at fuel `f`. -/
def LocAt (all : List Tok) (f : Nat) : Prop :=
  (∀ skip tol mode ts e rest, readExpr f skip tol mode ts = .ok (e, rest) → Sub ts all →
      Located all e) ∧
  (∀ ts es rest, readItem f ts = .ok (es, rest) → Sub ts all → LocatedL all es) ∧
  (∀ k pos tol ts e rest, readMathEnv f k pos tol ts = .ok (e, rest) → Sub ts all →
      ∃ body, e = .math k body pos ∧ LocatedL all body) ∧
  (∀ k tol ts es rest, readMathBody f k tol ts = .ok (es, rest) → Sub ts all → LocatedL all es) ∧
  (∀ name args pos skip tol mode ts e rest,
      readEnv f name args pos skip tol mode ts = .ok (e, rest) → Sub ts all →
      ∃ body, e = .nenv name args body pos ∧ LocatedL all body) ∧
  (∀ skip tol mode ts be rest, readEnvBody f skip tol mode ts = .ok (be, rest) → Sub ts all →
      LocatedL all be.1) ∧
  (∀ nreq nopt tol mode ts na rest, readCommand f nreq nopt tol mode ts = .ok (na, rest) →
      Sub ts all → LocatedL all na.2) ∧
  (∀ nreq nopt tol mode ts args rest, readArgs f nreq nopt tol mode ts = .ok (args, rest) →
      Sub ts all → LocatedL all args) ∧
  (∀ n tol mode ts gn rest, readArgOpt f n tol mode ts = .ok (gn, rest) → Sub ts all →
      LocatedL all gn.1) ∧
  (∀ n tol mode ts gn rest, readArgReq f n tol mode ts = .ok (gn, rest) → Sub ts all →
      LocatedL all gn.1) ∧
  (∀ k pos tol mode ts e rest, readArg f k pos tol mode ts = .ok (e, rest) → Sub ts all →
      ∃ body, e = .group k body pos ∧ LocatedL all body) ∧
  (∀ k tol mode ts es rest, readArgBody f k tol mode ts = .ok (es, rest) → Sub ts all →
      LocatedL all es)

theorem locAt_zero (all : List Tok) : LocAt all 0 := by
  refine ⟨?_, ?_, ?_, ?_, ?_, ?_, ?_, ?_, ?_, ?_, ?_, ?_⟩ <;> intros <;>
    simp_all [readExpr, readItem, readMathEnv, readMathBody, readEnv, readEnvBody, readCommand,
      readArgs, readArgOpt, readArgReq, readArg, readArgBody]

section
variable (all : List Tok) (hall : ∀ t ∈ all, shapedB t = true) (f : Nat) (ih : LocAt all f)
include ih

include hall in
theorem lc_readExpr : ∀ skip tol mode ts e rest, readExpr (f+1) skip tol mode ts = .ok (e, rest) →
    Sub ts all → Located all e := by
  intro skip tol mode ts e rest h hsub
  obtain ⟨lE, lI, lME, lMB, lEnv, lEB, lC, lAs, lAO, lAR, lA, lAB⟩ := ih
  unfold readExpr at h
  cases ts with
  | nil => cases h
  | cons c ts =>
    simp only at h
    have hc : c ∈ all := hsub.head
    have hsc : shapedB c = true := hall c hc
    cases hk : mkindOfBegin c.cat with
    | some k =>
      rw [hk] at h
      simp only at h
      obtain ⟨body, rfl, hbody⟩ := lME _ _ _ _ _ _ h hsub.tail
      simp only [Located]
      exact ⟨tokAt_math hc hsc hk body, hbody⟩
    | none =>
      rw [hk] at h
      simp only at h
      by_cases hesc : (c.cat == TC.Escape) = true
      · rw [if_pos hesc] at h
        obtain ⟨na, ts1, hcm, h⟩ := Res.bind_eq_ok.mp h
        have hargs : LocatedL all na.2 := lC _ _ _ _ _ _ _ hcm hsub.tail
        have hsub1 : Sub ts1 all := Sub.of_suf (readCommand_suf hcm) hsub.tail
        by_cases hitem : (na.1.text == sItem) = true
        · rw [if_pos hitem] at h
          by_cases hm : (mode == Mode.math) = true
          · rw [if_pos hm] at h; cases h
          · rw [if_neg hm] at h
            obtain ⟨body, ts2, hi, h⟩ := Res.bind_eq_ok.mp h
            simp only [Except.ok.injEq, Prod.mk.injEq] at h
            obtain ⟨rfl, _⟩ := h
            simp only [Located]
            exact ⟨tokAt_cmd hc hsc hesc _ _ _, hargs, lI _ _ _ hi hsub1⟩
        · rw [if_neg hitem] at h
          by_cases hb : (na.1.text == sBegin && mode != Mode.special) = true
          · rw [if_pos hb] at h
            cases hna : na.2 with
            | nil => rw [hna] at h; cases h
            | cons a0 as =>
              rw [hna] at h hargs
              simp only at h
              have has : LocatedL all as := (LocatedL_cons.1 hargs).2
              by_cases hs : memStr (strip a0.string) skip = true
              · rw [if_pos hs] at h
                obtain ⟨body, bpos, rfl, htext⟩ := readSkipEnv_located h hsub1
                simp only [Located, LocatedL, and_true]
                exact ⟨tokAt_nenv hc hsc hesc _ _ _, has, htext⟩
              · rw [if_neg hs] at h
                obtain ⟨body, rfl, hbody⟩ := lEnv _ _ _ _ _ _ _ _ _ h hsub1
                simp only [Located]
                exact ⟨tokAt_nenv hc hsc hesc _ _ _, has, hbody⟩
          · rw [if_neg hb] at h
            simp only [Except.ok.injEq, Prod.mk.injEq] at h
            obtain ⟨rfl, _⟩ := h
            simp only [Located]
            exact ⟨tokAt_cmd hc hsc hesc _ _ _, hargs, LocatedL_nil⟩
      · rw [if_neg hesc] at h
        by_cases hg : (c.cat == TC.GroupBegin) = true
        · rw [if_pos hg] at h
          obtain ⟨body, rfl, hbody⟩ := lA _ _ _ _ _ _ _ h hsub.tail
          simp only [Located]
          exact ⟨tokAt_group hc hsc (gkind_of_groupBegin hg) body, hbody⟩
        · rw [if_neg hg] at h
          simp only [Except.ok.injEq, Prod.mk.injEq] at h
          obtain ⟨rfl, _⟩ := h
          simp only [Located]
          exact fun _ => ⟨c, hc, rfl, .inr (isPrefix_self _)⟩

theorem lc_readItem : ∀ ts es rest, readItem (f+1) ts = .ok (es, rest) → Sub ts all →
    LocatedL all es := by
  intro ts es rest h hsub
  obtain ⟨lE, lI, lME, lMB, lEnv, lEB, lC, lAs, lAO, lAR, lA, lAB⟩ := ih
  unfold readItem at h
  have step : ∀ t r, Sub (t :: r) all → ((readExpr f [] false .nonMath (t :: r)).bind fun e ts1 =>
        (readItem f ts1).bind fun es ts2 => .ok (e :: es, ts2)) = .ok (es, rest) →
      LocatedL all es := by
    intro t r hsub h
    obtain ⟨e, ts1, he, h⟩ := Res.bind_eq_ok.mp h
    obtain ⟨es', ts2, hb, h⟩ := Res.bind_eq_ok.mp h
    simp only [Except.ok.injEq, Prod.mk.injEq] at h
    obtain ⟨rfl, _⟩ := h
    exact LocatedL_cons.2 ⟨lE _ _ _ _ _ _ he hsub,
      lI _ _ _ hb (Sub.of_suf (readExpr_ssuf he).suf hsub)⟩
  cases ts with
  | nil =>
    simp only [Except.ok.injEq, Prod.mk.injEq] at h
    obtain ⟨rfl, _⟩ := h
    exact LocatedL_nil
  | cons t r =>
    simp only at h
    by_cases hesc : (t.cat == TC.Escape) = true
    · rw [if_pos hesc] at h
      obtain ⟨na, ts', hc, h⟩ := Res.bind_eq_ok.mp h
      by_cases hend : (na.1.text == sEnd || na.1.text == sItem) = true
      · rw [if_pos hend] at h
        simp only [Except.ok.injEq, Prod.mk.injEq] at h
        obtain ⟨rfl, _⟩ := h
        exact LocatedL_nil
      · rw [if_neg hend] at h
        exact step t r hsub h
    · rw [if_neg hesc] at h
      by_cases hge : (t.cat == TC.GroupEnd) = true
      · rw [if_pos hge] at h
        simp only [Except.ok.injEq, Prod.mk.injEq] at h
        obtain ⟨rfl, _⟩ := h
        exact LocatedL_nil
      · rw [if_neg hge] at h
        exact step t r hsub h

theorem lc_readMathEnv : ∀ k pos tol ts e rest, readMathEnv (f+1) k pos tol ts = .ok (e, rest) →
    Sub ts all → ∃ body, e = .math k body pos ∧ LocatedL all body := by
  intro k pos tol ts e rest h hsub
  obtain ⟨lE, lI, lME, lMB, lEnv, lEB, lC, lAs, lAO, lAR, lA, lAB⟩ := ih
  unfold readMathEnv at h
  obtain ⟨body, ts1, hb, h⟩ := Res.bind_eq_ok.mp h
  cases ts1 with
  | nil => cases h
  | cons t r =>
    simp only at h
    by_cases hend : (t.cat == k.tokEnd) = true
    · rw [if_pos hend] at h
      simp only [Except.ok.injEq, Prod.mk.injEq] at h
      obtain ⟨rfl, _⟩ := h
      exact ⟨body, rfl, lMB _ _ _ _ _ hb hsub⟩
    · rw [if_neg hend] at h; cases h

theorem lc_readMathBody : ∀ k tol ts es rest, readMathBody (f+1) k tol ts = .ok (es, rest) →
    Sub ts all → LocatedL all es := by
  intro k tol ts es rest h hsub
  obtain ⟨lE, lI, lME, lMB, lEnv, lEB, lC, lAs, lAO, lAR, lA, lAB⟩ := ih
  unfold readMathBody at h
  cases ts with
  | nil =>
    simp only [Except.ok.injEq, Prod.mk.injEq] at h
    obtain ⟨rfl, _⟩ := h
    exact LocatedL_nil
  | cons t r =>
    simp only at h
    by_cases hend : (t.cat == k.tokEnd) = true
    · rw [if_pos hend] at h
      simp only [Except.ok.injEq, Prod.mk.injEq] at h
      obtain ⟨rfl, _⟩ := h
      exact LocatedL_nil
    · rw [if_neg hend] at h
      obtain ⟨e, ts1, he, h⟩ := Res.bind_eq_ok.mp h
      obtain ⟨es', ts2, hb, h⟩ := Res.bind_eq_ok.mp h
      simp only [Except.ok.injEq, Prod.mk.injEq] at h
      obtain ⟨rfl, _⟩ := h
      exact LocatedL_cons.2 ⟨lE _ _ _ _ _ _ he hsub,
        lMB _ _ _ _ _ hb (Sub.of_suf (readExpr_ssuf he).suf hsub)⟩

theorem lc_readEnv : ∀ name args pos skip tol mode ts e rest,
    readEnv (f+1) name args pos skip tol mode ts = .ok (e, rest) → Sub ts all →
    ∃ body, e = .nenv name args body pos ∧ LocatedL all body := by
  intro name args pos skip tol mode ts e rest h hsub
  obtain ⟨lE, lI, lME, lMB, lEnv, lEB, lC, lAs, lAO, lAR, lA, lAB⟩ := ih
  unfold readEnv at h
  obtain ⟨be, ts1, hb, h⟩ := Res.bind_eq_ok.mp h
  have hbody : LocatedL all be.1 := lEB _ _ _ _ _ _ hb hsub
  by_cases herr : envError name be.2 = true
  · rw [if_pos herr] at h
    by_cases ht : tol = true
    · rw [if_pos ht] at h
      simp only [Except.ok.injEq, Prod.mk.injEq] at h
      obtain ⟨rfl, _⟩ := h
      exact ⟨_, rfl, hbody⟩
    · rw [if_neg ht] at h; cases h
  · rw [if_neg herr] at h
    cases ts1 with
    | nil => cases h
    | cons t1 r1 =>
      simp only at h
      obtain ⟨na, ts2, hc, h⟩ := Res.bind_eq_ok.mp h
      simp only [Except.ok.injEq, Prod.mk.injEq] at h
      obtain ⟨rfl, _⟩ := h
      exact ⟨_, rfl, hbody⟩

theorem lc_readEnvBody : ∀ skip tol mode ts be rest,
    readEnvBody (f+1) skip tol mode ts = .ok (be, rest) → Sub ts all → LocatedL all be.1 := by
  intro skip tol mode ts be rest h hsub
  obtain ⟨lE, lI, lME, lMB, lEnv, lEB, lC, lAs, lAO, lAR, lA, lAB⟩ := ih
  unfold readEnvBody at h
  have step : ∀ t r, Sub (t :: r) all → ((readExpr f skip tol mode (t :: r)).bind fun e ts1 =>
        (readEnvBody f skip tol mode ts1).bind fun be ts2 => .ok ((e :: be.1, be.2), ts2))
        = .ok (be, rest) → LocatedL all be.1 := by
    intro t r hsub h
    obtain ⟨e, ts1, he, h⟩ := Res.bind_eq_ok.mp h
    obtain ⟨be', ts2, hb, h⟩ := Res.bind_eq_ok.mp h
    simp only [Except.ok.injEq, Prod.mk.injEq] at h
    obtain ⟨rfl, _⟩ := h
    exact LocatedL_cons.2 ⟨lE _ _ _ _ _ _ he hsub,
      lEB _ _ _ _ _ _ hb (Sub.of_suf (readExpr_ssuf he).suf hsub)⟩
  cases ts with
  | nil =>
    simp only [Except.ok.injEq, Prod.mk.injEq] at h
    obtain ⟨rfl, _⟩ := h
    exact LocatedL_nil
  | cons t r =>
    simp only at h
    by_cases hesc : (t.cat == TC.Escape) = true
    · rw [if_pos hesc] at h
      obtain ⟨na, ts', hc, h⟩ := Res.bind_eq_ok.mp h
      by_cases hend : (na.1.text == sEnd) = true
      · rw [if_pos hend] at h
        simp only [Except.ok.injEq, Prod.mk.injEq] at h
        obtain ⟨rfl, _⟩ := h
        exact LocatedL_nil
      · rw [if_neg hend] at h
        exact step t r hsub h
    · rw [if_neg hesc] at h
      exact step t r hsub h

theorem lc_readCommand : ∀ nreq nopt tol mode ts na rest,
    readCommand (f+1) nreq nopt tol mode ts = .ok (na, rest) → Sub ts all →
    LocatedL all na.2 := by
  intro nreq nopt tol mode ts na rest h hsub
  obtain ⟨lE, lI, lME, lMB, lEnv, lEB, lC, lAs, lAO, lAR, lA, lAB⟩ := ih
  unfold readCommand at h
  cases ts with
  | nil =>
    simp only at h
    obtain ⟨args', ts2, ha, h⟩ := Res.bind_eq_ok.mp h
    simp only [Except.ok.injEq, Prod.mk.injEq] at h
    obtain ⟨rfl, _⟩ := h
    exact lAs _ _ _ _ _ _ _ ha hsub
  | cons n r =>
    simp only at h
    obtain ⟨args', ts2, ha, h⟩ := Res.bind_eq_ok.mp h
    simp only [Except.ok.injEq, Prod.mk.injEq] at h
    obtain ⟨rfl, _⟩ := h
    exact lAs _ _ _ _ _ _ _ ha hsub.tail

theorem lc_readArgs : ∀ nreq nopt tol mode ts args rest,
    readArgs (f+1) nreq nopt tol mode ts = .ok (args, rest) → Sub ts all → LocatedL all args := by
  intro nreq nopt tol mode ts args rest h hsub
  obtain ⟨lE, lI, lME, lMB, lEnv, lEB, lC, lAs, lAO, lAR, lA, lAB⟩ := ih
  unfold readArgs at h
  by_cases h0 : (nreq == 0 && nopt == 0) = true
  · rw [if_pos h0] at h
    simp only [Except.ok.injEq, Prod.mk.injEq] at h
    obtain ⟨rfl, _⟩ := h
    exact LocatedL_nil
  · rw [if_neg h0] at h
    obtain ⟨an1, ts1, h1, h⟩ := Res.bind_eq_ok.mp h
    obtain ⟨an2, ts2, h2, h⟩ := Res.bind_eq_ok.mp h
    obtain ⟨an3, ts3, h3, h⟩ := Res.bind_eq_ok.mp h
    obtain ⟨an4, ts4, h4, h⟩ := Res.bind_eq_ok.mp h
    simp only [Except.ok.injEq, Prod.mk.injEq] at h
    obtain ⟨rfl, _⟩ := h
    have hsub1 : Sub ts1 all := Sub.of_suf (readArgOpt_suf h1) hsub
    have hsub2 : Sub ts2 all := Sub.of_suf (readArgReq_suf h2) hsub1
    have s1 := lAO _ _ _ _ _ _ h1 hsub
    have s2 := lAR _ _ _ _ _ _ h2 hsub1
    have s3 : LocatedL all an3.1 ∧ Sub ts3 all := by
      by_cases hb : nextIs TC.BracketBegin ts2 = true
      · rw [if_pos hb] at h3
        exact ⟨lAO _ _ _ _ _ _ h3 hsub2, Sub.of_suf (readArgOpt_suf h3) hsub2⟩
      · rw [if_neg hb] at h3
        simp only [Except.ok.injEq, Prod.mk.injEq] at h3
        obtain ⟨rfl, rfl⟩ := h3
        exact ⟨LocatedL_nil, hsub2⟩
    have s4 : LocatedL all an4.1 := by
      by_cases hb : nextIs TC.GroupBegin ts3 = true
      · rw [if_pos hb] at h4; exact lAR _ _ _ _ _ _ h4 s3.2
      · rw [if_neg hb] at h4
        simp only [Except.ok.injEq, Prod.mk.injEq] at h4
        obtain ⟨rfl, _⟩ := h4
        exact LocatedL_nil
    exact LocatedL_append s1 (LocatedL_append s2 (LocatedL_append s3.1 s4))

include hall in
theorem lc_readArgOpt : ∀ n tol mode ts gn rest, readArgOpt (f+1) n tol mode ts = .ok (gn, rest) →
    Sub ts all → LocatedL all gn.1 := by
  intro n tol mode ts gn rest h hsub
  obtain ⟨lE, lI, lME, lMB, lEnv, lEB, lC, lAs, lAO, lAR, lA, lAB⟩ := ih
  unfold readArgOpt at h
  by_cases h0 : (n == 0) = true
  · rw [if_pos h0] at h
    simp only [Except.ok.injEq, Prod.mk.injEq] at h
    obtain ⟨rfl, _⟩ := h
    exact LocatedL_nil
  · rw [if_neg h0] at h
    cases hs : (readSpacer ts).2 with
    | nil =>
      rw [hs] at h
      simp only [Except.ok.injEq, Prod.mk.injEq] at h
      obtain ⟨rfl, _⟩ := h
      exact LocatedL_nil
    | cons o r =>
      rw [hs] at h
      simp only at h
      have hsubo : Sub (o :: r) all := hsub.afterSpacer hs
      by_cases hb : (o.cat == TC.BracketBegin) = true
      · rw [if_pos hb] at h
        obtain ⟨g, ts1, hg, h⟩ := Res.bind_eq_ok.mp h
        obtain ⟨gn', ts2, hn, h⟩ := Res.bind_eq_ok.mp h
        simp only [Except.ok.injEq, Prod.mk.injEq] at h
        obtain ⟨rfl, _⟩ := h
        obtain ⟨body, rfl, hbody⟩ := lA _ _ _ _ _ _ _ hg hsubo.tail
        refine LocatedL_cons.2 ⟨?_, lAO _ _ _ _ _ _ hn (Sub.of_suf (readArg_suf hg) hsubo.tail)⟩
        simp only [Located]
        exact ⟨tokAt_group hsubo.head (hall o hsubo.head) (gkind_of_bracketBegin hb) body, hbody⟩
      · rw [if_neg hb] at h
        simp only [Except.ok.injEq, Prod.mk.injEq] at h
        obtain ⟨rfl, _⟩ := h
        exact LocatedL_nil

include hall in
theorem lc_readArgReq : ∀ n tol mode ts gn rest, readArgReq (f+1) n tol mode ts = .ok (gn, rest) →
    Sub ts all → LocatedL all gn.1 := by
  intro n tol mode ts gn rest h hsub
  obtain ⟨lE, lI, lME, lMB, lEnv, lEB, lC, lAs, lAO, lAR, lA, lAB⟩ := ih
  unfold readArgReq at h
  by_cases h0 : (n == 0) = true
  · rw [if_pos h0] at h
    simp only [Except.ok.injEq, Prod.mk.injEq] at h
    obtain ⟨rfl, _⟩ := h
    exact LocatedL_nil
  · rw [if_neg h0] at h
    cases hs : (readSpacer ts).2 with
    | nil =>
      rw [hs] at h
      simp only [Except.ok.injEq, Prod.mk.injEq] at h
      obtain ⟨rfl, _⟩ := h
      exact LocatedL_nil
    | cons o r =>
      rw [hs] at h
      simp only at h
      have hsubo : Sub (o :: r) all := hsub.afterSpacer hs
      by_cases hb : (o.cat == TC.GroupBegin) = true
      · rw [if_pos hb] at h
        obtain ⟨g, ts1, hg, h⟩ := Res.bind_eq_ok.mp h
        obtain ⟨gn', ts2, hn, h⟩ := Res.bind_eq_ok.mp h
        simp only [Except.ok.injEq, Prod.mk.injEq] at h
        obtain ⟨rfl, _⟩ := h
        obtain ⟨body, rfl, hbody⟩ := lA _ _ _ _ _ _ _ hg hsubo.tail
        refine LocatedL_cons.2 ⟨?_, lAR _ _ _ _ _ _ hn (Sub.of_suf (readArg_suf hg) hsubo.tail)⟩
        simp only [Located]
        exact ⟨tokAt_group hsubo.head (hall o hsubo.head) (gkind_of_groupBegin hb) body, hbody⟩
      · rw [if_neg hb] at h
        by_cases hpos : n > 0
        · rw [if_pos hpos] at h
          by_cases hesc : (o.cat == TC.Escape) = true
          · rw [if_pos hesc] at h
            obtain ⟨na, ts1, hc, h⟩ := Res.bind_eq_ok.mp h
            obtain ⟨gn', ts2, hn, h⟩ := Res.bind_eq_ok.mp h
            simp only [Except.ok.injEq, Prod.mk.injEq] at h
            obtain ⟨rfl, _⟩ := h
            refine LocatedL_cons.2 ⟨?_,
              lAR _ _ _ _ _ _ hn (Sub.of_suf (readCommand_suf hc) hsubo.tail)⟩
            simp only [Located]
            exact ⟨tokAt_cmd hsubo.head (hall o hsubo.head) hesc _ _ _, LocatedL_nil, LocatedL_nil⟩
          · rw [if_neg hesc] at h
            obtain ⟨gn', ts2, hn, h⟩ := Res.bind_eq_ok.mp h
            simp only [Except.ok.injEq, Prod.mk.injEq] at h
            obtain ⟨rfl, _⟩ := h
            refine LocatedL_cons.2 ⟨?_, lAR _ _ _ _ _ _ hn hsubo.tail⟩
            simp only [Located, LocatedL, and_true]
            exact ⟨TokAt.neg, TextAt.neg⟩
        · rw [if_neg hpos] at h
          simp only [Except.ok.injEq, Prod.mk.injEq] at h
          obtain ⟨rfl, _⟩ := h
          exact LocatedL_nil

theorem lc_readArg : ∀ k pos tol mode ts e rest, readArg (f+1) k pos tol mode ts = .ok (e, rest) →
    Sub ts all → ∃ body, e = .group k body pos ∧ LocatedL all body := by
  intro k pos tol mode ts e rest h hsub
  obtain ⟨lE, lI, lME, lMB, lEnv, lEB, lC, lAs, lAO, lAR, lA, lAB⟩ := ih
  unfold readArg at h
  obtain ⟨body, ts1, hb, h⟩ := Res.bind_eq_ok.mp h
  simp only [Except.ok.injEq, Prod.mk.injEq] at h
  obtain ⟨rfl, _⟩ := h
  exact ⟨body, rfl, lAB _ _ _ _ _ _ hb hsub⟩

theorem lc_readArgBody : ∀ k tol mode ts es rest, readArgBody (f+1) k tol mode ts = .ok (es, rest) →
    Sub ts all → LocatedL all es := by
  intro k tol mode ts es rest h hsub
  obtain ⟨lE, lI, lME, lMB, lEnv, lEB, lC, lAs, lAO, lAR, lA, lAB⟩ := ih
  unfold readArgBody at h
  cases ts with
  | nil =>
    simp only at h
    by_cases ht : tol = true
    · rw [if_pos ht] at h
      simp only [Except.ok.injEq, Prod.mk.injEq] at h
      obtain ⟨rfl, _⟩ := h
      exact LocatedL_nil
    · rw [if_neg ht] at h; cases h
  | cons t r =>
    simp only at h
    by_cases hend : (t.cat == k.tokEnd) = true
    · rw [if_pos hend] at h
      simp only [Except.ok.injEq, Prod.mk.injEq] at h
      obtain ⟨rfl, _⟩ := h
      exact LocatedL_nil
    · rw [if_neg hend] at h
      obtain ⟨e, ts1, he, h⟩ := Res.bind_eq_ok.mp h
      obtain ⟨es', ts2, hb, h⟩ := Res.bind_eq_ok.mp h
      simp only [Except.ok.injEq, Prod.mk.injEq] at h
      obtain ⟨rfl, _⟩ := h
      exact LocatedL_cons.2 ⟨lE _ _ _ _ _ _ he hsub,
        lAB _ _ _ _ _ _ hb (Sub.of_suf (readExpr_ssuf he).suf hsub)⟩

end

/-- The position invariant holds at every fuel. -/
theorem locAt (all : List Tok) (hall : ∀ t ∈ all, shapedB t = true) (f : Nat) : LocAt all f := by
  induction f with
  | zero => exact locAt_zero all
  | succ f ih =>
    exact ⟨lc_readExpr all hall f ih, lc_readItem all f ih, lc_readMathEnv all f ih,
      lc_readMathBody all f ih, lc_readEnv all f ih, lc_readEnvBody all f ih,
      lc_readCommand all f ih, lc_readArgs all f ih, lc_readArgOpt all hall f ih,
      lc_readArgReq all hall f ih, lc_readArg all f ih, lc_readArgBody all f ih⟩

/-- `read_expr` returns a located tree. -/
theorem readExpr_located {all : List Tok} (hall : ∀ t ∈ all, shapedB t = true)
    {f skip tol mode ts e rest} (h : readExpr f skip tol mode ts = .ok (e, rest))
    (hsub : Sub ts all) : Located all e :=
  (locAt all hall f).1 _ _ _ _ _ _ h hsub

/-- `read_tex` returns located trees. -/
theorem readTex_located {all : List Tok} (hall : ∀ t ∈ all, shapedB t = true) :
    ∀ f skip tol ts es, readTex f skip tol ts = .ok es → Sub ts all → LocatedL all es := by
  intro f
  induction f with
  | zero => intro skip tol ts es h; simp [readTex] at h
  | succ f ih =>
    intro skip tol ts es h hsub
    unfold readTex at h
    cases ts with
    | nil =>
      simp only [Except.ok.injEq] at h
      subst h; exact LocatedL_nil
    | cons t r =>
      simp only at h
      cases he : readExpr f skip tol .nonMath (t :: r) with
      | error e => rw [he] at h; cases h
      | ok v =>
        obtain ⟨e, ts1⟩ := v
        rw [he] at h
        simp only at h
        cases hr : readTex f skip tol ts1 with
        | error e' => rw [hr] at h; cases h
        | ok es' =>
          rw [hr] at h
          simp only [Except.ok.injEq] at h
          subst h
          exact LocatedL_cons.2 ⟨readExpr_located hall he hsub,
            ih _ _ _ _ hr (Sub.of_suf (readExpr_ssuf he).suf hsub)⟩

/-- A parsed document is located in its own token list, provided the tokens are shaped. -/
theorem parse_located {tol : Bool} {skip : List Str} {s : Str} {ts : List Tok} {es : List Expr}
    (ht : tokenize s = some ts) (hsh : ∀ t ∈ ts, shapedB t = true)
    (h : parse tol skip s = .ok es) : LocatedL ts es := by
  unfold parse at h
  rw [ht] at h
  exact readTex_located hsh _ _ _ _ _ h (Sub.refl ts)

end TexSoup
