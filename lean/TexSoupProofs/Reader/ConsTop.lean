import TexSoupProofs.Reader.Cons
import TexSoupProofs.Reader.Tolerant
/-!
# Core A/B at the level of `read_tex` and `parse`
-/
namespace TexSoup

theorem consAt (skip0 : List Str) (f : Nat) : ConsAt skip0 f := by
  induction f with
  | zero => exact consAt_zero skip0
  | succ f ih =>
    exact ⟨cs_readExpr skip0 f ih, cs_readItem skip0 f ih, cs_readMathEnv skip0 f ih,
      cs_readMathBody skip0 f ih, cs_readEnv skip0 f ih, cs_readEnvBody skip0 f ih,
      cs_readCommand skip0 f ih, cs_readArgs skip0 f ih, cs_readArgOpt skip0 f ih,
      cs_readArgReq skip0 f ih, cs_readArg skip0 f ih, cs_readArgBody skip0 f ih⟩

/-- `read_tex` consumes every token, and its output is the token text up to `Del`. -/
theorem readTex_cons (skip0 : List Str) : ∀ f skip tol ts es, readTex f skip tol ts = .ok es →
    Hyp skip0 ts → (∀ x, memStr x skip = true → memStr x skip0 = true) → noBareL es = true →
    Del tol ts (serL es) := by
  intro f
  induction f with
  | zero => intro skip tol ts es h; simp [readTex] at h
  | succ f ih =>
    intro skip tol ts es h hy hsk hnb
    unfold readTex at h
    cases ts with
    | nil =>
      simp only [Except.ok.injEq] at h
      subst h; exact .nil
    | cons t r =>
      simp only at h
      cases he : readExpr f skip tol .nonMath (t :: r) with
      | error e => rw [he] at h; cases h
      | ok v =>
        obtain ⟨e, ts1⟩ := v
        rw [he] at h
        simp only at h
        cases hr : readTex f skip tol ts1 with
        | error e' => rw [hr] at h; cases h
        | ok es' =>
          rw [hr] at h
          simp only [Except.ok.injEq] at h
          subst h
          simp only [noBareL, Bool.and_eq_true] at hnb
          obtain ⟨c, hc, d⟩ := (consAt skip0 f).1 _ _ _ _ _ _ he hy hsk hnb.1
          rw [hc] at hy ⊢
          exact d.append (ih _ _ _ _ hr hy.suffix hsk hnb.2)

/-- strict ⇒ tolerant for `read_tex` -/
theorem readTex_strict_tolerant : ∀ f skip ts es, readTex f skip false ts = .ok es →
    readTex f skip true ts = .ok es := by
  intro f
  induction f with
  | zero => intro skip ts es h; simp [readTex] at h
  | succ f ih =>
    intro skip ts es h
    unfold readTex at h ⊢
    cases ts with
    | nil => exact h
    | cons t r =>
      simp only at h ⊢
      cases he : readExpr f skip false .nonMath (t :: r) with
      | error e => rw [he] at h; cases h
      | ok v =>
        rw [he] at h
        rw [(strictTolerantAt f).1 _ _ _ _ he]
        obtain ⟨e, ts1⟩ := v
        simp only at h ⊢
        cases hr : readTex f skip false ts1 with
        | error e' => rw [hr] at h; cases h
        | ok es' =>
          rw [hr] at h
          rw [ih _ _ _ hr]
          exact h

/-- strict ⇒ tolerant for `parse` (C07a) -/
theorem parse_strict_tolerant (skip : List Str) (s : Str) (es : List Expr)
    (h : parse false skip s = .ok es) : parse true skip s = .ok es := by
  unfold parse at h ⊢
  cases ht : tokenize s with
  | none => rw [ht] at h; cases h
  | some ts =>
    rw [ht] at h
    exact readTex_strict_tolerant _ _ _ _ h

/-- conservation for `parse` in terms of the tokens (C08 strict, C07c tolerant) -/
theorem parse_cons (tol : Bool) (skip : List Str) (s : Str) (ts : List Tok) (es : List Expr)
    (ht : tokenize s = some ts) (h : parse tol skip s = .ok es)
    (hy : Hyp (Tables.skipEnvNames ++ skip) ts) (hnb : noBareL es = true) :
    Del tol ts (serL es) := by
  unfold parse at h
  rw [ht] at h
  exact readTex_cons _ _ _ _ _ _ h hy (fun _ hx => hx) hnb

end TexSoup
