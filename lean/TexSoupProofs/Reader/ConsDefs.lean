import TexSoupProofs.Reader.Del
import TexSoupProofs.Reader.Fuel
/-!
# Core A, part 2: hypotheses of the conservation invariant and its statement
-/
namespace TexSoup

/-- Delimiter tokens carry the text their category stands for (true of every token the
tokenizer produces: theorem `tokens_shaped`). -/
def shapedB (t : Tok) : Bool :=
  match t.cat with
  | .Escape => t.text == [92]
  | .GroupBegin => t.text == [123]
  | .GroupEnd => t.text == [125]
  | .BracketBegin => t.text == [91]
  | .BracketEnd => t.text == [93]
  | .MathSwitch => t.text == [36]
  | .DisplayMathSwitch => t.text == [36, 36]
  | .MathGroupBegin => t.text == [92, 40]
  | .MathGroupEnd => t.text == [92, 41]
  | .DisplayMathGroupBegin => t.text == [92, 91]
  | .DisplayMathGroupEnd => t.text == [92, 93]
  | _ => true

mutual
/-- No argument was made up from a bare token or bare command (`'{%s}' % token`,
`TexCmd(name)` as argument): every element of an argument list is a group that was really
parsed (its position is not the default `-1`). This is the side condition of C08/C16 on
fixed-signature commands, read off the result. -/
def noBare : Expr → Bool
  | .text _ _ => true
  | .cmd _ a b _ => noBareA a && noBareL b
  | .nenv _ a b _ => noBareA a && noBareL b
  | .math _ b _ => noBareL b
  | .group _ b _ => noBareL b
def noBareL : List Expr → Bool
  | [] => true
  | e :: es => noBare e && noBareL es
/-- argument lists: parsed groups only -/
def noBareA : List Expr → Bool
  | [] => true
  | .group _ b p :: as => decide (0 ≤ p) && noBareL b && noBareA as
  | _ :: _ => false
end

theorem noBareA_append (a b : List Expr) : noBareA (a ++ b) = (noBareA a && noBareA b) := by
  induction a with
  | nil => simp [noBareA]
  | cons e es ih =>
    cases e <;> simp [noBareA, ih, Bool.and_assoc]

theorem noBareL_append (a b : List Expr) : noBareL (a ++ b) = (noBareL a && noBareL b) := by
  induction a with
  | nil => simp [noBareL]
  | cons e es ih => simp [noBareL, ih, Bool.and_assoc]

theorem serL_append (a b : List Expr) : serL (a ++ b) = serL a ++ serL b := by
  induction a with
  | nil => simp [serL]
  | cons e es ih => simp [serL, ih]

/-- Hypotheses on the token list under which the reader conserves characters.
`skip0` = the verbatim-like environment names of the top-level call. -/
structure Hyp (skip0 : List Str) (ts : List Tok) : Prop where
  shaped : ∀ t ∈ ts, shapedB t = true
  /-- the token after an escape is its own `strip()` (tokenizer theorem `after_escape`) -/
  escOK : ∀ pre esc n r, ts = pre ++ esc :: n :: r → esc.cat = .Escape → strip n.text = n.text
  /-- finding F4b excluded: the group naming an environment after `\begin`/`\end` is a brace
  group whose text has no surrounding blanks (and no made-up braces inside) -/
  envPlain : ∀ pre esc n r, ts = pre ++ esc :: n :: r → esc.cat = .Escape →
      (n.text = sBegin ∨ n.text = sEnd) →
      ∀ g nreq nopt tol mode a0 as rest, readArgs g nreq nopt tol mode r = .ok (a0 :: as, rest) →
        (∃ b p, a0 = .group .brace b p) ∧ strip a0.string = a0.string ∧ noBareA [a0] = true
  /-- `\end{name}` of a verbatim-like environment is spelled by exactly five tokens -/
  skipPlain : ∀ name, memStr name skip0 = true → ∀ pre rest, ts = pre ++ rest →
      bufStartsWith (endMarker name) rest = true → flat (rest.take 5) = endMarker name

theorem Hyp.suffix {skip0 : List Str} {c rest : List Tok} (h : Hyp skip0 (c ++ rest)) :
    Hyp skip0 rest where
  shaped := fun t ht => h.shaped t (List.mem_append_right c ht)
  escOK := fun pre esc n r he => h.escOK (c ++ pre) esc n r (by rw [he]; simp)
  envPlain := fun pre esc n r he => h.envPlain (c ++ pre) esc n r (by rw [he]; simp)
  skipPlain := fun name hn pre r he => h.skipPlain name hn (c ++ pre) r (by rw [he]; simp)

theorem Hyp.ofCons {skip0 : List Str} {tol : Bool} {ts rest : List Tok} {x : Str}
    (h : Hyp skip0 ts) (hc : Cons tol ts x rest) : Hyp skip0 rest := by
  obtain ⟨c, rfl, _⟩ := hc
  exact h.suffix

theorem Hyp.tail {skip0 : List Str} {t : Tok} {ts : List Tok} (h : Hyp skip0 (t :: ts)) :
    Hyp skip0 ts := Hyp.suffix (c := [t]) h

/-- The conservation invariant for every reader function at fuel `f`. -/
def ConsAt (skip0 : List Str) (f : Nat) : Prop :=
  (∀ skip tol mode ts e rest, readExpr f skip tol mode ts = .ok (e, rest) → Hyp skip0 ts →
      (∀ x, memStr x skip = true → memStr x skip0 = true) → noBare e = true →
      Cons tol ts (ser e) rest) ∧
  (∀ ts es rest, readItem f ts = .ok (es, rest) → Hyp skip0 ts → noBareL es = true →
      Cons false ts (serL es) rest) ∧
  (∀ k pos tol ts e rest, readMathEnv f k pos tol ts = .ok (e, rest) → Hyp skip0 ts →
      ∃ body, e = .math k body pos ∧ (noBareL body = true → Cons tol ts (serL body ++ k.close) rest)) ∧
  (∀ k tol ts es rest, readMathBody f k tol ts = .ok (es, rest) → Hyp skip0 ts → noBareL es = true →
      Cons tol ts (serL es) rest) ∧
  (∀ name args pos skip tol mode ts e rest, readEnv f name args pos skip tol mode ts = .ok (e, rest) →
      Hyp skip0 ts → (∀ x, memStr x skip = true → memStr x skip0 = true) →
      ∃ body, e = .nenv name args body pos ∧
        (noBareL body = true → Cons tol ts (serL body ++ endMarker name) rest)) ∧
  (∀ skip tol mode ts es ea rest, readEnvBody f skip tol mode ts = .ok ((es, ea), rest) →
      Hyp skip0 ts → (∀ x, memStr x skip = true → memStr x skip0 = true) →
      noBareL es = true → Cons tol ts (serL es) rest ∧
      (∀ eargs, ea = some eargs → ∃ esc n r g rest', rest = esc :: n :: r ∧ esc.cat = .Escape ∧
          n.text = sEnd ∧ readCommand g 1 0 tol mode (n :: r) = .ok ((n, eargs), rest'))) ∧
  (∀ nreq nopt tol mode ts n args rest, readCommand f nreq nopt tol mode ts = .ok ((n, args), rest) →
      Hyp skip0 ts → (noBareA args = true → Cons tol ts (n.text ++ serL args) rest) ∧
      (ts.head? = some n ∨ (ts = [] ∧ n.text = []))) ∧
  (∀ nreq nopt tol mode ts args rest, readArgs f nreq nopt tol mode ts = .ok (args, rest) →
      Hyp skip0 ts → noBareA args = true → Cons tol ts (serL args) rest) ∧
  (∀ n tol mode ts gs n' rest, readArgOpt f n tol mode ts = .ok ((gs, n'), rest) →
      Hyp skip0 ts → noBareA gs = true → Cons tol ts (serL gs) rest) ∧
  (∀ n tol mode ts gs n' rest, readArgReq f n tol mode ts = .ok ((gs, n'), rest) →
      Hyp skip0 ts → noBareA gs = true → Cons tol ts (serL gs) rest) ∧
  (∀ k pos tol mode ts e rest, readArg f k pos tol mode ts = .ok (e, rest) → Hyp skip0 ts →
      ∃ body, e = .group k body pos ∧ (noBareL body = true → Cons tol ts (serL body ++ k.close) rest)) ∧
  (∀ k tol mode ts es rest, readArgBody f k tol mode ts = .ok (es, rest) → Hyp skip0 ts →
      noBareL es = true → Cons tol ts (serL es ++ k.close) rest)

end TexSoup
