import TexSoupProofs.Reader.Basic
/-!
# Fuel monotonicity: a result obtained with some fuel is obtained with any larger fuel
-/
namespace TexSoup

def FuelMonoAt (f : Nat) : Prop :=
  (∀ skip tol mode ts r, readExpr f skip tol mode ts = .ok r → readExpr (f+1) skip tol mode ts = .ok r) ∧
  (∀ ts r, readItem f ts = .ok r → readItem (f+1) ts = .ok r) ∧
  (∀ k pos tol ts r, readMathEnv f k pos tol ts = .ok r → readMathEnv (f+1) k pos tol ts = .ok r) ∧
  (∀ k tol ts r, readMathBody f k tol ts = .ok r → readMathBody (f+1) k tol ts = .ok r) ∧
  (∀ name args pos skip tol mode ts r, readEnv f name args pos skip tol mode ts = .ok r →
      readEnv (f+1) name args pos skip tol mode ts = .ok r) ∧
  (∀ skip tol mode ts r, readEnvBody f skip tol mode ts = .ok r →
      readEnvBody (f+1) skip tol mode ts = .ok r) ∧
  (∀ nreq nopt tol mode ts r, readCommand f nreq nopt tol mode ts = .ok r →
      readCommand (f+1) nreq nopt tol mode ts = .ok r) ∧
  (∀ nreq nopt tol mode ts r, readArgs f nreq nopt tol mode ts = .ok r →
      readArgs (f+1) nreq nopt tol mode ts = .ok r) ∧
  (∀ n tol mode ts r, readArgOpt f n tol mode ts = .ok r → readArgOpt (f+1) n tol mode ts = .ok r) ∧
  (∀ n tol mode ts r, readArgReq f n tol mode ts = .ok r → readArgReq (f+1) n tol mode ts = .ok r) ∧
  (∀ k pos tol mode ts r, readArg f k pos tol mode ts = .ok r → readArg (f+1) k pos tol mode ts = .ok r) ∧
  (∀ k tol mode ts r, readArgBody f k tol mode ts = .ok r → readArgBody (f+1) k tol mode ts = .ok r)

theorem fuelMonoAt_zero : FuelMonoAt 0 := by
  refine ⟨?_, ?_, ?_, ?_, ?_, ?_, ?_, ?_, ?_, ?_, ?_, ?_⟩ <;> intros <;>
    simp_all [readExpr, readItem, readMathEnv, readMathBody, readEnv, readEnvBody, readCommand,
      readArgs, readArgOpt, readArgReq, readArg, readArgBody]

section
variable (f : Nat) (ih : FuelMonoAt f)
include ih

theorem fm_readExpr : ∀ skip tol mode ts r, readExpr (f+1) skip tol mode ts = .ok r →
    readExpr (f+1+1) skip tol mode ts = .ok r := by
  intro skip tol mode ts r h
  obtain ⟨hE, hI, hME, hMB, hEnv, hEB, hC, hAs, hAO, hAR, hA, hAB⟩ := ih
  unfold readExpr at h ⊢
  cases ts with
  | nil => simp at h
  | cons c ts =>
    simp only at h ⊢
    cases hk : mkindOfBegin c.cat with
    | some k => rw [hk] at h; exact hME _ _ _ _ _ h
    | none =>
      rw [hk] at h
      simp only at h ⊢
      by_cases hesc : (c.cat == TC.Escape) = true
      · rw [if_pos hesc] at h ⊢
        obtain ⟨na, ts1, hc, h⟩ := Res.bind_eq_ok.mp h
        rw [hC _ _ _ _ _ _ hc]
        simp only [Res.bind_ok]
        by_cases hitem : (na.1.text == sItem) = true
        · rw [if_pos hitem] at h ⊢
          by_cases hm : (mode == Mode.math) = true
          · rw [if_pos hm] at h; cases h
          · rw [if_neg hm] at h ⊢
            obtain ⟨body, ts2, hi, h⟩ := Res.bind_eq_ok.mp h
            rw [hI _ _ hi]; exact h
        · rw [if_neg hitem] at h ⊢
          by_cases hb : (na.1.text == sBegin && mode != Mode.special) = true
          · rw [if_pos hb] at h ⊢
            cases hargs : na.2 with
            | nil => rw [hargs] at h; cases h
            | cons a0 as =>
              rw [hargs] at h
              simp only at h ⊢
              by_cases hs : memStr (strip a0.string) skip = true
              · rw [if_pos hs] at h ⊢; exact h
              · rw [if_neg hs] at h ⊢; exact hEnv _ _ _ _ _ _ _ _ h
          · rw [if_neg hb] at h ⊢; exact h
      · rw [if_neg hesc] at h ⊢
        by_cases hg : (c.cat == TC.GroupBegin) = true
        · rw [if_pos hg] at h ⊢; exact hA _ _ _ _ _ _ h
        · rw [if_neg hg] at h ⊢; exact h

theorem fm_readItem : ∀ ts r, readItem (f+1) ts = .ok r → readItem (f+1+1) ts = .ok r := by
  intro ts r h
  obtain ⟨hE, hI, hME, hMB, hEnv, hEB, hC, hAs, hAO, hAR, hA, hAB⟩ := ih
  unfold readItem at h ⊢
  cases ts with
  | nil => exact h
  | cons t r' =>
    simp only at h ⊢
    by_cases hesc : (t.cat == TC.Escape) = true
    · rw [if_pos hesc] at h ⊢
      obtain ⟨na, ts', hc, h⟩ := Res.bind_eq_ok.mp h
      rw [hC _ _ _ _ _ _ hc]; simp only [Res.bind_ok]
      by_cases hend : (na.1.text == sEnd || na.1.text == sItem) = true
      · rw [if_pos hend] at h ⊢; exact h
      · rw [if_neg hend] at h ⊢
        obtain ⟨e, ts1, he, h⟩ := Res.bind_eq_ok.mp h
        rw [hE _ _ _ _ _ he]; simp only [Res.bind_ok]
        obtain ⟨es, ts2, hb, h⟩ := Res.bind_eq_ok.mp h
        rw [hI _ _ hb]; simp only [Res.bind_ok]; exact h
    · rw [if_neg hesc] at h ⊢
      by_cases hge : (t.cat == TC.GroupEnd) = true
      · rw [if_pos hge] at h ⊢; exact h
      · rw [if_neg hge] at h ⊢
        obtain ⟨e, ts1, he, h⟩ := Res.bind_eq_ok.mp h
        rw [hE _ _ _ _ _ he]; simp only [Res.bind_ok]
        obtain ⟨es, ts2, hb, h⟩ := Res.bind_eq_ok.mp h
        rw [hI _ _ hb]; simp only [Res.bind_ok]; exact h

theorem fm_readMathEnv : ∀ k pos tol ts r, readMathEnv (f+1) k pos tol ts = .ok r →
    readMathEnv (f+1+1) k pos tol ts = .ok r := by
  intro k pos tol ts r h
  obtain ⟨hE, hI, hME, hMB, hEnv, hEB, hC, hAs, hAO, hAR, hA, hAB⟩ := ih
  unfold readMathEnv at h ⊢
  obtain ⟨body, ts1, hb, h⟩ := Res.bind_eq_ok.mp h
  rw [hMB _ _ _ _ hb]; exact h

theorem fm_readMathBody : ∀ k tol ts r, readMathBody (f+1) k tol ts = .ok r →
    readMathBody (f+1+1) k tol ts = .ok r := by
  intro k tol ts r h
  obtain ⟨hE, hI, hME, hMB, hEnv, hEB, hC, hAs, hAO, hAR, hA, hAB⟩ := ih
  unfold readMathBody at h ⊢
  cases ts with
  | nil => exact h
  | cons t r' =>
    simp only at h ⊢
    by_cases hend : (t.cat == k.tokEnd) = true
    · rw [if_pos hend] at h ⊢; exact h
    · rw [if_neg hend] at h ⊢
      obtain ⟨e, ts1, he, h⟩ := Res.bind_eq_ok.mp h
      rw [hE _ _ _ _ _ he]; simp only [Res.bind_ok]
      obtain ⟨es, ts2, hb, h⟩ := Res.bind_eq_ok.mp h
      rw [hMB _ _ _ _ hb]; simp only [Res.bind_ok]; exact h

theorem fm_readEnv : ∀ name args pos skip tol mode ts r,
    readEnv (f+1) name args pos skip tol mode ts = .ok r →
    readEnv (f+1+1) name args pos skip tol mode ts = .ok r := by
  intro name args pos skip tol mode ts r h
  obtain ⟨hE, hI, hME, hMB, hEnv, hEB, hC, hAs, hAO, hAR, hA, hAB⟩ := ih
  unfold readEnv at h ⊢
  obtain ⟨be, ts1, hb, h⟩ := Res.bind_eq_ok.mp h
  rw [hEB _ _ _ _ _ hb]
  simp only [Res.bind_ok]
  by_cases herr : envError name be.2 = true
  · rw [if_pos herr] at h ⊢; exact h
  · rw [if_neg herr] at h ⊢
    cases ts1 with
    | nil => exact h
    | cons t0 r0 =>
      simp only at h ⊢
      obtain ⟨na, ts2, ha, h⟩ := Res.bind_eq_ok.mp h
      rw [hC _ _ _ _ _ _ ha]
      exact h

theorem fm_readEnvBody : ∀ skip tol mode ts r, readEnvBody (f+1) skip tol mode ts = .ok r →
    readEnvBody (f+1+1) skip tol mode ts = .ok r := by
  intro skip tol mode ts r h
  obtain ⟨hE, hI, hME, hMB, hEnv, hEB, hC, hAs, hAO, hAR, hA, hAB⟩ := ih
  unfold readEnvBody at h ⊢
  cases ts with
  | nil => exact h
  | cons t r' =>
    simp only at h ⊢
    by_cases hesc : (t.cat == TC.Escape) = true
    · rw [if_pos hesc] at h ⊢
      obtain ⟨na, ts', hc, h⟩ := Res.bind_eq_ok.mp h
      rw [hC _ _ _ _ _ _ hc]; simp only [Res.bind_ok]
      by_cases hend : (na.1.text == sEnd) = true
      · rw [if_pos hend] at h ⊢; exact h
      · rw [if_neg hend] at h ⊢
        obtain ⟨e, ts1, he, h⟩ := Res.bind_eq_ok.mp h
        rw [hE _ _ _ _ _ he]; simp only [Res.bind_ok]
        obtain ⟨be, ts2, hb, h⟩ := Res.bind_eq_ok.mp h
        rw [hEB _ _ _ _ _ hb]; simp only [Res.bind_ok]; exact h
    · rw [if_neg hesc] at h ⊢
      obtain ⟨e, ts1, he, h⟩ := Res.bind_eq_ok.mp h
      rw [hE _ _ _ _ _ he]; simp only [Res.bind_ok]
      obtain ⟨be, ts2, hb, h⟩ := Res.bind_eq_ok.mp h
      rw [hEB _ _ _ _ _ hb]; simp only [Res.bind_ok]; exact h

theorem fm_readCommand : ∀ nreq nopt tol mode ts r, readCommand (f+1) nreq nopt tol mode ts = .ok r →
    readCommand (f+1+1) nreq nopt tol mode ts = .ok r := by
  intro nreq nopt tol mode ts r h
  obtain ⟨hE, hI, hME, hMB, hEnv, hEB, hC, hAs, hAO, hAR, hA, hAB⟩ := ih
  unfold readCommand at h ⊢
  cases ts with
  | nil =>
    simp only at h ⊢
    obtain ⟨args, ts2, ha, h⟩ := Res.bind_eq_ok.mp h
    rw [hAs _ _ _ _ _ _ ha]; exact h
  | cons n r' =>
    simp only at h ⊢
    obtain ⟨args, ts2, ha, h⟩ := Res.bind_eq_ok.mp h
    rw [hAs _ _ _ _ _ _ ha]; exact h

theorem fm_readArgs : ∀ nreq nopt tol mode ts r, readArgs (f+1) nreq nopt tol mode ts = .ok r →
    readArgs (f+1+1) nreq nopt tol mode ts = .ok r := by
  intro nreq nopt tol mode ts r h
  obtain ⟨hE, hI, hME, hMB, hEnv, hEB, hC, hAs, hAO, hAR, hA, hAB⟩ := ih
  unfold readArgs at h ⊢
  by_cases h0 : (nreq == 0 && nopt == 0) = true
  · rw [if_pos h0] at h ⊢; exact h
  · rw [if_neg h0] at h ⊢
    obtain ⟨an1, ts1, h1, h⟩ := Res.bind_eq_ok.mp h
    rw [hAO _ _ _ _ _ h1]; simp only [Res.bind_ok]
    obtain ⟨an2, ts2, h2, h⟩ := Res.bind_eq_ok.mp h
    rw [hAR _ _ _ _ _ h2]; simp only [Res.bind_ok]
    obtain ⟨an3, ts3, h3, h⟩ := Res.bind_eq_ok.mp h
    have h3' : (if nextIs TC.BracketBegin ts2 = true then readArgOpt (f+1) an1.2 tol mode ts2
        else Except.ok (([], an1.2), ts2)) = Except.ok (an3, ts3) := by
      by_cases hb : nextIs TC.BracketBegin ts2 = true
      · rw [if_pos hb] at h3 ⊢; exact hAO _ _ _ _ _ h3
      · rw [if_neg hb] at h3 ⊢; exact h3
    rw [h3']; simp only [Res.bind_ok]
    obtain ⟨an4, ts4, h4, h⟩ := Res.bind_eq_ok.mp h
    have h4' : (if nextIs TC.GroupBegin ts3 = true then readArgReq (f+1) an2.2 tol mode ts3
        else Except.ok (([], an2.2), ts3)) = Except.ok (an4, ts4) := by
      by_cases hb : nextIs TC.GroupBegin ts3 = true
      · rw [if_pos hb] at h4 ⊢; exact hAR _ _ _ _ _ h4
      · rw [if_neg hb] at h4 ⊢; exact h4
    rw [h4']; simp only [Res.bind_ok]; exact h

theorem fm_readArgOpt : ∀ n tol mode ts r, readArgOpt (f+1) n tol mode ts = .ok r →
    readArgOpt (f+1+1) n tol mode ts = .ok r := by
  intro n tol mode ts r h
  obtain ⟨hE, hI, hME, hMB, hEnv, hEB, hC, hAs, hAO, hAR, hA, hAB⟩ := ih
  unfold readArgOpt at h ⊢
  by_cases h0 : (n == 0) = true
  · rw [if_pos h0] at h ⊢; exact h
  · rw [if_neg h0] at h ⊢
    cases hs : (readSpacer ts).2 with
    | nil => rw [hs] at h; exact h
    | cons o r' =>
      rw [hs] at h
      simp only at h ⊢
      by_cases hb : (o.cat == TC.BracketBegin) = true
      · rw [if_pos hb] at h ⊢
        obtain ⟨g, ts1, hg, h⟩ := Res.bind_eq_ok.mp h
        rw [hA _ _ _ _ _ _ hg]; simp only [Res.bind_ok]
        obtain ⟨gn, ts2, hn, h⟩ := Res.bind_eq_ok.mp h
        rw [hAO _ _ _ _ _ hn]; simp only [Res.bind_ok]; exact h
      · rw [if_neg hb] at h ⊢; exact h

theorem fm_readArgReq : ∀ n tol mode ts r, readArgReq (f+1) n tol mode ts = .ok r →
    readArgReq (f+1+1) n tol mode ts = .ok r := by
  intro n tol mode ts r h
  obtain ⟨hE, hI, hME, hMB, hEnv, hEB, hC, hAs, hAO, hAR, hA, hAB⟩ := ih
  unfold readArgReq at h ⊢
  by_cases h0 : (n == 0) = true
  · rw [if_pos h0] at h ⊢; exact h
  · rw [if_neg h0] at h ⊢
    cases hs : (readSpacer ts).2 with
    | nil => rw [hs] at h; exact h
    | cons o r' =>
      rw [hs] at h
      simp only at h ⊢
      by_cases hb : (o.cat == TC.GroupBegin) = true
      · rw [if_pos hb] at h ⊢
        obtain ⟨g, ts1, hg, h⟩ := Res.bind_eq_ok.mp h
        rw [hA _ _ _ _ _ _ hg]; simp only [Res.bind_ok]
        obtain ⟨gn, ts2, hn, h⟩ := Res.bind_eq_ok.mp h
        rw [hAR _ _ _ _ _ hn]; simp only [Res.bind_ok]; exact h
      · rw [if_neg hb] at h ⊢
        by_cases hpos : n > 0
        · rw [if_pos hpos] at h ⊢
          by_cases hesc : (o.cat == TC.Escape) = true
          · rw [if_pos hesc] at h ⊢
            obtain ⟨na, ts1, hc, h⟩ := Res.bind_eq_ok.mp h
            rw [hC _ _ _ _ _ _ hc]; simp only [Res.bind_ok]
            obtain ⟨gn, ts2, hn, h⟩ := Res.bind_eq_ok.mp h
            rw [hAR _ _ _ _ _ hn]; simp only [Res.bind_ok]; exact h
          · rw [if_neg hesc] at h ⊢
            obtain ⟨gn, ts2, hn, h⟩ := Res.bind_eq_ok.mp h
            rw [hAR _ _ _ _ _ hn]; simp only [Res.bind_ok]; exact h
        · rw [if_neg hpos] at h ⊢; exact h

theorem fm_readArg : ∀ k pos tol mode ts r, readArg (f+1) k pos tol mode ts = .ok r →
    readArg (f+1+1) k pos tol mode ts = .ok r := by
  intro k pos tol mode ts r h
  obtain ⟨hE, hI, hME, hMB, hEnv, hEB, hC, hAs, hAO, hAR, hA, hAB⟩ := ih
  unfold readArg at h ⊢
  obtain ⟨body, ts1, hb, h⟩ := Res.bind_eq_ok.mp h
  rw [hAB _ _ _ _ _ hb]; exact h

theorem fm_readArgBody : ∀ k tol mode ts r, readArgBody (f+1) k tol mode ts = .ok r →
    readArgBody (f+1+1) k tol mode ts = .ok r := by
  intro k tol mode ts r h
  obtain ⟨hE, hI, hME, hMB, hEnv, hEB, hC, hAs, hAO, hAR, hA, hAB⟩ := ih
  unfold readArgBody at h ⊢
  cases ts with
  | nil => exact h
  | cons t r' =>
    simp only at h ⊢
    by_cases hend : (t.cat == k.tokEnd) = true
    · rw [if_pos hend] at h ⊢; exact h
    · rw [if_neg hend] at h ⊢
      obtain ⟨e, ts1, he, h⟩ := Res.bind_eq_ok.mp h
      rw [hE _ _ _ _ _ he]; simp only [Res.bind_ok]
      obtain ⟨es, ts2, hb, h⟩ := Res.bind_eq_ok.mp h
      rw [hAB _ _ _ _ _ hb]; simp only [Res.bind_ok]; exact h

end

theorem fuelMonoAt (f : Nat) : FuelMonoAt f := by
  induction f with
  | zero => exact fuelMonoAt_zero
  | succ f ih =>
    exact ⟨fm_readExpr f ih, fm_readItem f ih, fm_readMathEnv f ih, fm_readMathBody f ih,
      fm_readEnv f ih, fm_readEnvBody f ih, fm_readCommand f ih, fm_readArgs f ih,
      fm_readArgOpt f ih, fm_readArgReq f ih, fm_readArg f ih, fm_readArgBody f ih⟩

/-- `readArg` gives the same result with any two fuels that both succeed. -/
theorem readArg_fuel_det {f1 f2 : Nat} {k pos tol mode ts} {r1 r2 : Expr × List Tok}
    (h1 : readArg f1 k pos tol mode ts = .ok r1) (h2 : readArg f2 k pos tol mode ts = .ok r2) :
    r1 = r2 := by
  have up : ∀ d f r, readArg f k pos tol mode ts = .ok r → readArg (f + d) k pos tol mode ts = .ok r := by
    intro d
    induction d with
    | zero => intro f r h; exact h
    | succ d ihd => intro f r h; exact (fuelMonoAt (f + d)).2.2.2.2.2.2.2.2.2.2.1 _ _ _ _ _ _ (ihd f r h)
  rcases Nat.le_total f1 f2 with hle | hle
  · obtain ⟨d, rfl⟩ := Nat.exists_eq_add_of_le hle
    have := up d f1 r1 h1
    rw [this] at h2; exact Except.ok.inj h2
  · obtain ⟨d, rfl⟩ := Nat.exists_eq_add_of_le hle
    have := up d f2 r2 h2
    rw [this] at h1; exact (Except.ok.inj h1).symm

/-- `readCommand` gives the same result with any two fuels that both succeed. -/
theorem readCommand_fuel_det {f1 f2 : Nat} {nreq nopt tol mode ts} {r1 r2 : (Tok × List Expr) × List Tok}
    (h1 : readCommand f1 nreq nopt tol mode ts = .ok r1) (h2 : readCommand f2 nreq nopt tol mode ts = .ok r2) :
    r1 = r2 := by
  have up : ∀ d f r, readCommand f nreq nopt tol mode ts = .ok r →
      readCommand (f + d) nreq nopt tol mode ts = .ok r := by
    intro d
    induction d with
    | zero => intro f r h; exact h
    | succ d ihd => intro f r h; exact (fuelMonoAt (f + d)).2.2.2.2.2.2.1 _ _ _ _ _ _ (ihd f r h)
  rcases Nat.le_total f1 f2 with hle | hle
  · obtain ⟨d, rfl⟩ := Nat.exists_eq_add_of_le hle
    have := up d f1 r1 h1
    rw [this] at h2; exact Except.ok.inj h2
  · obtain ⟨d, rfl⟩ := Nat.exists_eq_add_of_le hle
    have := up d f2 r2 h2
    rw [this] at h1; exact (Except.ok.inj h1).symm

end TexSoup
