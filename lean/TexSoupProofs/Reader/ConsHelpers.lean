import TexSoupProofs.Reader.ConsDefs
/-!
# Core A, part 3: helper lemmas for the conservation induction
-/
namespace TexSoup

theorem skipBody_split (m : Str) : ∀ ts b rest, skipBody m ts = (b, rest) → ts = b ++ rest := by
  intro ts
  induction ts with
  | nil => intro b rest h; simp [skipBody] at h; obtain ⟨rfl, rfl⟩ := h; rfl
  | cons t r ih =>
    intro b rest h
    unfold skipBody at h
    by_cases hs : bufStartsWith m (t :: r) = true
    · rw [if_pos hs] at h
      simp only [Prod.mk.injEq] at h
      obtain ⟨rfl, rfl⟩ := h; rfl
    · rw [if_neg hs] at h
      cases hb : skipBody m r with
      | mk b' rest' =>
        rw [hb] at h
        simp only [Prod.mk.injEq] at h
        obtain ⟨rfl, rfl⟩ := h
        rw [ih b' rest' hb]; rfl

theorem Del.flat {tol : Bool} (c : List Tok) : Del tol c (flat c) := by
  induction c with
  | nil => exact .nil
  | cons t r ih => exact .keep t ih

theorem flat_append (a b : List Tok) : flat (a ++ b) = flat a ++ flat b := by
  induction a with
  | nil => rfl
  | cons t r ih => simp [flat, ih]

theorem readSkipEnv_cons {skip0 : List Str} {tol : Bool} {name : Str} {args : List Expr} {pos : Int}
    {ts : List Tok} {e : Expr} {rest : List Tok}
    (h : readSkipEnv name args pos ts = .ok (e, rest)) (hy : Hyp skip0 ts)
    (hn : memStr name skip0 = true) :
    ∃ body bpos, e = .nenv name args [.text body bpos] pos ∧ Cons tol ts (body ++ endMarker name) rest := by
  unfold readSkipEnv at h
  cases hb : skipBody (endMarker name) ts with
  | mk b r =>
    rw [hb] at h
    simp only at h
    have hsplit := skipBody_split _ _ _ _ hb
    by_cases hs : bufStartsWith (endMarker name) r = true
    · rw [if_pos hs] at h
      simp only [Except.ok.injEq, Prod.mk.injEq] at h
      obtain ⟨rfl, rfl⟩ := h
      refine ⟨flat b, _, rfl, ?_⟩
      have h5 := hy.skipPlain name hn b r hsplit hs
      refine ⟨b ++ r.take 5, ?_, ?_⟩
      · rw [hsplit, List.append_assoc, List.take_append_drop]
      · rw [← h5]; exact (Del.flat b).append (Del.flat _)
    · rw [if_neg hs] at h; cases h

/-! ### delimiter texts from token shapes -/

theorem text_of_mkindBegin {c : Tok} {k : MKind} (hs : shapedB c = true)
    (hk : mkindOfBegin c.cat = some k) : c.text = k.open := by
  unfold shapedB at hs
  cases hc : c.cat <;> rw [hc] at hs hk <;> simp [mkindOfBegin] at hk <;> subst hk <;>
    simpa [MKind.open] using hs

theorem text_of_mkindEnd {c : Tok} {k : MKind} (hs : shapedB c = true)
    (hk : (c.cat == k.tokEnd) = true) : c.text = k.close := by
  unfold shapedB at hs
  have hk' : c.cat = k.tokEnd := by simpa using hk
  cases k <;> simp only [MKind.tokEnd] at hk' <;> rw [hk'] at hs <;> simpa [MKind.close] using hs

theorem text_of_gkindBegin {c : Tok} {k : GKind} (hs : shapedB c = true)
    (hk : gkindOfBegin c.cat = some k) : c.text = k.open := by
  unfold shapedB at hs
  cases hc : c.cat <;> rw [hc] at hs hk <;> simp [gkindOfBegin] at hk <;> subst hk <;>
    simpa [GKind.open] using hs

theorem text_of_gkindEnd {c : Tok} {k : GKind} (hs : shapedB c = true)
    (hk : (c.cat == k.tokEnd) = true) : c.text = k.close := by
  unfold shapedB at hs
  have hk' : c.cat = k.tokEnd := by simpa using hk
  cases k <;> simp only [GKind.tokEnd] at hk' <;> rw [hk'] at hs <;> simpa [GKind.close] using hs

theorem text_of_escape {c : Tok} (hs : shapedB c = true) (hk : (c.cat == TC.Escape) = true) :
    c.text = [92] := by
  unfold shapedB at hs
  have hk' : c.cat = TC.Escape := by simpa using hk
  rw [hk'] at hs; simpa using hs

theorem isOpener_of_gkind {o : Tok} {k : GKind} (hk : gkindOfBegin o.cat = some k) :
    isOpener o = true := by
  unfold isOpener
  cases hc : o.cat <;> rw [hc] at hk <;> simp [gkindOfBegin] at hk <;> simp

/-! ### table facts used by the reader proofs (re-checked against the generated tables) -/

theorem cmdSig_begin : cmdSig (-1) (-1) sBegin = (-1, -1) := by decide
theorem cmdSig_end : cmdSig (-1) (-1) sEnd = (-1, -1) := by decide
theorem cmdMode_begin (m : Mode) : cmdMode sBegin m = m := by
  unfold cmdMode; rw [if_neg (by decide)]
theorem cmdMode_end (m : Mode) : cmdMode sEnd m = m := by
  unfold cmdMode; rw [if_neg (by decide)]
theorem strBegin_eq : strBegin = 92 :: (sBegin ++ [123]) := by decide
theorem strEnd_eq : strEnd = 92 :: (sEnd ++ [123]) := by decide

end TexSoup
