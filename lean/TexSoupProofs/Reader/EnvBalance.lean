import TexSoupProofs.Reader.Balance
/-!
# Strict success implies that no environment is left open (counting invariant)

`envOpens ts` / `envCloses ts` count the positions of `ts` at which an `Escape` token is directly
followed by a token spelling `begin` / `end`. If a strict reader returns `rest` on input `ts`
then `envOpens ts + envCloses rest ≤ envCloses ts + envOpens rest`; `readEnv`, which is entered
after its `\begin{name}` was consumed, consumes one more `\end` than `\begin`s.

`\begin` is consumed as a plain command – so that the invariant fails – in three situations,
all excluded by the token-level condition `EnvHyp`:
* in special mode (arguments of `\newcommand` & co.): no name is a special command;
* as a bare command standing for a mandatory argument (`\textbf\begin…`, `\end\begin…`): no
  name has a fixed positive number of mandatory arguments, and `\end` is followed by `{`;
* inside a verbatim-like environment (`readSkipEnv`): excluded as in `Balance.lean`.
-/
namespace TexSoup

/-! ## 1. Counting escape/name pairs -/

/-- number of positions where an `Escape` token is directly followed by a token spelling `s` -/
def escPairs (s : Str) : List Tok → Nat
  | esc :: n :: r => (if esc.cat = TC.Escape ∧ n.text = s then 1 else 0) + escPairs s (n :: r)
  | _ => 0

/-- number of `\begin` -/
abbrev envOpens (ts : List Tok) : Nat := escPairs sBegin ts
/-- number of `\end` -/
abbrev envCloses (ts : List Tok) : Nat := escPairs sEnd ts

theorem escPairs_single (s : Str) (t : Tok) : escPairs s [t] = 0 := rfl

theorem escPairs_cons_ne (s : Str) {t : Tok} (r : List Tok) (h : t.cat ≠ TC.Escape) :
    escPairs s (t :: r) = escPairs s r := by
  cases r with
  | nil => rfl
  | cons n r => simp [escPairs, h]

theorem escPairs_cons_le (s : Str) (t : Tok) (r : List Tok) :
    escPairs s r ≤ escPairs s (t :: r) := by
  cases r with
  | nil => simp [escPairs]
  | cons n r => simp only [escPairs]; omega

theorem escPairs_esc_eq {s : Str} {esc n : Tok} (r : List Tok) (he : esc.cat = TC.Escape)
    (hn : n.text = s) : escPairs s (esc :: n :: r) = escPairs s (n :: r) + 1 := by
  simp only [escPairs, he, hn, and_self, if_true]; omega

theorem escPairs_esc_ne {s : Str} {esc n : Tok} (r : List Tok) (hn : n.text ≠ s) :
    escPairs s (esc :: n :: r) = escPairs s (n :: r) := by
  simp [escPairs, hn]

theorem readSpacer_escPairs (s : Str) (ts : List Tok) :
    escPairs s (readSpacer ts).2 = escPairs s ts := by
  cases ts with
  | nil => rfl
  | cons t r =>
    simp only [readSpacer]
    by_cases hsp : (t.cat == TC.MergedSpacer) = true
    · rw [if_pos hsp]
      have : t.cat = TC.MergedSpacer := by simpa using hsp
      rw [escPairs_cons_ne s r (by rw [this]; decide)]
    · rw [if_neg hsp]

/-- consuming an escape and the command read after it adds at most one pair, and only if the
name spells `s` -/
theorem escPairs_cmd_le (s : Str) (c : Tok) {f : Nat} {nreq nopt : Int} {tol : Bool} {mode : Mode}
    {ts : List Tok} {na : Tok × List Expr} {ts1 : List Tok}
    (hc : readCommand f nreq nopt tol mode ts = .ok (na, ts1)) :
    escPairs s (c :: ts) ≤ escPairs s ts + (if na.1.text = s then 1 else 0) := by
  rcases readCommand_head hc with ⟨r, rfl⟩ | ⟨rfl, _⟩
  · simp only [escPairs]
    by_cases h1 : c.cat = TC.Escape ∧ na.1.text = s
    · rw [if_pos h1, if_pos h1.2]; omega
    · rw [if_neg h1]; omega
  · simp [escPairs]

/-! ## 2. The token-level condition -/

/-- After an escape: `nameOKB`, the name is not a special command, has no fixed positive number
of mandatory arguments, and `end` is followed (after an optional spacer) by `{`. -/
def envOKB (skip : List Str) (n : Tok) (r : List Tok) : Bool :=
  nameOKB skip n r && !(memStr n.text Tables.specialCommands) &&
    decide ((signatureOf n.text Tables.signatures).1 ≤ 0) &&
    (!(n.text == sEnd) || nextIs TC.GroupBegin (readSpacer r).2)

/-- `envOKB skip` holds after every escape. -/
def EnvHyp (skip : List Str) (ts : List Tok) : Prop :=
  EscAfter (fun n r => envOKB skip n r = true) ts

/-- Boolean check of `EnvHyp`. -/
def envHypB (skip : List Str) (ts : List Tok) : Bool := escAfterB (envOKB skip) ts

theorem envHypB_sound {skip : List Str} {ts : List Tok} (h : envHypB skip ts = true) :
    EnvHyp skip ts := escAfterB_sound _ _ h

theorem envOKB_spec {skip : List Str} {n : Tok} {r : List Tok} (h : envOKB skip n r = true) :
    nameOKB skip n r = true ∧ memStr n.text Tables.specialCommands = false ∧
    (signatureOf n.text Tables.signatures).1 ≤ 0 ∧
    (n.text = sEnd → nextIs TC.GroupBegin (readSpacer r).2 = true) := by
  simp only [envOKB, Bool.and_eq_true, Bool.not_eq_true', decide_eq_true_eq, Bool.or_eq_true,
    beq_eq_false_iff_ne, ne_eq] at h
  obtain ⟨⟨⟨h1, h2⟩, h3⟩, h4⟩ := h
  refine ⟨h1, h2, h3, fun hn => ?_⟩
  rcases h4 with h4 | h4
  · exact absurd hn h4
  · exact h4

theorem EnvHyp.wellNamed {skip : List Str} {ts : List Tok} (h : EnvHyp skip ts) :
    WellNamed skip ts :=
  EscAfter.mono (fun _ _ h => (envOKB_spec h).1) h

theorem EnvHyp.suf {skip : List Str} {ts rest : List Tok} (h : EnvHyp skip ts)
    (hs : Suf ts rest) : EnvHyp skip rest := EscAfter.suf h hs

theorem EnvHyp.tail {skip : List Str} {t : Tok} {ts : List Tok} (h : EnvHyp skip (t :: ts)) :
    EnvHyp skip ts := EscAfter.tail h

/-- side condition of `readArgReq`: the bare-token and bare-command branches are not taken -/
def ReqOK (n : Int) (ts : List Tok) : Prop :=
  n ≤ 0 ∨ (n = 1 ∧ nextIs TC.GroupBegin (readSpacer ts).2 = true)

/-- side condition of `readArgs` -/
def ArgsOK (nreq nopt : Int) (ts : List Tok) : Prop :=
  nreq ≤ 0 ∨ (nreq = 1 ∧ nopt = 0 ∧ nextIs TC.GroupBegin (readSpacer ts).2 = true)

/-- side condition of `readCommand` -/
def CmdOK (nreq nopt : Int) : List Tok → Prop
  | [] => (cmdSig nreq nopt []).1 ≤ 0
  | n :: r => n.cat ≠ TC.Escape ∧ memStr n.text Tables.specialCommands = false ∧
      ArgsOK (cmdSig nreq nopt n.text).1 (cmdSig nreq nopt n.text).2 r

theorem cmdSig_open (name : Str) : cmdSig (-1) (-1) name = signatureOf name Tables.signatures := by
  unfold cmdSig; rw [if_pos (by decide)]

theorem cmdSig_one (name : Str) : cmdSig 1 0 name = (1, 0) := by
  unfold cmdSig; rw [if_neg (by decide)]

theorem cmdMode_ne_special {name : Str} {mode : Mode}
    (h : memStr name Tables.specialCommands = false) (hm : mode ≠ .special) :
    cmdMode name mode ≠ .special := by
  unfold cmdMode; rw [h]; exact hm

theorem EnvHyp.cmdOK_open {skip : List Str} {c : Tok} {ts : List Tok}
    (hy : EnvHyp skip (c :: ts)) (hc : c.cat = TC.Escape) : CmdOK (-1) (-1) ts := by
  cases ts with
  | nil => show (cmdSig (-1) (-1) []).1 ≤ 0; decide
  | cons n r =>
    obtain ⟨h1, h2, h3, _⟩ := envOKB_spec (EscAfter.head hy hc)
    simp only [nameOKB, Bool.and_eq_true, bne_iff_ne, ne_eq] at h1
    refine ⟨h1.1.2, h2, .inl ?_⟩
    rw [cmdSig_open]; exact h3

theorem EnvHyp.cmdOK_end {skip : List Str} {esc n : Tok} {r : List Tok}
    (hy : EnvHyp skip (esc :: n :: r)) (hc : esc.cat = TC.Escape) (hn : n.text = sEnd) :
    CmdOK 1 0 (n :: r) := by
  obtain ⟨h1, h2, _, h4⟩ := envOKB_spec (EscAfter.head hy hc)
  simp only [nameOKB, Bool.and_eq_true, bne_iff_ne, ne_eq] at h1
  refine ⟨h1.1.2, h2, .inr ?_⟩
  rw [cmdSig_one]
  exact ⟨rfl, rfl, h4 hn⟩

/-! ## 3. The invariant -/

/-- The environment-counting invariant for every strict reader function at fuel `f`. -/
def EnvBalAt (skip0 : List Str) (f : Nat) : Prop :=
  (∀ skip mode ts e rest, readExpr f skip false mode ts = .ok (e, rest) → EnvHyp skip0 ts →
      (∀ x, memStr x skip = true → memStr x skip0 = true) → mode ≠ .special →
      escPairs sBegin ts + escPairs sEnd rest ≤ escPairs sEnd ts + escPairs sBegin rest) ∧
  (∀ ts es rest, readItem f ts = .ok (es, rest) → EnvHyp skip0 ts →
      escPairs sBegin ts + escPairs sEnd rest ≤ escPairs sEnd ts + escPairs sBegin rest) ∧
  (∀ k pos ts e rest, readMathEnv f k pos false ts = .ok (e, rest) → EnvHyp skip0 ts →
      escPairs sBegin ts + escPairs sEnd rest ≤ escPairs sEnd ts + escPairs sBegin rest) ∧
  (∀ k ts es rest, readMathBody f k false ts = .ok (es, rest) → EnvHyp skip0 ts →
      escPairs sBegin ts + escPairs sEnd rest ≤ escPairs sEnd ts + escPairs sBegin rest) ∧
  (∀ name args pos skip mode ts e rest,
      readEnv f name args pos skip false mode ts = .ok (e, rest) → EnvHyp skip0 ts →
      (∀ x, memStr x skip = true → memStr x skip0 = true) → mode ≠ .special →
      escPairs sBegin ts + escPairs sEnd rest + 1 ≤ escPairs sEnd ts + escPairs sBegin rest) ∧
  (∀ skip mode ts be rest, readEnvBody f skip false mode ts = .ok (be, rest) →
      EnvHyp skip0 ts → (∀ x, memStr x skip = true → memStr x skip0 = true) → mode ≠ .special →
      escPairs sBegin ts + escPairs sEnd rest ≤ escPairs sEnd ts + escPairs sBegin rest) ∧
  (∀ nreq nopt mode ts na rest, readCommand f nreq nopt false mode ts = .ok (na, rest) →
      EnvHyp skip0 ts → CmdOK nreq nopt ts → mode ≠ .special →
      escPairs sBegin ts + escPairs sEnd rest ≤ escPairs sEnd ts + escPairs sBegin rest) ∧
  (∀ nreq nopt mode ts args rest, readArgs f nreq nopt false mode ts = .ok (args, rest) →
      EnvHyp skip0 ts → ArgsOK nreq nopt ts → mode ≠ .special →
      escPairs sBegin ts + escPairs sEnd rest ≤ escPairs sEnd ts + escPairs sBegin rest) ∧
  (∀ n mode ts gn rest, readArgOpt f n false mode ts = .ok (gn, rest) → EnvHyp skip0 ts →
      mode ≠ .special → escPairs sBegin ts + escPairs sEnd rest ≤ escPairs sEnd ts + escPairs sBegin rest) ∧
  (∀ n mode ts gn rest, readArgReq f n false mode ts = .ok (gn, rest) → EnvHyp skip0 ts →
      ReqOK n ts → mode ≠ .special →
      escPairs sBegin ts + escPairs sEnd rest ≤ escPairs sEnd ts + escPairs sBegin rest ∧ gn.2 ≤ 0) ∧
  (∀ k pos mode ts e rest, readArg f k pos false mode ts = .ok (e, rest) → EnvHyp skip0 ts →
      mode ≠ .special → escPairs sBegin ts + escPairs sEnd rest ≤ escPairs sEnd ts + escPairs sBegin rest) ∧
  (∀ k mode ts es rest, readArgBody f k false mode ts = .ok (es, rest) → EnvHyp skip0 ts →
      mode ≠ .special → escPairs sBegin ts + escPairs sEnd rest ≤ escPairs sEnd ts + escPairs sBegin rest)

theorem envBalAt_zero (skip0 : List Str) : EnvBalAt skip0 0 := by
  refine ⟨?_, ?_, ?_, ?_, ?_, ?_, ?_, ?_, ?_, ?_, ?_, ?_⟩ <;> intros <;>
    simp_all [readExpr, readItem, readMathEnv, readMathBody, readEnv, readEnvBody, readCommand,
      readArgs, readArgOpt, readArgReq, readArg, readArgBody]

section
variable (skip0 : List Str) (f : Nat) (ih : EnvBalAt skip0 f)
include ih

theorem eb_readExpr : ∀ skip mode ts e rest, readExpr (f+1) skip false mode ts = .ok (e, rest) →
    EnvHyp skip0 ts → (∀ x, memStr x skip = true → memStr x skip0 = true) → mode ≠ .special →
    escPairs sBegin ts + escPairs sEnd rest ≤ escPairs sEnd ts + escPairs sBegin rest := by
  intro skip mode ts e rest h hy hsk hmode
  obtain ⟨bE, bI, bME, bMB, bEnv, bEB, bC, bAs, bAO, bAR, bA, bAB⟩ := ih
  unfold readExpr at h
  cases ts with
  | nil => cases h
  | cons c ts =>
    simp only at h
    have hcl := escPairs_cons_le sEnd c ts
    cases hk : mkindOfBegin c.cat with
    | some k =>
      rw [hk] at h
      simp only at h
      have i1 := bME _ _ _ _ _ h hy.tail
      have hne : c.cat ≠ TC.Escape := by
        intro hc; rw [hc] at hk; cases hk
      have ho := escPairs_cons_ne sBegin ts hne
      omega
    | none =>
      rw [hk] at h
      simp only at h
      by_cases hesc : (c.cat == TC.Escape) = true
      · rw [if_pos hesc] at h
        have hcE : c.cat = TC.Escape := by simpa using hesc
        obtain ⟨⟨n, args⟩, ts1, hc, h⟩ := Res.bind_eq_ok.mp h
        have i1 := bC _ _ _ _ _ _ hc hy.tail (hy.cmdOK_open hcE) hmode
        have y1 : EnvHyp skip0 ts1 := hy.tail.suf (readCommand_suf hc)
        have ho := escPairs_cmd_le sBegin c hc
        simp only at h ho
        by_cases hitem : (n.text == sItem) = true
        · rw [if_pos hitem] at h
          have hni : n.text = sItem := by simpa using hitem
          rw [if_neg (by rw [hni]; decide)] at ho
          by_cases hm : (mode == Mode.math) = true
          · rw [if_pos hm] at h; cases h
          · rw [if_neg hm] at h
            obtain ⟨body, ts2, hi, h⟩ := Res.bind_eq_ok.mp h
            simp only [Except.ok.injEq, Prod.mk.injEq] at h
            obtain ⟨_, rfl⟩ := h
            have i2 := bI _ _ _ hi y1
            omega
        · rw [if_neg hitem] at h
          by_cases hnb : n.text = sBegin
          · rw [if_pos (by simp [hnb, hmode])] at h
            rw [if_pos hnb] at ho
            obtain ⟨a0, as, rfl, hmem⟩ := begin_args hy.wellNamed.beginNamed hcE hc hnb
            simp only at h
            rw [if_neg (by rw [memStr_false_of_sub hsk hmem]; decide)] at h
            have hmode' : (if memStr (strip a0.string) Tables.mathEnvNames = true then Mode.math
                else mode) ≠ Mode.special := by
              by_cases hme : memStr (strip a0.string) Tables.mathEnvNames = true
              · rw [if_pos hme]; decide
              · rw [if_neg hme]; exact hmode
            have i2 := bEnv _ _ _ _ _ _ _ _ h y1 hsk hmode'
            omega
          · rw [if_neg (by
              intro hb
              simp only [Bool.and_eq_true, beq_iff_eq] at hb
              exact hnb hb.1)] at h
            rw [if_neg hnb] at ho
            simp only [Except.ok.injEq, Prod.mk.injEq] at h
            obtain ⟨_, rfl⟩ := h
            omega
      · rw [if_neg hesc] at h
        have ho := escPairs_cons_ne sBegin ts (by simpa using hesc)
        by_cases hg : (c.cat == TC.GroupBegin) = true
        · rw [if_pos hg] at h
          have i1 := bA _ _ _ _ _ _ h hy.tail (by decide)
          omega
        · rw [if_neg hg] at h
          simp only [Except.ok.injEq, Prod.mk.injEq] at h
          obtain ⟨_, rfl⟩ := h
          omega

theorem eb_readItem : ∀ ts es rest, readItem (f+1) ts = .ok (es, rest) → EnvHyp skip0 ts →
    escPairs sBegin ts + escPairs sEnd rest ≤ escPairs sEnd ts + escPairs sBegin rest := by
  intro ts es rest h hy
  obtain ⟨bE, bI, bME, bMB, bEnv, bEB, bC, bAs, bAO, bAR, bA, bAB⟩ := ih
  unfold readItem at h
  have step : ∀ t r, EnvHyp skip0 (t :: r) →
      ((readExpr f [] false .nonMath (t :: r)).bind fun e ts1 =>
        (readItem f ts1).bind fun es ts2 => .ok (e :: es, ts2)) = .ok (es, rest) →
      escPairs sBegin (t :: r) + escPairs sEnd rest ≤ escPairs sEnd (t :: r) + escPairs sBegin rest := by
    intro t r hy h
    obtain ⟨e, ts1, he, h⟩ := Res.bind_eq_ok.mp h
    obtain ⟨es', ts2, hb, h⟩ := Res.bind_eq_ok.mp h
    simp only [Except.ok.injEq, Prod.mk.injEq] at h
    obtain ⟨_, rfl⟩ := h
    have i1 := bE _ _ _ _ _ he hy noSkip (by decide)
    have i2 := bI _ _ _ hb (hy.suf (readExpr_ssuf he).suf)
    omega
  cases ts with
  | nil =>
    simp only [Except.ok.injEq, Prod.mk.injEq] at h
    obtain ⟨_, rfl⟩ := h
    omega
  | cons t r =>
    simp only at h
    by_cases hesc : (t.cat == TC.Escape) = true
    · rw [if_pos hesc] at h
      obtain ⟨na, ts', hc, h⟩ := Res.bind_eq_ok.mp h
      by_cases hend : (na.1.text == sEnd || na.1.text == sItem) = true
      · rw [if_pos hend] at h
        simp only [Except.ok.injEq, Prod.mk.injEq] at h
        obtain ⟨_, rfl⟩ := h
        omega
      · rw [if_neg hend] at h
        exact step t r hy h
    · rw [if_neg hesc] at h
      by_cases hge : (t.cat == TC.GroupEnd) = true
      · rw [if_pos hge] at h
        simp only [Except.ok.injEq, Prod.mk.injEq] at h
        obtain ⟨_, rfl⟩ := h
        omega
      · rw [if_neg hge] at h
        exact step t r hy h

theorem eb_readMathEnv : ∀ k pos ts e rest, readMathEnv (f+1) k pos false ts = .ok (e, rest) →
    EnvHyp skip0 ts → escPairs sBegin ts + escPairs sEnd rest ≤ escPairs sEnd ts + escPairs sBegin rest := by
  intro k pos ts e rest h hy
  obtain ⟨bE, bI, bME, bMB, bEnv, bEB, bC, bAs, bAO, bAR, bA, bAB⟩ := ih
  unfold readMathEnv at h
  obtain ⟨body, ts1, hb, h⟩ := Res.bind_eq_ok.mp h
  have i1 := bMB _ _ _ _ hb hy
  cases ts1 with
  | nil => cases h
  | cons t r =>
    simp only at h
    by_cases hend : (t.cat == k.tokEnd) = true
    · rw [if_pos hend] at h
      simp only [Except.ok.injEq, Prod.mk.injEq] at h
      obtain ⟨_, hr⟩ := h
      subst hr
      have hne : t.cat ≠ TC.Escape := by
        have : t.cat = k.tokEnd := by simpa using hend
        rw [this]; cases k <;> decide
      have ho := escPairs_cons_ne sBegin r hne
      have hc := escPairs_cons_ne sEnd r hne
      omega
    · rw [if_neg hend] at h; cases h

theorem eb_readMathBody : ∀ k ts es rest, readMathBody (f+1) k false ts = .ok (es, rest) →
    EnvHyp skip0 ts → escPairs sBegin ts + escPairs sEnd rest ≤ escPairs sEnd ts + escPairs sBegin rest := by
  intro k ts es rest h hy
  obtain ⟨bE, bI, bME, bMB, bEnv, bEB, bC, bAs, bAO, bAR, bA, bAB⟩ := ih
  unfold readMathBody at h
  cases ts with
  | nil =>
    simp only [Except.ok.injEq, Prod.mk.injEq] at h
    obtain ⟨_, rfl⟩ := h
    omega
  | cons t r =>
    simp only at h
    by_cases hend : (t.cat == k.tokEnd) = true
    · rw [if_pos hend] at h
      simp only [Except.ok.injEq, Prod.mk.injEq] at h
      obtain ⟨_, rfl⟩ := h
      omega
    · rw [if_neg hend] at h
      obtain ⟨e, ts1, he, h⟩ := Res.bind_eq_ok.mp h
      obtain ⟨es', ts2, hb, h⟩ := Res.bind_eq_ok.mp h
      simp only [Except.ok.injEq, Prod.mk.injEq] at h
      obtain ⟨_, rfl⟩ := h
      have i1 := bE _ _ _ _ _ he hy noSkip (by decide)
      have i2 := bMB _ _ _ _ hb (hy.suf (readExpr_ssuf he).suf)
      omega

theorem eb_readEnv : ∀ name args pos skip mode ts e rest,
    readEnv (f+1) name args pos skip false mode ts = .ok (e, rest) → EnvHyp skip0 ts →
    (∀ x, memStr x skip = true → memStr x skip0 = true) → mode ≠ .special →
    escPairs sBegin ts + escPairs sEnd rest + 1 ≤ escPairs sEnd ts + escPairs sBegin rest := by
  intro name args pos skip mode ts e rest h hy hsk hmode
  obtain ⟨bE, bI, bME, bMB, bEnv, bEB, bC, bAs, bAO, bAR, bA, bAB⟩ := ih
  unfold readEnv at h
  obtain ⟨⟨body, ea⟩, ts1, hb, h⟩ := Res.bind_eq_ok.mp h
  have i1 := bEB _ _ _ _ _ hb hy hsk hmode
  have y1 : EnvHyp skip0 ts1 := hy.suf (readEnvBody_suf hb)
  simp only at h
  by_cases herr : envError name ea = true
  · rw [if_pos herr, if_neg Bool.false_ne_true] at h; cases h
  · rw [if_neg herr] at h
    obtain ⟨a0, as', rfl, _⟩ := envError_false (by simpa using herr)
    obtain ⟨esc, n, r, g, rest', rfl, hesc, hn, _⟩ := readEnvBody_some _ _ _ _ _ _ _ _ hb
    simp only at h
    obtain ⟨x, ts2, hc, h⟩ := Res.bind_eq_ok.mp h
    simp only [Except.ok.injEq, Prod.mk.injEq] at h
    obtain ⟨_, rfl⟩ := h
    have i2 := bC _ _ _ _ _ _ hc y1.tail (y1.cmdOK_end hesc hn) hmode
    have hc1 := escPairs_esc_eq (s := sEnd) r hesc hn
    have ho1 := escPairs_esc_ne (s := sBegin) (esc := esc) r (by rw [hn]; decide)
    omega

theorem eb_readEnvBody : ∀ skip mode ts be rest,
    readEnvBody (f+1) skip false mode ts = .ok (be, rest) → EnvHyp skip0 ts →
    (∀ x, memStr x skip = true → memStr x skip0 = true) → mode ≠ .special →
    escPairs sBegin ts + escPairs sEnd rest ≤ escPairs sEnd ts + escPairs sBegin rest := by
  intro skip mode ts be rest h hy hsk hmode
  obtain ⟨bE, bI, bME, bMB, bEnv, bEB, bC, bAs, bAO, bAR, bA, bAB⟩ := ih
  unfold readEnvBody at h
  have step : ∀ t r, EnvHyp skip0 (t :: r) →
      ((readExpr f skip false mode (t :: r)).bind fun e ts1 =>
        (readEnvBody f skip false mode ts1).bind fun be ts2 => .ok ((e :: be.1, be.2), ts2))
        = .ok (be, rest) →
      escPairs sBegin (t :: r) + escPairs sEnd rest ≤ escPairs sEnd (t :: r) + escPairs sBegin rest := by
    intro t r hy h
    obtain ⟨e, ts1, he, h⟩ := Res.bind_eq_ok.mp h
    obtain ⟨be', ts2, hb, h⟩ := Res.bind_eq_ok.mp h
    simp only [Except.ok.injEq, Prod.mk.injEq] at h
    obtain ⟨_, rfl⟩ := h
    have i1 := bE _ _ _ _ _ he hy hsk hmode
    have i2 := bEB _ _ _ _ _ hb (hy.suf (readExpr_ssuf he).suf) hsk hmode
    omega
  cases ts with
  | nil =>
    simp only [Except.ok.injEq, Prod.mk.injEq] at h
    obtain ⟨_, rfl⟩ := h
    omega
  | cons t r =>
    simp only at h
    by_cases hesc : (t.cat == TC.Escape) = true
    · rw [if_pos hesc] at h
      obtain ⟨na, ts', hc, h⟩ := Res.bind_eq_ok.mp h
      by_cases hend : (na.1.text == sEnd) = true
      · rw [if_pos hend] at h
        simp only [Except.ok.injEq, Prod.mk.injEq] at h
        obtain ⟨_, rfl⟩ := h
        omega
      · rw [if_neg hend] at h
        exact step t r hy h
    · rw [if_neg hesc] at h
      exact step t r hy h

theorem eb_readCommand : ∀ nreq nopt mode ts na rest,
    readCommand (f+1) nreq nopt false mode ts = .ok (na, rest) → EnvHyp skip0 ts →
    CmdOK nreq nopt ts → mode ≠ .special →
    escPairs sBegin ts + escPairs sEnd rest ≤ escPairs sEnd ts + escPairs sBegin rest := by
  intro nreq nopt mode ts na rest h hy hok hmode
  obtain ⟨bE, bI, bME, bMB, bEnv, bEB, bC, bAs, bAO, bAR, bA, bAB⟩ := ih
  unfold readCommand at h
  cases ts with
  | nil =>
    simp only at h
    obtain ⟨args', ts2, ha, h⟩ := Res.bind_eq_ok.mp h
    simp only [Except.ok.injEq, Prod.mk.injEq] at h
    obtain ⟨_, rfl⟩ := h
    exact bAs _ _ _ _ _ _ ha hy (.inl hok) (cmdMode_ne_special (by decide) hmode)
  | cons n r =>
    simp only at h
    obtain ⟨args', ts2, ha, h⟩ := Res.bind_eq_ok.mp h
    simp only [Except.ok.injEq, Prod.mk.injEq] at h
    obtain ⟨_, rfl⟩ := h
    obtain ⟨hne, hsp, haok⟩ := hok
    have i1 := bAs _ _ _ _ _ _ ha hy.tail haok (cmdMode_ne_special hsp hmode)
    have ho := escPairs_cons_ne sBegin r hne
    have hc := escPairs_cons_ne sEnd r hne
    omega

theorem eb_readArgs : ∀ nreq nopt mode ts args rest,
    readArgs (f+1) nreq nopt false mode ts = .ok (args, rest) → EnvHyp skip0 ts →
    ArgsOK nreq nopt ts → mode ≠ .special →
    escPairs sBegin ts + escPairs sEnd rest ≤ escPairs sEnd ts + escPairs sBegin rest := by
  intro nreq nopt mode ts args rest h hy hok hmode
  obtain ⟨bE, bI, bME, bMB, bEnv, bEB, bC, bAs, bAO, bAR, bA, bAB⟩ := ih
  unfold readArgs at h
  by_cases h0 : (nreq == 0 && nopt == 0) = true
  · rw [if_pos h0] at h
    simp only [Except.ok.injEq, Prod.mk.injEq] at h
    obtain ⟨_, rfl⟩ := h
    omega
  · rw [if_neg h0] at h
    obtain ⟨an1, ts1, h1, h⟩ := Res.bind_eq_ok.mp h
    obtain ⟨an2, ts2, h2, h⟩ := Res.bind_eq_ok.mp h
    obtain ⟨an3, ts3, h3, h⟩ := Res.bind_eq_ok.mp h
    obtain ⟨an4, ts4, h4, h⟩ := Res.bind_eq_ok.mp h
    simp only [Except.ok.injEq, Prod.mk.injEq] at h
    obtain ⟨_, rfl⟩ := h
    have i1 := bAO _ _ _ _ _ h1 hy hmode
    have y1 : EnvHyp skip0 ts1 := hy.suf (readArgOpt_suf h1)
    have hreq : ReqOK nreq ts1 := by
      rcases hok with hle | ⟨h1', h2', h3'⟩
      · exact .inl hle
      · subst h2'
        have hz := readArgOpt_zero h1
        simp only [Prod.mk.injEq] at hz
        rw [hz.2]
        exact .inr ⟨h1', h3'⟩
    obtain ⟨i2, hn2⟩ := bAR _ _ _ _ _ h2 y1 hreq hmode
    have y2 : EnvHyp skip0 ts2 := y1.suf (readArgReq_suf h2)
    have i3 : escPairs sBegin ts2 + escPairs sEnd ts3 ≤ escPairs sEnd ts2 + escPairs sBegin ts3 ∧ EnvHyp skip0 ts3 := by
      by_cases hb : nextIs TC.BracketBegin ts2 = true
      · rw [if_pos hb] at h3
        exact ⟨bAO _ _ _ _ _ h3 y2 hmode, y2.suf (readArgOpt_suf h3)⟩
      · rw [if_neg hb] at h3
        simp only [Except.ok.injEq, Prod.mk.injEq] at h3
        obtain ⟨_, rfl⟩ := h3
        exact ⟨by omega, y2⟩
    have i4 : escPairs sBegin ts3 + escPairs sEnd ts4 ≤ escPairs sEnd ts3 + escPairs sBegin ts4 := by
      by_cases hb : nextIs TC.GroupBegin ts3 = true
      · rw [if_pos hb] at h4; exact (bAR _ _ _ _ _ h4 i3.2 (.inl hn2) hmode).1
      · rw [if_neg hb] at h4
        simp only [Except.ok.injEq, Prod.mk.injEq] at h4
        obtain ⟨_, rfl⟩ := h4
        omega
    omega

theorem eb_readArgOpt : ∀ n mode ts gn rest, readArgOpt (f+1) n false mode ts = .ok (gn, rest) →
    EnvHyp skip0 ts → mode ≠ .special →
    escPairs sBegin ts + escPairs sEnd rest ≤ escPairs sEnd ts + escPairs sBegin rest := by
  intro n mode ts gn rest h hy hmode
  obtain ⟨bE, bI, bME, bMB, bEnv, bEB, bC, bAs, bAO, bAR, bA, bAB⟩ := ih
  unfold readArgOpt at h
  by_cases h0 : (n == 0) = true
  · rw [if_pos h0] at h
    simp only [Except.ok.injEq, Prod.mk.injEq] at h
    obtain ⟨_, rfl⟩ := h
    omega
  · rw [if_neg h0] at h
    cases hs : (readSpacer ts).2 with
    | nil =>
      rw [hs] at h
      simp only [Except.ok.injEq, Prod.mk.injEq] at h
      obtain ⟨_, rfl⟩ := h
      omega
    | cons o r =>
      rw [hs] at h
      simp only at h
      have so := readSpacer_escPairs sBegin ts
      have sc := readSpacer_escPairs sEnd ts
      rw [hs] at so sc
      have y0 : EnvHyp skip0 r := hy.suf (Suf.afterSpacer hs).suf
      by_cases hb : (o.cat == TC.BracketBegin) = true
      · rw [if_pos hb] at h
        have hoB : o.cat = TC.BracketBegin := by simpa using hb
        obtain ⟨g, ts1, hg, h⟩ := Res.bind_eq_ok.mp h
        obtain ⟨gn', ts2, hn, h⟩ := Res.bind_eq_ok.mp h
        simp only [Except.ok.injEq, Prod.mk.injEq] at h
        obtain ⟨_, rfl⟩ := h
        have i1 := bA _ _ _ _ _ _ hg y0 hmode
        have i2 := bAO _ _ _ _ _ hn (y0.suf (readArg_suf hg)) hmode
        rw [escPairs_cons_ne _ _ (by rw [hoB]; decide)] at so sc
        omega
      · rw [if_neg hb] at h
        simp only [Except.ok.injEq, Prod.mk.injEq] at h
        obtain ⟨_, rfl⟩ := h
        omega

theorem eb_readArgReq : ∀ n mode ts gn rest, readArgReq (f+1) n false mode ts = .ok (gn, rest) →
    EnvHyp skip0 ts → ReqOK n ts → mode ≠ .special →
    escPairs sBegin ts + escPairs sEnd rest ≤ escPairs sEnd ts + escPairs sBegin rest ∧ gn.2 ≤ 0 := by
  intro n mode ts gn rest h hy hok hmode
  obtain ⟨bE, bI, bME, bMB, bEnv, bEB, bC, bAs, bAO, bAR, bA, bAB⟩ := ih
  unfold readArgReq at h
  by_cases h0 : (n == 0) = true
  · rw [if_pos h0] at h
    simp only [Except.ok.injEq, Prod.mk.injEq] at h
    obtain ⟨rfl, rfl⟩ := h
    have : n = 0 := by simpa using h0
    exact ⟨by omega, by simp [this]⟩
  · rw [if_neg h0] at h
    cases hs : (readSpacer ts).2 with
    | nil =>
      rw [hs] at h
      simp only [Except.ok.injEq, Prod.mk.injEq] at h
      obtain ⟨rfl, rfl⟩ := h
      refine ⟨by omega, ?_⟩
      rcases hok with hle | ⟨_, hnx⟩
      · exact hle
      · rw [hs] at hnx; simp [nextIs] at hnx
    | cons o r =>
      rw [hs] at h
      simp only at h
      have so := readSpacer_escPairs sBegin ts
      have sc := readSpacer_escPairs sEnd ts
      rw [hs] at so sc
      have y0 : EnvHyp skip0 r := hy.suf (Suf.afterSpacer hs).suf
      by_cases hb : (o.cat == TC.GroupBegin) = true
      · rw [if_pos hb] at h
        have hoG : o.cat = TC.GroupBegin := by simpa using hb
        obtain ⟨g, ts1, hg, h⟩ := Res.bind_eq_ok.mp h
        obtain ⟨gn', ts2, hn, h⟩ := Res.bind_eq_ok.mp h
        simp only [Except.ok.injEq, Prod.mk.injEq] at h
        obtain ⟨rfl, rfl⟩ := h
        have i1 := bA _ _ _ _ _ _ hg y0 hmode
        have hok' : ReqOK (n - 1) ts1 := by
          rcases hok with hle | ⟨h1, _⟩
          · exact .inl (by omega)
          · exact .inl (by omega)
        obtain ⟨i2, hn2⟩ := bAR _ _ _ _ _ hn (y0.suf (readArg_suf hg)) hok' hmode
        rw [escPairs_cons_ne _ _ (by rw [hoG]; decide)] at so sc
        exact ⟨by omega, hn2⟩
      · rw [if_neg hb] at h
        have hle : n ≤ 0 := by
          rcases hok with hle | ⟨_, hnx⟩
          · exact hle
          · rw [hs] at hnx
            simp only [nextIs] at hnx
            exact absurd hnx hb
        rw [if_neg (by omega)] at h
        simp only [Except.ok.injEq, Prod.mk.injEq] at h
        obtain ⟨rfl, rfl⟩ := h
        exact ⟨by omega, hle⟩

theorem eb_readArg : ∀ k pos mode ts e rest, readArg (f+1) k pos false mode ts = .ok (e, rest) →
    EnvHyp skip0 ts → mode ≠ .special →
    escPairs sBegin ts + escPairs sEnd rest ≤ escPairs sEnd ts + escPairs sBegin rest := by
  intro k pos mode ts e rest h hy hmode
  obtain ⟨bE, bI, bME, bMB, bEnv, bEB, bC, bAs, bAO, bAR, bA, bAB⟩ := ih
  unfold readArg at h
  obtain ⟨body, ts1, hb, h⟩ := Res.bind_eq_ok.mp h
  simp only [Except.ok.injEq, Prod.mk.injEq] at h
  obtain ⟨_, rfl⟩ := h
  exact bAB _ _ _ _ _ hb hy hmode

theorem eb_readArgBody : ∀ k mode ts es rest, readArgBody (f+1) k false mode ts = .ok (es, rest) →
    EnvHyp skip0 ts → mode ≠ .special →
    escPairs sBegin ts + escPairs sEnd rest ≤ escPairs sEnd ts + escPairs sBegin rest := by
  intro k mode ts es rest h hy hmode
  obtain ⟨bE, bI, bME, bMB, bEnv, bEB, bC, bAs, bAO, bAR, bA, bAB⟩ := ih
  unfold readArgBody at h
  cases ts with
  | nil =>
    simp only at h
    rw [if_neg Bool.false_ne_true] at h; cases h
  | cons t r =>
    simp only at h
    by_cases hend : (t.cat == k.tokEnd) = true
    · rw [if_pos hend] at h
      simp only [Except.ok.injEq, Prod.mk.injEq] at h
      obtain ⟨_, hr⟩ := h
      subst hr
      have hne : t.cat ≠ TC.Escape := by
        have : t.cat = k.tokEnd := by simpa using hend
        rw [this]; cases k <;> decide
      have ho := escPairs_cons_ne sBegin r hne
      have hc := escPairs_cons_ne sEnd r hne
      omega
    · rw [if_neg hend] at h
      obtain ⟨e, ts1, he, h⟩ := Res.bind_eq_ok.mp h
      obtain ⟨es', ts2, hb, h⟩ := Res.bind_eq_ok.mp h
      simp only [Except.ok.injEq, Prod.mk.injEq] at h
      obtain ⟨_, rfl⟩ := h
      have i1 := bE _ _ _ _ _ he hy noSkip hmode
      have i2 := bAB _ _ _ _ _ hb (hy.suf (readExpr_ssuf he).suf) hmode
      omega

end

/-- The environment-counting invariant holds at every fuel. -/
theorem envBalAt (skip0 : List Str) (f : Nat) : EnvBalAt skip0 f := by
  induction f with
  | zero => exact envBalAt_zero skip0
  | succ f ih =>
    exact ⟨eb_readExpr skip0 f ih, eb_readItem skip0 f ih, eb_readMathEnv skip0 f ih,
      eb_readMathBody skip0 f ih, eb_readEnv skip0 f ih, eb_readEnvBody skip0 f ih,
      eb_readCommand skip0 f ih, eb_readArgs skip0 f ih, eb_readArgOpt skip0 f ih,
      eb_readArgReq skip0 f ih, eb_readArg skip0 f ih, eb_readArgBody skip0 f ih⟩

/-- Strict `read_tex` succeeds only if the buffer has at least as many `\end` as `\begin`. -/
theorem readTex_env_balanced (skip0 : List Str) : ∀ f ts es,
    readTex f skip0 false ts = .ok es → EnvHyp skip0 ts → envOpens ts ≤ envCloses ts := by
  intro f
  induction f with
  | zero => intro ts es h; simp [readTex] at h
  | succ f ih =>
    intro ts es h hy
    show escPairs sBegin ts ≤ escPairs sEnd ts
    unfold readTex at h
    cases ts with
    | nil => simp [escPairs]
    | cons t r =>
      simp only at h
      cases he : readExpr f skip0 false .nonMath (t :: r) with
      | error e => rw [he] at h; cases h
      | ok v =>
        obtain ⟨e, ts1⟩ := v
        rw [he] at h
        simp only at h
        cases hr : readTex f skip0 false ts1 with
        | error e' => rw [hr] at h; cases h
        | ok es' =>
          have i1 := (envBalAt skip0 f).1 _ _ _ _ _ he hy (fun _ hx => hx) (by decide)
          have i2 : escPairs sBegin ts1 ≤ escPairs sEnd ts1 :=
            ih _ _ hr (hy.suf (readExpr_ssuf he).suf)
          omega

/-- Strict `parse` succeeds only if the token list has at least as many `\end` as `\begin`. -/
theorem parse_env_balanced (skip : List Str) (s : Str) (ts : List Tok) (es : List Expr)
    (ht : tokenize s = some ts) (hy : EnvHyp (Tables.skipEnvNames ++ skip) ts)
    (h : parse false skip s = .ok es) : envOpens ts ≤ envCloses ts := by
  unfold parse at h
  rw [ht] at h
  exact readTex_env_balanced _ _ _ _ h hy

end TexSoup
